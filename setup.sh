#!/bin/sh
# MANIFEST.setup_cmd: build the Lean libraries and drivers of every claimed property.
cd "$(dirname "$0")" || exit 2
export PYTHONPATH="$(pwd)${PYTHONPATH:+:$PYTHONPATH}"
exec /venv/bin/python -m hv.setup
