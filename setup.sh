#!/bin/sh
# MANIFEST.setup_cmd: build every Lean library module and every driver that has a root file.
cd "$(dirname "$0")/lean" || exit 2
targets="HappyModel HappyProofs"
for f in Driver/C*.lean; do
  [ -f "$f" ] || continue
  n=$(basename "$f" .lean | tr 'A-Z' 'a-z')
  targets="$targets drv-$n"
done
exec lake build $targets
