import HappyModel.C19.Driver
def main : IO Unit := HappyModel.Proto.serve HappyModel.C19.Driver.handle
