import HappyModel.C08.Driver
def main : IO Unit := HappyModel.Proto.serve HappyModel.C08.Driver.handle
