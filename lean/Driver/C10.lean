import HappyModel.C10.Driver
def main : IO Unit := HappyModel.Proto.serve HappyModel.C10.Driver.handle
