import HappyModel.C16.Driver
def main : IO Unit := HappyModel.Proto.serve HappyModel.C16.Driver.handle
