import HappyModel.C18.Driver
def main : IO Unit := HappyModel.Proto.serve HappyModel.C18.Driver.handle
