import HappyModel.C15.Driver
def main : IO Unit := HappyModel.Proto.serve HappyModel.C15.Driver.handle
