import HappyModel.C06.Driver
def main : IO Unit := HappyModel.Proto.serve HappyModel.C06.Driver.handle
