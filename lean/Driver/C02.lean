import HappyModel.C02.Driver
def main : IO Unit := HappyModel.Proto.serve HappyModel.C02.Driver.handle
