import HappyModel.C01.Driver
def main : IO Unit := HappyModel.Proto.serve HappyModel.C01.Driver.handle
