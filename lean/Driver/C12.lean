import HappyModel.C12.Driver
def main : IO Unit := HappyModel.Proto.serve HappyModel.C12.Driver.handle
