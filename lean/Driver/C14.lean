import HappyModel.C14.Driver
def main : IO Unit := HappyModel.Proto.serve HappyModel.C14.Driver.handle
