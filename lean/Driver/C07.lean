import HappyModel.C07.Driver
def main : IO Unit := HappyModel.Proto.serve HappyModel.C07.Driver.handle
