import HappyModel.C17.Driver
def main : IO Unit := HappyModel.Proto.serve HappyModel.C17.Driver.handle
