import HappyModel.C09.Driver
def main : IO Unit := HappyModel.Proto.serve HappyModel.C09.Driver.handle
