import HappyModel.C04.Driver
def main : IO Unit := HappyModel.Proto.serve HappyModel.C04.Driver.handle
