import HappyModel.C03.Driver
def main : IO Unit := HappyModel.Proto.serve HappyModel.C03.Driver.handle
