import HappyModel.C20.Driver
def main : IO Unit := HappyModel.Proto.serve HappyModel.C20.Driver.handle
