import HappyModel.C13.Driver
def main : IO Unit := HappyModel.Proto.serve HappyModel.C13.Driver.handle
