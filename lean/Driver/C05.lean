import HappyModel.C05.DriverS
def main : IO Unit := HappyModel.Proto.serve HappyModel.C05.DriverS.handle
