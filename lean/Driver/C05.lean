import HappyModel.C05.Driver
def main : IO Unit := HappyModel.Proto.serve HappyModel.C05.Driver.handle
