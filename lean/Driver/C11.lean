import HappyModel.C11.Driver
def main : IO Unit := HappyModel.Proto.serve HappyModel.C11.Driver.handle
