import HappyModel.C14.Lsm
/-!
# Operations as segment machines

Every public generator (`put`, `delete`, `get`, `scan`) is a frame `Pc`; `stepOp` executes the code
between two `yield`s.  The engine decides which frame advances next; the model takes that
*schedule* as input (`run`).  Theorems quantify over every schedule.
-/
namespace HappyModel.C14

inductive Res where
  | ok
  | val (c : Cell)                 -- `get`: `none` is Python `None`
  | rows (d : List (Key × Nat))    -- `scan`
deriving Repr

inductive Pc where
  | pStart (k : Key) (c : Cell)
  | pWal (k : Key) (c : Cell) (seq : Nat)      -- WAL entry appended, write latency yielded
  | pSync (k : Key) (c : Cell) (seq : Nat)     -- sync latency yielded
  | pMem (mid : Nat)                           -- inserted into memtable `mid`, write latency yielded
  | pFlush (t : Tab) (bound : Nat)             -- SSTable built, write latency yielded
  | pCompact (j : Job)                         -- merge computed, write latency yielded
  | gStart (k : Key)
  | gAt (k : Key) (lvl : Nat) (t : Tab) (rest : List Tab)   -- page-read latency yielded for `t`
  | sStart (lo hi : Key)
  | sAt (lo hi : Key) (lvl : Nat) (t : Tab) (rest : List Tab) (acc : Data)
  | done (r : Res)
deriving Repr

/-! ### write path -/

def compactStart (cfg : Cfg) (s : St) : St × Pc :=
  if s.compacting then (s, .done .ok) else
  match planCompaction cfg s.levels (selectLevel cfg.strat s.levels) with
  | none => (s, .done .ok)
  | some j =>
    if j.data.isEmpty then (s, .done .ok)
    else ({ s with compacting := true }, .pCompact j)

def compactInstall (s : St) (j : Job) : St × Pc :=
  ({ s with levels := installCompaction s.levels j s.nextId, nextId := s.nextId + 1, compacting := false },
   .done .ok)

def flushStart (_cfg : Cfg) (s : St) : St × Pc :=
  if s.mem.isEmpty then (s, .done .ok) else
  let t : Tab := ⟨s.memId, s.mem⟩
  ({ s with imms := s.imms ++ [t], frozen := (s.memId, s.mem.length) :: s.frozen,
            mem := [], memId := s.nextId, nextId := s.nextId + 1 },
   .pFlush t (truncBound s))

def flushInstall (cfg : Cfg) (s : St) (t : Tab) (bound : Nat) : St × Pc :=
  let s1 := { s with levels := modAt s.levels 0 (· ++ [t]),
                     imms := s.imms.filter (fun i => i.id != t.id),
                     wal := if cfg.wal.isSome then s.wal.filter (fun e => e.seq > bound) else s.wal }
  if shouldCompact cfg.strat s1.levels then compactStart cfg s1 else (s1, .done .ok)

def memInsert (s : St) (k : Key) (c : Cell) : St × Pc :=
  ({ s with mem := ins k c s.mem }, .pMem s.memId)

/-- `return self.is_full` of the memtable object the put went to (it may have been frozen meanwhile) -/
def isFull (cfg : Cfg) (s : St) (mid : Nat) : Bool :=
  if mid == s.memId then s.mem.length ≥ cfg.memSize
  else ((s.frozen.lookup mid).getD 0) ≥ cfg.memSize

def afterMem (cfg : Cfg) (s : St) (mid : Nat) : St × Pc :=
  if isFull cfg s mid then flushStart cfg s else (s, .done .ok)

def putStart (cfg : Cfg) (s : St) (k : Key) (c : Cell) : St × Pc :=
  match cfg.wal with
  | none => memInsert s k c
  | some _ =>
    ({ s with wal := s.wal ++ [⟨s.nextSeq, k, c⟩], nextSeq := s.nextSeq + 1, wss := s.wss + 1,
              pending := s.nextSeq :: s.pending }, .pWal k c s.nextSeq)

def unpend (s : St) (seq : Nat) : St := { s with pending := s.pending.filter (· != seq) }

def walWritten (cfg : Cfg) (s : St) (k : Key) (c : Cell) (seq : Nat) : St × Pc :=
  match cfg.wal with
  | none => memInsert s k c
  | some p =>
    let (b, s1) := shouldSync p s
    if b then (s1, .pSync k c seq) else memInsert (unpend s1 seq) k c

def walSynced (s : St) (k : Key) (c : Cell) (seq : Nat) : St × Pc :=
  memInsert (unpend { s with synced := seq, wss := 0 } seq) k c

/-! ### read path (level snapshots) -/

def walkTabs (cfg : Cfg) (k : Key) : List Tab → Option (Tab × List Tab)
  | [] => none
  | t :: r => if maybe cfg t k then some (t, r) else walkTabs cfg k r

def walkLevels (cfg : Cfg) (k : Key) : List (List Tab) → Nat → Option (Nat × Tab × List Tab)
  | [], _ => none
  | l :: ls, i => match walkTabs cfg k l.reverse with
    | some (t, r) => some (i, t, r)
    | none => walkLevels cfg k ls (i + 1)

def getLevels (cfg : Cfg) (s : St) (k : Key) (start : Nat) : St × Pc :=
  match walkLevels cfg k (s.levels.drop start) start with
  | some (i, t, r) => (s, .gAt k i t r)
  | none => (s, .done (.val none))

def getStart (cfg : Cfg) (s : St) (k : Key) : St × Pc :=
  match s.mem.lookup k with
  | some c => (s, .done (.val c))
  | none => match lookTabs k s.imms.reverse with
    | some c => (s, .done (.val c))
    | none => getLevels cfg s k 0

def getResume (cfg : Cfg) (s : St) (k : Key) (i : Nat) (t : Tab) (r : List Tab) : St × Pc :=
  match t.data.lookup k with
  | some c => (s, .done (.val c))
  | none => match walkTabs cfg k r with
    | some (t', r') => (s, .gAt k i t' r')
    | none => getLevels cfg s k (i + 1)

/-! ### scan -/

def inRange (lo hi : Key) (d : Data) : Data := d.filter fun e => lo ≤ e.1 && e.1 < hi

def scanTabs (lo hi : Key) : List Tab → Option (Tab × List Tab)
  | [] => none
  | t :: r => if (inRange lo hi t.data).isEmpty then scanTabs lo hi r else some (t, r)

def scanLevelsW (lo hi : Key) : List (List Tab) → Nat → Option (Nat × Tab × List Tab)
  | [], _ => none
  | l :: ls, i => match scanTabs lo hi l.reverse with
    | some (t, r) => some (i, t, r)
    | none => scanLevelsW lo hi ls (i + 1)

def scanResult (acc : Data) : Res :=
  .rows (acc.filterMap fun e => e.2.map fun v => (e.1, v))

def scanLevels (s : St) (lo hi : Key) (start : Nat) (acc : Data) : St × Pc :=
  match scanLevelsW lo hi (s.levels.drop start) start with
  | some (i, t, r) => (s, .sAt lo hi i t r acc)
  | none => (s, .done (scanResult acc))

def scanStart (s : St) (lo hi : Key) : St × Pc :=
  let acc := inRange lo hi s.mem
  let acc := s.imms.reverse.foldl (fun a i => mergeOlder a (inRange lo hi i.data)) acc
  scanLevels s lo hi 0 acc

def scanResume (s : St) (lo hi : Key) (i : Nat) (t : Tab) (r : List Tab) (acc : Data) : St × Pc :=
  let acc := mergeOlder acc (inRange lo hi t.data)
  match scanTabs lo hi r with
  | some (t', r') => (s, .sAt lo hi i t' r' acc)
  | none => scanLevels s lo hi (i + 1) acc

/-! ### one segment -/

def stepOp (cfg : Cfg) (s : St) : Pc → St × Pc
  | .pStart k c => putStart cfg s k c
  | .pWal k c seq => walWritten cfg s k c seq
  | .pSync k c seq => walSynced s k c seq
  | .pMem mid => afterMem cfg s mid
  | .pFlush t b => flushInstall cfg s t b
  | .pCompact j => compactInstall s j
  | .gStart k => getStart cfg s k
  | .gAt k i t r => getResume cfg s k i t r
  | .sStart lo hi => scanStart s lo hi
  | .sAt lo hi i t r acc => scanResume s lo hi i t r acc
  | .done r => (s, .done r)

/-! ### system: state + frames, driven by a schedule of operation ids -/

structure Frame where
  id : Nat
  pc : Pc
  b : Option Nat := none     -- index of the first segment
  e : Option Nat := none     -- index of the last segment
  seq0 : Nat := 0            -- WAL `next_sequence` when the first segment ran (a write's sequence number)
deriving Repr

structure Sys where
  st : St
  frames : List Frame
  n : Nat := 0               -- segments executed so far
deriving Repr

def Pc.isDone : Pc → Bool
  | .done _ => true
  | _ => false

def stepFrames (cfg : Cfg) (st : St) (n : Nat) (id : Nat) : List Frame → St × List Frame
  | [] => (st, [])
  | f :: fs =>
    if f.id == id then
      if f.pc.isDone then (st, f :: fs) else
      let r := stepOp cfg st f.pc
      (r.1, { f with pc := r.2, b := f.b.orElse (fun _ => some n),
                     seq0 := if f.b.isNone then st.nextSeq else f.seq0,
                     e := if r.2.isDone then some n else none } :: fs)
    else
      let r := stepFrames cfg st n id fs
      (r.1, f :: r.2)

def Sys.step (cfg : Cfg) (y : Sys) (id : Nat) : Sys :=
  let r := stepFrames cfg y.st y.n id y.frames
  { st := r.1, frames := r.2, n := y.n + 1 }

def Sys.run (cfg : Cfg) (y : Sys) : List Nat → Sys
  | [] => y
  | id :: ids => Sys.run cfg (y.step cfg id) ids

end HappyModel.C14
