import HappyModel.C14.Ops
/-!
# The LSM tree's synchronous write path (`put_sync`) and its `get` generator as a store of the
transaction manager

`LSMTree.put_sync` (`components/storage/lsm_tree.py`) is the code of `put` with the yields removed:
memtable insert, and when the memtable is full `_flush_memtable_sync` (SSTable appended to L0) followed,
when the strategy asks for it, by `_compact_sync` (same selection, merge, tombstone drop and install as
`_compact`).  With no flush or compaction suspended anywhere — the transaction manager is the tree's only
client and uses `put_sync` only — that is exactly the segments of `put` executed back to back, so the
model *defines* it that way (`runPc`): every statement proved about segments (`abs_step`, `stepOp_ok`)
applies to it.
-/
namespace HappyModel.C14

/-- run one operation's generator to completion with nothing interleaved (at most `fuel` segments) -/
def runPc (cfg : Cfg) : Nat → St → Pc → St
  | 0, s, _ => s
  | n + 1, s, pc => if pc.isDone then s else runPc cfg n (stepOp cfg s pc).1 (stepOp cfg s pc).2

/-- `put_sync(k, v)` without a WAL: insert, then (memtable full) flush, install, (strategy) compact, install -/
def St.putSync (cfg : Cfg) (s : St) (k : Key) (c : Cell) : St := runPc cfg 5 s (.pStart k c)

end HappyModel.C14
