import HappyModel.Proto
import HappyModel.C14.Txn
import HappyModel.C14.SpecStore
import HappyModel.C14.SpecTxn
/-! Driver modes for the B-tree / KVStore (`store`, `judge-store`) and the transaction manager
(`txn`, `judge-txn`); other side: `hv/props/c14.py`, `hv/props/c14_store.py`. -/
namespace HappyModel.C14.DriverStore
open HappyModel.Proto HappyModel.C14 HappyModel.C14.BT HappyModel.C14.SM

inductive AnyOp where
  | s (op : SOp)
  | t (op : TOp)

structure Input where
  nkeys : Nat := 0
  store : Store := .kv []
  isBt : Bool := false
  init : List (Key × Nat) := []
  ops : List (Nat × AnyOp) := []
  sched : List Nat := []
  obs : List (Nat × Nat × Option Nat × String) := []
  final : List (Option Nat) := []
  isLsm : Bool := false
  lcfg : Cfg := {}

/-- the store the case starts from (the LSM tree is built once all its `strat` / `fp` lines are read) -/
def Input.store0 (inp : Input) : Store :=
  if inp.isLsm then .lsm inp.lcfg (St.init inp.lcfg) else inp.store

def parseLevel : String → Level
  | "rc" => .rc
  | "si" => .si
  | _ => .ser

def parseOp (ts : List String) : Option AnyOp :=
  match ts with
  | ["put", k, v] => some (.s (.put (natD k) (natD v)))
  | ["del", k] => some (.s (.del (natD k)))
  | ["get", k] => some (.s (.get (natD k)))
  | ["scan", lo, hi] => some (.s (.scan (natD lo) (natD hi)))
  | ["size"] => some (.s .size)
  | ["begin", s, l] => some (.t (.begin (natD s) (parseLevel l)))
  | ["read", s, k] => some (.t (.read (natD s) (natD k)))
  | ["write", s, k, v] => some (.t (.write (natD s) (natD k) (natD v)))
  | ["commit", s] => some (.t (.commit (natD s)))
  | ["abort", s] => some (.t (.abort (natD s)))
  | _ => none

def parseLine (inp : Input) (l : String) : Input :=
  match toks l with
  | ["cfg", n, "bt", o] => { inp with nkeys := natD n, store := .bt { order := natD o }, isBt := true }
  | ["cfg", n, "kv"] => { inp with nkeys := natD n, store := .kv [] }
  | ["cfg", n, "lsm", m, lv] =>
    { inp with nkeys := natD n, isLsm := true, lcfg := { inp.lcfg with memSize := natD m, maxLevels := natD lv } }
  | ["strat", "st", m] => { inp with lcfg := { inp.lcfg with strat := .sizeTiered (natD m) } }
  | ["strat", "lv", a, b, c] => { inp with lcfg := { inp.lcfg with strat := .leveled (natD a) (natD b) (natD c) } }
  | ["strat", "fifo", m] => { inp with lcfg := { inp.lcfg with strat := .fifo (natD m) } }
  | ["fp", m, k] => { inp with lcfg := { inp.lcfg with fp := (natD m, natD k) :: inp.lcfg.fp } }
  | ["init", k, v] => { inp with init := inp.init ++ [(natD k, natD v)] }
  | "op" :: id :: rest =>
    match parseOp rest with
    | some o => { inp with ops := inp.ops ++ [(natD id, o)] }
    | none => inp
  | "sched" :: ids => { inp with sched := inp.sched ++ nats ids }
  | ["obs", id, b, e, r] => { inp with obs := inp.obs ++ [(natD id, natD b, nat? e, r)] }
  | "final" :: vs => { inp with final := vs.map nat? }
  | _ => inp

def parse (body : List String) : Input := body.foldl parseLine {}

def showCell : Option Nat → String
  | none => "-"
  | some v => toString v

def showRes : SRes → String
  | .ok => "ok"
  | .val c => showCell c
  | .rows [] => "."
  | .rows d => showKV d
  | .flag b => if b then "T" else "F"
  | .num n => toString n

def frameLine {π : Type} (res : π → Option SRes) (f : SM.Frame π) : Option String :=
  match f.b with
  | none => none
  | some b =>
    let e := match f.e with | some e => toString e | none => "x"
    let r := match res f.pc with | some r => showRes r | none => "x"
    some s!"op {f.id} {b} {e} {r}"

def sortFrames {π : Type} (fs : List (SM.Frame π)) : List (SM.Frame π) := fs.mergeSort fun a b => a.id ≤ b.id

def storeLines (inp : Input) (s : Store) : List String :=
  [ "final " ++ joinSp ((List.range inp.nkeys).map fun k => showCell (s.getSync k)),
    s!"size {s.size}",
    match s with
    | .bt t => s!"shape {t.depth} {t.dump}"
    | .kv d => s!"shape 1 ({showKV d})"
    | .lsm _ st => "levels " ++ joinSp (st.levels.map fun l => s!"{l.length}:{keyCount l}") ]

def doneResS : SPc → Option SRes
  | .done x => some x
  | _ => none

def doneResT : TPc → Option SRes
  | .done x => some x
  | _ => none

def runStore (body : List String) : List String :=
  let inp := parse body
  let frames : List (SM.Frame SPc) := inp.ops.filterMap fun o =>
    match o.2 with
    | .s op => some { id := o.1, pc := .start op }
    | .t _ => none
  let r := runFrames stepS SPc.isDone inp.store0 frames 0 inp.sched
  (sortFrames r.2).filterMap (frameLine doneResS)
    ++ storeLines inp r.1

def runTxn (body : List String) : List String :=
  let inp := parse body
  let tm : TM := { store := inp.init.foldl (fun s e => s.putSync e.1 e.2) inp.store0 }
  let frames : List (SM.Frame TPc) := inp.ops.filterMap fun o =>
    match o.2 with
    | .t op => some { id := o.1, pc := .start op }
    | .s _ => none
  let r := runFrames stepT TPc.isDone tm frames 0 inp.sched
  (sortFrames r.2).filterMap (frameLine doneResT)
    ++ storeLines inp r.1.store ++ [s!"stats {r.1.nCommitted} {r.1.nAborted} {r.1.nConflicts}"]

/-! ### judges -/

def parseRows (s : String) : List (Key × Nat) :=
  if s == "." then [] else
  (s.splitOn ",").filterMap fun kv =>
    match kv.splitOn "=" with
    | [k, v] => some (natD k, natD v)
    | _ => none

def judgeStoreMode (body : List String) : List String :=
  let inp := parse body
  let pfx := if inp.isBt then "btree" else "kv"
  let recs : List ORec := inp.obs.filterMap fun o =>
    match inp.ops.lookup o.1 with
    | some (.s (.put k v)) => some { id := o.1, kind := .put k v, b := o.2.1, e := o.2.2.1 }
    | some (.s (.del k)) => some { id := o.1, kind := .del k, b := o.2.1, e := o.2.2.1 }
    | some (.s (.get k)) => some { id := o.1, kind := .get k, b := o.2.1, e := o.2.2.1, got := nat? o.2.2.2 }
    | some (.s (.scan lo hi)) => some { id := o.1, kind := .scan lo hi, b := o.2.1, e := o.2.2.1, rows := parseRows o.2.2.2 }
    | _ => none
  let dels : List (Nat × Bool) := inp.obs.filterMap fun o =>
    match inp.ops.lookup o.1, o.2.2.1 with
    | some (.s (.del _)), some _ => some (o.1, o.2.2.2 == "T")
    | _, _ => none
  let sizes : List (Nat × Nat × Nat × Nat) := inp.obs.filterMap fun o =>
    match inp.ops.lookup o.1, o.2.2.1 with
    | some (.s .size), some e => some (o.1, o.2.1, e, natD o.2.2.2)
    | _, _ => none
  if inp.obs.any fun o => (inp.ops.lookup o.1).isNone then ["viol store/malformed-judge-input"] else
  match judgeStore pfx recs inp.nkeys { delFlags := dels, sizes := sizes } with
  | none => ["ok"]
  | some sig => [s!"viol {sig}"]

open TxSpec in
def judgeTxnMode (body : List String) : List String :=
  let inp := parse body
  let lvl : Level → ILevel := fun l => match l with | .rc => .rc | .si => .si | .ser => .ser
  -- completed operations only, in declaration (= program) order per slot
  let completed : List (Nat × TOp × Nat × Nat × String) := inp.ops.filterMap fun o =>
    match o.2, inp.obs.find? (fun x => x.1 == o.1) with
    | .t op, some (_, b, some e, r) => some (o.1, op, b, e, r)
    | _, _ => none
  let slots : List (Nat × ILevel) := completed.filterMap fun c =>
    match c.2.1 with
    | .begin s l => some (s, lvl l)
    | _ => none
  let ts : List TObs := slots.map fun sl =>
    let mine := completed.filter fun c => match c.2.1 with
      | .read s _ => s == sl.1
      | .write s _ _ => s == sl.1
      | .commit s => s == sl.1
      | _ => false
    { slot := sl.1, level := sl.2,
      steps := mine.filterMap fun c => match c.2.1 with
        | .read _ k => some (.read k (nat? c.2.2.2.2) c.2.2.1 c.2.2.2.1)
        | .write _ k v => some (.write k v)
        | _ => none,
      commit := mine.findSome? fun c => match c.2.1 with
        | .commit _ => some (c.2.2.1, c.2.2.2.2 == "T")
        | _ => none }
  match judgeTxn (inp.init.foldl (fun s e => setKey e.1 e.2 s) []) inp.nkeys inp.final ts with
  | none => ["ok"]
  | some sig => [s!"viol {sig}"]

end HappyModel.C14.DriverStore
