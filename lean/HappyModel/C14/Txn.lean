import HappyModel.C14.Store
/-!
# Transaction manager (`components/storage/transaction_manager.py`, with fix C14-txn-snapshot-reads)

Transactions buffer writes, validate backwards against the commit log at commit time and apply their
writes with `put_sync`; a commit (validation, application, log entry, version bump) is one segment,
followed by the 10 µs commit-latency yield.  `read` adds the key to the read set in its first segment
and fetches the value through the store's `get` generator, i.e. one or more segments later; values
read at SNAPSHOT_ISOLATION / SERIALIZABLE are taken back to the transaction's snapshot with the
prior values recorded in the commit log.

A transaction is addressed by its *slot* (its index in the test case); `tx_id` is assigned by `begin`.
-/
namespace HappyModel.C14.SM
open HappyModel.C14 HappyModel.C14.BT

inductive Level where
  | rc | si | ser
deriving Repr, DecidableEq

structure LogE where
  txid : Nat
  version : Nat
  wkeys : List Key
  rkeys : List Key
  prior : List (Key × Option Nat)    -- value each written key had before this commit
deriving Repr

inductive TStat where
  | active | committed | aborted
deriving Repr, DecidableEq

structure Tx where
  slot : Nat
  id : Nat
  level : Level
  snap : Nat                 -- `_snapshot_version`
  rset : List Key := []      -- `_read_set`
  wset : KV := []            -- `_write_set`, a dict in insertion order
  stat : TStat := .active
deriving Repr

structure TM where
  store : Store
  nextId : Nat := 1
  version : Nat := 0
  log : List LogE := []
  txs : List Tx := []
  nCommitted : Nat := 0
  nAborted : Nat := 0
  nConflicts : Nat := 0

/-- `d[k] = v` on an insertion-ordered dict -/
def dictSet (k : Key) (v : Nat) : KV → KV
  | [] => [(k, v)]
  | (k', v') :: r => if k' = k then (k, v) :: r else (k', v') :: dictSet k v r

def addKey (k : Key) (l : List Key) : List Key := if l.contains k then l else l ++ [k]

def inter (a b : List Key) : Bool := a.any fun k => b.contains k

def TM.tx? (tm : TM) (slot : Nat) : Option Tx := tm.txs.find? fun t => t.slot == slot

def TM.setTx (tm : TM) (tx : Tx) : TM :=
  { tm with txs := tm.txs.map fun t => if t.slot == tx.slot then tx else t }

/-- `_check_conflict`, one commit-log entry -/
def conflictWith (tx : Tx) (e : LogE) : Bool :=
  if e.version ≤ tx.snap then false
  else if e.txid = tx.id then false
  else match tx.level with
    | .rc => false
    | .si => inter (tx.wset.map (·.1)) e.wkeys
    | .ser => inter (tx.wset.map (·.1)) e.wkeys || inter tx.rset e.wkeys || inter (tx.wset.map (·.1)) e.rkeys

def checkConflict (tm : TM) (tx : Tx) : Bool := tm.log.any (conflictWith tx)

/-- `_snapshot_value`: undo what was committed after the snapshot -/
def snapshotValue (snap : Nat) (k : Key) (cur : Option Nat) : List LogE → Option Nat
  | [] => cur
  | e :: r =>
    if e.version ≤ snap || !e.wkeys.contains k then snapshotValue snap k cur r
    else match e.prior.lookup k with
      | some p => p
      | none => snapshotValue snap k cur r

/-- what `read` returns for a value `cur` fetched from the store -/
def TM.adjust (tm : TM) (tx : Tx) (k : Key) (cur : Option Nat) : Option Nat :=
  match tx.level with
  | .rc => cur
  | _ => snapshotValue tx.snap k cur tm.log

/-! ### the atomic actions -/

def TM.begin (tm : TM) (slot : Nat) (lvl : Level) : TM :=
  match tm.tx? slot with
  | some _ => tm
  | none =>
    { tm with nextId := tm.nextId + 1,
              txs := tm.txs ++ [{ slot := slot, id := tm.nextId, level := lvl, snap := tm.version }] }

def TM.readStart (tm : TM) (slot : Nat) (k : Key) : TM :=
  match tm.tx? slot with
  | some tx => if tx.stat = .active then tm.setTx { tx with rset := addKey k tx.rset } else tm
  | none => tm

def TM.write (tm : TM) (slot : Nat) (k : Key) (v : Nat) : TM :=
  match tm.tx? slot with
  | some tx => if tx.stat = .active then tm.setTx { tx with wset := dictSet k v tx.wset } else tm
  | none => tm

def applyWrites (s : Store) (w : KV) : Store := w.foldl (fun s e => s.putSync e.1 e.2) s

def TM.commit (tm : TM) (slot : Nat) : TM × Bool :=
  match tm.tx? slot with
  | none => (tm, false)
  | some tx =>
    if tx.stat ≠ .active then (tm, false)
    else if checkConflict tm tx then
      ({ (tm.setTx { tx with stat := .aborted }) with nConflicts := tm.nConflicts + 1, nAborted := tm.nAborted + 1 }, false)
    else
      ({ (tm.setTx { tx with stat := .committed }) with
          store := applyWrites tm.store tx.wset,
          version := tm.version + 1,
          log := tm.log ++ [{ txid := tx.id, version := tm.version + 1, wkeys := tx.wset.map (·.1), rkeys := tx.rset,
                              prior := tx.wset.map fun e => (e.1, tm.store.getSync e.1) }],
          nCommitted := tm.nCommitted + 1 }, true)

def TM.abort (tm : TM) (slot : Nat) : TM :=
  match tm.tx? slot with
  | some tx =>
    if tx.stat = .active then { (tm.setTx { tx with stat := .aborted }) with nAborted := tm.nAborted + 1 } else tm
  | none => tm

/-! ### operations as segment machines -/

inductive TOp where
  | begin (slot : Nat) (lvl : Level)
  | read (slot : Nat) (k : Key)
  | write (slot : Nat) (k : Key) (v : Nat)
  | commit (slot : Nat)
  | abort (slot : Nat)
deriving Repr

inductive TPc where
  | start (op : TOp)
  | rd (slot : Nat) (k : Key) (pc : SPc)   -- inside `store.get`
  | fin (r : SRes)
  | done (r : SRes)
deriving Repr

def TPc.isDone : TPc → Bool
  | .done _ => true
  | _ => false

/-- continue the store's `get` generator of a transactional read -/
def readAdvance (tm : TM) (slot : Nat) (k : Key) (pc : SPc) : TM × TPc :=
  match (stepS tm.store pc).2 with
  | .done (.val c) =>
    (tm, .done (.val (match tm.tx? slot with
      | some tx => tm.adjust tx k c
      | none => c)))
  | .done r => (tm, .done r)
  | pc' => (tm, .rd slot k pc')

def stepT (tm : TM) : TPc → TM × TPc
  | .start (.begin slot lvl) => (tm.begin slot lvl, .fin (.num tm.nextId))
  | .start (.read slot k) =>
    match (tm.tx? slot).bind fun tx => tx.wset.lookup k with
    | some v => (tm.readStart slot k, .done (.val (some v)))
    | none => readAdvance (tm.readStart slot k) slot k (.start (.get k))
  | .start (.write slot k v) => (tm.write slot k v, .fin .ok)
  | .start (.commit slot) =>
    ((tm.commit slot).1, if (tm.commit slot).2 then .fin (.flag true) else .done (.flag false))
  | .start (.abort slot) => (tm.abort slot, .done .ok)
  | .rd slot k pc => readAdvance tm slot k pc
  | .fin r => (tm, .done r)
  | .done r => (tm, .done r)

end HappyModel.C14.SM
