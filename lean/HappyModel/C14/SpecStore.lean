import HappyModel.C14.Spec
/-!
# Spec for the B-tree and the KVStore (same clause as the LSM tree, plus the counters they expose)

* reads and scans: `judgeOpsP` (latest completed write or a concurrent one; scans sorted, no duplicates,
  exactly the live keys of the range);
* `delete` returns whether the key was present: `true` needs a put that no *delete* completed before
  the call overwrote; `false` needs the initial absence or a delete that no put overwrote;
* `size` is the number of live keys: between the number of keys that cannot be absent and the number
  of keys that can be present at that moment.
-/
namespace HappyModel.C14

def ORec.isPut (w : ORec) : Bool :=
  match w.kind with
  | .put _ _ => true
  | _ => false

/-- some write of the other polarity began after `w` completed and completed before `rb` -/
def flippedBefore (ws : List ORec) (k : Key) (w : ORec) (rb : Nat) : Bool :=
  ws.any fun w' => w'.writesKey k && w'.id != w.id && (w'.isDel != w.isDel) &&
    (match w.e with | some e => e < w'.b | none => false) && endedBefore w' rb

/-- an observer over segments `[rb, re]` may find `k` present -/
def canBeLive (ws : List ORec) (k : Key) (rb re : Nat) : Bool :=
  ws.any fun w => w.isPut && w.writesKey k && w.b < re && !flippedBefore ws k w rb

/-- an observer over segments `[rb, re]` may find `k` absent -/
def canBeDead (ws : List ORec) (k : Key) (rb re : Nat) : Bool :=
  !(ws.any fun w => w.isPut && w.writesKey k && endedBefore w rb) ||
  ws.any fun d => d.isDel && d.writesKey k && d.b < re && !flippedBefore ws k d rb

structure Extra where
  delFlags : List (Nat × Bool) := []            -- delete id ↦ returned flag
  sizes : List (Nat × Nat × Nat × Nat) := []    -- id, b, e, observed size

def judgeDel (pfx : String) (ws : List ORec) (d : ORec) (flag : Bool) : Option String :=
  match d.kind, d.e with
  | .del k, some e =>
    let others := ws.filter fun w => w.id != d.id
    if flag && !canBeLive others k d.b e then some s!"{pfx}/delete/reported-present-but-absent op {d.id}"
    else if !flag && !canBeDead others k d.b e then some s!"{pfx}/delete/reported-absent-but-present op {d.id}"
    else none
  | _, _ => none

def judgeSize (pfx : String) (ws : List ORec) (nkeys : Nat) (o : Nat × Nat × Nat × Nat) : Option String :=
  let lo := ((List.range nkeys).filter fun k => !canBeDead ws k o.2.1 o.2.2.1).length
  let hi := ((List.range nkeys).filter fun k => canBeLive ws k o.2.1 o.2.2.1).length
  if o.2.2.2 < lo then some s!"{pfx}/size/below-live-keys op {o.1}"
  else if o.2.2.2 > hi then some s!"{pfx}/size/above-live-keys op {o.1}"
  else none

def judgeStore (pfx : String) (ops : List ORec) (nkeys : Nat) (x : Extra) : Option String :=
  match judgeOpsP pfx ops nkeys with
  | some s => some s
  | none =>
    let ws := writesOf ops
    match ops.findSome? fun o => (x.delFlags.lookup o.id).bind fun f => judgeDel pfx ws o f with
    | some s => some s
    | none => x.sizes.findSome? (judgeSize pfx ws nkeys)

end HappyModel.C14
