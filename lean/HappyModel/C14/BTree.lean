import HappyModel.C14.Lsm
/-!
# B-tree index (`happysimulator/components/storage/btree.py`)

A B+-tree: leaves hold the key/value pairs, inner nodes hold separators (copies of the first key of
the right sibling at the time of a leaf split, promoted medians for inner splits).  Inserts split
full nodes *on the way down* (`_insert_non_full`), deletes remove from the leaf only (no merging).

* an inner node with Python `keys = [s1..sn]`, `children = [c0..cn]` is `inner c0 [(s1,c1)..(sn,cn)]`
  (so `len(children) = len(keys) + 1` holds by construction);
* `bisect_right(node.keys, key)` on a sorted list is "walk right while the separator is `≤ key`"
  (`findKid`, `mapKid`, `insKids`);
* all recursion is on a fuel that the tree carries anyway (`_depth`), so every theorem is an induction
  on a natural number and on lists.
-/
namespace HappyModel.C14.BT
open HappyModel.C14

abbrev KV := List (Key × Nat)

inductive Node where
  | leaf (kvs : KV)
  | inner (c0 : Node) (rest : List (Key × Node))

instance : Inhabited Node := ⟨.leaf []⟩

/-! ### leaf operations (`bisect_left` + equality test on a sorted list) -/

/-- `idx = bisect_left(keys, k)`; overwrite `values[idx]` when `keys[idx] == k`, else insert at `idx` -/
def upsert (k : Key) (v : Nat) : KV → KV
  | [] => [(k, v)]
  | (k', v') :: r =>
    if k' < k then (k', v') :: upsert k v r
    else if k' = k then (k, v) :: r
    else (k, v) :: (k', v') :: r

def leafGet (k : Key) : KV → Option Nat
  | [] => none
  | (k', v') :: r => if k' < k then leafGet k r else if k' = k then some v' else none

def eraseKey (k : Key) : KV → KV
  | [] => []
  | (k', v') :: r => if k' < k then (k', v') :: eraseKey k r else if k' = k then r else (k', v') :: r

/-- `for key in keys: if key >= end: break; if key >= start: append` -/
def leafScan (lo hi : Key) (kvs : KV) : KV := (kvs.takeWhile fun e => e.1 < hi).filter fun e => lo ≤ e.1

/-! ### node splits -/

def Node.nkeys : Node → Nat
  | .leaf kvs => kvs.length
  | .inner _ rest => rest.length

/-- `len(node.keys) >= order - 1` -/
def full (order : Nat) (n : Node) : Bool := n.nkeys ≥ order - 1

/-- `_split_child`: (left half, separator, right half).  Leaf: the right half keeps the separator;
    inner node: the median separator is promoted and removed from both halves. -/
def split : Node → Node × Key × Node
  | .leaf kvs =>
    let mid := kvs.length / 2
    (.leaf (kvs.take mid), ((kvs.drop mid).head?.map (·.1)).getD 0, .leaf (kvs.drop mid))
  | .inner c0 rest =>
    let mid := rest.length / 2
    match rest.drop mid with
    | (s, c) :: tl => (.inner c0 (rest.take mid), s, .inner c tl)
    | [] => (.inner c0 rest, 0, .leaf [])

/-! ### insert (`_insert`, `_insert_non_full`) -/

/-- the child chosen by `bisect_right` is `c` and `tl` is what follows it: split it first when full,
    then continue into the half that `key >= separator` selects -/
def target (order : Nat) (ins : Node → Node) (k : Key) (c : Node) (tl : List (Key × Node)) :
    Node × List (Key × Node) :=
  if full order c then
    let sp := split c
    if k ≥ sp.2.1 then (sp.1, (sp.2.1, ins sp.2.2) :: tl) else (ins sp.1, (sp.2.1, sp.2.2) :: tl)
  else (ins c, tl)

def insKids (order : Nat) (ins : Node → Node) (k : Key) : Node → List (Key × Node) → Node × List (Key × Node)
  | c, [] => target order ins k c []
  | c, (s, c') :: tl =>
    if k < s then target order ins k c ((s, c') :: tl)
    else ((c, (s, (insKids order ins k c' tl).1) :: (insKids order ins k c' tl).2))

def insNF (order : Nat) : Nat → Node → Key → Nat → Node
  | _, .leaf kvs, k, v => .leaf (upsert k v kvs)
  | 0, .inner c0 rest, _, _ => .inner c0 rest
  | f + 1, .inner c0 rest, k, v =>
    .inner (insKids order (fun c => insNF order f c k v) k c0 rest).1
           (insKids order (fun c => insNF order f c k v) k c0 rest).2

/-! ### lookup, delete, scan, contents -/

def findKid (k : Key) : Node → List (Key × Node) → Node
  | c, [] => c
  | c, (s, c') :: tl => if k < s then c else findKid k c' tl

def getN : Nat → Node → Key → Option Nat
  | _, .leaf kvs, k => leafGet k kvs
  | 0, .inner _ _, _ => none
  | f + 1, .inner c0 rest, k => getN f (findKid k c0 rest) k

def mapKid (g : Node → Node) (k : Key) : Node → List (Key × Node) → Node × List (Key × Node)
  | c, [] => (g c, [])
  | c, (s, c') :: tl =>
    if k < s then (g c, (s, c') :: tl) else (c, (s, (mapKid g k c' tl).1) :: (mapKid g k c' tl).2)

def delN : Nat → Node → Key → Node
  | _, .leaf kvs, k => .leaf (eraseKey k kvs)
  | 0, .inner c0 rest, _ => .inner c0 rest
  | f + 1, .inner c0 rest, k =>
    .inner (mapKid (fun c => delN f c k) k c0 rest).1 (mapKid (fun c => delN f c k) k c0 rest).2

def brk (low : Option Key) (hi : Key) : Bool :=
  match low with
  | some l => l ≥ hi
  | none => false

/-- `_scan_node` over the children: `low`/`high` are the separators around a child;
    `high <= start: continue`, `low >= end: break` -/
def scanKids (sc : Node → KV) (lo hi : Key) : Option Key → Node → List (Key × Node) → KV
  | low, c, [] => if brk low hi then [] else sc c
  | low, c, (s, c') :: tl =>
    if brk low hi then [] else (if s ≤ lo then [] else sc c) ++ scanKids sc lo hi (some s) c' tl

def scanN : Nat → Node → Key → Key → KV
  | _, .leaf kvs, lo, hi => leafScan lo hi kvs
  | 0, .inner _ _, _, _ => []
  | f + 1, .inner c0 rest, lo, hi => scanKids (fun c => scanN f c lo hi) lo hi none c0 rest

def flatKids (g : Node → KV) : Node → List (Key × Node) → KV
  | c, [] => g c
  | c, (_, c') :: tl => g c ++ flatKids g c' tl

/-- all pairs in the leaves, left to right -/
def toListN : Nat → Node → KV
  | _, .leaf kvs => kvs
  | 0, .inner _ _ => []
  | f + 1, .inner c0 rest => flatKids (toListN f) c0 rest

/-! ### the tree object -/

structure BTree where
  order : Nat := 3
  root : Node := .leaf []
  depth : Nat := 1          -- `_depth`
  size : Nat := 0           -- `_total_keys`

def BTree.get (t : BTree) (k : Key) : Option Nat := getN t.depth t.root k
def BTree.toList (t : BTree) : KV := toListN t.depth t.root
def BTree.scan (t : BTree) (lo hi : Key) : KV := scanN t.depth t.root lo hi

/-- `_insert`: split a full root first (the tree grows by one level), then insert top-down;
    `_total_keys` grows when the leaf did not hold the key -/
def BTree.put (t : BTree) (k : Key) (v : Nat) : BTree :=
  let isNew := (t.get k).isNone
  let grown : BTree :=
    if full t.order t.root then
      { t with root := .inner (split t.root).1 [((split t.root).2.1, (split t.root).2.2)], depth := t.depth + 1 }
    else t
  { grown with root := insNF t.order grown.depth grown.root k v, size := if isNew then t.size + 1 else t.size }

/-- `_delete`: returns the new tree and whether the key was found -/
def BTree.del (t : BTree) (k : Key) : BTree × Bool :=
  if (t.get k).isSome then ({ t with root := delN t.depth t.root k, size := t.size - 1 }, true) else (t, false)

/-! ### canonical dump (compared with the real node structure) -/

def showKV (kvs : KV) : String := ",".intercalate (kvs.map fun e => s!"{e.1}={e.2}")

def showNode : Nat → Node → String
  | _, .leaf kvs => "(" ++ showKV kvs ++ ")"
  | 0, .inner _ _ => "?"
  | f + 1, .inner c0 rest =>
    "[" ++ showNode f c0 ++ String.join (rest.map fun p => s!"|{p.1}|" ++ showNode f p.2) ++ "]"

def BTree.dump (t : BTree) : String := showNode t.depth t.root

end HappyModel.C14.BT
