import HappyModel.C14.BTree
import HappyModel.C14.LsmSync
/-!
# B-tree and KVStore operations as segment machines

`BTree.put/delete/get/scan` (`components/storage/btree.py`, with fix C14-btree-get-split) and
`KVStore.get/put/delete` (`components/datastore/kv_store.py`, no capacity limit) are generators that
pay their latency first and then touch the data structure in one segment:

* B-tree `get`: one page-read yield per level (`range(self._depth)` evaluated when the call starts),
  then the lookup; `put`/`delete`/`scan`: one traversal yield, the action, and a second yield when a
  page is written (`put` always, `delete` when the key was found) or more pages are read (`scan` when
  `len(results) // (order-1) > 0`);
* KVStore: one latency yield, then the action and the return.

As for the LSM tree the engine's interleaving is an input: `run` takes the schedule of operation ids.

The third kind of store, `lsm`, is the LSM tree as the transaction manager uses it: `get_sync`
(`St.abs`), `put_sync` (`St.putSync`, the segments of `put` back to back) and the `get` generator
(`Pc.gStart` / `Pc.gAt` of `Ops.lean`: the memtable and bloom-filter walk happen in the first segment,
one page-read yield per SSTable that may hold the key).  Its own put / delete / scan generators are the
subject of the `lsm` family (`Ops.lean`), not of this file.
-/
namespace HappyModel.C14.SM
open HappyModel.C14 HappyModel.C14.BT

inductive Store where
  | bt (t : BTree)
  | kv (d : KV)          -- the `dict`, as an association list sorted by key
  | lsm (cfg : Cfg) (st : St)   -- LSM tree without WAL, driven through `put_sync` / `get_sync` / `get`

def Store.getSync : Store → Key → Option Nat
  | .bt t, k => t.get k
  | .kv d, k => d.lookup k
  | .lsm _ st, k => st.abs k

def Store.putSync : Store → Key → Nat → Store
  | .bt t, k, v => .bt (t.put k v)
  | .kv d, k, v => .kv (upsert k v d)
  | .lsm cfg st, k, v => .lsm cfg (st.putSync cfg k (some v))

def Store.del : Store → Key → Store × Bool
  | .bt t, k => ((.bt (t.del k).1), (t.del k).2)
  | .kv d, k => (.kv (eraseKey k d), (d.lookup k).isSome)
  | .lsm cfg st, k => (.lsm cfg (st.putSync cfg k none), (st.abs k).isSome)   -- (tombstone; not used by the transaction manager)

def Store.size : Store → Nat
  | .bt t => t.size
  | .kv d => d.length
  | .lsm _ _ => 0         -- (the LSM tree has no `size`)

def Store.scan : Store → Key → Key → KV
  | .bt t, lo, hi => t.scan lo hi
  | .kv d, lo, hi => d.filter fun e => lo ≤ e.1 && e.1 < hi
  | .lsm _ _, _, _ => []  -- (scans of the LSM tree: family `lsm`)

inductive SOp where
  | put (k : Key) (v : Nat)
  | del (k : Key)
  | get (k : Key)
  | scan (lo hi : Key)
  | size
deriving Repr

inductive SRes where
  | ok
  | val (c : Option Nat)
  | rows (d : KV)
  | flag (b : Bool)
  | num (n : Nat)
deriving Repr

inductive SPc where
  | start (op : SOp)
  | wait (op : SOp) (n : Nat)   -- `n` more latency segments before the segment that acts
  | fin (r : SRes)              -- acted, one more yield pending
  | done (r : SRes)
  | lsmGet (pc : Pc)            -- inside `LSMTree.get`, suspended at a page read
deriving Repr

/-- number of yields before the operation touches the data -/
def yieldsBefore (s : Store) : SOp → Nat
  | .get _ => match s with
    | .bt t => t.depth
    | .kv _ => 1
    | .lsm _ _ => 0
  | .size => 0
  | _ => 1

/-- the acting segment: new store, result, and whether another yield follows -/
def act (s : Store) : SOp → Store × SRes × Bool
  | .put k v => (s.putSync k v, .ok, match s with | .bt _ => true | _ => false)
  | .del k => ((s.del k).1, .flag (s.del k).2, match s with | .bt _ => (s.del k).2 | _ => false)
  | .get k => (s, .val (s.getSync k), false)
  | .scan lo hi =>
    (s, .rows (s.scan lo hi), match s with
      | .bt t => (t.scan lo hi).length / (t.order - 1) > 0
      | _ => false)
  | .size => (s, .num s.size, false)

def doAct (s : Store) (op : SOp) : Store × SPc :=
  ((act s op).1, if (act s op).2.2 then .fin (act s op).2.1 else .done (act s op).2.1)

/-- one segment of `LSMTree.get` (it never changes the tree) -/
def lsmGetStep (cfg : Cfg) (st : St) (pc : Pc) : SPc :=
  match (stepOp cfg st pc).2 with
  | .done (.val c) => .done (.val c)
  | .done _ => .done (.val none)
  | pc' => .lsmGet pc'

/-- the first segment of a `get` on an LSM store -/
def lsmStart : Store → SOp → Option SPc
  | .lsm cfg st, .get k => some (lsmGetStep cfg st (.gStart k))
  | _, _ => none

def stepS (s : Store) : SPc → Store × SPc
  | .start op =>
    match lsmStart s op with
    | some pc => (s, pc)
    | none =>
      match yieldsBefore s op with
      | 0 => doAct s op
      | n + 1 => (s, .wait op n)
  | .lsmGet pc =>
    match s with
    | .lsm cfg st => (s, lsmGetStep cfg st pc)
    | _ => (s, .done (.val none))
  | .wait op 0 => doAct s op
  | .wait op (n + 1) => (s, .wait op n)
  | .fin r => (s, .done r)
  | .done r => (s, .done r)

/-! ### generic system: state + frames, driven by a schedule of operation ids -/

structure Frame (π : Type) where
  id : Nat
  pc : π
  b : Option Nat := none
  e : Option Nat := none

def stepFrames {σ π : Type} (step : σ → π → σ × π) (isDone : π → Bool) (st : σ) (n id : Nat) :
    List (Frame π) → σ × List (Frame π)
  | [] => (st, [])
  | f :: fs =>
    if f.id == id then
      if isDone f.pc then (st, f :: fs) else
      ((step st f.pc).1,
       { f with pc := (step st f.pc).2, b := f.b.orElse (fun _ => some n),
                e := if isDone (step st f.pc).2 then some n else none } :: fs)
    else
      ((stepFrames step isDone st n id fs).1, f :: (stepFrames step isDone st n id fs).2)

def runFrames {σ π : Type} (step : σ → π → σ × π) (isDone : π → Bool) :
    σ → List (Frame π) → Nat → List Nat → σ × List (Frame π)
  | st, fs, _, [] => (st, fs)
  | st, fs, n, id :: ids =>
    runFrames step isDone (stepFrames step isDone st n id fs).1 (stepFrames step isDone st n id fs).2 (n + 1) ids

def SPc.isDone : SPc → Bool
  | .done _ => true
  | _ => false

end HappyModel.C14.SM
