import HappyModel.C14.Ops
/-!
# C14 specification predicate (storage engines behave like a map), over *observed* operations

"every read returns the value of the latest write to that key that completed before the read began,
or of a write concurrent with it; deleted keys stay deleted and scans return exactly the live keys of
the range in sorted order."

An observation is what a client of the public API sees: which operation it issued, the positions
(in the global order of executed generator segments) of its first and last segment, and its return
value.  Values written by `put`s are pairwise distinct in the harness, so a returned value names
its write.  `b`/`e` are segment indices; "w completed before r began" is `w.e < r.b`.
-/
namespace HappyModel.C14

inductive OKind where
  | put (k : Key) (v : Nat)
  | del (k : Key)
  | get (k : Key)
  | scan (lo hi : Key)
deriving Repr

structure ORec where
  id : Nat
  kind : OKind
  b : Nat
  e : Option Nat              -- `none`: not completed
  got : Option Nat := none    -- result of a completed `get`
  rows : List (Key × Nat) := []   -- result of a completed `scan`
deriving Repr

def ORec.writesKey (w : ORec) (k : Key) : Bool :=
  match w.kind with
  | .put k' _ => k' == k
  | .del k' => k' == k
  | _ => false

def ORec.isDel (w : ORec) : Bool :=
  match w.kind with
  | .del _ => true
  | _ => false

def endedBefore (w : ORec) (t : Nat) : Bool :=
  match w.e with
  | some e => e < t
  | none => false

/-- some write to `k` began after `w` completed and itself completed before the read began -/
def overwrittenBy (ws : List ORec) (k : Key) (w : ORec) (rb : Nat) : Option ORec :=
  ws.find? fun w' => w'.writesKey k && w'.id != w.id &&
    (match w.e with | some e => e < w'.b | none => false) && endedBefore w' rb

/-- a read of `k` over segments `[rb, re]` returned `x`; `none` = allowed, `some clause` otherwise -/
def judgeRead (ws : List ORec) (k : Key) (rb re : Nat) (x : Option Nat) : Option String :=
  match x with
  | some v =>
    match ws.find? fun w => (match w.kind with | .put k' v' => k' == k && v' == v | _ => false) with
    | none => some "invented-value"
    | some w =>
      if !(w.b < re) then some "value-from-the-future"
      else match overwrittenBy ws k w rb with
        | none => none
        | some w' => if w'.isDel then some "deleted-key-resurrected" else some "stale-overwritten-value"
  | none =>
    -- explained by the initial absence, or by some delete that is not overwritten
    let initialOk := !(ws.any fun w' => w'.writesKey k && endedBefore w' rb)
    let delOk := ws.any fun d => d.isDel && d.writesKey k && d.b < re && (overwrittenBy ws k d rb).isNone
    if initialOk || delOk then none else some "completed-write-missing"

def sortedStrict : List (Key × Nat) → Bool
  | [] => true
  | [_] => true
  | a :: b :: r => a.1 < b.1 && sortedStrict (b :: r)

/-- `pfx` names the component (`lsm`, `btree`, `kv`) in the signature -/
def judgeOpP (pfx : String) (ws : List ORec) (nkeys : Nat) (o : ORec) : Option String :=
  match o.kind, o.e with
  | .get k, some e => (judgeRead ws k o.b e o.got).map fun c => s!"{pfx}/get/{c}"
  | .scan lo hi, some e =>
    if !sortedStrict o.rows then some s!"{pfx}/scan/unsorted-or-duplicate"
    else if o.rows.any fun r => !(lo ≤ r.1 && r.1 < hi) then some s!"{pfx}/scan/out-of-range"
    else (List.range nkeys).findSome? fun k =>
      if lo ≤ k && k < hi then (judgeRead ws k o.b e (o.rows.lookup k)).map fun c => s!"{pfx}/scan/{c}"
      else none
  | _, _ => none

def writesOf (ops : List ORec) : List ORec :=
  ops.filter fun o => match o.kind with | .put _ _ => true | .del _ => true | _ => false

def judgeOpsP (pfx : String) (ops : List ORec) (nkeys : Nat) : Option String :=
  ops.findSome? fun o => (judgeOpP pfx (writesOf ops) nkeys o).map fun sig => s!"{sig} op {o.id}"

def judgeOp (ws : List ORec) (nkeys : Nat) (o : ORec) : Option String := judgeOpP "lsm" ws nkeys o

/-- the whole observation satisfies the property iff this is `none` -/
def judgeOps (ops : List ORec) (nkeys : Nat) : Option String := judgeOpsP "lsm" ops nkeys

end HappyModel.C14
