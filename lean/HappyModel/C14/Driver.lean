import HappyModel.Proto
import HappyModel.C14.Spec
import HappyModel.C14.DriverStore
/-! Line-protocol driver for C14 (other side: `hv/props/c14.py`). -/
namespace HappyModel.C14.Driver
open HappyModel.Proto HappyModel.C14

structure Input where
  nkeys : Nat := 0
  cfg : Cfg := {}
  oracle : List Bool := []
  ops : List (Nat × OKind) := []      -- declaration order
  sched : List Nat := []
  obs : List (Nat × Nat × Option Nat × String) := []   -- judge mode: id, b, e, result token
  crash : Bool := false

def parseKind (ts : List String) : Option OKind :=
  match ts with
  | ["put", k, v] => some (.put (natD k) (natD v))
  | ["del", k] => some (.del (natD k))
  | ["get", k] => some (.get (natD k))
  | ["scan", lo, hi] => some (.scan (natD lo) (natD hi))
  | _ => none

def parseLine (inp : Input) (l : String) : Input :=
  match toks l with
  | ["cfg", n, m, lv] => { inp with nkeys := natD n, cfg := { inp.cfg with memSize := natD m, maxLevels := natD lv } }
  | ["strat", "st", m] => { inp with cfg := { inp.cfg with strat := .sizeTiered (natD m) } }
  | ["strat", "lv", a, b, c] => { inp with cfg := { inp.cfg with strat := .leveled (natD a) (natD b) (natD c) } }
  | ["strat", "fifo", m] => { inp with cfg := { inp.cfg with strat := .fifo (natD m) } }
  | ["wal", "none"] => inp
  | ["wal", "every"] => { inp with cfg := { inp.cfg with wal := some .every } }
  | ["wal", "batch", n] => { inp with cfg := { inp.cfg with wal := some (.batch (natD n)) } }
  | ["wal", "periodic"] => { inp with cfg := { inp.cfg with wal := some .periodic } }
  | ["fp", m, k] => { inp with cfg := { inp.cfg with fp := (natD m, natD k) :: inp.cfg.fp } }
  | "oracle" :: bs => { inp with oracle := inp.oracle ++ bs.map (· == "1") }
  | "op" :: id :: rest =>
    match parseKind rest with
    | some k => { inp with ops := inp.ops ++ [(natD id, k)] }
    | none => inp
  | "sched" :: ids => { inp with sched := inp.sched ++ nats ids }
  | ["obs", id, b, e, r] => { inp with obs := inp.obs ++ [(natD id, natD b, nat? e, r)] }
  | ["crash"] => { inp with crash := true }
  | _ => inp

def parse (body : List String) : Input := body.foldl parseLine {}

def startPc : OKind → Pc
  | .put k v => .pStart k (some v)
  | .del k => .pStart k none
  | .get k => .gStart k
  | .scan lo hi => .sStart lo hi

def Input.sys (inp : Input) : Sys :=
  { st := St.init inp.cfg inp.oracle, frames := inp.ops.map fun o => { id := o.1, pc := startPc o.2 } }

def showCell : Option Nat → String
  | none => "-"
  | some v => toString v

def showRes : Res → String
  | .ok => "ok"
  | .val c => showCell c
  | .rows [] => "."
  | .rows d => ",".intercalate (d.map fun r => s!"{r.1}={r.2}")

def sortFrames (fs : List Frame) : List Frame := fs.mergeSort fun a b => a.id ≤ b.id

def frameLine (f : Frame) : Option String :=
  match f.b with
  | none => none
  | some b =>
    let e := match f.e with | some e => toString e | none => "x"
    let r := match f.pc with | .done r => showRes r | _ => "x"
    some s!"op {f.id} {b} {e} {r}"

def finalLines (inp : Input) (s : St) : List String :=
  [ "final " ++ joinSp ((List.range inp.nkeys).map fun k => showCell (s.abs k)),
    "levels " ++ joinSp (s.levels.map fun l => s!"{l.length}:{keyCount l}") ]

def runLsm (body : List String) : List String :=
  let inp := parse body
  let y := Sys.run inp.cfg inp.sys inp.sched
  (sortFrames y.frames).filterMap frameLine ++ finalLines inp y.st

/-! ### judge -/

def parseRows (s : String) : List (Key × Nat) :=
  if s == "." then [] else
  (s.splitOn ",").filterMap fun kv =>
    match kv.splitOn "=" with
    | [k, v] => some (natD k, natD v)
    | _ => none

def mkORec (inp : Input) (o : Nat × Nat × Option Nat × String) : Option ORec :=
  match inp.ops.lookup o.1 with
  | none => none
  | some kind =>
    let r := o.2.2.2
    some { id := o.1, kind := kind, b := o.2.1, e := o.2.2.1,
           got := match kind with | .get _ => nat? r | _ => none,
           rows := match kind with | .scan _ _ => parseRows r | _ => [] }

def judgeLsm (body : List String) : List String :=
  let inp := parse body
  let ops := inp.obs.filterMap (mkORec inp)
  if ops.length != inp.obs.length then ["viol lsm/malformed-judge-input"] else
  match judgeOps ops inp.nkeys with
  | none => ["ok"]
  | some sig => [s!"viol {sig}"]

def handle (hdr : List String) (body : List String) : List String :=
  match hdr with
  | ["lsm"] => runLsm body
  | ["judge-lsm"] => judgeLsm body
  | ["store"] => DriverStore.runStore body
  | ["judge-store"] => DriverStore.judgeStoreMode body
  | ["txn"] => DriverStore.runTxn body
  | ["judge-txn"] => DriverStore.judgeTxnMode body
  | _ => ["bad-mode"]

end HappyModel.C14.Driver
