/-!
# LSM tree + write-ahead log: state and the atomic building blocks of every generator segment

Mirrors `happysimulator/components/storage/{lsm_tree,memtable,sstable,wal}.py` (repaired tree:
fixes C14-flush-read-gap, C14-get-level-snapshot, C14-compaction-overlap, C15-wal-truncate-bound).

* keys are indices into the case's sorted key universe (`Nat`, numeric order = string order);
* a cell is `some v` (value) or `none` (the `_TOMBSTONE` sentinel);
* a memtable / SSTable payload is an association list kept sorted by key (`ins`), a Python `dict`
  whose iteration order is never observable here (flush sorts, scan sorts);
* SSTables and frozen memtables carry an identity (`id`), because the code removes them from the
  level lists by object identity;
* the bloom filter is a parameter: `fp` lists the (key-set mask, key) pairs on which the real filter
  answers "maybe" for an absent key; present keys always answer "maybe" (one-sidedness, C20).
-/
namespace HappyModel.C14

abbrev Key := Nat
abbrev Cell := Option Nat
abbrev Data := List (Key × Cell)

/-- sorted insert / overwrite (`dict[k] = c`) -/
def ins (k : Key) (c : Cell) : Data → Data
  | [] => [(k, c)]
  | (k', c') :: r =>
    if k < k' then (k, c) :: (k', c') :: r
    else if k = k' then (k, c) :: r
    else (k', c') :: ins k c r

structure Tab where
  id : Nat
  data : Data
deriving Repr, DecidableEq

inductive Strategy where
  | sizeTiered (min : Nat)
  | leveled (l0max ratio base : Nat)
  | fifo (maxTotal : Nat)
deriving Repr

inductive Policy where
  | every
  | batch (n : Nat)
  | periodic
deriving Repr

structure Cfg where
  memSize : Nat := 1
  maxLevels : Nat := 2
  strat : Strategy := .sizeTiered 4
  wal : Option Policy := none
  fp : List (Nat × Key) := []
deriving Repr

structure WalE where
  seq : Nat
  key : Key
  cell : Cell
deriving Repr

structure St where
  mem : Data := []
  memId : Nat := 0                 -- identity of the active memtable object
  frozen : List (Nat × Nat) := []  -- memtable id ↦ its size when it was frozen (never changes afterwards)
  imms : List Tab := []            -- frozen memtables awaiting install, oldest first
  levels : List (List Tab) := []   -- `levels[i]` oldest first (the code appends)
  nextId : Nat := 1
  wal : List WalE := []            -- append order = sequence order
  nextSeq : Nat := 1
  wss : Nat := 0                   -- writes since sync
  synced : Nat := 0                -- `synced_up_to`
  pending : List Nat := []         -- WAL sequence numbers appended but not yet applied to a memtable
  compacting : Bool := false
  oracle : List Bool := []         -- answers of `SyncPeriodic.should_sync`, an input
deriving Repr

def St.init (cfg : Cfg) (oracle : List Bool := []) : St :=
  { levels := List.replicate cfg.maxLevels [], oracle := oracle }

/-! ### reading -/

/-- first table (in the given order) that holds `k` -/
def lookTabs (k : Key) : List Tab → Option Cell
  | [] => none
  | t :: r => match t.data.lookup k with
    | some c => some c
    | none => lookTabs k r

def lookLevels (k : Key) : List (List Tab) → Option Cell
  | [] => none
  | l :: ls => match lookTabs k l.reverse with
    | some c => some c
    | none => lookLevels k ls

/-- what a complete, uninterrupted read path finds: `none` nothing, `some none` a tombstone -/
def St.read (s : St) (k : Key) : Option Cell :=
  match s.mem.lookup k with
  | some c => some c
  | none => match lookTabs k s.imms.reverse with
    | some c => some c
    | none => lookLevels k s.levels

/-- the abstract map `Key → Option Val` (this is `get_sync`) -/
def St.abs (s : St) (k : Key) : Option Nat := (s.read k).join

/-! ### bloom filter -/

def mask (d : Data) : Nat := (d.map fun e => 2 ^ e.1).sum

def maybe (cfg : Cfg) (t : Tab) (k : Key) : Bool :=
  (t.data.lookup k).isSome || cfg.fp.contains (mask t.data, k)

/-! ### level list helpers -/

def modAt (ls : List (List Tab)) (i : Nat) (f : List Tab → List Tab) : List (List Tab) :=
  match ls, i with
  | [], _ => []
  | l :: r, 0 => f l :: r
  | l :: r, i + 1 => l :: modAt r i f

def removeIds (ids : List Nat) (l : List Tab) : List Tab := l.filter fun t => !ids.contains t.id

def keyCount (l : List Tab) : Nat := (l.map fun t => t.data.length).sum

/-! ### compaction strategies (`should_compact`, `select_compaction`: always a whole level) -/

def leveledOver (ratio base : Nat) : List (List Tab) → Nat → Option Nat
  | [], _ => none
  | l :: ls, i => if keyCount l > base * ratio ^ i then some i else leveledOver ratio base ls (i + 1)

def shouldCompact (st : Strategy) (lv : List (List Tab)) : Bool :=
  match st with
  | .sizeTiered m => lv.any fun l => l.length ≥ m
  | .leveled l0 ratio base =>
    match lv with
    | [] => false
    | l :: ls => l.length ≥ l0 || (leveledOver ratio base ls 1).isSome
  | .fifo mx => (lv.map List.length).sum > mx

def mostPopulated : List (List Tab) → Nat → Nat → Nat → Nat
  | [], _, best, _ => best
  | l :: ls, i, best, cnt => if l.length > cnt then mostPopulated ls (i + 1) i l.length else mostPopulated ls (i + 1) best cnt

def highestNonEmpty : List (List Tab) → Nat → Option Nat → Option Nat
  | [], _, acc => acc
  | l :: ls, i, acc => highestNonEmpty ls (i + 1) (if l.isEmpty then acc else some i)

/-- source level chosen by the strategy (the code then takes *all* SSTables of that level) -/
def selectLevel (st : Strategy) (lv : List (List Tab)) : Nat :=
  match st with
  | .sizeTiered _ => mostPopulated lv 0 0 0
  | .leveled l0 ratio base =>
    match lv with
    | [] => 0
    | l :: ls => if l.length ≥ l0 then 0 else (leveledOver ratio base ls 1).getD 0
  | .fifo _ => (highestNonEmpty lv 0 none).getD 0

/-! ### compaction merge -/

/-- `merged.update(newer)`: newer entries override -/
def mergeNewer (base newer : Data) : Data := newer.foldl (fun acc e => ins e.1 e.2 acc) base

/-- `if k not in merged: merged[k] = v` -/
def mergeOlder (base older : Data) : Data :=
  older.foldl (fun acc e => if (acc.lookup e.1).isSome then acc else ins e.1 e.2 acc) base

def minKey (d : Data) : Option Key := d.head?.map (·.1)
def maxKey (d : Data) : Option Key := d.getLast?.map (·.1)

def overlaps (a b : Tab) : Bool :=
  match minKey a.data, maxKey a.data, minKey b.data, maxKey b.data with
  | some a0, some a1, some b0, some b1 => a0 ≤ b1 && b0 ≤ a1
  | _, _, _, _ => false

structure Job where
  src : Nat
  tgt : Nat
  rmSrc : List Nat
  rmTgt : List Nat
  data : Data
deriving Repr

def mergeSources (S : List Tab) : Data := S.foldl (fun acc t => mergeNewer acc t.data) []
def mergeOverlap (m : Data) (O : List Tab) : Data := O.foldl (fun acc t => mergeOlder acc t.data) m
def dropTombs (d : Data) : Data := d.filter fun e => e.2.isSome

/-- the synchronous first half of `_compact` for source level `src` -/
def planCompaction (cfg : Cfg) (lv : List (List Tab)) (src : Nat) : Option Job :=
  let S := lv.getD src []
  if S.isEmpty then none else
  let tgt := min (src + 1) (cfg.maxLevels - 1)
  let O := if tgt != src then (lv.getD tgt []).filter (fun t => S.any fun s => overlaps t s) else []
  let m := mergeOverlap (mergeSources S) O
  let m := if tgt == cfg.maxLevels - 1 then dropTombs m else m
  some ⟨src, tgt, S.map (·.id), O.map (·.id), m⟩

/-- the second half of `_compact`, after the write latency -/
def installCompaction (lv : List (List Tab)) (j : Job) (newId : Nat) : List (List Tab) :=
  let lv := modAt lv j.src (removeIds j.rmSrc)
  let lv := modAt lv j.tgt (removeIds j.rmTgt)
  modAt lv j.tgt (· ++ [⟨newId, j.data⟩])

/-! ### WAL -/

def shouldSync (p : Policy) (s : St) : Bool × St :=
  match p with
  | .every => (true, s)
  | .batch n => (s.wss ≥ n, s)
  | .periodic => (s.oracle.headD false, { s with oracle := s.oracle.tail })

def minList : List Nat → Nat → Nat
  | [], d => d
  | x :: xs, d => minList xs (min x d)

/-- truncation bound captured when a flush starts: everything below the smallest pending sequence -/
def truncBound (s : St) : Nat := minList s.pending s.nextSeq - 1

/-- `LSMTree.crash()` -/
def St.crash (s : St) : St :=
  { s with mem := [], memId := s.nextId, nextId := s.nextId + 1, imms := [],
           wal := s.wal.filter (fun e => e.seq ≤ s.synced), wss := 0 }

/-- `LSMTree.recover_from_crash()`: replay the surviving log in sequence order -/
def St.recover (s : St) : St :=
  { s with mem := s.wal.foldl (fun m e => ins e.key e.cell m) s.mem }

end HappyModel.C14
