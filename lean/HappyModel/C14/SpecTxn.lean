import HappyModel.C14.Lsm
/-!
# Spec for transactions, over what the clients of the transaction manager observed

"Transactions committed at SERIALIZABLE are equivalent to some serial order, and snapshot-isolation
transactions read from one consistent snapshot."

An observation is, per transaction: its isolation level, the reads (key, returned value, first and last
segment) and writes it issued in program order, and the outcome and position of its `commit` call;
plus the initial and the final contents of the store.  Written values are pairwise distinct and differ
from the initial ones, so a returned value names its write.

* *own writes*: a read of a key the transaction wrote earlier returns its latest own write; all other
  reads are *external*;
* *serializable*: there is a permutation of the committed transactions such that executing them one
  after the other from the initial store gives every SERIALIZABLE transaction exactly the external
  values it read, and ends in the final store;
* *snapshot*: for every SNAPSHOT_ISOLATION transaction there is a prefix of the commit order (commit
  calls ordered by their position, restricted to those issued before the transaction's last read
  returned) whose resulting store gives all its external reads.
-/
namespace HappyModel.C14.TxSpec
open HappyModel.C14

inductive ILevel where
  | rc | si | ser
deriving Repr, DecidableEq

inductive TStep where
  | read (k : Key) (val : Option Nat) (b e : Nat)
  | write (k : Key) (v : Nat)
deriving Repr

structure TObs where
  slot : Nat
  level : ILevel
  steps : List TStep := []
  commit : Option (Nat × Bool) := none     -- position of the commit call, returned flag
deriving Repr

abbrev State := List (Key × Nat)

def setKey (k : Key) (v : Nat) : State → State
  | [] => [(k, v)]
  | (k', v') :: r => if k' = k then (k, v) :: r else (k', v') :: setKey k v r

/-- walk the program: (external reads with the segment they returned at, own-write violations, final buffer) -/
def walk : List TStep → State → List (Key × Option Nat × Nat) → Bool → List (Key × Option Nat × Nat) × Bool × State
  | [], buf, ext, bad => (ext.reverse, bad, buf)
  | .write k v :: r, buf, ext, bad => walk r (setKey k v buf) ext bad
  | .read k val _ e :: r, buf, ext, bad =>
    match buf.lookup k with
    | some v => walk r buf ext (bad || val != some v)
    | none => walk r buf ((k, val, e) :: ext) bad

def TObs.ext (t : TObs) : List (Key × Option Nat × Nat) := (walk t.steps [] [] false).1
def TObs.ownBad (t : TObs) : Bool := (walk t.steps [] [] false).2.1
def TObs.wset (t : TObs) : State := (walk t.steps [] [] false).2.2

def TObs.committed (t : TObs) : Bool :=
  match t.commit with
  | some (_, true) => true
  | _ => false

def TObs.commitPos (t : TObs) : Nat :=
  match t.commit with
  | some (b, _) => b
  | none => 0

def applyW (s : State) (w : State) : State := w.foldl (fun s e => setKey e.1 e.2 s) s

def readsMatch (s : State) (t : TObs) : Bool := t.ext.all fun r => s.lookup r.1 == r.2.1

/-- serial execution of `order`: do the SERIALIZABLE transactions (when `checkReads`) read what they read? -/
def serialOk (checkReads : Bool) (nkeys : Nat) (final : List (Option Nat)) : State → List TObs → Bool
  | s, [] => (List.range nkeys).all fun k => s.lookup k == final.getD k none
  | s, t :: r =>
    (!(checkReads && t.level = .ser) || readsMatch s t) && serialOk checkReads nkeys final (applyW s t.wset) r

def insertAll {α : Type} (x : α) : List α → List (List α)
  | [] => [[x]]
  | y :: r => (x :: y :: r) :: (insertAll x r).map (y :: ·)

def perms {α : Type} : List α → List (List α)
  | [] => [[]]
  | x :: r => (perms r).flatMap (insertAll x)

def commitOrder (ts : List TObs) : List TObs :=
  (ts.filter (·.committed)).mergeSort fun a b => a.commitPos ≤ b.commitPos

/-- states after every prefix of `cs` -/
def prefixStates : State → List TObs → List State
  | s, [] => [s]
  | s, t :: r => s :: prefixStates (applyW s t.wset) r

def snapshotOk (init : State) (ts : List TObs) (t : TObs) : Bool :=
  if t.ext.isEmpty then true else
  let lastEnd := t.ext.foldl (fun m r => max m r.2.2) 0
  let cs := (commitOrder ts).filter fun c => c.slot != t.slot && c.commitPos < lastEnd
  (prefixStates init cs).any fun s => readsMatch s t

def judgeTxn (init : State) (nkeys : Nat) (final : List (Option Nat)) (ts : List TObs) : Option String :=
  match ts.find? (·.ownBad) with
  | some t => some s!"txn/read/own-write-not-returned slot {t.slot}"
  | none =>
    let cs := commitOrder ts
    let cands := if cs.length ≤ 6 then cs :: perms cs else [cs]
    if !(cands.any fun p => serialOk false nkeys final init p) then
      some "txn/final/store-is-not-the-committed-writes"
    else if !(cands.any fun p => serialOk true nkeys final init p) then
      some "txn/serializable/no-equivalent-serial-order"
    else match ts.find? fun t => t.level = .si && !snapshotOk init ts t with
      | some t => some s!"txn/si/reads-not-from-one-snapshot slot {t.slot}"
      | none => none

end HappyModel.C14.TxSpec
