import HappyModel.C18.Crdt
/-!
Model of `happysimulator/components/crdt/crdt_store.py`: `CRDTStore` replicas (key ↦ CRDT) with
client writes and the gossip protocol (`GossipTick` → `GossipPush` → merge → `GossipResponse` →
merge), under a network that delivers any message any number of times, in any order, or never.

The store layer is *protocol bookkeeping* (`PSt`: which store holds which key, which messages
exist and which keys their serialised state carries) on top of the CRDT replica systems of
`Crdt.lean`: every key has its own replica system `Sys`, in which replica `s < n` is store `s`'s
CRDT for that key and replica `n + m` is the copy of the sender's CRDT that message `m` carries
(a serialised state never changes after it was taken: message replicas only ever appear as the
*source* of a merge).  A protocol step emits key-tagged replica operations:

* a client write at store `s`          ↦ the CRDT operation at replica `s`
* a message `m` created by store `s`   ↦ `merge (n+m) s` for every key `s` holds
* delivery of message `m` to store `d` ↦ `merge d (n+m)` for every key in the message; a key `d`
  does not hold yet is *adopted*

Adoption exists in two variants (GUIDE rule 9):
* `repaired` — the adopted CRDT is a fresh one with the adopting store's own node id into which
  the remote state is merged (`fixes/C18-store-adopts-remote-node-id.diff`); every emitted
  operation is a plain `COp` and the whole store system *is* a family of `Sys` runs;
* `current` — the code before the fix: `_reconstruct_crdt(remote_dict)` keeps the *sender's*
  node id (and OR-set tag counter); later local updates are recorded under that identity
  (`XOp.incAs` …), which loses increments and makes OR-set tags collide.
-/
namespace HappyModel.C18

inductive Kind | g | pn | os | lww
deriving Repr, DecidableEq

inductive Variant | current | repaired
deriving Repr, DecidableEq

/-- a client write on one key (`Write` event with `operation` / `value`, or a direct
    `get_or_create(key).set(v, ts)` for the register) -/
inductive WOp
  | inc (k : Nat) | dec (k : Nat) | add (x : Nat) | rem (x : Nat) | lset (v p l nd : Nat)
deriving Repr, DecidableEq

inductive SStep
  | w (s key : Nat) (op : WOp)
  | tick (s j : Nat)          -- `GossipTick` at store s; `random.choice` picks peer number j
  | dl (m : Nat)              -- the network delivers message m (again)
  | round (s j : Nat)         -- a lossless gossip round: tick at s, the push is delivered, so is the answer
deriving Repr, DecidableEq

/-- a gossip message: `keys` are the keys of the serialised state with the node id each
    serialised CRDT carries -/
structure Msg where
  src : Nat
  dst : Nat
  push : Bool
  keys : List (Nat × Nat)
deriving Repr, DecidableEq

/-- replica operations; only `base` occurs in the repaired variant -/
inductive XOp
  | base (o : COp)
  | incAs (r nid k : Nat)     -- increment at replica r recorded in slot `nid`
  | decAs (r nid k : Nat)
  | oaddAs (r nid x : Nat)    -- OR-set add at replica r with a tag of node `nid`
  | copy (d sr : Nat)         -- replica d becomes an exact copy of replica sr (tag counter included)
deriving Repr, DecidableEq

def Sys.stepX (s : Sys) : XOp → Sys
  | .base o => s.step o
  | .incAs r nid k => s.set r { s.rep r with pn := (s.rep r).pn.inc nid k }
  | .decAs r nid k => s.set r { s.rep r with pn := (s.rep r).pn.dec nid k }
  | .oaddAs r nid x => s.set r { s.rep r with os := (s.rep r).os.add nid x }
  | .copy d sr => s.set d (s.rep sr)

/-- merging one key's CRDT of a remote state into the local one (all three CRDT types at once: a
    store uses the component of its own type, the others stay empty) -/
def Rep.merge (a b : Rep) : Rep :=
  { pn := a.pn.merge b.pn, lww := a.lww.merge b.lww, os := a.os.merge b.os }

/-- protocol state -/
structure PSt where
  n : Nat := 0
  peers : List (List Nat) := []
  held : List ((Nat × Nat) × Nat) := []   -- ((store, key), node id the CRDT carries), oldest first
  msgs : List Msg := []                   -- oldest first; message id = position
deriving Repr

def PSt.nidOf (p : PSt) (s key : Nat) : Option Nat :=
  (p.held.find? (fun e => e.1 == (s, key))).map (·.2)

def PSt.holds (p : PSt) (s key : Nat) : Bool := (p.nidOf s key).isSome

/-- the keys of store s in dict order with the node id of each CRDT -/
def PSt.keysOf (p : PSt) (s : Nat) : List (Nat × Nat) :=
  (p.held.filter (fun e => e.1.1 == s)).map (fun e => (e.1.2, e.2))

def PSt.peersOf (p : PSt) (s : Nat) : List Nat := p.peers.getD s []

/-- the replica operation of a client write, by CRDT type; `none`: the CRDT has no such
    operation (`_apply_operation` logs a warning), only `get_or_create` happened -/
def wop (v : Variant) (kind : Kind) (s nid : Nat) : WOp → Option XOp
  | .inc k => if kind = .g ∨ kind = .pn then
      some (if v = .repaired then .base (.inc s k) else .incAs s nid k) else none
  | .dec k => if kind = .pn then
      some (if v = .repaired then .base (.dec s k) else .decAs s nid k) else none
  | .add x => if kind = .os then
      some (if v = .repaired then .base (.oadd s x) else .oaddAs s nid x) else none
  | .rem x => if kind = .os then some (.base (.orem s x)) else none
  | .lset val p l nd => if kind = .lww then some (.base (.lset s val p l nd)) else none

/-- store `s` serialises its state into a new message for `d` -/
def PSt.emit (v : Variant) (p : PSt) (s d : Nat) (push : Bool) : PSt × List (Nat × XOp) :=
  let m := p.msgs.length
  let keys := p.keysOf s
  ({ p with msgs := p.msgs ++ [⟨s, d, push, keys⟩] },
   keys.map fun kn => (kn.1, if v = .repaired then XOp.base (.merge (p.n + m) s) else .copy (p.n + m) s))

/-- `_merge_remote_state` at store d for the keys of message m -/
def PSt.mergeKeys (v : Variant) (p : PSt) (d m : Nat) : List (Nat × Nat) → PSt × List (Nat × XOp)
  | [] => (p, [])
  | (key, rn) :: rest =>
    if p.holds d key then
      let r := PSt.mergeKeys v p d m rest
      (r.1, (key, XOp.base (.merge d (p.n + m))) :: r.2)
    else
      let p' := { p with held := p.held ++ [((d, key), if v = .repaired then d else rn)] }
      let r := PSt.mergeKeys v p' d m rest
      (r.1, (key, if v = .repaired then XOp.base (.merge d (p.n + m)) else .copy d (p.n + m)) :: r.2)

def PSt.tickStep (v : Variant) (p : PSt) (s j : Nat) : PSt × List (Nat × XOp) :=
  match p.peersOf s with
  | [] => (p, [])
  | q :: qs => p.emit v s ((q :: qs).getD (j % (q :: qs).length) q) true

def PSt.dlStep (v : Variant) (p : PSt) (m : Nat) : PSt × List (Nat × XOp) :=
  match p.msgs[m]? with
  | none => (p, [])
  | some msg =>
    let r := p.mergeKeys v msg.dst m msg.keys
    if msg.push && (r.1.peersOf msg.dst).contains msg.src then
      let e := r.1.emit v msg.dst msg.src false
      (e.1, r.2 ++ e.2)
    else r

def PSt.step (v : Variant) (kind : Kind) (p : PSt) : SStep → PSt × List (Nat × XOp)
  | .w s key op =>
    let p' := if p.holds s key then p else { p with held := p.held ++ [((s, key), s)] }
    match wop v kind s ((p'.nidOf s key).getD s) op with
    | some x => (p', [(key, x)])
    | none => (p', [])
  | .tick s j => p.tickStep v s j
  | .dl m => p.dlStep v m
  | .round s j =>
    -- the tick, then the delivery of the push it built (if any), then of the answer (if any)
    let m := p.msgs.length
    let r1 := p.tickStep v s j
    let r2 := r1.1.dlStep v m
    let r3 := if r2.1.msgs.length = m + 2 then r2.1.dlStep v (m + 1) else (r2.1, [])
    (r3.1, r1.2 ++ r2.2 ++ r3.2)

/-- the store that acts in a step (whose state the transcript shows afterwards) -/
def PSt.acting (p : PSt) : SStep → Option Nat
  | .w s _ _ => some s
  | .tick s _ => some s
  | .dl m => (p.msgs[m]?).map (·.dst)
  | .round s _ => some s

/-- the stores whose state a step may change -/
def PSt.actors (p : PSt) : SStep → List Nat
  | .round s j =>
    match p.peersOf s with
    | [] => [s]
    | q :: qs => let d := (q :: qs).getD (j % (q :: qs).length) q; if d = s then [s] else [s, d]
  | x => (p.acting x).toList

/-! ### per-key replica systems -/

/-- apply operation `x` to the system at position `k`, padding with fresh systems.
    (First-order on purpose: `Sys` is a one-field structure, i.e. a function at run time; a
    higher-order `List.modify`-style helper would be compiled to a closure that re-runs the step at
    every replica lookup.) -/
def lmod : List Sys → Nat → XOp → List Sys
  | [], 0, x => [Sys.init.stepX x]
  | [], k+1, x => Sys.init :: lmod [] k x
  | y :: ys, 0, x => y.stepX x :: ys
  | y :: ys, k+1, x => y :: lmod ys k x

def sysAt (l : List Sys) (k : Nat) : Sys := l.getD k Sys.init

def applyOps (l : List Sys) : List (Nat × XOp) → List Sys
  | [] => l
  | (k, x) :: rest => applyOps (lmod l k x) rest

structure SSt where
  p : PSt := {}
  sys : List Sys := []

def SSt.step (v : Variant) (kind : Kind) (st : SSt) (x : SStep) : SSt :=
  let r := st.p.step v kind x
  ⟨r.1, applyOps st.sys r.2⟩

def SSt.run (v : Variant) (kind : Kind) (st : SSt) : List SStep → SSt
  | [] => st
  | x :: xs => SSt.run v kind (st.step v kind x) xs

def SSt.init (n : Nat) (peers : List (List Nat)) : SSt := ⟨{ n := n, peers := peers }, []⟩

/-! ### the operations one key sees (the replica-system view of a store run) -/

/-- all key-tagged operations a run emits -/
def PSt.ops (v : Variant) (kind : Kind) (p : PSt) : List SStep → List (Nat × XOp)
  | [] => []
  | x :: xs => (p.step v kind x).2 ++ PSt.ops v kind (p.step v kind x).1 xs

def XOp.toCOp? : XOp → Option COp
  | .base o => some o
  | _ => none

/-- the replica operations of key `k` in a (repaired) store run -/
def keyOps (k : Nat) (ops : List (Nat × XOp)) : List COp :=
  ops.filterMap fun e => if e.1 = k then e.2.toCOp? else none

end HappyModel.C18
