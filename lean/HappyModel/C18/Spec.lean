import HappyModel.C18.Crdt
/-!
C18 specification predicates, decidable, over *observed* values.

Clocks: given a history and, for every event, the three timestamps some implementation reported,
`judgeClocks` checks the property text literally: a → b ⇒ L(a) < L(b) and HLC(a) < HLC(b);
V(a) < V(b) ⇔ a → b, where → is the causal past `K` computed from the history alone.

CRDTs: `SpecSys` tracks, for every replica, the set of update operations in its causal past
(`know`); the specified values are functions of that set only:
counter = Σ increments − Σ decrements seen; LWW = value of the seen write with the greatest
timestamp; OR-set ∋ x ⇔ some seen add of x is not observed by a seen remove of x.
-/
namespace HappyModel.C18

/-- what an implementation reported for one event `b`: its three timestamps and, for every event `a`
    of the history (by id), the answers of the implementation's own vector-clock comparison
    `V(a).happened_before(V(b))` and `V(a).is_concurrent(V(b))` -/
structure Obs where
  L : Nat
  V : Vec
  H : HTs
  hbIn : List Bool := []
  ccIn : List Bool := []
deriving Repr

def HTs.ltb (a b : HTs) : Bool := a.p < b.p || (a.p == b.p && a.l < b.l)

/-- all pairs (a, b) of logged events; `recs` carries id and K, `obs` is indexed by id.
    "vector clocks order a before b exactly when a happened before b" is judged twice: on the
    reported vectors (compared by the specification's own componentwise order, absent = 0) and on
    the implementation's own verdicts `happened_before` / `is_concurrent` -/
def judgePair (ra rb : Rec) (oa ob : Obs) : Option String :=
  let inPast := rb.K.contains ra.id
  let inFuture := ra.K.contains rb.id
  if ra.id == rb.id then none else
  if inPast && !(oa.L < ob.L) then some "clocks/lamport/hb-not-increasing"
  else if inPast && !(HTs.ltb oa.H ob.H) then some "clocks/hlc/hb-not-increasing"
  else if inPast && !(vcHappenedBefore oa.V ob.V) then some "clocks/vector/hb-but-not-less"
  else if !inPast && vcHappenedBefore oa.V ob.V then some "clocks/vector/less-but-not-hb"
  else match ob.hbIn[ra.id]?, ob.ccIn[ra.id]? with
    | some hb, some cc =>
      if inPast && !hb then some "clocks/vector/hb-but-not-ordered"
      else if !inPast && hb then some "clocks/vector/ordered-but-not-hb"
      else if cc != (!inPast && !inFuture) then some "clocks/vector/concurrent-iff-unrelated"
      else none
    | _, _ => some "clocks/missing-observation"

def judgeClocks (recs : List Rec) (obs : Nat → Option Obs) : Option String :=
  recs.findSome? fun ra => recs.findSome? fun rb =>
    match obs ra.id, obs rb.id with
    | some oa, some ob => judgePair ra rb oa ob
    | _, _ => some "clocks/missing-observation"

/-! ### CRDT specification -/

structure OpRec where
  id : Nat
  op : COp
  K : List Nat        -- what the replica had seen when it performed the operation
deriving Repr

structure SpecSys where
  cnt : Nat := 0
  know : Nat → List Nat := fun _ => []
  recs : List OpRec := []

def SpecSys.local (s : SpecSys) (r : Nat) (op : COp) : SpecSys :=
  { cnt := s.cnt + 1, know := upd s.know r (s.cnt :: s.know r),
    recs := ⟨s.cnt, op, s.know r⟩ :: s.recs }

def SpecSys.step (s : SpecSys) : COp → SpecSys
  | .inc r k => if k = 0 then s else s.local r (.inc r k)
  | .dec r k => if k = 0 then s else s.local r (.dec r k)
  | .lset r v p l nd => s.local r (.lset r v p l nd)
  | .oadd r x => s.local r (.oadd r x)
  | .orem r x => s.local r (.orem r x)
  | .merge d sr => { s with know := upd s.know d (kunion (s.know d) (s.know sr)) }

def SpecSys.run (s : SpecSys) : List COp → SpecSys
  | [] => s
  | o :: os => SpecSys.run (s.step o) os

/-- specified counter value at replica r -/
def SpecSys.counter (s : SpecSys) (r : Nat) : Int :=
  s.recs.foldl (fun acc rc =>
    if (s.know r).contains rc.id then
      match rc.op with
      | .inc _ k => acc + k
      | .dec _ k => acc - k
      | _ => acc
    else acc) 0

/-- the seen writes of the register at replica r -/
def SpecSys.writes (s : SpecSys) (r : Nat) : List (Ts × Nat) :=
  s.recs.filterMap fun rc =>
    if (s.know r).contains rc.id then
      match rc.op with
      | .lset _ v p l nd => some (⟨p, l, nd⟩, v)
      | _ => none
    else none

/-- is (t, v) a seen write that no seen write beats? -/
def SpecSys.lwwOk (s : SpecSys) (r : Nat) (o : Option (Ts × Nat)) : Bool :=
  match o with
  | none => (s.writes r).isEmpty
  | some (t, v) => (s.writes r).contains (t, v) && (s.writes r).all fun w => !Ts.lt t w.1

/-- specified OR-set membership at replica r -/
def SpecSys.orHas (s : SpecSys) (r x : Nat) : Bool :=
  s.recs.any fun a =>
    match a.op with
    | .oadd _ y =>
      y == x && (s.know r).contains a.id &&
        s.recs.all fun d =>
          match d.op with
          | .orem _ z => !(z == x && (s.know r).contains d.id && d.K.contains a.id)
          | _ => true
    | _ => false

end HappyModel.C18
