import HappyModel.Proto
import HappyModel.C18.Spec
/-! Line-protocol driver for C18 (see `hv/props/c18.py` for the other side). -/
namespace HappyModel.C18.Driver
open HappyModel.Proto HappyModel.C18

def parseEv (ts : List String) : Option Ev :=
  match ts with
  | ["loc", n, pt] => some (.loc (natD n) (natD pt))
  | ["send", n, m, pt] => some (.send (natD n) (natD m) (natD pt))
  | ["recv", n, m, pt] => some (.recv (natD n) (natD m) (natD pt))
  | _ => none

def vecOut (v : Vec) (n : Nat) : String := showNats ((List.range n).map (Vec.get v))

def recLine (r : Rec) (n : Nat) : String :=
  s!"e {r.id} {r.node} {r.L} {vecOut r.V n} {r.H.p} {r.H.l}"

/-- happened_before bits of every logged event against event `b` -/
def hbLine (log : List Rec) (b : Rec) : String :=
  s!"hb {b.id} " ++ String.join (log.map fun a => showBool (vcHappenedBefore a.V b.V))

def runClocks (n : Nat) (body : List String) : List String :=
  let evs := body.filterMap (fun l => parseEv (toks l))
  let s := run {} evs
  let log := s.log.reverse
  log.map (recLine · n) ++ log.map (hbLine log)

def parseObs (n : Nat) (ts : List String) : Option (Nat × Obs) :=
  match ts with
  | "obs" :: id :: l :: rest =>
    if rest.length == n + 2 then
      let v := nats (rest.take n)
      let h := nats (rest.drop n)
      some (natD id, ⟨natD l, v, ⟨h.getD 0 0, h.getD 1 0⟩⟩)
    else none
  | _ => none

def judgeClocksBlock (n : Nat) (body : List String) : List String :=
  let evs := body.filterMap (fun l => parseEv (toks l))
  let obsL := body.filterMap (fun l => parseObs n (toks l))
  let s := run {} evs
  let obs : Nat → Option Obs := fun i => (obsL.find? (·.1 == i)).map (·.2)
  match judgeClocks s.log.reverse obs with
  | none => ["ok"]
  | some sig => [s!"viol {sig}"]

def parseOp (ts : List String) : Option COp :=
  match ts with
  | ["inc", r, k] => some (.inc (natD r) (natD k))
  | ["dec", r, k] => some (.dec (natD r) (natD k))
  | ["lset", r, v, p, l, nd] => some (.lset (natD r) (natD v) (natD p) (natD l) (natD nd))
  | ["oadd", r, x] => some (.oadd (natD r) (natD x))
  | ["orem", r, x] => some (.orem (natD r) (natD x))
  | ["merge", d, s] => some (.merge (natD d) (natD s))
  | _ => none

def COp.target : COp → Nat
  | .inc r _ | .dec r _ | .lset r _ _ _ _ | .oadd r _ | .orem r _ | .merge r _ => r

def sortNat (l : List Nat) : List Nat := l.mergeSort (· ≤ ·)

def tagKey (t : Tag) : Nat := t.node * 1000000 + t.seq

def elemsOf (s : ORSet) : List Nat := (sortNat (s.ents.map (·.1))).eraseDups

def lwwOut (r : LWW) : String :=
  match r.cur with
  | none => "none"
  | some (t, v) => s!"{t.p} {t.l} {t.node} {v}"

def repLine (r : Nat) (x : Rep) (n : Nat) : String :=
  let live := sortNat (x.os.ents.map fun e => e.1 * 1000000000 + tagKey e.2)
  let dead := sortNat (x.os.tomb.map tagKey)
  s!"r {r} pn {x.pn.value} P {vecOut x.pn.p n} N {vecOut x.pn.n n} | lww {lwwOut x.lww} | os E {showNats (elemsOf x.os)} T {showNats live} D {showNats dead}"

def runCrdt (n : Nat) (body : List String) : List String :=
  let ops := body.filterMap (fun l => parseOp (toks l))
  let rec go (s : Sys) : List COp → List String
    | [] => []
    | o :: os =>
      let s' := s.step o
      repLine (COp.target o) (s'.rep (COp.target o)) n :: go s' os
  go Sys.init ops

/-- observation after an op: `obs <value> lww <none | p l nd v> E <elements…>` -/
structure CObs where
  value : Int
  lww : Option (Ts × Nat)
  elems : List Nat

def parseCObs (ts : List String) : Option CObs :=
  match ts with
  | "obs" :: v :: "lww" :: rest =>
    match rest with
    | "none" :: "E" :: es => some ⟨intD v, none, nats es⟩
    | p :: l :: nd :: w :: "E" :: es => some ⟨intD v, some (⟨natD p, natD l, natD nd⟩, natD w), nats es⟩
    | _ => none
  | _ => none

/-- the elements that may be mentioned: everything ever added or observed -/
def mentioned (ops : List COp) (o : CObs) : List Nat :=
  (ops.filterMap fun | .oadd _ x => some x | .orem _ x => some x | _ => none) ++ o.elems

def judgeOne (sp : SpecSys) (r : Nat) (o : CObs) (ops : List COp) : Option String :=
  if sp.counter r != o.value then some "crdt/counter/value-not-inc-minus-dec"
  else if !sp.lwwOk r o.lww then some "crdt/lww/not-greatest-timestamp"
  else
    match (mentioned ops o).find? (fun x => sp.orHas r x != o.elems.contains x) with
    | some x => if o.elems.contains x then some "crdt/orset/present-but-all-adds-removed"
                else some "crdt/orset/absent-but-unremoved-add"
    | none => none

def judgeCrdtBlock (body : List String) : List String :=
  let rec pairs : List String → List (COp × CObs)
    | a :: b :: rest =>
      match parseOp (toks a), parseCObs (toks b) with
      | some o, some c => (o, c) :: pairs rest
      | _, _ => pairs rest
    | _ => []
  let ps := pairs body
  let ops := ps.map (·.1)
  let rec go (sp : SpecSys) (i : Nat) : List (COp × CObs) → List String
    | [] => ["ok"]
    | (o, c) :: rest =>
      let sp' := sp.step o
      match judgeOne sp' (COp.target o) c ops with
      | some sig => [s!"viol {sig} at-op {i}"]
      | none => go sp' (i + 1) rest
  if ps.length * 2 != body.length then ["viol crdt/malformed-judge-input"] else go {} 0 ps

def handle (hdr : List String) (body : List String) : List String :=
  match hdr with
  | ["clocks", n] => runClocks (natD n) body
  | ["judge-clocks", n] => judgeClocksBlock (natD n) body
  | ["crdt", n] => runCrdt (natD n) body
  | ["judge-crdt"] => judgeCrdtBlock body
  | _ => ["bad-mode"]

end HappyModel.C18.Driver
