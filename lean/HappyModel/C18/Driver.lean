import HappyModel.Proto
import HappyModel.C18.Spec
import HappyModel.C18.StoreTrace
import HappyModel.C18.KClock
/-! Line-protocol driver for C18 (see `hv/props/c18.py` for the other side). -/
namespace HappyModel.C18.Driver
open HappyModel.Proto HappyModel.C18

def parseEv (ts : List String) : Option Ev :=
  match ts with
  | ["loc", n, pt] => some (.loc (natD n) (natD pt))
  | ["send", n, m, pt] => some (.send (natD n) (natD m) (natD pt))
  | ["recv", n, m, pt] => some (.recv (natD n) (natD m) (natD pt))
  | _ => none

def vecOut (v : Vec) (n : Nat) : String := showNats ((List.range n).map (Vec.get v))

def recLine (r : Rec) (n : Nat) : String :=
  s!"e {r.id} {r.node} {r.L} {vecOut r.V n} {r.H.p} {r.H.l}"

/-- happened_before bits of every logged event against event `b` -/
def hbLine (log : List Rec) (b : Rec) : String :=
  s!"hb {b.id} " ++ String.join (log.map fun a => showBool (vcHappenedBefore a.V b.V))

/-- `mem i ids…`: the node ids node i's clock was constructed with (default: all n nodes) -/
def parseMem (n : Nat) (body : List String) : List (List Nat) :=
  (List.range n).map fun i =>
    match body.find? (fun l => match toks l with | "mem" :: t :: _ => natD t == i | _ => false) with
    | some l => nats ((toks l).drop 2)
    | none => List.range n

def kvecOut (v : KVec) (n : Nat) : String := showNats ((List.range n).map v.get)

/-- the vector clocks are the dict clocks of `KClock.lean` (key sets as constructed / grown);
    Lamport and HLC come from `run` -/
def runClocks (n : Nat) (body : List String) : List String :=
  let evs := body.filterMap (fun l => parseEv (toks l))
  let mem := parseMem n body
  let s := run {} evs
  let k := krun (KSt.init fun i => mem.getD i []) evs
  let log := s.log.reverse
  let klog := k.log.reverse
  (log.zip klog).map (fun (r, kv) => s!"e {r.id} {r.node} {r.L} {kvecOut kv n} {r.H.p} {r.H.l}") ++
  (log.zip klog).map (fun (b, kb) =>
    s!"hb {b.id} " ++ String.join (klog.map fun ka => showBool (ka.happenedBefore kb))) ++
  (log.zip klog).map (fun (b, kb) =>
    s!"cc {b.id} " ++ String.join (klog.map fun ka => showBool (ka.concurrent kb)))

def parseObs (n : Nat) (ts : List String) : Option (Nat × Obs) :=
  match ts with
  | "obs" :: id :: l :: rest =>
    if rest.length == n + 2 then
      let v := nats (rest.take n)
      let h := nats (rest.drop n)
      some (natD id, ⟨natD l, v, ⟨h.getD 0 0, h.getD 1 0⟩, [], []⟩)
    else none
  | _ => none

def bitsOf (s : String) : List Bool := s.toList.map (· == '1')

/-- `hbo b bits` / `cco b bits`: the implementation's own comparison verdicts for event `b` -/
def parseBits (tag : String) (ts : List String) : Option (Nat × List Bool) :=
  match ts with
  | [t, id, bits] => if t == tag then some (natD id, bitsOf bits) else none
  | [t, id] => if t == tag then some (natD id, []) else none
  | _ => none

def judgeClocksBlock (n : Nat) (body : List String) : List String :=
  let evs := body.filterMap (fun l => parseEv (toks l))
  let obsL := body.filterMap (fun l => parseObs n (toks l))
  let hbL := body.filterMap (fun l => parseBits "hbo" (toks l))
  let ccL := body.filterMap (fun l => parseBits "cco" (toks l))
  let s := run {} evs
  let obs : Nat → Option Obs := fun i =>
    (obsL.find? (·.1 == i)).map fun o =>
      { o.2 with hbIn := ((hbL.find? (·.1 == i)).map (·.2)).getD [],
                 ccIn := ((ccL.find? (·.1 == i)).map (·.2)).getD [] }
  match judgeClocks s.log.reverse obs with
  | none => ["ok"]
  | some sig => [s!"viol {sig}"]

def parseOp (ts : List String) : Option COp :=
  match ts with
  | ["inc", r, k] => some (.inc (natD r) (natD k))
  | ["dec", r, k] => some (.dec (natD r) (natD k))
  | ["lset", r, v, p, l, nd] => some (.lset (natD r) (natD v) (natD p) (natD l) (natD nd))
  | ["oadd", r, x] => some (.oadd (natD r) (natD x))
  | ["orem", r, x] => some (.orem (natD r) (natD x))
  | ["merge", d, s] => some (.merge (natD d) (natD s))
  | _ => none

def COp.target : COp → Nat
  | .inc r _ | .dec r _ | .lset r _ _ _ _ | .oadd r _ | .orem r _ | .merge r _ => r


def tagKey (t : Tag) : Nat := t.node * 1000000 + t.seq


def lwwOut (r : LWW) : String :=
  match r.cur with
  | none => "none"
  | some (t, v) => s!"{t.p} {t.l} {t.node} {v}"

def repLine (r : Nat) (x : Rep) (n : Nat) : String :=
  let live := sortNat (x.os.ents.map fun e => e.1 * 1000000000 + tagKey e.2)
  let dead := sortNat (x.os.tomb.map tagKey)
  s!"r {r} pn {x.pn.value} P {vecOut x.pn.p n} N {vecOut x.pn.n n} | lww {lwwOut x.lww} | os E {showNats (elemsOf x.os)} T {showNats live} D {showNats dead}"

def runCrdt (n : Nat) (body : List String) : List String :=
  let ops := body.filterMap (fun l => parseOp (toks l))
  let rec go (s : Sys) : List COp → List String
    | [] => []
    | o :: os =>
      let s' := s.step o
      repLine (COp.target o) (s'.rep (COp.target o)) n :: go s' os
  go Sys.init ops

/-- observation after an op: `obs <value> lww <none | p l nd v> E <elements…>` -/
structure CObs where
  value : Int
  lww : Option (Ts × Nat)
  elems : List Nat

def parseCObs (ts : List String) : Option CObs :=
  match ts with
  | "obs" :: v :: "lww" :: rest =>
    match rest with
    | "none" :: "E" :: es => some ⟨intD v, none, nats es⟩
    | p :: l :: nd :: w :: "E" :: es => some ⟨intD v, some (⟨natD p, natD l, natD nd⟩, natD w), nats es⟩
    | _ => none
  | _ => none

/-- the elements that may be mentioned: everything ever added or observed -/
def mentioned (ops : List COp) (o : CObs) : List Nat :=
  (ops.filterMap fun | .oadd _ x => some x | .orem _ x => some x | _ => none) ++ o.elems

def judgeOne (sp : SpecSys) (r : Nat) (o : CObs) (ops : List COp) : Option String :=
  if sp.counter r != o.value then some "crdt/counter/value-not-inc-minus-dec"
  else if !sp.lwwOk r o.lww then some "crdt/lww/not-greatest-timestamp"
  else
    match (mentioned ops o).find? (fun x => sp.orHas r x != o.elems.contains x) with
    | some x => if o.elems.contains x then some "crdt/orset/present-but-all-adds-removed"
                else some "crdt/orset/absent-but-unremoved-add"
    | none => none

def judgeCrdtBlock (body : List String) : List String :=
  let rec pairs : List String → List (COp × CObs)
    | a :: b :: rest =>
      match parseOp (toks a), parseCObs (toks b) with
      | some o, some c => (o, c) :: pairs rest
      | _, _ => pairs rest
    | _ => []
  let ps := pairs body
  let ops := ps.map (·.1)
  let rec go (sp : SpecSys) (i : Nat) : List (COp × CObs) → List String
    | [] => ["ok"]
    | (o, c) :: rest =>
      let sp' := sp.step o
      match judgeOne sp' (COp.target o) c ops with
      | some sig => [s!"viol {sig} at-op {i}"]
      | none => go sp' (i + 1) rest
  if ps.length * 2 != body.length then ["viol crdt/malformed-judge-input"] else go {} 0 ps

/-! ### CRDTStore replicas -/

def parseKind (k : String) : Kind :=
  if k == "g" then .g else if k == "pn" then .pn else if k == "or" then .os else .lww

def parseStep (ts : List String) : Option SStep :=
  match ts with
  | ["w", s, key, op, v] =>
    let a := if v == "None" then 1 else natD v
    if op == "inc" then some (.w (natD s) (natD key) (.inc a))
    else if op == "dec" then some (.w (natD s) (natD key) (.dec a))
    else if op == "add" then some (.w (natD s) (natD key) (.add a))
    else if op == "rem" then some (.w (natD s) (natD key) (.rem a))
    else none
  | ["lset", s, key, v, p, l, nd] =>
    some (.w (natD s) (natD key) (.lset (natD v) (natD p) (natD l) (natD nd)))
  | ["tick", s, j] => some (.tick (natD s) (natD j))
  | ["round", s, j] => some (.round (natD s) (natD j))
  | ["dl", m] => some (.dl (natD m))
  | _ => none

def parsePeers (n : Nat) (body : List String) : List (List Nat) :=
  (List.range n).map fun s =>
    match body.find? (fun l => match toks l with | "peers" :: t :: _ => natD t == s | _ => false) with
    | some l => nats ((toks l).drop 2)
    | none => []

def msgLine (id : Nat) (m : Msg) : String :=
  let ks := sortNat (m.keys.map (·.1))
  let base := s!"m {id} {if m.push then "push" else "resp"} {m.src} {m.dst}"
  if ks.isEmpty then base else s!"{base} {showNats ks}"

def keyLine (kind : Kind) (n st key nid : Nat) (x : Rep) : String :=
  let head := s!"s {st} {key} nid {nid}"
  match kind with
  | .g => s!"{head} v {x.pn.value} P {vecOut x.pn.p n} X"
  | .pn => s!"{head} v {x.pn.value} P {vecOut x.pn.p n} N {vecOut x.pn.n n} X"
  | .lww => s!"{head} lww {lwwOut x.lww}"
  | .os =>
    let live := sortNat (x.os.ents.map fun e => e.1 * 1000000000 + tagKey e.2)
    let dead := sortNat (x.os.tomb.map tagKey)
    s!"{head} q {x.os.seq} E {showNats (elemsOf x.os)} T {showNats live} D {showNats dead}"

def storeLines (kind : Kind) (n : Nat) (st : SSt) (tag : String) (a : Nat) : List String :=
  ((st.p.keysOf a).mergeSort (fun x y => x.1 ≤ y.1)).map fun kn =>
    tag ++ (keyLine kind n a kn.1 kn.2 ((sysAt st.sys kn.1).rep a)).drop 1

def runStore (v : Variant) (kind : Kind) (n : Nat) (body : List String) : List String :=
  let steps := body.filterMap (fun l => parseStep (toks l))
  let rec go (st : SSt) (i : Nat) : List SStep → List String
    | [] => (List.range n).flatMap fun a => storeLines kind n st "f" a
    | x :: xs =>
      let acting := st.p.acting x
      let st' := st.step v kind x
      let created := (st'.p.msgs.drop st.p.msgs.length).zipIdx.map
        fun (m, j) => msgLine (st.p.msgs.length + j) m
      let head := match acting with | some a => s!"t {i} {a}" | none => s!"t {i} -"
      let keys := (st.p.actors x).flatMap fun a => storeLines kind n st' "s" a
      head :: created ++ keys ++ go st' (i + 1) xs
  go (SSt.init n (parsePeers n body)) 0 steps

def parseMsgObs (ts : List String) : Option MsgObs :=
  match ts with
  | "m" :: id :: _ :: src :: dst :: keys => some ⟨natD id, natD src, natD dst, nats keys⟩
  | _ => none

def parseKObs (tag : String) (ts : List String) : Option (Nat × Nat × KObs) :=
  match ts with
  | t :: st :: key :: "v" :: v :: _ => if t == tag then some (natD st, natD key, { value := intD v }) else none
  | [t, st, key, "lww", "none"] => if t == tag then some (natD st, natD key, {}) else none
  | [t, st, key, "lww", p, l, nd, w] =>
    if t == tag then some (natD st, natD key, { lww := some (⟨natD p, natD l, natD nd⟩, natD w) }) else none
  | t :: st :: key :: "E" :: es => if t == tag then some (natD st, natD key, { elems := nats es }) else none
  | _ => none

/-- group the body: a step line opens a record, `m` / `obs` lines belong to the last step -/
def groupSteps (body : List String) : List StepObs :=
  let rec go (acc : List StepObs) : List String → List StepObs
    | [] => acc.reverse
    | l :: rest =>
      let ts := toks l
      match parseStep ts with
      | some st => go ({ step := st } :: acc) rest
      | none =>
        match acc with
        | [] => go acc rest
        | so :: more =>
          match parseMsgObs ts, parseKObs "obs" ts with
          | some mo, _ => go ({ so with created := so.created ++ [mo] } :: more) rest
          | none, some ko => go ({ so with obs := so.obs ++ [ko] } :: more) rest
          | none, none => go acc rest
  go [] body

def judgeStoreBlock (kind : Kind) (n nkeys : Nat) (body : List String) : List String :=
  let fin := body.filterMap fun l => parseKObs "fin" (toks l)
  match judgeStore kind n nkeys (parsePeers n body) (groupSteps body) fin with
  | none => ["ok"]
  | some sig => [s!"viol {sig}"]

def handle (hdr : List String) (body : List String) : List String :=
  match hdr with
  | ["clocks", n] => runClocks (natD n) body
  | ["judge-clocks", n] => judgeClocksBlock (natD n) body
  | ["crdt", n] => runCrdt (natD n) body
  | ["judge-crdt"] => judgeCrdtBlock body
  | ["store", v, kind, n] =>
    runStore (if v == "current" then .current else .repaired) (parseKind kind) (natD n) body
  | ["judge-store", kind, n, nkeys] => judgeStoreBlock (parseKind kind) (natD n) (natD nkeys) body
  | _ => ["bad-mode"]

end HappyModel.C18.Driver
