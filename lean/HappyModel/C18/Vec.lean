/-!
Integer vectors indexed by node number, as plain lists (missing index = 0).
Used for vector clocks (`VectorClock._vector`) and G-counters (`GCounter._counts`):
Python dictionaries keyed by node id whose absent keys read as 0.
-/
namespace HappyModel.C18

abbrev Vec := List Nat

namespace Vec

def get (v : Vec) (i : Nat) : Nat := v.getD i 0

/-- pointwise maximum, padding the shorter list (dict merge with `max(get(k,0), …)`) -/
def vmax : Vec → Vec → Vec
  | [], ys => ys
  | xs, [] => xs
  | x :: xs, y :: ys => max x y :: vmax xs ys

/-- add `d` at index `i`, padding with zeros -/
def addAt : Vec → Nat → Nat → Vec
  | [], 0, d => [d]
  | [], i+1, d => 0 :: addAt [] i d
  | x :: xs, 0, d => (x + d) :: xs
  | x :: xs, i+1, d => x :: addAt xs i d

def sum (v : Vec) : Nat := v.foldl (· + ·) 0

/-- pointwise ≤ (absent = 0) -/
def le : Vec → Vec → Bool
  | [], _ => true
  | x :: xs, [] => x == 0 && le xs []
  | x :: xs, y :: ys => decide (x ≤ y) && le xs ys

@[simp] theorem get_nil (i : Nat) : get [] i = 0 := by simp [get]
@[simp] theorem get_cons_zero (x : Nat) (xs : Vec) : get (x :: xs) 0 = x := by simp [get]
@[simp] theorem get_cons_succ (x : Nat) (xs : Vec) (i : Nat) : get (x :: xs) (i+1) = get xs i := by
  simp [get]

theorem get_vmax (a b : Vec) (i : Nat) : get (vmax a b) i = max (get a i) (get b i) := by
  induction a generalizing b i with
  | nil => simp [vmax]
  | cons x xs ih =>
    cases b with
    | nil => simp [vmax]
    | cons y ys =>
      cases i with
      | zero => simp [vmax]
      | succ i => simp [vmax, ih]

theorem get_addAt_self (v : Vec) (i d : Nat) : get (addAt v i d) i = get v i + d := by
  induction v generalizing i with
  | nil =>
    induction i with
    | zero => simp [addAt]
    | succ i ih => simp [addAt, ih]
  | cons x xs ih =>
    cases i with
    | zero => simp [addAt]
    | succ i => simp [addAt, ih]

theorem get_addAt_other (v : Vec) (i j d : Nat) (h : j ≠ i) : get (addAt v i d) j = get v j := by
  induction v generalizing i j with
  | nil =>
    induction i generalizing j with
    | zero => cases j with
      | zero => exact absurd rfl h
      | succ j => simp [addAt]
    | succ i ih =>
      cases j with
      | zero => simp [addAt]
      | succ j => simp [addAt]; exact ih j (by omega)
  | cons x xs ih =>
    cases i with
    | zero => cases j with
      | zero => exact absurd rfl h
      | succ j => simp [addAt]
    | succ i =>
      cases j with
      | zero => simp [addAt]
      | succ j => simp [addAt]; exact ih i j (by omega)

theorem le_iff (a b : Vec) : le a b = true ↔ ∀ i, get a i ≤ get b i := by
  induction a generalizing b with
  | nil => simp [le]
  | cons x xs ih =>
    cases b with
    | nil =>
      simp only [le, Bool.and_eq_true, beq_iff_eq, ih, get_nil, Nat.le_zero_eq]
      constructor
      · rintro ⟨h0, h⟩ i
        cases i with
        | zero => simpa using h0
        | succ i => simpa using h i
      · intro h
        exact ⟨by simpa using h 0, fun i => by simpa using h (i+1)⟩
    | cons y ys =>
      simp only [le, Bool.and_eq_true, decide_eq_true_eq, ih]
      constructor
      · rintro ⟨h0, h⟩ i
        cases i with
        | zero => simpa using h0
        | succ i => simpa using h i
      · intro h
        exact ⟨by simpa using h 0, fun i => by simpa using h (i+1)⟩

theorem vmax_comm (a b : Vec) : vmax a b = vmax b a := by
  induction a generalizing b with
  | nil => cases b <;> simp [vmax]
  | cons x xs ih =>
    cases b with
    | nil => simp [vmax]
    | cons y ys => simp [vmax, ih ys, Nat.max_comm]

theorem vmax_assoc (a b c : Vec) : vmax (vmax a b) c = vmax a (vmax b c) := by
  induction a generalizing b c with
  | nil => simp [vmax]
  | cons x xs ih =>
    cases b with
    | nil => simp [vmax]
    | cons y ys =>
      cases c with
      | nil => simp [vmax]
      | cons z zs => simp [vmax, ih, Nat.max_assoc]

theorem vmax_idem (a : Vec) : vmax a a = a := by
  induction a with
  | nil => simp [vmax]
  | cons x xs ih => simp [vmax, ih]

@[simp] theorem vmax_nil_right (a : Vec) : vmax a [] = a := by cases a <;> simp [vmax]
@[simp] theorem vmax_nil_left (a : Vec) : vmax [] a = a := by simp [vmax]

end Vec
end HappyModel.C18
