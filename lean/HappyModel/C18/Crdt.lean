import HappyModel.C18.Clocks
/-!
Models of `happysimulator/components/crdt/`: `GCounter`, `PNCounter`, `LWWRegister`, `ORSet`
(with tombstones, i.e. the code after the `fix:` commit), as pure values with the same
operations as the Python classes, and replica *systems* (`Nat → replica`) driven by operation lists.
Node ids are natural numbers (the harness uses "0".."9", whose string order is the numeric one).
-/
namespace HappyModel.C18

/-! ### G-counter / PN-counter -/

structure PN where
  p : Vec := []
  n : Vec := []
deriving Repr, DecidableEq

def PN.value (c : PN) : Int := (Vec.sum c.p : Int) - (Vec.sum c.n : Int)
def PN.merge (a b : PN) : PN := ⟨Vec.vmax a.p b.p, Vec.vmax a.n b.n⟩
def PN.inc (c : PN) (node k : Nat) : PN := { c with p := Vec.addAt c.p node k }
def PN.dec (c : PN) (node k : Nat) : PN := { c with n := Vec.addAt c.n node k }

/-! ### LWW register -/

structure Ts where
  p : Nat
  l : Nat
  node : Nat
deriving Repr, DecidableEq

/-- `HLCTimestamp.__lt__`: lexicographic on (physical_ns, logical, node_id) -/
def Ts.lt (a b : Ts) : Bool :=
  a.p < b.p || (a.p == b.p && (a.l < b.l || (a.l == b.l && a.node < b.node)))

structure LWW where
  cur : Option (Ts × Nat) := none
deriving Repr, DecidableEq

/-- `LWWRegister.set` -/
def LWW.set (r : LWW) (v : Nat) (t : Ts) : LWW :=
  match r.cur with
  | none => ⟨some (t, v)⟩
  | some (t0, _) => if Ts.lt t0 t then ⟨some (t, v)⟩ else r

/-- `LWWRegister.merge` -/
def LWW.merge (a b : LWW) : LWW :=
  match b.cur with
  | none => a
  | some (t, v) => a.set v t

/-! ### OR-set with tombstones -/

structure Tag where
  node : Nat
  seq : Nat
deriving Repr, DecidableEq

def lunion {α} [DecidableEq α] (a b : List α) : List α := a ++ b.filter (fun x => !a.contains x)

theorem mem_lunion {α} [DecidableEq α] (a b : List α) (x : α) : x ∈ lunion a b ↔ x ∈ a ∨ x ∈ b := by
  unfold lunion
  simp only [List.mem_append, List.mem_filter, List.contains_eq_mem, Bool.not_eq_true',
    decide_eq_false_iff_not]
  constructor
  · rintro (h | ⟨h, _⟩)
    · exact Or.inl h
    · exact Or.inr h
  · rintro (h | h)
    · exact Or.inl h
    · by_cases hx : x ∈ a
      · exact Or.inl hx
      · exact Or.inr ⟨h, hx⟩

structure ORSet where
  seq : Nat := 0
  ents : List (Nat × Tag) := []     -- live (element, tag) pairs
  tomb : List Tag := []             -- tags observed by a remove
deriving Repr, DecidableEq

/-- `ORSet.add` at replica `node` -/
def ORSet.add (s : ORSet) (node x : Nat) : ORSet :=
  { s with seq := s.seq + 1, ents := lunion s.ents [(x, ⟨node, s.seq⟩)] }

/-- `ORSet.remove` -/
def ORSet.remove (s : ORSet) (x : Nat) : ORSet :=
  { s with tomb := lunion s.tomb ((s.ents.filter (fun e => e.1 == x)).map (·.2)),
           ents := s.ents.filter (fun e => !(e.1 == x)) }

/-- `ORSet.merge` -/
def ORSet.merge (a b : ORSet) : ORSet :=
  let tomb := lunion a.tomb b.tomb
  { a with tomb := tomb, ents := (lunion a.ents b.ents).filter (fun e => !tomb.contains e.2) }

def ORSet.has (s : ORSet) (x : Nat) : Bool := s.ents.any (fun e => e.1 == x)

/-! ### Replica systems -/

inductive COp
  | inc (r k : Nat)              -- PNCounter.increment(k) at replica r (k ≥ 1)
  | dec (r k : Nat)
  | lset (r v p l nd : Nat)      -- LWWRegister.set(v, HLCTimestamp(p, l, nd)) at replica r
  | oadd (r x : Nat)
  | orem (r x : Nat)
  | merge (dst src : Nat)        -- dst.merge(src) for all three CRDTs of the replicas
deriving Repr, DecidableEq

structure Rep where
  pn : PN := {}
  lww : LWW := {}
  os : ORSet := {}
deriving Repr, DecidableEq

/-- replicas by index; a structure (not a bare function) so that a step is evaluated once, when it
    is taken, and not again at every lookup -/
structure Sys where
  rep : Nat → Rep := fun _ => {}

@[noinline] def Sys.set (s : Sys) (r : Nat) (x : Rep) : Sys := ⟨upd s.rep r x⟩

def Sys.step (s : Sys) : COp → Sys
  | .inc r k => if k = 0 then s else s.set r { s.rep r with pn := (s.rep r).pn.inc r k }
  | .dec r k => if k = 0 then s else s.set r { s.rep r with pn := (s.rep r).pn.dec r k }
  | .lset r v p l nd => s.set r { s.rep r with lww := (s.rep r).lww.set v ⟨p, l, nd⟩ }
  | .oadd r x => s.set r { s.rep r with os := (s.rep r).os.add r x }
  | .orem r x => s.set r { s.rep r with os := (s.rep r).os.remove x }
  | .merge d sr =>
    s.set d { pn := (s.rep d).pn.merge (s.rep sr).pn, lww := (s.rep d).lww.merge (s.rep sr).lww,
              os := (s.rep d).os.merge (s.rep sr).os }

def Sys.run (s : Sys) : List COp → Sys
  | [] => s
  | o :: os => Sys.run (s.step o) os

def Sys.init : Sys := {}

end HappyModel.C18
