import HappyModel.C18.Vec
/-!
Model of `happysimulator/core/logical_clocks.py`: `LamportClock`, `VectorClock`,
`HybridLogicalClock`, driven by one history of events

    loc n pt    node n has a local event         (tick / tick / now)
    send n m pt node n sends message m           (send / send / send)
    recv n m pt node n receives message m        (receive ×3)

`pt` is the physical-clock reading the HLC sees at that event: an arbitrary
input (skew, drift, jumps backwards are all just "some natural number").
Every event is logged with the three timestamps taken right after it and with
its causal past `K` (ids of all events that happened before it, and itself) —
`K` is the *specification* side: Lamport's happened-before relation, computed
independently of any clock value.
-/
namespace HappyModel.C18

inductive Ev
  | loc (n pt : Nat)
  | send (n m pt : Nat)
  | recv (n m pt : Nat)
deriving Repr, DecidableEq

/-- HLC timestamp without the node id (ties between nodes are not causally related) -/
structure HTs where
  p : Nat
  l : Nat
deriving Repr, DecidableEq

def HTs.lt (a b : HTs) : Prop := a.p < b.p ∨ (a.p = b.p ∧ a.l < b.l)
instance (a b : HTs) : Decidable (HTs.lt a b) := by unfold HTs.lt; exact inferInstance

structure Rec where
  id : Nat
  node : Nat
  L : Nat
  V : Vec
  H : HTs
  K : List Nat
deriving Repr

@[noinline] def upd {β} (f : Nat → β) (i : Nat) (x : β) : Nat → β := fun j => if j = i then x else f j
@[simp] theorem upd_same {β} (f : Nat → β) (i : Nat) (x : β) : upd f i x i = x := by simp [upd]
theorem upd_other {β} (f : Nat → β) (i j : Nat) (x : β) (h : j ≠ i) : upd f i x j = f j := by
  simp [upd, h]

/-- set union on id lists without duplicates growth -/
def kunion (a b : List Nat) : List Nat := a ++ b.filter (fun x => !a.contains x)

theorem mem_kunion (a b : List Nat) (x : Nat) : x ∈ kunion a b ↔ x ∈ a ∨ x ∈ b := by
  unfold kunion
  simp only [List.mem_append, List.mem_filter, List.contains_eq_mem, Bool.not_eq_true',
    decide_eq_false_iff_not]
  constructor
  · rintro (h | ⟨h, _⟩)
    · exact Or.inl h
    · exact Or.inr h
  · rintro (h | h)
    · exact Or.inl h
    · by_cases hx : x ∈ a
      · exact Or.inl hx
      · exact Or.inr ⟨h, hx⟩

structure St where
  lam : Nat → Nat := fun _ => 0
  vc : Nat → Vec := fun _ => []
  hlc : Nat → HTs := fun _ => ⟨0, 0⟩
  know : Nat → List Nat := fun _ => []
  cnt : Nat := 0
  nev : Nat → Nat := fun _ => 0            -- events so far per node
  own : Nat → Nat → Nat := fun _ _ => 0    -- (node, k) ↦ id of the k-th event of that node
  mlam : Nat → Nat := fun _ => 0           -- message ↦ Lamport timestamp carried
  mvc : Nat → Vec := fun _ => []           -- message ↦ vector carried
  mhlc : Nat → HTs := fun _ => ⟨0, 0⟩
  mknow : Nat → List Nat := fun _ => []
  msent : Nat → Bool := fun _ => false
  log : List Rec := []                     -- newest first

/-- `HybridLogicalClock.now` -/
def hlcNow (last : HTs) (pt : Nat) : HTs :=
  if pt > last.p then ⟨pt, 0⟩ else ⟨last.p, last.l + 1⟩

/-- `HybridLogicalClock.receive` -/
def hlcRecv (last : HTs) (pt : Nat) (r : HTs) : HTs :=
  let mx := max pt (max last.p r.p)
  if mx = last.p ∧ last.p = r.p then ⟨mx, max last.l r.l + 1⟩
  else if mx = last.p then ⟨mx, last.l + 1⟩
  else if mx = r.p then ⟨mx, r.l + 1⟩
  else ⟨mx, 0⟩

/-- bookkeeping common to all three event kinds: node `n` records a new event whose
    pre-increment vector is `v`, whose past (without itself) is `k`, and whose new Lamport
    and HLC values are `l`, `h` -/
def bump (s : St) (n : Nat) (l : Nat) (v : Vec) (h : HTs) (k : List Nat) : St :=
  let id := s.cnt
  let v' := Vec.addAt v n 1
  let k' := id :: k
  { s with lam := upd s.lam n l, vc := upd s.vc n v', hlc := upd s.hlc n h,
           know := upd s.know n k', cnt := s.cnt + 1,
           nev := upd s.nev n (s.nev n + 1), own := upd s.own n (upd (s.own n) (s.nev n + 1) id),
           log := ⟨id, n, l, v', h, k'⟩ :: s.log }

def step (s : St) : Ev → St
  | .loc n pt => bump s n (s.lam n + 1) (s.vc n) (hlcNow (s.hlc n) pt) (s.know n)
  | .send n m pt =>
    if s.msent m then s else
    let s1 := bump s n (s.lam n + 1) (s.vc n) (hlcNow (s.hlc n) pt) (s.know n)
    { s1 with mlam := upd s1.mlam m (s1.lam n), mvc := upd s1.mvc m (s1.vc n),
              mhlc := upd s1.mhlc m (s1.hlc n), mknow := upd s1.mknow m (s1.know n),
              msent := upd s1.msent m true }
  | .recv n m pt =>
    if s.msent m then
      bump s n (max (s.lam n) (s.mlam m) + 1) (Vec.vmax (s.vc n) (s.mvc m))
        (hlcRecv (s.hlc n) pt (s.mhlc m)) (kunion (s.know n) (s.mknow m))
    else s

def run (s : St) : List Ev → St
  | [] => s
  | e :: es => run (step s e) es

/-- `VectorClock.happened_before` on two snapshots: all ≤ and some < -/
def vcHappenedBefore (a b : Vec) : Bool := Vec.le a b && !Vec.le b a

end HappyModel.C18
