import HappyModel.C18.Spec
import HappyModel.C18.Store
/-!
C18 specification for `CRDTStore` replicas, over *observed* values only.

Input: the script (client writes, gossip ticks, deliveries), the messages the implementation was
seen to hand to the network (id, sender, receiver, keys of the serialised state) and, after every
step, the values the acting store reports for its keys.  Nothing of the store model is used: the
judge keeps, per key, the specification system `SpecSys` of `Spec.lean` in which entity `s < n` is
store `s` and entity `n + m` is message `m`:

* a write is an update operation of its store;
* a message carries what its sender has received when the message is built;
* a delivery gives the receiver everything the message carries — "replicas that have received the
  same updates": *received* means exactly this.

Clauses: the value a store reports for a key is the specified function of the updates it has
received (counter = increments − decrements; OR-set ∋ x ⇔ some received add of x is not observed by
a received remove; register = a received write with a greatest timestamp); a store reports every
key it has received an update for; a gossip message carries every key its sender has received an
update for.

Liveness of gossip (`store/gossip/no-convergence-after-heal-and-rounds`): a script may end in a
phase of *lossless gossip rounds* (`round s j`: store s ticks, its push reaches the peer the tick
chose, the peer's answer — owed when it lists s as a peer — reaches s; nothing is lost, nobody
writes).  What each round owes is known from the script and the peer lists alone: s's state flows to
the peer, and back if an answer is owed.  If these owed flows, in order, carry every store's state
to every store (`reachB`), then at the end every store must report, for every key, the specified
value of *all* updates any store had received when the phase began — in particular all stores are
equal.
-/
namespace HappyModel.C18

structure MsgObs where
  id : Nat
  src : Nat
  dst : Nat
  keys : List Nat
deriving Repr

/-- what a store reports for one key: `value` for counters, `lww` for the register (timestamp and
    value, `none` = never written), `elems` for the OR-set -/
structure KObs where
  value : Int := 0
  lww : Option (Ts × Nat) := none
  elems : List Nat := []
deriving Repr

structure StepObs where
  step : SStep
  created : List MsgObs := []
  obs : List (Nat × Nat × KObs) := []      -- (store, key, what the store reports)
deriving Repr

def smod : List SpecSys → Nat → (SpecSys → SpecSys) → List SpecSys
  | [], 0, f => [f {}]
  | [], k+1, f => ({} : SpecSys) :: smod [] k f
  | x :: xs, 0, f => f x :: xs
  | x :: xs, k+1, f => x :: smod xs k f

def specAt (l : List SpecSys) (k : Nat) : SpecSys := l.getD k {}

/-- the update operation a client write is, by CRDT type (`none`: not an operation of that type) -/
def specOp (kind : Kind) (s : Nat) : WOp → Option COp
  | .inc k => if kind = .g ∨ kind = .pn then some (.inc s k) else none
  | .dec k => if kind = .pn then some (.dec s k) else none
  | .add x => if kind = .os then some (.oadd s x) else none
  | .rem x => if kind = .os then some (.orem s x) else none
  | .lset v p l nd => if kind = .lww then some (.lset s v p l nd) else none

structure JSt where
  spec : List SpecSys := []
  msgs : List MsgObs := []

def JSt.mergeAll (j : JSt) (d sr : Nat) (keys : List Nat) : JSt :=
  { j with spec := keys.foldl (fun sp k => smod sp k (·.step (.merge d sr))) j.spec }

/-- the effect of the step itself on what every entity has received -/
def JSt.apply (kind : Kind) (n : Nat) (j : JSt) : SStep → JSt
  | .w s key op =>
    match specOp kind s op with
    | some o => { j with spec := smod j.spec key (·.step o) }
    | none => j
  | .tick _ _ => j
  | .round _ _ => j        -- what a round delivers is taken from the messages seen (`judgeStep`)
  | .dl m =>
    match j.msgs.find? (·.id == m) with
    | some mo => j.mergeAll mo.dst (n + m) mo.keys
    | none => j

/-- a message handed to the network carries what its sender has received so far -/
def JSt.register (n : Nat) (j : JSt) (mo : MsgObs) : JSt :=
  { (j.mergeAll (n + mo.id) mo.src mo.keys) with msgs := j.msgs ++ [mo] }

def actingOf (j : JSt) : SStep → Option Nat
  | .w s _ _ => some s
  | .tick s _ => some s
  | .round s _ => some s
  | .dl m => (j.msgs.find? (·.id == m)).map (·.dst)

def isRound : SStep → Bool
  | .round _ _ => true
  | _ => false

/-- in a lossless round every message handed to the network is delivered at once -/
def JSt.registerDeliver (n : Nat) (j : JSt) (mo : MsgObs) : JSt :=
  (j.register n mo).mergeAll mo.dst (n + mo.id) mo.keys

def judgeValue (kind : Kind) (sp : SpecSys) (r : Nat) (o : KObs) (elemsMentioned : List Nat) :
    Option String :=
  match kind with
  | .g | .pn =>
    if sp.counter r != o.value then some "store/counter/value-not-inc-minus-dec" else none
  | .lww => if !sp.lwwOk r o.lww then some "store/lww/not-greatest-timestamp" else none
  | .os =>
    match (elemsMentioned ++ o.elems).find? (fun x => sp.orHas r x != o.elems.contains x) with
    | some x => if o.elems.contains x then some "store/orset/present-but-all-adds-removed"
                else some "store/orset/absent-but-unremoved-add"
    | none => none

def elemsOfSteps (steps : List StepObs) : List Nat :=
  steps.filterMap fun so =>
    match so.step with
    | .w _ _ (.add x) => some x
    | .w _ _ (.rem x) => some x
    | _ => none

/-- what every entity has received after the step, from the step and the messages seen -/
def JSt.advance (kind : Kind) (n : Nat) (j : JSt) (so : StepObs) : JSt :=
  if isRound so.step then so.created.foldl (JSt.registerDeliver n) (j.apply kind n so.step)
  else so.created.foldl (JSt.register n) (j.apply kind n so.step)

/-- judge one step; `j` is the state before it -/
def judgeStep (kind : Kind) (n nkeys : Nat) (mentioned : List Nat) (j : JSt) (so : StepObs) :
    JSt × Option String :=
  let acting := actingOf j so.step
  let j1 := j.apply kind n so.step
  -- messages built in this step
  let incomplete := so.created.find? fun mo =>
    (List.range nkeys).any fun k => !((specAt j1.spec k).know mo.src).isEmpty && !mo.keys.contains k
  let j2 := j.advance kind n so
  match incomplete with
  | some mo => (j2, some s!"store/gossip/state-omits-known-key message {mo.id}")
  | none =>
    match acting with
    | none => (j2, none)
    | some r =>
      -- the stores whose state the step may have changed
      let actors := if isRound so.step then (r :: so.created.map (·.dst)).eraseDups else [r]
      let missing := actors.findSome? fun a => ((List.range nkeys).find? fun k =>
        !((specAt j2.spec k).know a).isEmpty && !(so.obs.any fun o => o.1 == a && o.2.1 == k)).map
          fun k => (a, k)
      match missing with
      | some (a, k) => (j2, some s!"store/key/missing-after-update store {a} key {k}")
      | none =>
        (j2, so.obs.findSome? fun o =>
          (judgeValue kind (specAt j2.spec o.2.1) o.1 o.2.2 mentioned).map
            fun sig => s!"{sig} store {o.1} key {o.2.1}")

/-! ### liveness: convergence after lossless rounds -/

/-- is `b` among the replicas the state `a` held at the start has flowed into? (`reach` of
    `HappyProofs/C18/Exchange.lean`, restated here so that the Spec does not import proofs) -/
def reachB : List (Nat × Nat) → List Nat → List Nat
  | [], S => S
  | (d, s) :: rest, S => reachB rest (if S.contains s then d :: S else S)

/-- the state flows `(dst, src)` a lossless round owes, from the script and the peer lists only -/
def owedFlows (peers : List (List Nat)) : SStep → List (Nat × Nat)
  | .round s j =>
    match peers.getD s [] with
    | [] => []
    | q :: qs =>
      let d := (q :: qs).getD (j % (q :: qs).length) q
      if (peers.getD d []).contains s then [(d, s), (s, d)] else [(d, s)]
  | _ => []

/-- everything any store has received, given to every store -/
def unionAll (n : Nat) (sp : SpecSys) : SpecSys :=
  (List.range n).foldl (fun t a => (List.range n).foldl (fun t b => t.step (.merge a b)) t) sp

def judgeFinal (kind : Kind) (n nkeys : Nat) (peers : List (List Nat)) (mentioned : List Nat)
    (j : JSt) (suffix : List StepObs) (fin : List (Nat × Nat × KObs)) : Option String :=
  let ex := suffix.flatMap fun so => owedFlows peers so.step
  let full := (List.range n).all fun a => (List.range n).all fun b => (reachB ex [a]).contains b
  if suffix.isEmpty || !full then none else
  (List.range nkeys).findSome? fun k =>
    let u := unionAll n (specAt j.spec k)
    (List.range n).findSome? fun a =>
      match fin.find? (fun o => o.1 == a && o.2.1 == k) with
      | none =>
        if (u.know a).isEmpty then none
        else some s!"store/gossip/no-convergence-after-heal-and-rounds store {a} key {k} missing"
      | some o =>
        (judgeValue kind u a o.2.2 mentioned).map fun sig =>
          s!"store/gossip/no-convergence-after-heal-and-rounds store {a} key {k} ({sig})"

/-- the trailing lossless rounds of a script and what precedes them -/
def splitRounds (steps : List StepObs) : List StepObs × List StepObs :=
  let suf := (steps.reverse.takeWhile fun so => isRound so.step).reverse
  (steps.take (steps.length - suf.length), suf)

def judgeStore (kind : Kind) (n nkeys : Nat) (peers : List (List Nat)) (steps : List StepObs)
    (fin : List (Nat × Nat × KObs)) : Option String :=
  let mentioned := elemsOfSteps steps
  let pre := (splitRounds steps).1
  let suffix := (splitRounds steps).2
  let rec go (j : JSt) (i : Nat) : List StepObs → JSt × Option String
    | [] => (j, none)
    | so :: rest =>
      match judgeStep kind n nkeys mentioned j so with
      | (j', some sig) => (j', some s!"{sig} at-step {i}")
      | (j', none) => go j' (i + 1) rest
  match go {} 0 pre with
  | (_, some sig) => some sig
  | (j, none) =>
    match go j pre.length suffix with
    | (_, some sig) => some sig
    | (_, none) => judgeFinal kind n nkeys peers mentioned j suffix fin

end HappyModel.C18
