import HappyModel.C18.Spec
import HappyModel.C18.Store
/-!
C18 specification for `CRDTStore` replicas, over *observed* values only.

Input: the script (client writes, gossip ticks, deliveries), the messages the implementation was
seen to hand to the network (id, sender, receiver, keys of the serialised state) and, after every
step, the values the acting store reports for its keys.  Nothing of the store model is used: the
judge keeps, per key, the specification system `SpecSys` of `Spec.lean` in which entity `s < n` is
store `s` and entity `n + m` is message `m`:

* a write is an update operation of its store;
* a message carries what its sender has received when the message is built;
* a delivery gives the receiver everything the message carries — "replicas that have received the
  same updates": *received* means exactly this.

Clauses: the value a store reports for a key is the specified function of the updates it has
received (counter = increments − decrements; OR-set ∋ x ⇔ some received add of x is not observed by
a received remove; register = a received write with a greatest timestamp); a store reports every
key it has received an update for; a gossip message carries every key its sender has received an
update for.
-/
namespace HappyModel.C18

structure MsgObs where
  id : Nat
  src : Nat
  dst : Nat
  keys : List Nat
deriving Repr

/-- what a store reports for one key: `value` for counters, `lww` for the register (timestamp and
    value, `none` = never written), `elems` for the OR-set -/
structure KObs where
  value : Int := 0
  lww : Option (Ts × Nat) := none
  elems : List Nat := []
deriving Repr

structure StepObs where
  step : SStep
  created : List MsgObs := []
  obs : List (Nat × KObs) := []
deriving Repr

def smod : List SpecSys → Nat → (SpecSys → SpecSys) → List SpecSys
  | [], 0, f => [f {}]
  | [], k+1, f => ({} : SpecSys) :: smod [] k f
  | x :: xs, 0, f => f x :: xs
  | x :: xs, k+1, f => x :: smod xs k f

def specAt (l : List SpecSys) (k : Nat) : SpecSys := l.getD k {}

/-- the update operation a client write is, by CRDT type (`none`: not an operation of that type) -/
def specOp (kind : Kind) (s : Nat) : WOp → Option COp
  | .inc k => if kind = .g ∨ kind = .pn then some (.inc s k) else none
  | .dec k => if kind = .pn then some (.dec s k) else none
  | .add x => if kind = .os then some (.oadd s x) else none
  | .rem x => if kind = .os then some (.orem s x) else none
  | .lset v p l nd => if kind = .lww then some (.lset s v p l nd) else none

structure JSt where
  spec : List SpecSys := []
  msgs : List MsgObs := []

def JSt.mergeAll (j : JSt) (d sr : Nat) (keys : List Nat) : JSt :=
  { j with spec := keys.foldl (fun sp k => smod sp k (·.step (.merge d sr))) j.spec }

/-- the effect of the step itself on what every entity has received -/
def JSt.apply (kind : Kind) (n : Nat) (j : JSt) : SStep → JSt
  | .w s key op =>
    match specOp kind s op with
    | some o => { j with spec := smod j.spec key (·.step o) }
    | none => j
  | .tick _ _ => j
  | .dl m =>
    match j.msgs.find? (·.id == m) with
    | some mo => j.mergeAll mo.dst (n + m) mo.keys
    | none => j

/-- a message handed to the network carries what its sender has received so far -/
def JSt.register (n : Nat) (j : JSt) (mo : MsgObs) : JSt :=
  { (j.mergeAll (n + mo.id) mo.src mo.keys) with msgs := j.msgs ++ [mo] }

def actingOf (j : JSt) : SStep → Option Nat
  | .w s _ _ => some s
  | .tick s _ => some s
  | .dl m => (j.msgs.find? (·.id == m)).map (·.dst)

def judgeValue (kind : Kind) (sp : SpecSys) (r : Nat) (o : KObs) (elemsMentioned : List Nat) :
    Option String :=
  match kind with
  | .g | .pn =>
    if sp.counter r != o.value then some "store/counter/value-not-inc-minus-dec" else none
  | .lww => if !sp.lwwOk r o.lww then some "store/lww/not-greatest-timestamp" else none
  | .os =>
    match (elemsMentioned ++ o.elems).find? (fun x => sp.orHas r x != o.elems.contains x) with
    | some x => if o.elems.contains x then some "store/orset/present-but-all-adds-removed"
                else some "store/orset/absent-but-unremoved-add"
    | none => none

def elemsOfSteps (steps : List StepObs) : List Nat :=
  steps.filterMap fun so =>
    match so.step with
    | .w _ _ (.add x) => some x
    | .w _ _ (.rem x) => some x
    | _ => none

/-- judge one step; `j` is the state before it -/
def judgeStep (kind : Kind) (n nkeys : Nat) (mentioned : List Nat) (j : JSt) (so : StepObs) :
    JSt × Option String :=
  let acting := actingOf j so.step
  let j1 := j.apply kind n so.step
  -- messages built in this step
  let incomplete := so.created.find? fun mo =>
    (List.range nkeys).any fun k => !((specAt j1.spec k).know mo.src).isEmpty && !mo.keys.contains k
  let j2 := so.created.foldl (JSt.register n) j1
  match incomplete with
  | some mo => (j2, some s!"store/gossip/state-omits-known-key message {mo.id}")
  | none =>
    match acting with
    | none => (j2, none)
    | some r =>
      let missing := (List.range nkeys).find? fun k =>
        !((specAt j2.spec k).know r).isEmpty && !(so.obs.any (·.1 == k))
      match missing with
      | some k => (j2, some s!"store/key/missing-after-update store {r} key {k}")
      | none =>
        (j2, so.obs.findSome? fun ko =>
          (judgeValue kind (specAt j2.spec ko.1) r ko.2 mentioned).map
            fun sig => s!"{sig} store {r} key {ko.1}")

def judgeStore (kind : Kind) (n nkeys : Nat) (steps : List StepObs) : Option String :=
  let mentioned := elemsOfSteps steps
  let rec go (j : JSt) (i : Nat) : List StepObs → Option String
    | [] => none
    | so :: rest =>
      match judgeStep kind n nkeys mentioned j so with
      | (_, some sig) => some s!"{sig} at-step {i}"
      | (j', none) => go j' (i + 1) rest
  go {} 0 steps

end HappyModel.C18
