import HappyModel.C18.Clocks
/-!
`VectorClock` with its real representation: `_vector` is a *dict* node id ↦ counter whose key set
is whatever the clock was constructed with (`node_ids`, plus the own id) and grows on `receive`
("dynamic membership": a node that has not heard of a peer has no entry for it).  Two clocks that
are compared may have different key sets; `happened_before` walks the *union* of both key sets and
reads absent entries as 0.

`Clocks.lean` models the same clock as a dense vector (absent = 0); `HappyProofs/C18/KClock.lean`
shows that both agree entry by entry along every history, for every membership assignment, and that
`happened_before` over the key union is the componentwise order — so `vector_strict_iff_hb` holds
for the keyed clocks too.
-/
namespace HappyModel.C18

/-- association list with first-match lookup: a Python dict -/
abbrev KVec := List (Nat × Nat)

namespace KVec

/-- `_vector.get(k, 0)` -/
def get : KVec → Nat → Nat
  | [], _ => 0
  | (k', y) :: rest, k => if k' = k then y else get rest k

/-- `_vector[k] = x` -/
def set : KVec → Nat → Nat → KVec
  | [], k, x => [(k, x)]
  | (k', y) :: rest, k, x => if k' = k then (k, x) :: rest else (k', y) :: set rest k x

def keys (v : KVec) : List Nat := v.map (·.1)

/-- `dict.fromkeys(node_ids, 0)`, then the own id is added if missing -/
def init (node : Nat) (members : List Nat) : KVec :=
  KVec.set (members.foldl (fun (acc : KVec) k => KVec.set acc k 0) ([] : KVec)) node 0

/-- `tick` / the increment of `send` and `receive` -/
def tick (v : KVec) (node : Nat) : KVec := v.set node (v.get node + 1)

/-- the merge loop of `receive`: for every key of the remote dict, max with the local entry (an
    absent local entry is created with the remote value: `max 0 ts = ts`) -/
def absorb (remote : KVec) (v : KVec) : List (Nat × Nat) → KVec
  | [] => v
  | e :: es => absorb remote (v.set e.1 (max (v.get e.1) (remote.get e.1))) es

def receive (v : KVec) (node : Nat) (remote : KVec) : KVec := (absorb remote v remote).tick node

/-- `happened_before`: all components ≤ and one <, over the union of both key sets -/
def happenedBefore (a b : KVec) : Bool :=
  let ks := a.keys ++ b.keys
  ks.all (fun k => a.get k ≤ b.get k) && ks.any (fun k => a.get k < b.get k)

/-- `is_concurrent` -/
def concurrent (a b : KVec) : Bool := !a.happenedBefore b && !b.happenedBefore a

end KVec

/-- the vector clocks of all nodes along a history (same events as `St`) -/
structure KSt where
  vc : Nat → KVec
  mvc : Nat → KVec := fun _ => []
  msent : Nat → Bool := fun _ => false
  log : List KVec := []          -- newest first, one entry per logged event

def KSt.init (mem : Nat → List Nat) : KSt := { vc := fun n => KVec.init n (mem n) }

def kstep (k : KSt) : Ev → KSt
  | .loc n _ =>
    let v := (k.vc n).tick n
    { k with vc := upd k.vc n v, log := v :: k.log }
  | .send n m _ =>
    if k.msent m then k else
    let v := (k.vc n).tick n
    { k with vc := upd k.vc n v, mvc := upd k.mvc m v, msent := upd k.msent m true, log := v :: k.log }
  | .recv n m _ =>
    if k.msent m then
      let v := (k.vc n).receive n (k.mvc m)
      { k with vc := upd k.vc n v, log := v :: k.log }
    else k

def krun (k : KSt) : List Ev → KSt
  | [] => k
  | e :: es => krun (kstep k e) es

end HappyModel.C18
