import HappyModel.C18.StoreSpec
/-!
The judge-visible part of the store model's own transcript: for every step, the messages the model
hands to the network (`m` lines) and the values the stores that acted report for their keys
(`s` lines → `obs`), and the final values of all stores (`f` lines → `fin`).  `Driver.runStore` prints
exactly these (plus internal state the judge never sees: node ids, per-node counts, tags).
-/
namespace HappyModel.C18

def sortNat (l : List Nat) : List Nat := l.mergeSort (· ≤ ·)

/-- the elements of an OR-set as the transcript lists them -/
def elemsOf (s : ORSet) : List Nat := (sortNat (s.ents.map (·.1))).eraseDups

/-- what a store reports for a key holding CRDT `x` (the transcript carries the field of the
    store's CRDT type; the judge reads no other) -/
def kobsOf (x : Rep) : KObs := { value := x.pn.value, lww := x.lww.cur, elems := elemsOf x.os }

def msgObsOf (id : Nat) (m : Msg) : MsgObs := ⟨id, m.src, m.dst, sortNat (m.keys.map (·.1))⟩

/-- the messages a step appended, with their ids -/
def createdObs (p p' : PSt) : List MsgObs :=
  (p'.msgs.drop p.msgs.length).zipIdx.map fun mi => msgObsOf (p.msgs.length + mi.2) mi.1

def storeObs (st : SSt) (a : Nat) : List (Nat × Nat × KObs) :=
  (st.p.keysOf a).map fun kn => (a, kn.1, kobsOf ((sysAt st.sys kn.1).rep a))

/-- the observation record of step `x` taken in state `st` -/
def stepObs (kind : Kind) (st : SSt) (x : SStep) : StepObs :=
  { step := x,
    created := createdObs st.p (st.step .repaired kind x).p,
    obs := (st.p.actors x).flatMap (storeObs (st.step .repaired kind x)) }

/-- the observation records of a whole script -/
def traceObs (kind : Kind) (st : SSt) : List SStep → List StepObs
  | [] => []
  | x :: xs => stepObs kind st x :: traceObs kind (st.step .repaired kind x) xs

def advanceAll (kind : Kind) (n : Nat) (j : JSt) : List StepObs → JSt
  | [] => j
  | so :: rest => advanceAll kind n (j.advance kind n so) rest

end HappyModel.C18
