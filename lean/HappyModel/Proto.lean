/-!
Line-protocol helpers shared by every property driver (no Mathlib).

Protocol: the harness writes *blocks*

    begin <mode> <args…>
    <line>*
    end

and the driver answers each block with zero or more output lines followed by
a line `done`.  A driver is a pure function `handle : List String → List String → List String`
(header tokens, body lines ↦ output lines), so what the driver executes is an
ordinary Lean definition that theorems can talk about.
-/
namespace HappyModel.Proto

def toks (line : String) : List String :=
  (line.trimAscii.toString.splitOn " ").filter (fun s => !s.isEmpty)

/-- strict natural-number parser (no sign, no empty string) -/
def nat? (s : String) : Option Nat := s.toNat?

/-- strict integer parser, accepts a leading '-' -/
def int? (s : String) : Option Int := s.toInt?

def natD (s : String) : Nat := (nat? s).getD 0
def intD (s : String) : Int := (int? s).getD 0

def nats (ts : List String) : List Nat := ts.map natD
def ints (ts : List String) : List Int := ts.map intD

def joinSp (xs : List String) : String := " ".intercalate xs
def showNats (xs : List Nat) : String := joinSp (xs.map toString)
def showInts (xs : List Int) : String := joinSp (xs.map toString)
def showBool (b : Bool) : String := if b then "1" else "0"

partial def readBlock (h : IO.FS.Stream) (acc : Array String) : IO (Array String) := do
  let line ← h.getLine
  if line.isEmpty then return acc
  let t := line.trimAscii.toString
  if t == "end" then return acc
  readBlock h (acc.push t)

/-- main loop: read blocks until EOF, answer each with `handle` and a `done` line -/
partial def serve (handle : List String → List String → List String) : IO Unit := do
  let stdin ← IO.getStdin
  let stdout ← IO.getStdout
  let rec loop : IO Unit := do
    let line ← stdin.getLine
    if line.isEmpty then return ()
    let ts := toks line
    match ts with
    | "begin" :: hdr =>
      let body ← readBlock stdin #[]
      let out := handle hdr body.toList
      for o in out do stdout.putStrLn o
      stdout.putStrLn "done"
      loop
    | [] => loop
    | _ =>
      stdout.putStrLn "bad-block"
      stdout.putStrLn "done"
      loop
  loop
  stdout.flush

end HappyModel.Proto
