import HappyModel.C17.Base
/-!
Model of `happysimulator/components/replication/primary_backup.py` (`PrimaryNode`, `BackupNode`).

Node 0 is the primary, node `b+1` is backup `b`.  One generator segment of a handler = one action.

`PrimaryNode._handle_write`   seg 1 (on delivery): `_seq += 1`, start `store.put` (write latency)
                              seg 2: put lands, `Replicate` sent to every backup, `yield 0.0, events`
                              seg 3: ASYNC → reply; SEMI_SYNC/SYNC → park on `any_of`/`all_of`
                              seg 4: resumed by the future → reply
`BackupNode._handle_replicate` seg 1: wait the write latency
                              seg 2: apply, resolve `ack_future`, send `ReplicationAck`
                              seg 3: end
`repaired = true` is the tree with `fixes/C17-backup-apply-by-seq.diff`: the backup applies a
Replicate only if its sequence number is newer than what it applied for that key (decided at the
instant of applying); `repaired = false` is the pinned tree: arrival order wins.

All puts of one `KVStore` have the same latency, so they land in the order they were started
(engine time order, C01).  The primary assigns `seq` when a put starts, hence "FIFO" is
`p.seq = applied + 1`; a schedule that resumes primary puts in another order is rejected (`err`).
-/
namespace HappyModel.C17.PB

inductive Mode | async | semi | sync
deriving Repr, DecidableEq

inductive MKind | repl | ack
deriving Repr, DecidableEq

structure Msg where
  kind : MKind
  b : Nat
  key : Nat
  val : Nat
  seq : Nat
  fut : Bool
  delivered : Bool := false
  acked : Bool := false
deriving Repr

inductive PKind | write | repl | ack | read
deriving Repr, DecidableEq

structure Proc where
  kind : PKind
  node : Nat
  key : Nat
  val : Nat
  seq : Nat
  op : Nat
  mid0 : Nat := 0
  seg : Nat := 1
  fin : Bool := false
deriving Repr

structure St where
  repaired : Bool
  mode : Mode
  nb : Nat
  seq : Nat := 0
  applied : Nat := 0
  store : Nat → Nat → Option Val := fun _ _ => none
  kseq : Nat → Nat → Nat := fun _ _ => 0
  last : Nat → Nat := fun _ => 0
  np : Nat := 0
  procs : Nat → Option Proc := fun _ => none
  nm : Nat := 0
  msgs : Nat → Option Msg := fun _ => none
  wk : Nat → Nat := fun _ => 0
  wv : Nat → Nat := fun _ => 0
  replies : List Reply := []
  err : Option String := none

def St.spawn (s : St) (p : Proc) : St := { s with np := s.np + 1, procs := upd s.procs s.np (some p) }
def St.setProc (s : St) (pid : Nat) (p : Proc) : St := { s with procs := upd s.procs pid (some p) }
def St.send (s : St) (m : Msg) : St := { s with nm := s.nm + 1, msgs := upd s.msgs s.nm (some m) }
def St.reply (s : St) (op : Nat) (txt : String) : St := { s with replies := ⟨op, txt⟩ :: s.replies }
def St.fail (s : St) (e : String) : St := { s with err := some e }

def sendRepl (k v q : Nat) (fut : Bool) (s : St) (b : Nat) : St :=
  s.send { kind := .repl, b := b, key := k, val := v, seq := q, fut := fut }

/-- `for backup in self._backups: network.send(self, backup, "Replicate", …)` -/
def sendRepls (s : St) (k v q : Nat) : St :=
  (List.range s.nb).foldl (sendRepl k v q (s.mode != .async)) s

def ackedAt (s : St) (mid : Nat) : Bool :=
  match s.msgs mid with
  | some m => m.acked
  | none => false

/-- the composite future the write handler is parked on -/
def ackCond (s : St) (p : Proc) : Bool :=
  match s.mode with
  | .sync => (List.range s.nb).all fun b => ackedAt s (p.mid0 + b)
  | .semi => (List.range s.nb).any fun b => ackedAt s (p.mid0 + b)
  | .async => true

def okTxt (q : Nat) : String := s!"ok {q}"

def resumeWrite (s : St) (pid : Nat) (p : Proc) : St :=
  if p.seg = 1 then
    if p.seq ≠ s.applied + 1 then s.fail "put-not-fifo" else
    let s1 := { s with applied := s.applied + 1, store := upd2 s.store 0 p.key (some p.val) }
    let s2 := sendRepls s1 p.key p.val p.seq
    if s.mode = .async ∧ s.nb = 0 then
      (s2.reply p.op (okTxt p.seq)).setProc pid { p with mid0 := s.nm, seg := 2, fin := true }
    else s2.setProc pid { p with mid0 := s.nm, seg := 2 }
  else if p.seg = 2 then
    if s.mode = .async ∨ s.nb = 0 then
      (s.reply p.op (okTxt p.seq)).setProc pid { p with seg := 3, fin := true }
    else s.setProc pid { p with seg := 3 }
  else
    if ackCond s p then (s.reply p.op (okTxt p.seq)).setProc pid { p with seg := 4, fin := true }
    else s.fail "resumed-without-acks"

def ackMsg (s : St) (mid : Nat) : St :=
  match s.msgs mid with
  | some m => { s with msgs := upd s.msgs mid (some { m with acked := true }) }
  | none => s

/-- the apply step of `BackupNode._handle_replicate` -/
def applyRepl (s : St) (b k v q : Nat) : St :=
  if s.repaired then
    let s1 := if q > s.kseq b k then
      { s with kseq := upd2 s.kseq b k q, store := upd2 s.store (b + 1) k (some v) } else s
    { s1 with last := upd s1.last b (max (s1.last b) q) }
  else
    { s with store := upd2 s.store (b + 1) k (some v), last := upd s.last b q }

def resumeRepl (s : St) (pid : Nat) (p : Proc) : St :=
  if p.seg = 1 then
    let b := p.node - 1
    let s1 := applyRepl s b p.key p.val p.seq
    let s2 := ackMsg s1 p.op
    let s3 := s2.send { kind := .ack, b := b, key := p.key, val := 0, seq := p.seq, fut := false }
    s3.setProc pid { p with seg := 2 }
  else s.setProc pid { p with seg := 3, fin := true }

def readTxt (s : St) (node k : Nat) : String :=
  if node = 0 then s!"val {showOpt (s.store 0 k)}"
  else s!"val {showOpt (s.store node k)} stale {s.last (node - 1)}"

def resume (s : St) (pid : Nat) : St :=
  match s.procs pid with
  | none => s.fail "no-such-process"
  | some p =>
    if p.fin then s.fail "process-finished" else
    match p.kind with
    | .write => resumeWrite s pid p
    | .repl => resumeRepl s pid p
    | .read => (s.reply p.op (readTxt s p.node p.key)).setProc pid { p with seg := 2, fin := true }
    | .ack => s.fail "process-finished"

def deliver (s : St) (mid : Nat) : St :=
  match s.msgs mid with
  | none => s.fail "no-such-message"
  | some m =>
    if m.delivered then s.fail "already-delivered" else
    let s1 := { s with msgs := upd s.msgs mid (some { m with delivered := true }) }
    match m.kind with
    | .repl => s1.spawn { kind := .repl, node := m.b + 1, key := m.key, val := m.val, seq := m.seq, op := mid }
    | .ack => s1.spawn { kind := .ack, node := 0, key := m.key, val := 0, seq := m.seq, op := mid, fin := true }

def step (s : St) : Act → St
  | .cw op node k v =>
    if node ≠ 0 then s.fail "write-at-backup" else
    let q := s.seq + 1
    ({ s with seq := q, wk := upd s.wk q k, wv := upd s.wv q v }).spawn
      { kind := .write, node := 0, key := k, val := v, seq := q, op := op }
  | .cr op node k =>
    if node > s.nb then s.fail "no-such-node" else
    s.spawn { kind := .read, node := node, key := k, val := 0, seq := 0, op := op }
  | .dl mid => deliver s mid
  | .rs pid => resume s pid
  | .ae _ _ => s.fail "no-anti-entropy"
  | .tick _ => s.fail "no-clock"

def run (s : St) : List Act → St
  | [] => s
  | a :: as => run (step s a) as

/-- nothing in flight, nothing running: writes have stopped and every message was delivered -/
def quiescent (s : St) : Prop :=
  s.applied = s.seq ∧ (∀ mid < s.nm, ∀ m, s.msgs mid = some m → m.delivered = true) ∧
  (∀ pid < s.np, ∀ p, s.procs pid = some p → p.fin = true)

def init (repaired : Bool) (mode : Mode) (nb : Nat) : St := { repaired, mode, nb }

/-- executable form of `quiescent` -/
def quiescentB (s : St) : Bool :=
  s.applied == s.seq &&
  (List.range s.nm).all (fun i => match s.msgs i with | some m => m.delivered | none => true) &&
  (List.range s.np).all (fun i => match s.procs i with | some p => p.fin | none => true)

/-- largest `q ≤ a` with `wk q = k` (0 if none): the last write to `k` among the first `a` -/
def lastFor (wk : Nat → Nat) : Nat → Nat → Nat
  | 0, _ => 0
  | a + 1, k => if wk (a + 1) = k then a + 1 else lastFor wk a k

end HappyModel.C17.PB
