import HappyModel.C17.MLM
/-!
"Anti-entropy having run", on the model's own runs: the knowledge computation that
`Spec.gossipComplete` performs on a delivery log, carried forward along an `MLM` run.

* `isWR s a` — action `a` runs a client-write or `Replicate` handler in state `s`;
* `GK`, `kstep`, `krun` — a client-write / `Replicate` handler step resets the knowledge (so what is
  left at the end is what happened after the *last* such step), a valid anti-entropy tick snapshots the
  sender's knowledge into the request it sends (message id `s.nm`), and the step that finishes an
  `AntiEntropyRequest` handler adds the request's snapshot to the receiver's knowledge;
* `KComplete` — every leader knows every leader.
The driver evaluates `KComplete` on the schedule of a run (`ml-kcomplete`), and the harness compares
it with `Spec.gossipComplete` on the transcript of the same run.
-/
namespace HappyModel.C17.MLM
open HappyModel.C17.ML (Version Msg Proc MKind PKind vcGet dominates vcMerge vcTick)

/-- does `a` run a client-write or `Replicate` handler in `s`? -/
def isWR (s : St) : Act → Bool
  | .cw _ _ _ _ => true
  | .dl mid =>
    (match s.msgs mid with
     | some m => decide (m.kind = .repl)
     | none => false)
  | .rs pid =>
    (match s.procs pid with
     | some p => decide (p.kind = .write ∨ p.kind = .repl)
     | none => false)
  | _ => false

/-- no action of the list runs a client-write or `Replicate` handler -/
def noWR : St → List Act → Bool
  | _, [] => true
  | s, a :: as => !isWR s a && noWR (step s a) as

structure GK where
  k : Nat → List Nat
  sk : Nat → List Nat

def GK.reset : GK := ⟨fun i => [i], fun _ => []⟩

/-- the `AntiEntropyRequest` handler that action `a` finishes, if any: `(receiver, message id)` -/
def finishedReq (s : St) (a : Act) : Option (Nat × Nat) :=
  match a with
  | .dl _ =>
    (match (step s a).procs s.np with
     | some p => if p.kind = .aereq ∧ p.fin = true then some (p.node, p.op) else none
     | none => none)
  | .rs pid =>
    (match s.procs pid, (step s a).procs pid with
     | some p0, some p => if p0.fin = false ∧ p.kind = .aereq ∧ p.fin = true then some (p.node, p.op) else none
     | _, _ => none)
  | _ => none

def kstep (s : St) (g : GK) (a : Act) : GK :=
  if isWR s a then GK.reset else
  match a with
  | .ae node peer =>
    if node < s.n ∧ peer < s.n ∧ peer ≠ node then { g with sk := upd g.sk s.nm (g.k node) } else g
  | _ =>
    (match finishedReq s a with
     | some (b, mid) => { g with k := upd g.k b (g.k b ++ g.sk mid) }
     | none => g)

def krun (s : St) (g : GK) : List Act → St × GK
  | [] => (s, g)
  | a :: as => krun (step s a) (kstep s g a) as

/-- every leader knows every leader -/
def KComplete (n : Nat) (g : GK) : Prop := ∀ i, i < n → ∀ h, h < n → h ∈ g.k i

instance (n : Nat) (g : GK) : Decidable (KComplete n g) := by unfold KComplete; exact inferInstance

/-- executable form of `KComplete` -/
def kcompleteB (n : Nat) (g : GK) : Bool :=
  (List.range n).all fun i => (List.range n).all fun h => (g.k i).contains h

end HappyModel.C17.MLM
