import HappyModel.C17.ML
/-!
Multi-leader replication with a **merging** conflict resolver: `VectorClockMerge(merge_fn)` or a
`CustomResolver` whose function combines the two concurrent versions into a third one
(`conflict_resolver.py`), on the same `LeaderNode` code as `ML.lean`.  The only differences from the
last-writer-wins model are `_pick` and what `_install` stores:

* `_pick(existing, incoming)`: no local version → incoming; incoming's clock dominates → incoming;
  the local clock dominates → the local version; otherwise the resolver's result, which for a merging
  resolver is a **new** version: the join of the two values, the later timestamp, the greater writer id
  and the pointwise maximum of the two vector clocks (`joinVer`; this is what the harness's merge
  functions compute — they are the usual "union / max with merged clocks" functions).
* `_install` stores the *winner of `_pick`* (value, version table, Merkle tree), not `incoming`.
* "would it apply" (`_pick(...) is not existing`, the test that decides whether `_merge_version`
  pays the write latency) is true whenever the local version does not strictly dominate: a merge
  result is a fresh object even when it equals the local version.

Values are natural numbers with a join: bitwise or (a set of items encoded as a bit mask, union) or
`max`.  All other handlers are those of `ML.lean`.
-/
namespace HappyModel.C17.MLM
open HappyModel.C17.ML (Version Msg Proc MKind PKind vcGet dominates vcMerge vcTick)

inductive Join | union | vmax
deriving Repr, DecidableEq

def joinVal : Join → Nat → Nat → Nat
  | .union, a, b => a ||| b
  | .vmax, a, b => max a b

/-- the merge function's result for two concurrent versions -/
def joinVer (n : Nat) (j : Join) (e inc : Version) : Version :=
  ⟨joinVal j e.val inc.val, max e.ts inc.ts, max e.writer inc.writer, vcMerge n e.vc inc.vc⟩

/-- `LeaderNode._pick` with a merging resolver -/
def pick (n : Nat) (j : Join) (existing : Option Version) (incoming : Version) : Version :=
  match existing with
  | none => incoming
  | some e =>
    if dominates n incoming.vc e.vc then incoming
    else if dominates n e.vc incoming.vc then e
    else joinVer n j e incoming

/-- `_pick(existing, incoming) is not existing` -/
def takes (n : Nat) (existing : Option Version) (incoming : Version) : Bool :=
  match existing with
  | none => true
  | some e => dominates n incoming.vc e.vc || !dominates n e.vc incoming.vc

structure St where
  n : Nat
  nk : Nat
  join : Join
  now : Nat := 0
  store : Nat → Nat → Option Val := fun _ _ => none
  vers : Nat → Nat → Option Version := fun _ _ => none
  order : Nat → List Nat := fun _ => []       -- dict order of `_versions` keys
  clock : Nat → List Nat := fun _ => []
  np : Nat := 0
  procs : Nat → Option Proc := fun _ => none
  nm : Nat := 0
  msgs : Nat → Option Msg := fun _ => none
  replies : List Reply := []
  err : Option String := none

def St.spawn (s : St) (p : Proc) : St := { s with np := s.np + 1, procs := upd s.procs s.np (some p) }
def St.setProc (s : St) (pid : Nat) (p : Proc) : St := { s with procs := upd s.procs pid (some p) }
def St.send (s : St) (m : Msg) : St := { s with nm := s.nm + 1, msgs := upd s.msgs s.nm (some m) }
def St.reply (s : St) (op : Nat) (txt : String) : St := { s with replies := ⟨op, txt⟩ :: s.replies }
def St.fail (s : St) (e : String) : St := { s with err := some e }

def clockOf (s : St) (i : Nat) : List Nat :=
  (List.range s.n).map fun j => vcGet (s.clock i) j

/-- `_install`: merge at this instant; `true` if the local version was (re)installed -/
def install (s : St) (i k : Nat) (inc : Version) : St × Bool :=
  if takes s.n (s.vers i k) inc then
    ({ s with store := upd2 s.store i k (some (pick s.n s.join (s.vers i k) inc).val),
              vers := upd2 s.vers i k (some (pick s.n s.join (s.vers i k) inc)),
              order := if (s.order i).contains k then s.order else upd s.order i (s.order i ++ [k]) }, true)
  else (s, false)

def versionsOf (s : St) (i : Nat) : List (Nat × Version) :=
  (s.order i).filterMap fun k => (s.vers i k).map fun v => (k, v)

def peersOf (s : St) (i : Nat) : List Nat := (List.range s.n).filter (· != i)

def sameMap (nk : Nat) (a b : Nat → Option Val) : Bool := (List.range nk).all fun k => a k == b k

/-- run an anti-entropy merge loop until it has to wait for a write latency or is done -/
def aeLoop (s : St) (i : Nat) : List (Nat × Version) → St × List (Nat × Version)
  | [] => (s, [])
  | (k, v) :: rest =>
    if takes s.n (s.vers i k) v then (s, (k, v) :: rest) else aeLoop s i rest

/-- continue an anti-entropy request/response handler after its loop state `items` -/
def aeContinue (s : St) (pid : Nat) (p : Proc) (items : List (Nat × Version)) : St :=
  let (s1, left) := aeLoop s p.node items
  match left with
  | _ :: _ => s1.setProc pid { p with items := left, waiting := true }
  | [] =>
    if p.kind = .aereq ∧ !(sameMap s.nk p.hash (s1.store p.node)) then
      (s1.send { kind := .aeresp, src := p.node, dst := p.src, items := versionsOf s1 p.node }).setProc pid
        { p with items := [], waiting := false, sent := true }
    else s1.setProc pid { p with items := [], waiting := false, fin := true }

def resume (s : St) (pid : Nat) : St :=
  match s.procs pid with
  | none => s.fail "no-such-process"
  | some p0 =>
    if p0.fin then s.fail "process-finished" else
    let p := { p0 with seg := p0.seg + 1 }
    match p.kind with
    | .write =>
      if p0.seg = 1 then
        let s1 := (install s p.node p.key p.ver).1
        let s2 := (peersOf s p.node).foldl
          (fun s j => s.send { kind := .repl, src := p.node, dst := j, key := p.key, ver := p.ver }) s1
        s2.setProc pid p
      else (s.reply p.op "ok").setProc pid { p with fin := true }
    | .repl => ((install s p.node p.key p.ver).1).setProc pid { p with fin := true }
    | .read => (s.reply p.op s!"val {showOpt (s.store p.node p.key)}").setProc pid { p with fin := true }
    | .ae => s.setProc pid { p with fin := true }
    | .aereq | .aeresp =>
      if p.sent then s.setProc pid { p with fin := true }
      else match p.items with
        | (k, v) :: rest =>
          if p.waiting then aeContinue (install s p.node k v).1 pid p rest
          else s.fail "not-waiting"
        | [] => s.fail "not-waiting"
    | .other => s.fail "process-finished"

def deliver (s : St) (mid : Nat) : St :=
  match s.msgs mid with
  | none => s.fail "no-such-message"
  | some m =>
    if m.delivered then s.fail "already-delivered" else
    let s1 := { s with msgs := upd s.msgs mid (some { m with delivered := true }) }
    let i := m.dst
    match m.kind with
    | .repl =>
      let s2 := { s1 with clock := upd s1.clock i (vcTick s.n (vcMerge s.n (s1.clock i) m.ver.vc) i) }
      if takes s.n (s2.vers i m.key) m.ver then
        s2.spawn { kind := .repl, node := i, key := m.key, ver := m.ver, op := mid }
      else s2.spawn { kind := .repl, node := i, key := m.key, ver := m.ver, op := mid, fin := true }
    | .aereq =>
      let p : Proc := { kind := .aereq, node := i, src := m.src, hash := m.hash, op := mid }
      aeContinue (s1.spawn p) s1.np p m.items
    | .aeresp =>
      let p : Proc := { kind := .aeresp, node := i, src := m.src, op := mid }
      aeContinue (s1.spawn p) s1.np p m.items

def step (s : St) : Act → St
  | .tick t => { s with now := t }
  | .cw op node k v =>
    if node ≥ s.n then s.fail "no-such-node" else
    let c := vcTick s.n (s.clock node) node
    ({ s with clock := upd s.clock node c }).spawn
      { kind := .write, node := node, key := k, ver := ⟨v, s.now, node, c⟩, op := op }
  | .cr op node k =>
    if node ≥ s.n then s.fail "no-such-node" else
    s.spawn { kind := .read, node := node, key := k, op := op }
  | .dl mid => deliver s mid
  | .rs pid => resume s pid
  | .ae node peer =>
    if node ≥ s.n ∨ peer ≥ s.n ∨ peer = node then s.fail "bad-anti-entropy" else
    (s.send { kind := .aereq, src := node, dst := peer, items := versionsOf s node, hash := s.store node }).spawn
      { kind := .ae, node := node }

def run (s : St) : List Act → St
  | [] => s
  | a :: as => run (step s a) as

def init (n nk : Nat) (join : Join) : St := { n, nk, join }

def quiescentB (s : St) : Bool :=
  (List.range s.nm).all (fun i => match s.msgs i with | some m => m.delivered | none => true) &&
  (List.range s.np).all (fun i => match s.procs i with | some p => p.fin | none => true)

end HappyModel.C17.MLM
