import HappyModel.C17.Spec
import HappyModel.C17.PB
import HappyModel.C17.Chain
import HappyModel.C17.ML
import HappyModel.C17.MLM
import HappyModel.C17.MLMK
import HappyModel.C17.MLT
/-! Line-protocol driver for C17 (other side: `hv/props/c17.py`). -/
namespace HappyModel.C17.Driver
open HappyModel.Proto HappyModel.C17

/-! ### primary-backup -/

def pbMode (s : String) : PB.Mode :=
  if s == "sync" then .sync else if s == "semi" then .semi else .async

def pbEcho (s : PB.St) (a : Act) : String :=
  match a with
  | .cw op n k v => s!"cw {op} {n} {k} {v}"
  | .cr op n k => s!"cr {op} {n} {k}"
  | .rs pid =>
    (match s.procs pid with
     | some p => s!"r {pid} {p.seg}"
     | none => s!"r {pid} ?")
  | .dl mid =>
    (match s.msgs mid with
     | some m =>
       (match m.kind with
        | .repl => s!"d {mid} {m.b + 1} Replicate {m.key} {m.val} {m.seq}"
        | .ack => s!"d {mid} 0 ReplicationAck - - {m.seq}")
     | none => s!"d {mid} ?")
  | .ae n p => s!"ae {n} {p}"
  | .tick t => s!"t {t}"

def pbState (s : PB.St) (nk : Nat) : String :=
  let stores := (List.range (s.nb + 1)).map fun n => showStore (s.store n) nk
  let lasts := (List.range s.nb).map fun b => toString (s.last b)
  "S " ++ " | ".intercalate stores ++ " ; last " ++ joinSp lasts

def pbRun (s : PB.St) (nk : Nat) : List Act → List String → List String
  | [], acc => (s!"Q {showBool (PB.quiescentB s)}" :: acc).reverse
  | a :: as, acc =>
    let echo := pbEcho s a
    let s' := PB.step s a
    match s'.err with
    | some e => (s!"err {e}" :: echo :: acc).reverse
    | none =>
      let newR := (s'.replies.take (s'.replies.length - s.replies.length)).reverse
      let acc := echo :: acc
      let acc := newR.foldl (fun acc r => s!"reply {r.op} {r.txt}" :: acc) acc
      pbRun s' nk as (pbState s' nk :: acc)

/-! ### chain replication -/

def chEcho (s : Chain.St) (a : Act) : String :=
  match a with
  | .cw op n k v => s!"cw {op} {n} {k} {v}"
  | .cr op n k => s!"cr {op} {n} {k}"
  | .rs pid =>
    (match s.procs pid with
     | some p => s!"r {pid} {p.seg}"
     | none => s!"r {pid} ?")
  | .dl mid =>
    (match s.msgs mid with
     | some m =>
       (match m.kind with
        | .prop => s!"d {mid} {m.dst} Propagate {m.key} {m.val} {m.seq}"
        | .wack => s!"d {mid} {m.dst} WriteAck {m.key} - {m.seq}"
        | .cnote => s!"d {mid} {m.dst} CommitNotify {m.key} - {m.seq}"
        | .rfwd => s!"d {mid} {m.dst} Read {m.key} - -")
     | none => s!"d {mid} ?")
  | .ae n p => s!"ae {n} {p}"
  | .tick t => s!"t {t}"

def showDirty (d : Nat → Bool) (nk : Nat) : String :=
  let xs := (List.range nk).filter d
  if xs.isEmpty then "-" else ",".intercalate (xs.map toString)

def chState (s : Chain.St) (nk : Nat) : String :=
  let stores := (List.range s.n).map fun i => showStore (s.store i) nk
  let dirty := (List.range s.n).map fun i => showDirty (s.dirty i) nk
  "S " ++ " | ".intercalate stores ++ " ; dirty " ++ " | ".intercalate dirty

def chRun (s : Chain.St) (nk : Nat) : List Act → List String → List String
  | [], acc => (s!"Q {showBool (Chain.quiescentB s)}" :: acc).reverse
  | a :: as, acc =>
    let echo := chEcho s a
    let s' := Chain.step s a
    match s'.err with
    | some e => (s!"err {e}" :: echo :: acc).reverse
    | none =>
      let newR := (s'.replies.take (s'.replies.length - s.replies.length)).reverse
      let acc := echo :: acc
      let acc := newR.foldl (fun acc r => s!"reply {r.op} {r.txt}" :: acc) acc
      chRun s' nk as (chState s' nk :: acc)

/-! ### multi-leader -/

def mlEcho (s : ML.St) (a : Act) : String :=
  match a with
  | .cw op n k v => s!"cw {op} {n} {k} {v}"
  | .cr op n k => s!"cr {op} {n} {k}"
  | .rs pid =>
    (match s.procs pid with
     | some p => s!"r {pid} {p.seg}"
     | none => s!"r {pid} ?")
  | .dl mid =>
    (match s.msgs mid with
     | some m =>
       (match m.kind with
        | .repl => s!"d {mid} {m.dst} Replicate {m.key} {m.ver.val} -"
        | .aereq => s!"d {mid} {m.dst} AntiEntropyRequest - - -"
        | .aeresp => s!"d {mid} {m.dst} AntiEntropyResponse - - -")
     | none => s!"d {mid} ?")
  | .ae n p => s!"ae {n} {p}"
  | .tick t => s!"t {t}"

def showVer (k : Nat) (v : ML.Version) (n : Nat) : String :=
  let vc := ".".intercalate ((List.range n).map fun j => toString (ML.vcGet v.vc j))
  s!"{k}={v.val}@{v.ts}/{v.writer}[{vc}]"

def showVers (s : ML.St) (i : Nat) : String :=
  let xs := (List.range s.nk).filterMap fun k => (s.vers i k).map fun v => showVer k v s.n
  if xs.isEmpty then "-" else ",".intercalate xs

def mlState (s : ML.St) : String :=
  let stores := (List.range s.n).map fun i => showStore (s.store i) s.nk
  let vers := (List.range s.n).map fun i => showVers s i
  "S " ++ " | ".intercalate stores ++ " ; V " ++ " | ".intercalate vers

def mlRun (s : ML.St) : List Act → List String → List String
  | [], acc => (s!"Q {showBool (ML.quiescentB s)}" :: acc).reverse
  | a :: as, acc =>
    let echo := mlEcho s a
    let s' := ML.step s a
    match s'.err with
    | some e => (s!"err {e}" :: echo :: acc).reverse
    | none =>
      match a with
      | .tick _ => mlRun s' as (echo :: acc)
      | _ =>
        let newR := (s'.replies.take (s'.replies.length - s.replies.length)).reverse
        let acc := echo :: acc
        let acc := newR.foldl (fun acc r => s!"reply {r.op} {r.txt}" :: acc) acc
        mlRun s' as (mlState s' :: acc)

/-! ### multi-leader, merging resolver (same transcript format) -/

def mlmEcho (s : MLM.St) (a : Act) : String :=
  match a with
  | .cw op n k v => s!"cw {op} {n} {k} {v}"
  | .cr op n k => s!"cr {op} {n} {k}"
  | .rs pid =>
    (match s.procs pid with
     | some p => s!"r {pid} {p.seg}"
     | none => s!"r {pid} ?")
  | .dl mid =>
    (match s.msgs mid with
     | some m =>
       (match m.kind with
        | .repl => s!"d {mid} {m.dst} Replicate {m.key} {m.ver.val} -"
        | .aereq => s!"d {mid} {m.dst} AntiEntropyRequest - - -"
        | .aeresp => s!"d {mid} {m.dst} AntiEntropyResponse - - -")
     | none => s!"d {mid} ?")
  | .ae n p => s!"ae {n} {p}"
  | .tick t => s!"t {t}"

def mlmState (s : MLM.St) : String :=
  let stores := (List.range s.n).map fun i => showStore (s.store i) s.nk
  let vers := (List.range s.n).map fun i =>
    let xs := (List.range s.nk).filterMap fun k => (s.vers i k).map fun v => showVer k v s.n
    if xs.isEmpty then "-" else ",".intercalate xs
  "S " ++ " | ".intercalate stores ++ " ; V " ++ " | ".intercalate vers

def mlmRun (s : MLM.St) : List Act → List String → List String
  | [], acc => (s!"Q {showBool (MLM.quiescentB s)}" :: acc).reverse
  | a :: as, acc =>
    let echo := mlmEcho s a
    let s' := MLM.step s a
    match s'.err with
    | some e => (s!"err {e}" :: echo :: acc).reverse
    | none =>
      match a with
      | .tick _ => mlmRun s' as (echo :: acc)
      | _ =>
        let newR := (s'.replies.take (s'.replies.length - s.replies.length)).reverse
        let acc := echo :: acc
        let acc := newR.foldl (fun acc r => s!"reply {r.op} {r.txt}" :: acc) acc
        mlmRun s' as (mlmState s' :: acc)

/-! ### multi-leader on a star / line topology (same transcript format) -/

def mltEcho (s : MLT.St) (a : Act) : String :=
  match a with
  | .cw op n k v => s!"cw {op} {n} {k} {v}"
  | .cr op n k => s!"cr {op} {n} {k}"
  | .rs pid =>
    (match s.procs pid with
     | some p => s!"r {pid} {p.seg}"
     | none => s!"r {pid} ?")
  | .dl mid =>
    (match s.msgs mid with
     | some m =>
       (match m.kind with
        | .repl => s!"d {mid} {m.dst} Replicate {m.key} {m.ver.val} -"
        | .aereq => s!"d {mid} {m.dst} AntiEntropyRequest - - -"
        | .aeresp => s!"d {mid} {m.dst} AntiEntropyResponse - - -")
     | none => s!"d {mid} ?")
  | .ae n p => s!"ae {n} {p}"
  | .tick t => s!"t {t}"

def mltState (s : MLT.St) : String :=
  let stores := (List.range s.n).map fun i => showStore (s.store i) s.nk
  let vers := (List.range s.n).map fun i =>
    let xs := (List.range s.nk).filterMap fun k => (s.vers i k).map fun v => showVer k v s.n
    if xs.isEmpty then "-" else ",".intercalate xs
  "S " ++ " | ".intercalate stores ++ " ; V " ++ " | ".intercalate vers

def mltRun (s : MLT.St) : List Act → List String → List String
  | [], acc => (s!"Q {showBool (MLT.quiescentB s)}" :: acc).reverse
  | a :: as, acc =>
    let echo := mltEcho s a
    let s' := MLT.step s a
    match s'.err with
    | some e => (s!"err {e}" :: echo :: acc).reverse
    | none =>
      match a with
      | .tick _ => mltRun s' as (echo :: acc)
      | _ =>
        let newR := (s'.replies.take (s'.replies.length - s.replies.length)).reverse
        let acc := echo :: acc
        let acc := newR.foldl (fun acc r => s!"reply {r.op} {r.txt}" :: acc) acc
        mltRun s' as (mltState s' :: acc)

def parseActs (body : List String) : List Act := body.filterMap fun l => parseAct (toks l)

def judgeOut (r : Option String) : List String :=
  match r with
  | none => ["ok"]
  | some sig => [s!"viol {sig}"]

def handle (hdr : List String) (body : List String) : List String :=
  match hdr with
  | ["pb", variant, mode, nb, nk] =>
    pbRun (PB.init (variant == "repaired") (pbMode mode) (natD nb)) (natD nk) (parseActs body) []
  | ["chain", _variant, n, craq, nk] =>
    chRun (Chain.init (craq == "1") (natD n)) (natD nk) (parseActs body) []
  | ["ml", _variant, n, nk] =>
    mlRun (ML.init (natD n) (natD nk)) (parseActs body) []
  | ["ml", _variant, n, nk, res] =>
    if res == "union" then mlmRun (MLM.init (natD n) (natD nk) .union) (parseActs body) []
    else if res == "max" then mlmRun (MLM.init (natD n) (natD nk) .vmax) (parseActs body) []
    else mlRun (ML.init (natD n) (natD nk)) (parseActs body) []
  | ["judge-pb", mode, nb] =>
    let (steps, q) := Spec.parseSteps body
    judgeOut (Spec.judgePB mode (natD nb) steps q)
  | ["judge-chain", n, craq] =>
    let (steps, q) := Spec.parseSteps body
    judgeOut (Spec.judgeChain (natD n) (craq == "1") steps q)
  | ["judge-ml"] =>
    let (steps, q) := Spec.parseSteps body
    judgeOut (Spec.judgeML steps q)
  | ["ml", _variant, n, nk, res, topo] =>
    let nn := natD n
    if topo == "mesh" then
      (if res == "union" then mlmRun (MLM.init nn (natD nk) .union) (parseActs body) []
       else if res == "max" then mlmRun (MLM.init nn (natD nk) .vmax) (parseActs body) []
       else mlRun (ML.init nn (natD nk)) (parseActs body) [])
    else
      let adj := if topo == "star" then MLT.star nn else MLT.line nn
      mltRun (MLT.init nn (natD nk) (if res == "max" then .vmax else .union) (res == "lww") adj) (parseActs body) []
  | ["ml-kcomplete", n, nk, res] =>
    -- the model's own "anti-entropy having run" on a schedule (cross-checked against the judge's reading)
    let r := MLM.krun (MLM.init (natD n) (natD nk) (if res == "max" then .vmax else .union)) MLM.GK.reset (parseActs body)
    [s!"kcomplete {showBool (MLM.kcompleteB (natD n) r.2)} err {r.1.err.isSome}"]
  | ["judge-gossip", n] =>
    let (steps, _) := Spec.parseSteps body
    [s!"gossip {showBool (Spec.gossipComplete (natD n) steps)}"]
  | ["judge-ml", n, merging] =>
    let (steps, q) := Spec.parseSteps body
    judgeOut (Spec.judgeMLn (natD n) (merging == "1") steps q)
  | ["judge-ml", n, merging, mesh] =>
    let (steps, q) := Spec.parseSteps body
    judgeOut (Spec.judgeMLt (natD n) (merging == "1") (mesh == "1") steps q)
  | _ => ["bad-header"]

end HappyModel.C17.Driver
