import HappyModel.C17.Base
/-!
Model of `happysimulator/components/replication/multi_leader.py` (`LeaderNode`) with
`conflict_resolver.py` (`LastWriterWins`; `VectorClockMerge()` without a merge function decides the
same way) on the tree with `fixes/C17-multileader-merge-at-apply.diff`.  `n ≥ 2` leaders, every
leader's peers are all the others in index order.

A version is `(value, timestamp, writer, vector clock)`.  `pick existing incoming` is the code's
decision: no local version → incoming; incoming's clock dominates → incoming; local dominates →
local; otherwise `LastWriterWins`: greater `(timestamp, writer)` wins, the local one on a tie.

`_handle_write`      seg 1: tick the vector clock, stamp the version with `now`, wait the write latency
                     seg 2: `_install` (merge at the instant the write lands), `Replicate` to every peer
                     seg 3: reply
`_handle_replicate`  seg 1: `vclock.receive`; if the version would not apply now → end,
                            else wait the write latency
                     seg 2: `_install` (decide again), end
`_handle_anti_entropy`           send `AntiEntropyRequest(root_hash, versions)` to the chosen peer
`_handle_anti_entropy_request`   merge every received version (same two-step rule per key, in the
                                 sender's dict order); if the root hashes still differ send
                                 `AntiEntropyResponse(versions)`
`_handle_anti_entropy_response`  merge every received version
Merkle root hashes are compared as the key→value maps they hash (hypothesis: no SHA-256 collision).
-/
namespace HappyModel.C17.ML

structure Version where
  val : Nat
  ts : Nat
  writer : Nat
  vc : List Nat
deriving Repr, DecidableEq

def vcGet (v : List Nat) (i : Nat) : Nat := v.getD i 0

/-- `_vc_dominates a b`: all components ≥ and one > -/
def dominates (n : Nat) (a b : List Nat) : Bool :=
  (List.range n).all (fun i => vcGet b i ≤ vcGet a i) && (List.range n).any (fun i => vcGet b i < vcGet a i)

/-- `LastWriterWins._sort_key` order: is key(a) < key(b)? -/
def lwwLt (a b : Version) : Bool := a.ts < b.ts || (a.ts == b.ts && a.writer < b.writer)

/-- does `incoming` replace `existing`? (`_pick … is not existing`) -/
def takes (n : Nat) (existing : Option Version) (incoming : Version) : Bool :=
  match existing with
  | none => true
  | some e =>
    if dominates n incoming.vc e.vc then true
    else if dominates n e.vc incoming.vc then false
    else lwwLt e incoming

inductive MKind | repl | aereq | aeresp
deriving Repr, DecidableEq

structure Msg where
  kind : MKind
  src : Nat
  dst : Nat
  key : Nat := 0
  ver : Version := ⟨0, 0, 0, []⟩
  items : List (Nat × Version) := []
  hash : Nat → Option Val := fun _ => none
  delivered : Bool := false

inductive PKind | write | repl | read | ae | aereq | aeresp | other
deriving Repr, DecidableEq

structure Proc where
  kind : PKind
  node : Nat
  key : Nat := 0
  ver : Version := ⟨0, 0, 0, []⟩
  op : Nat := 0
  src : Nat := 0
  items : List (Nat × Version) := []
  hash : Nat → Option Val := fun _ => none
  waiting : Bool := false       -- parked in the write latency of the head item
  sent : Bool := false          -- response sent, last `yield 0.0`
  seg : Nat := 1
  fin : Bool := false

structure St where
  n : Nat
  nk : Nat
  now : Nat := 0
  store : Nat → Nat → Option Val := fun _ _ => none
  vers : Nat → Nat → Option Version := fun _ _ => none
  order : Nat → List Nat := fun _ => []       -- dict order of `_versions` keys
  clock : Nat → List Nat := fun _ => []
  np : Nat := 0
  procs : Nat → Option Proc := fun _ => none
  nm : Nat := 0
  msgs : Nat → Option Msg := fun _ => none
  replies : List Reply := []
  err : Option String := none

def St.spawn (s : St) (p : Proc) : St := { s with np := s.np + 1, procs := upd s.procs s.np (some p) }
def St.setProc (s : St) (pid : Nat) (p : Proc) : St := { s with procs := upd s.procs pid (some p) }
def St.send (s : St) (m : Msg) : St := { s with nm := s.nm + 1, msgs := upd s.msgs s.nm (some m) }
def St.reply (s : St) (op : Nat) (txt : String) : St := { s with replies := ⟨op, txt⟩ :: s.replies }
def St.fail (s : St) (e : String) : St := { s with err := some e }

def clockOf (s : St) (i : Nat) : List Nat :=
  (List.range s.n).map fun j => vcGet (s.clock i) j

/-- `_install`: merge at this instant; `true` if the local version changed -/
def install (s : St) (i k : Nat) (inc : Version) : St × Bool :=
  if takes s.n (s.vers i k) inc then
    ({ s with store := upd2 s.store i k (some inc.val), vers := upd2 s.vers i k (some inc),
              order := if (s.order i).contains k then s.order else upd s.order i (s.order i ++ [k]) }, true)
  else (s, false)

def versionsOf (s : St) (i : Nat) : List (Nat × Version) :=
  (s.order i).filterMap fun k => (s.vers i k).map fun v => (k, v)

def peersOf (s : St) (i : Nat) : List Nat := (List.range s.n).filter (· != i)

def sameMap (nk : Nat) (a b : Nat → Option Val) : Bool := (List.range nk).all fun k => a k == b k

/-- run an anti-entropy merge loop until it has to wait for a write latency or is done -/
def aeLoop (s : St) (i : Nat) : List (Nat × Version) → St × List (Nat × Version)
  | [] => (s, [])
  | (k, v) :: rest =>
    if takes s.n (s.vers i k) v then (s, (k, v) :: rest) else aeLoop s i rest

/-- continue an anti-entropy request/response handler after its loop state `items` -/
def aeContinue (s : St) (pid : Nat) (p : Proc) (items : List (Nat × Version)) : St :=
  let (s1, left) := aeLoop s p.node items
  match left with
  | _ :: _ => s1.setProc pid { p with items := left, waiting := true }
  | [] =>
    if p.kind = .aereq ∧ !(sameMap s.nk p.hash (s1.store p.node)) then
      (s1.send { kind := .aeresp, src := p.node, dst := p.src, items := versionsOf s1 p.node }).setProc pid
        { p with items := [], waiting := false, sent := true }
    else s1.setProc pid { p with items := [], waiting := false, fin := true }

def resume (s : St) (pid : Nat) : St :=
  match s.procs pid with
  | none => s.fail "no-such-process"
  | some p0 =>
    if p0.fin then s.fail "process-finished" else
    let p := { p0 with seg := p0.seg + 1 }
    match p.kind with
    | .write =>
      if p0.seg = 1 then
        let s1 := (install s p.node p.key p.ver).1
        let s2 := (peersOf s p.node).foldl
          (fun s j => s.send { kind := .repl, src := p.node, dst := j, key := p.key, ver := p.ver }) s1
        s2.setProc pid p
      else (s.reply p.op "ok").setProc pid { p with fin := true }
    | .repl => ((install s p.node p.key p.ver).1).setProc pid { p with fin := true }
    | .read => (s.reply p.op s!"val {showOpt (s.store p.node p.key)}").setProc pid { p with fin := true }
    | .ae => s.setProc pid { p with fin := true }
    | .aereq | .aeresp =>
      if p.sent then s.setProc pid { p with fin := true }
      else match p.items with
        | (k, v) :: rest =>
          if p.waiting then aeContinue (install s p.node k v).1 pid p rest
          else s.fail "not-waiting"
        | [] => s.fail "not-waiting"
    | .other => s.fail "process-finished"

def vcMerge (n : Nat) (a b : List Nat) : List Nat :=
  (List.range n).map fun j => max (vcGet a j) (vcGet b j)

def vcTick (n : Nat) (a : List Nat) (i : Nat) : List Nat :=
  (List.range n).map fun j => if j = i then vcGet a j + 1 else vcGet a j

def deliver (s : St) (mid : Nat) : St :=
  match s.msgs mid with
  | none => s.fail "no-such-message"
  | some m =>
    if m.delivered then s.fail "already-delivered" else
    let s1 := { s with msgs := upd s.msgs mid (some { m with delivered := true }) }
    let i := m.dst
    match m.kind with
    | .repl =>
      let s2 := { s1 with clock := upd s1.clock i (vcTick s.n (vcMerge s.n (s1.clock i) m.ver.vc) i) }
      if takes s.n (s2.vers i m.key) m.ver then
        s2.spawn { kind := .repl, node := i, key := m.key, ver := m.ver, op := mid }
      else s2.spawn { kind := .repl, node := i, key := m.key, ver := m.ver, op := mid, fin := true }
    | .aereq =>
      let p : Proc := { kind := .aereq, node := i, src := m.src, hash := m.hash, op := mid }
      aeContinue (s1.spawn p) s1.np p m.items
    | .aeresp =>
      let p : Proc := { kind := .aeresp, node := i, src := m.src, op := mid }
      aeContinue (s1.spawn p) s1.np p m.items

def step (s : St) : Act → St
  | .tick t => { s with now := t }
  | .cw op node k v =>
    if node ≥ s.n then s.fail "no-such-node" else
    let c := vcTick s.n (s.clock node) node
    ({ s with clock := upd s.clock node c }).spawn
      { kind := .write, node := node, key := k, ver := ⟨v, s.now, node, c⟩, op := op }
  | .cr op node k =>
    if node ≥ s.n then s.fail "no-such-node" else
    s.spawn { kind := .read, node := node, key := k, op := op }
  | .dl mid => deliver s mid
  | .rs pid => resume s pid
  | .ae node peer =>
    if node ≥ s.n ∨ peer ≥ s.n ∨ peer = node then s.fail "bad-anti-entropy" else
    (s.send { kind := .aereq, src := node, dst := peer, items := versionsOf s node, hash := s.store node }).spawn
      { kind := .ae, node := node }

def run (s : St) : List Act → St
  | [] => s
  | a :: as => run (step s a) as

def init (n nk : Nat) : St := { n, nk }

def quiescentB (s : St) : Bool :=
  (List.range s.nm).all (fun i => match s.msgs i with | some m => m.delivered | none => true) &&
  (List.range s.np).all (fun i => match s.procs i with | some p => p.fin | none => true)

end HappyModel.C17.ML
