import HappyModel.Proto
/-!
C17 — shared pieces of the replication models (message-passing style, DESIGN §4).

Every scheme is a transition system whose actions are what the real engine delivers:

    cw op node key val   a client `Write` event is delivered to `node`   (starts a handler)
    cr op node key       a client `Read` event is delivered to `node`    (starts a handler)
    dl mid               in-flight network message `mid` is delivered    (starts a handler)
    rs pid               handler process `pid` is resumed (one generator segment runs)
    ae node peer         an `AntiEntropy` tick is delivered to `node`, `random.choice` = `peer`
    t ns                 the simulated clock reads `ns` (multi-leader only: write timestamps)

Message ids are assigned in the order of `Network.send` calls, process ids in the order handlers
are started; both sides of the correspondence count the same things, so an id identifies one
message / one handler instance.  Tables indexed by node / key / pid / mid are functions wrapped in
the state structure and updated with `upd` (runs are a few hundred steps).
-/
namespace HappyModel.C17

abbrev Key := Nat
abbrev Val := Nat

@[noinline] def upd {β} (f : Nat → β) (i : Nat) (x : β) : Nat → β := fun j => if j = i then x else f j
@[simp] theorem upd_same {β} (f : Nat → β) (i : Nat) (x : β) : upd f i x i = x := by simp [upd]
theorem upd_other {β} (f : Nat → β) (i j : Nat) (x : β) (h : j ≠ i) : upd f i x j = f j := by
  simp [upd, h]
theorem upd_apply {β} (f : Nat → β) (i j : Nat) (x : β) : upd f i x j = if j = i then x else f j := rfl

/-- two-level update: `f n k := x` -/
def upd2 {β} (f : Nat → Nat → β) (n k : Nat) (x : β) : Nat → Nat → β := upd f n (upd (f n) k x)
theorem upd2_apply {β} (f : Nat → Nat → β) (n k n' k' : Nat) (x : β) :
    upd2 f n k x n' k' = if n' = n ∧ k' = k then x else f n' k' := by
  unfold upd2
  by_cases h1 : n' = n
  · subst h1
    by_cases h2 : k' = k
    · subst h2; simp
    · simp [upd_apply, h2]
  · simp [upd_apply, h1]

inductive Act
  | cw (op node key val : Nat)
  | cr (op node key : Nat)
  | dl (mid : Nat)
  | rs (pid : Nat)
  | ae (node peer : Nat)
  | tick (t : Nat)
deriving Repr, DecidableEq

/-- a reply delivered to a client future -/
structure Reply where
  op : Nat
  txt : String
deriving Repr, DecidableEq

open HappyModel.Proto in
def parseAct (ts : List String) : Option Act :=
  match ts with
  | ["cw", op, n, k, v] => some (.cw (natD op) (natD n) (natD k) (natD v))
  | ["cr", op, n, k] => some (.cr (natD op) (natD n) (natD k))
  | ["d", m] => some (.dl (natD m))
  | ["r", p] => some (.rs (natD p))
  | ["ae", n, p] => some (.ae (natD n) (natD p))
  | ["t", ns] => some (.tick (natD ns))
  | _ => none

def showOpt : Option Nat → String
  | none => "-"
  | some v => toString v

/-- `k:v,k:v` for the keys `0..nk-1` that are present; `-` when empty -/
def showStore (st : Nat → Option Val) (nk : Nat) : String :=
  let xs := (List.range nk).filterMap fun k => (st k).map fun v => s!"{k}:{v}"
  if xs.isEmpty then "-" else ",".intercalate xs

end HappyModel.C17
