import HappyModel.C17.Base
/-!
C17 specification predicates — decidable, over *observed* transcripts only (what the harness saw
the real nodes do): the delivered events, the replies to client futures, and every replica's
store after every delivery.  Nothing here mentions a model state.

Property text: "Primary-backup: when a write is acknowledged it has been applied on every backup
in SYNC mode and on at least one in SEMI_SYNC mode.  Chain replication: an acknowledged write is
applied at every node of the chain and a read never returns a value not yet committed at the tail.
In every scheme, once writes stop and all in-flight messages are delivered (anti-entropy having
run for multi-leader), all replicas hold the same value for every key, under any message
reordering."

"Applied at replica r" for an acknowledged write w of key k is read as: r's store holds, for k,
the value of w or of a write to k that the primary/head accepted after w (a later write may
already have replaced it; an older value, or none, may not be there).  Write values are unique
per run (harness), so a value identifies its write; the order in which `cw` events were delivered
to the primary/head is the order of acceptance.
-/
namespace HappyModel.C17.Spec
open HappyModel.Proto

abbrev Store := List (Nat × Nat)

structure Step where
  act : List String
  replies : List (Nat × List String) := []
  stores : List Store := []
deriving Repr

def parseStore (t : String) : Store :=
  if t == "-" then [] else
  (t.splitOn ",").filterMap fun kv =>
    match kv.splitOn ":" with
    | [k, v] => some (natD k, natD v)
    | _ => none

/-- `S a | b | c ; extras…` -/
def parseStores (ts : List String) : List Store :=
  let upto := ts.takeWhile (· != ";")
  (upto.filter (· != "|")).map parseStore

/-- group transcript lines into steps; returns (steps, quiescent flag) -/
def parseSteps (lines : List String) : List Step × Bool :=
  let rec go (ls : List String) (cur : Option Step) (acc : List Step) (q : Bool) : List Step × Bool :=
    match ls with
    | [] => ((match cur with | some c => c :: acc | none => acc).reverse, q)
    | l :: rest =>
      match toks l with
      | "S" :: ts =>
        (match cur with
         | some c => go rest none ({ c with stores := parseStores ts } :: acc) q
         | none => go rest none acc q)
      | "reply" :: op :: ts =>
        (match cur with
         | some c => go rest (some { c with replies := c.replies ++ [(natD op, ts)] }) acc q
         | none => go rest none acc q)
      | ["Q", f] => go rest cur acc (f == "1")
      | ["t", _] => go rest cur acc q
      | [] => go rest cur acc q
      | ts =>
        (match cur with
         | some c => go rest (some { act := ts }) (c :: acc) q
         | none => go rest (some { act := ts }) acc q)
  go lines none [] false

def lookup (st : Store) (k : Nat) : Option Nat := (st.find? (·.1 == k)).map (·.2)

/-- accepted writes `(op, key, val)` at `node`, in delivery order -/
def writesAt (steps : List Step) (node : Nat) : List (Nat × Nat × Nat) :=
  steps.filterMap fun s =>
    match s.act with
    | ["cw", op, n, k, v] => if natD n == node then some (natD op, natD k, natD v) else none
    | _ => none

/-- client reads `(op, node, key)` -/
def readsOf (steps : List Step) : List (Nat × Nat × Nat) :=
  steps.filterMap fun s =>
    match s.act with
    | ["cr", op, n, k] => some (natD op, natD n, natD k)
    | _ => none

/-- store `st` holds, for the key of the `i`-th accepted write, the value of that write or of a
    later accepted write to the same key -/
def reflects (ws : List (Nat × Nat × Nat)) (i : Nat) (st : Store) : Bool :=
  match ws[i]? with
  | none => false
  | some (_, k, _) =>
    match lookup st k with
    | none => false
    | some v => (ws.drop i).any fun w => w.2.1 == k && w.2.2 == v

def indexOfOp (ws : List (Nat × Nat × Nat)) (op : Nat) : Option Nat :=
  let i := ws.findIdx (·.1 == op)
  if i < ws.length then some i else none

def sameMap (a b : Store) : Bool :=
  a.all (fun kv => lookup b kv.1 == some kv.2) && b.all (fun kv => lookup a kv.1 == some kv.2)

/-- all replicas hold the same value for every key -/
def converged (stores : List Store) : Bool :=
  match stores with
  | [] => true
  | s0 :: rest => rest.all (sameMap s0)

def finalStores (steps : List Step) : List Store :=
  match steps.getLast? with
  | some s => s.stores
  | none => []

def convergence (scheme : String) (steps : List Step) (q : Bool) : Option String :=
  if q && !(converged (finalStores steps)) then some s!"{scheme}/convergence/replicas-differ-at-quiescence" else none

/-- every `ok` reply of a write, with the stores at that instant: `chk i stores` must hold -/
def ackClause (steps : List Step) (ws : List (Nat × Nat × Nat))
    (chk : Nat → List Store → Bool) (sig : String) : Option String :=
  steps.findSome? fun s =>
    s.replies.findSome? fun r =>
      match r.2 with
      | "ok" :: _ =>
        (match indexOfOp ws r.1 with
         | some i => if chk i s.stores then none else some s!"{sig} op={r.1}"
         | none => none)
      | _ => none

/-- primary-backup; `mode` ∈ async | semi | sync; node 0 primary, 1..nb backups -/
def judgePB (mode : String) (nb : Nat) (steps : List Step) (q : Bool) : Option String :=
  let ws := writesAt steps 0
  let c1 :=
    if mode == "sync" then
      ackClause steps ws (fun i st => (st.drop 1).all (reflects ws i) && st.length == nb + 1)
        "pb/sync-ack/backup-lacks-acknowledged-write"
    else if mode == "semi" && nb > 0 then
      ackClause steps ws (fun i st => (st.drop 1).any (reflects ws i))
        "pb/semisync-ack/no-backup-has-acknowledged-write"
    else none
  c1 <|> convergence "pb" steps q

/-- was value `v` for key `k` in the tail's store at some step up to and including `upto`? -/
def tailHad (steps : List Step) (tail upto k v : Nat) : Bool :=
  (steps.take (upto + 1)).any fun s =>
    match s.stores[tail]? with
    | some st => lookup st k == some v
    | none => false

/-- chain replication with `n` nodes (0 head … n-1 tail) -/
def judgeChain (n : Nat) (craq : Bool) (steps : List Step) (q : Bool) : Option String :=
  let ws := writesAt steps 0
  let rs := readsOf steps
  let c1 := ackClause steps ws (fun i st => st.all (reflects ws i) && st.length == n)
    "chain/ack/node-lacks-acknowledged-write"
  let idx := List.range steps.length
  let c2 := (steps.zip idx).findSome? fun (s, t) =>
    s.replies.findSome? fun r =>
      match r.2 with
      | ["val", v] =>
        if v == "-" then none else
        (match rs.find? (·.1 == r.1) with
         | some (_, node, k) =>
           if (craq || node == n - 1) && !(tailHad steps (n - 1) t k (natD v)) then
             some s!"chain/read/value-not-committed-at-tail op={r.1}"
           else none
         | none => none)
      | _ => none
  c1 <|> c2 <|> convergence "chain" steps q

def judgeML (steps : List Step) (q : Bool) : Option String :=
  convergence "ml" steps q

end HappyModel.C17.Spec
