import HappyModel.C17.Base
/-!
C17 specification predicates — decidable, over *observed* transcripts only (what the harness saw
the real nodes do): the delivered events, the replies to client futures, and every replica's
store after every delivery.  Nothing here mentions a model state.

Property text: "Primary-backup: when a write is acknowledged it has been applied on every backup
in SYNC mode and on at least one in SEMI_SYNC mode.  Chain replication: an acknowledged write is
applied at every node of the chain and a read never returns a value not yet committed at the tail.
In every scheme, once writes stop and all in-flight messages are delivered (anti-entropy having
run for multi-leader), all replicas hold the same value for every key, under any message
reordering."

"Applied at replica r" for an acknowledged write w of key k is read as: r's store holds, for k,
the value of w or of a write to k that the primary/head accepted after w (a later write may
already have replaced it; an older value, or none, may not be there).  Write values are unique
per run (harness), so a value identifies its write; the order in which `cw` events were delivered
to the primary/head is the order of acceptance.
-/
namespace HappyModel.C17.Spec
open HappyModel.Proto

abbrev Store := List (Nat × Nat)

structure Step where
  act : List String
  replies : List (Nat × List String) := []
  stores : List Store := []
deriving Repr

def parseStore (t : String) : Store :=
  if t == "-" then [] else
  (t.splitOn ",").filterMap fun kv =>
    match kv.splitOn ":" with
    | [k, v] => some (natD k, natD v)
    | _ => none

/-- `S a | b | c ; extras…` -/
def parseStores (ts : List String) : List Store :=
  let upto := ts.takeWhile (· != ";")
  (upto.filter (· != "|")).map parseStore

/-- group transcript lines into steps; returns (steps, quiescent flag) -/
def parseSteps (lines : List String) : List Step × Bool :=
  let rec go (ls : List String) (cur : Option Step) (acc : List Step) (q : Bool) : List Step × Bool :=
    match ls with
    | [] => ((match cur with | some c => c :: acc | none => acc).reverse, q)
    | l :: rest =>
      match toks l with
      | "S" :: ts =>
        (match cur with
         | some c => go rest none ({ c with stores := parseStores ts } :: acc) q
         | none => go rest none acc q)
      | "reply" :: op :: ts =>
        (match cur with
         | some c => go rest (some { c with replies := c.replies ++ [(natD op, ts)] }) acc q
         | none => go rest none acc q)
      | ["Q", f] => go rest cur acc (f == "1")
      | ["t", _] => go rest cur acc q
      | [] => go rest cur acc q
      | ts =>
        (match cur with
         | some c => go rest (some { act := ts }) (c :: acc) q
         | none => go rest (some { act := ts }) acc q)
  go lines none [] false

def lookup (st : Store) (k : Nat) : Option Nat := (st.find? (·.1 == k)).map (·.2)

/-- accepted writes `(op, key, val)` at `node`, in delivery order -/
def writesAt (steps : List Step) (node : Nat) : List (Nat × Nat × Nat) :=
  steps.filterMap fun s =>
    match s.act with
    | ["cw", op, n, k, v] => if natD n == node then some (natD op, natD k, natD v) else none
    | _ => none

/-- client reads `(op, node, key)` -/
def readsOf (steps : List Step) : List (Nat × Nat × Nat) :=
  steps.filterMap fun s =>
    match s.act with
    | ["cr", op, n, k] => some (natD op, natD n, natD k)
    | _ => none

/-- store `st` holds, for the key of the `i`-th accepted write, the value of that write or of a
    later accepted write to the same key -/
def reflects (ws : List (Nat × Nat × Nat)) (i : Nat) (st : Store) : Bool :=
  match ws[i]? with
  | none => false
  | some (_, k, _) =>
    match lookup st k with
    | none => false
    | some v => (ws.drop i).any fun w => w.2.1 == k && w.2.2 == v

def indexOfOp (ws : List (Nat × Nat × Nat)) (op : Nat) : Option Nat :=
  let i := ws.findIdx (·.1 == op)
  if i < ws.length then some i else none

def sameMap (a b : Store) : Bool :=
  a.all (fun kv => lookup b kv.1 == some kv.2) && b.all (fun kv => lookup a kv.1 == some kv.2)

/-- all replicas hold the same value for every key -/
def converged (stores : List Store) : Bool :=
  match stores with
  | [] => true
  | s0 :: rest => rest.all (sameMap s0)

def finalStores (steps : List Step) : List Store :=
  match steps.getLast? with
  | some s => s.stores
  | none => []

def convergence (scheme : String) (steps : List Step) (q : Bool) : Option String :=
  if q && !(converged (finalStores steps)) then some s!"{scheme}/convergence/replicas-differ-at-quiescence" else none

/-- every `ok` reply of a write, with the stores at that instant: `chk i stores` must hold -/
def ackClause (steps : List Step) (ws : List (Nat × Nat × Nat))
    (chk : Nat → List Store → Bool) (sig : String) : Option String :=
  steps.findSome? fun s =>
    s.replies.findSome? fun r =>
      match r.2 with
      | "ok" :: _ =>
        (match indexOfOp ws r.1 with
         | some i => if chk i s.stores then none else some s!"{sig} op={r.1}"
         | none => none)
      | _ => none

/-- primary-backup; `mode` ∈ async | semi | sync; node 0 primary, 1..nb backups -/
def judgePB (mode : String) (nb : Nat) (steps : List Step) (q : Bool) : Option String :=
  let ws := writesAt steps 0
  let c1 :=
    if mode == "sync" then
      ackClause steps ws (fun i st => (st.drop 1).all (reflects ws i) && st.length == nb + 1)
        "pb/sync-ack/backup-lacks-acknowledged-write"
    else if mode == "semi" && nb > 0 then
      ackClause steps ws (fun i st => (st.drop 1).any (reflects ws i))
        "pb/semisync-ack/no-backup-has-acknowledged-write"
    else none
  c1 <|> convergence "pb" steps q

/-- was value `v` for key `k` in the tail's store at some step up to and including `upto`? -/
def tailHad (steps : List Step) (tail upto k v : Nat) : Bool :=
  (steps.take (upto + 1)).any fun s =>
    match s.stores[tail]? with
    | some st => lookup st k == some v
    | none => false

/-- chain replication with `n` nodes (0 head … n-1 tail) -/
def judgeChain (n : Nat) (craq : Bool) (steps : List Step) (q : Bool) : Option String :=
  let ws := writesAt steps 0
  let rs := readsOf steps
  let c1 := ackClause steps ws (fun i st => st.all (reflects ws i) && st.length == n)
    "chain/ack/node-lacks-acknowledged-write"
  let idx := List.range steps.length
  let c2 := (steps.zip idx).findSome? fun (s, t) =>
    s.replies.findSome? fun r =>
      match r.2 with
      | ["val", v] =>
        if v == "-" then none else
        (match rs.find? (·.1 == r.1) with
         | some (_, node, k) =>
           if (craq || node == n - 1) && !(tailHad steps (n - 1) t k (natD v)) then
             some s!"chain/read/value-not-committed-at-tail op={r.1}"
           else none
         | none => none)
      | _ => none
  c1 <|> c2 <|> convergence "chain" steps q

def judgeML (steps : List Step) (q : Bool) : Option String :=
  convergence "ml" steps q

/-! ### multi-leader with a merging resolver: "anti-entropy having run"

With a resolver that *merges* concurrent versions, delivering every `Replicate` is not enough for
agreement (a replica that merged an overwritten version keeps its items; `mlm_replicate_order_matters`
in the proofs), so the property's parenthesis matters: the convergence clause is judged when the run
is quiescent **and anti-entropy has run**, read as: after the last client write and the last
`Replicate` handler step, the anti-entropy *requests* alone carry every leader's state to every
leader.  A request conveys what its sender knew at the tick (`_handle_anti_entropy` snapshots
`_versions` there) and has been merged by the receiver when its handler finishes; responses are not
counted (they only add exchanges).  Everything is read off the delivery log: handlers are numbered in
the order their starting events appear, `r pid seg` lines refer back to them, and — all messages
being delivered at quiescence — the k-th tick's request is the k-th `AntiEntropyRequest` in message-id
order (`Network.send` ids grow in send order). -/

/-- kind of handler a delivery starts -/
def startKind (act : List String) : Option String :=
  match act with
  | "cw" :: _ => some "w"
  | "cr" :: _ => some "rd"
  | "ae" :: _ => some "ae"
  | "d" :: _ :: _ :: ty :: _ =>
    some (if ty == "Replicate" then "repl" else if ty == "AntiEntropyRequest" then "aereq"
          else if ty == "AntiEntropyResponse" then "aeresp" else "other")
  | _ => none

/-- `(pid, kind)` of the handler every step belongs to -/
def stepProcs (steps : List Step) : List (Nat × String) :=
  let r := steps.foldl (fun (acc : Array String × Array (Nat × String)) s =>
    match startKind s.act with
    | some k => (acc.1.push k, acc.2.push (acc.1.size, k))
    | none =>
      match s.act with
      | ["r", pid, _] => (acc.1, acc.2.push (natD pid, acc.1.getD (natD pid) "?"))
      | _ => (acc.1, acc.2.push (0, "?"))) ((#[], #[]) : Array String × Array (Nat × String))
  r.2.toList

/-- first index after the last step of a client-write or `Replicate` handler -/
def settleIdx (ps : List (Nat × String)) : Nat :=
  (ps.zip (List.range ps.length)).foldl
    (fun acc x => if x.1.2 == "w" || x.1.2 == "repl" then x.2 + 1 else acc) 0

def insertBy (x : Nat × Nat × Nat) : List (Nat × Nat × Nat) → List (Nat × Nat × Nat)
  | [] => [x]
  | y :: ys => if x.1 ≤ y.1 then x :: y :: ys else y :: insertBy x ys

/-- anti-entropy ticks `(step, node, peer)` in delivery order -/
def aeTicks (steps : List Step) : List (Nat × Nat × Nat) :=
  (steps.zip (List.range steps.length)).filterMap fun x =>
    match x.1.act with
    | ["ae", i, j] => some (x.2, natD i, natD j)
    | _ => none

/-- delivered requests `(mid, dst, pid)` in message-id order -/
def aeRequests (steps : List Step) (ps : List (Nat × String)) : List (Nat × Nat × Nat) :=
  ((steps.zip ps).filterMap fun x =>
    match x.1.act with
    | "d" :: mid :: dst :: "AntiEntropyRequest" :: _ => some (natD mid, natD dst, x.2.1)
    | _ => none).foldl (fun acc r => insertBy r acc) []

/-- index of the last step of handler `pid` -/
def lastStepOf (ps : List (Nat × String)) (pid : Nat) : Nat :=
  (ps.zip (List.range ps.length)).foldl (fun acc x => if x.1.1 == pid then x.2 else acc) 0

def addAll (a b : List Nat) : List Nat := b.foldl (fun acc x => if acc.contains x then acc else x :: acc) a

/-- do the anti-entropy requests ticked after the writes settled carry every leader's state to
    every leader? -/
def gossipComplete (n : Nat) (steps : List Step) : Bool :=
  let ps := stepProcs steps
  let p := settleIdx ps
  let ticks := aeTicks steps
  let reqs := aeRequests steps ps
  if ticks.length != reqs.length then false else
  let pairs := ticks.zip reqs
  if pairs.any (fun x => x.1.2.2 != x.2.2.1) then false else
  -- (tick step, sender, finish step, receiver)
  let evs := pairs.map fun x => (x.1.1, x.1.2.1, lastStepOf ps x.2.2.2, x.2.2.1)
  let k0 : Array (List Nat) := (Array.range n).map fun i => [i]
  let snap0 : Array (List Nat) := (Array.range evs.length).map fun _ => []
  let evi := evs.zip (List.range evs.length)
  let r := (List.range steps.length).foldl (fun (acc : Array (List Nat) × Array (List Nat)) idx =>
    evi.foldl (fun acc e =>
      let acc := if e.1.1 == idx && idx ≥ p then (acc.1, acc.2.setIfInBounds e.2 (acc.1.getD e.1.2.1 [])) else acc
      if e.1.2.2.1 == idx then (acc.1.setIfInBounds e.1.2.2.2 (addAll (acc.1.getD e.1.2.2.2 []) (acc.2.getD e.2 [])), acc.2)
      else acc) acc) (k0, snap0)
  (List.range n).all fun i => (List.range n).all fun j => (r.1.getD i []).contains j

/-- multi-leader with `n` leaders; `merging`: the resolver combines concurrent versions -/
def judgeMLn (n : Nat) (merging : Bool) (steps : List Step) (q : Bool) : Option String :=
  if merging then
    if q && gossipComplete n steps && !(converged (finalStores steps)) then
      some "ml/convergence/replicas-differ-after-anti-entropy"
    else none
  else convergence "ml" steps q

/-- multi-leader on any topology.  Full mesh: `judgeMLn`.  Star / line (a leader's writes reach only its
    peers; the others learn them through anti-entropy alone): with a resolver that returns one of its
    inputs — a total order on coherent versions, so merging is "keep the greater" — the convergence
    clause is judged when the run is quiescent and anti-entropy has run (`gossipComplete`); with a
    merging resolver no convergence claim is made off the mesh (a version that dominates drops the
    items of the one it replaces, so the merge is not associative across partial views). -/
def judgeMLt (n : Nat) (merging mesh : Bool) (steps : List Step) (q : Bool) : Option String :=
  if mesh then judgeMLn n merging steps q
  else if merging then none
  else if q && gossipComplete n steps && !(converged (finalStores steps)) then
    some "ml/convergence/replicas-differ-after-anti-entropy"
  else none

end HappyModel.C17.Spec
