import HappyModel.C17.MLM
/-!
Multi-leader replication on an arbitrary (symmetric) peer topology: the `LeaderNode` transition system
of `ML.lean` / `MLM.lean` with

* `adj` — every leader's own peer list (`add_peers`), in order: a write is replicated to the leader's
  peers only, an anti-entropy tick goes to one of them, an `AntiEntropyRequest` is answered only if the
  requester is a peer.  `mesh` (everybody), `star` (leader 0 is the hub, the spokes know only the hub),
  `line`;
* the resolver as a switch: `lww` (returns one of its inputs: `ML.takes`, the incoming version is
  stored) or merging (`MLM.takes` / `MLM.pick` with the join).

Vector clocks are lists indexed by leader with missing components read as 0 — exactly what the dicts of
`VectorClock` are (`receive` adds unknown ids, `_vc_dominates` walks the union of both key sets), so
leaders whose snapshots carry different id sets need no special treatment here; `ML.dominates` is a
strict partial order whatever the supports are (`ml_dominates_asymm`, `ml_dominates_trans`).
On a mesh this is `ML` / `MLM` (which the driver uses there, with their theorems); on the other
topologies a leader learns about non-adjacent writes only through anti-entropy.
-/
namespace HappyModel.C17.MLT
open HappyModel.C17.ML (Version Msg Proc MKind PKind vcGet dominates vcMerge vcTick)
open HappyModel.C17.MLM (Join)

structure St where
  n : Nat
  nk : Nat
  join : Join
  lww : Bool                       -- the resolver returns one of its inputs (`LastWriterWins` order)
  adj : List (List Nat)            -- peers of every leader, in `add_peers` order
  now : Nat := 0
  store : Nat → Nat → Option Val := fun _ _ => none
  vers : Nat → Nat → Option Version := fun _ _ => none
  order : Nat → List Nat := fun _ => []       -- dict order of `_versions` keys
  clock : Nat → List Nat := fun _ => []
  np : Nat := 0
  procs : Nat → Option Proc := fun _ => none
  nm : Nat := 0
  msgs : Nat → Option Msg := fun _ => none
  replies : List Reply := []
  err : Option String := none

def St.spawn (s : St) (p : Proc) : St := { s with np := s.np + 1, procs := upd s.procs s.np (some p) }
def St.setProc (s : St) (pid : Nat) (p : Proc) : St := { s with procs := upd s.procs pid (some p) }
def St.send (s : St) (m : Msg) : St := { s with nm := s.nm + 1, msgs := upd s.msgs s.nm (some m) }
def St.reply (s : St) (op : Nat) (txt : String) : St := { s with replies := ⟨op, txt⟩ :: s.replies }
def St.fail (s : St) (e : String) : St := { s with err := some e }

/-- `_pick(existing, incoming) is not existing`, per resolver -/
def takesR (s : St) (existing : Option Version) (incoming : Version) : Bool :=
  if s.lww then ML.takes s.n existing incoming else MLM.takes s.n existing incoming

/-- the version `_install` stores -/
def pickR (s : St) (existing : Option Version) (incoming : Version) : Version :=
  if s.lww then incoming else MLM.pick s.n s.join existing incoming

def clockOf (s : St) (i : Nat) : List Nat :=
  (List.range s.n).map fun j => vcGet (s.clock i) j

/-- `_install`: merge at this instant; `true` if the local version was (re)installed -/
def install (s : St) (i k : Nat) (inc : Version) : St × Bool :=
  if takesR s (s.vers i k) inc then
    ({ s with store := upd2 s.store i k (some (pickR s (s.vers i k) inc).val),
              vers := upd2 s.vers i k (some (pickR s (s.vers i k) inc)),
              order := if (s.order i).contains k then s.order else upd s.order i (s.order i ++ [k]) }, true)
  else (s, false)

def versionsOf (s : St) (i : Nat) : List (Nat × Version) :=
  (s.order i).filterMap fun k => (s.vers i k).map fun v => (k, v)

def peersOf (s : St) (i : Nat) : List Nat := s.adj.getD i []

def sameMap (nk : Nat) (a b : Nat → Option Val) : Bool := (List.range nk).all fun k => a k == b k

/-- run an anti-entropy merge loop until it has to wait for a write latency or is done -/
def aeLoop (s : St) (i : Nat) : List (Nat × Version) → St × List (Nat × Version)
  | [] => (s, [])
  | (k, v) :: rest =>
    if takesR s (s.vers i k) v then (s, (k, v) :: rest) else aeLoop s i rest

/-- continue an anti-entropy request/response handler after its loop state `items` -/
def aeContinue (s : St) (pid : Nat) (p : Proc) (items : List (Nat × Version)) : St :=
  let (s1, left) := aeLoop s p.node items
  match left with
  | _ :: _ => s1.setProc pid { p with items := left, waiting := true }
  | [] =>
    if p.kind = .aereq ∧ !(sameMap s.nk p.hash (s1.store p.node)) ∧ (peersOf s p.node).contains p.src then
      (s1.send { kind := .aeresp, src := p.node, dst := p.src, items := versionsOf s1 p.node }).setProc pid
        { p with items := [], waiting := false, sent := true }
    else s1.setProc pid { p with items := [], waiting := false, fin := true }

def resume (s : St) (pid : Nat) : St :=
  match s.procs pid with
  | none => s.fail "no-such-process"
  | some p0 =>
    if p0.fin then s.fail "process-finished" else
    let p := { p0 with seg := p0.seg + 1 }
    match p.kind with
    | .write =>
      if p0.seg = 1 then
        let s1 := (install s p.node p.key p.ver).1
        let s2 := (peersOf s p.node).foldl
          (fun s j => s.send { kind := .repl, src := p.node, dst := j, key := p.key, ver := p.ver }) s1
        s2.setProc pid p
      else (s.reply p.op "ok").setProc pid { p with fin := true }
    | .repl => ((install s p.node p.key p.ver).1).setProc pid { p with fin := true }
    | .read => (s.reply p.op s!"val {showOpt (s.store p.node p.key)}").setProc pid { p with fin := true }
    | .ae => s.setProc pid { p with fin := true }
    | .aereq | .aeresp =>
      if p.sent then s.setProc pid { p with fin := true }
      else match p.items with
        | (k, v) :: rest =>
          if p.waiting then aeContinue (install s p.node k v).1 pid p rest
          else s.fail "not-waiting"
        | [] => s.fail "not-waiting"
    | .other => s.fail "process-finished"

def deliver (s : St) (mid : Nat) : St :=
  match s.msgs mid with
  | none => s.fail "no-such-message"
  | some m =>
    if m.delivered then s.fail "already-delivered" else
    let s1 := { s with msgs := upd s.msgs mid (some { m with delivered := true }) }
    let i := m.dst
    match m.kind with
    | .repl =>
      let s2 := { s1 with clock := upd s1.clock i (vcTick s.n (vcMerge s.n (s1.clock i) m.ver.vc) i) }
      if takesR s (s2.vers i m.key) m.ver then
        s2.spawn { kind := .repl, node := i, key := m.key, ver := m.ver, op := mid }
      else s2.spawn { kind := .repl, node := i, key := m.key, ver := m.ver, op := mid, fin := true }
    | .aereq =>
      let p : Proc := { kind := .aereq, node := i, src := m.src, hash := m.hash, op := mid }
      aeContinue (s1.spawn p) s1.np p m.items
    | .aeresp =>
      let p : Proc := { kind := .aeresp, node := i, src := m.src, op := mid }
      aeContinue (s1.spawn p) s1.np p m.items

def step (s : St) : Act → St
  | .tick t => { s with now := t }
  | .cw op node k v =>
    if node ≥ s.n then s.fail "no-such-node" else
    let c := vcTick s.n (s.clock node) node
    ({ s with clock := upd s.clock node c }).spawn
      { kind := .write, node := node, key := k, ver := ⟨v, s.now, node, c⟩, op := op }
  | .cr op node k =>
    if node ≥ s.n then s.fail "no-such-node" else
    s.spawn { kind := .read, node := node, key := k, op := op }
  | .dl mid => deliver s mid
  | .rs pid => resume s pid
  | .ae node peer =>
    if node ≥ s.n ∨ peer ≥ s.n ∨ !(peersOf s node).contains peer then s.fail "bad-anti-entropy" else
    (s.send { kind := .aereq, src := node, dst := peer, items := versionsOf s node, hash := s.store node }).spawn
      { kind := .ae, node := node }

def run (s : St) : List Act → St
  | [] => s
  | a :: as => run (step s a) as

def mesh (n : Nat) : List (List Nat) := (List.range n).map fun i => (List.range n).filter (· != i)
/-- leader 0 is the hub -/
def star (n : Nat) : List (List Nat) := (List.range n).map fun i => if i = 0 then (List.range n).filter (· != 0) else [0]
def line (n : Nat) : List (List Nat) :=
  (List.range n).map fun i => (if i = 0 then [] else [i - 1]) ++ (if i + 1 < n then [i + 1] else [])

def init (n nk : Nat) (join : Join) (lww : Bool) (adj : List (List Nat)) : St := { n, nk, join, lww, adj }

def quiescentB (s : St) : Bool :=
  (List.range s.nm).all (fun i => match s.msgs i with | some m => m.delivered | none => true) &&
  (List.range s.np).all (fun i => match s.procs i with | some p => p.fin | none => true)

end HappyModel.C17.MLT
