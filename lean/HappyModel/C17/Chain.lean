import HappyModel.C17.Base
/-!
Model of `happysimulator/components/replication/chain_replication.py` (`ChainNode`, `build_chain`)
on the tree with `fixes/C17-chain-apply-by-seq.diff`.  Nodes `0 … n-1`, `0` = HEAD, `n-1` = TAIL,
`n ≥ 2`.

`_handle_write` (HEAD)      seg 1: `_next_seq += 1`, start `store.put`
                            seg 2: put lands, `_applied_seq[key] = seq`, CRAQ: key dirty,
                                   `Propagate` to node 1, `yield 0.0, [ev]`
                            seg 3: park on the ack future
                            seg 4: resumed by `WriteAck` → `_mark_committed`, reply
`_handle_propagate`         seg 1: wait the write latency
                            seg 2: apply if `seq` is newer for the key (CRAQ: key dirty);
                                   TAIL: `WriteAck` to HEAD / MIDDLE: `Propagate` to the next node
                            seg 3: TAIL: `_mark_committed`; CRAQ: `CommitNotify` to every upstream node
                            seg 4: (TAIL, CRAQ) end
`_handle_write_ack`         resolves the pending future of `seq`
`_handle_commit_notify`     CRAQ: `_mark_committed(key, seq)`
`_handle_read`              seg 1: wait the read latency
                            seg 2: read locally; CRAQ, not TAIL, key dirty → forward `Read` to TAIL,
                                   else reply
A key is dirty at a node iff the newest sequence applied there is not known to be committed:
`_mark_committed` clears it only when `committed_seq[key] ≥ applied_seq[key]`.
The HEAD's puts land in the order they were started (`p.seq = applied + 1`, see `PB.lean`).
-/
namespace HappyModel.C17.Chain

inductive MKind | prop | wack | cnote | rfwd
deriving Repr, DecidableEq

structure Msg where
  kind : MKind
  dst : Nat
  key : Nat
  val : Nat
  seq : Nat
  op : Nat := 0
  delivered : Bool := false
deriving Repr

inductive PKind | write | prop | read | other
deriving Repr, DecidableEq

structure Proc where
  kind : PKind
  node : Nat
  key : Nat
  val : Nat
  seq : Nat
  op : Nat
  seg : Nat := 1
  fin : Bool := false
deriving Repr

structure St where
  craq : Bool
  n : Nat
  seq : Nat := 0
  applied : Nat := 0
  store : Nat → Nat → Option Val := fun _ _ => none
  aseq : Nat → Nat → Nat := fun _ _ => 0
  cseq : Nat → Nat → Nat := fun _ _ => 0
  dirty : Nat → Nat → Bool := fun _ _ => false
  ackd : Nat → Bool := fun _ => false
  np : Nat := 0
  procs : Nat → Option Proc := fun _ => none
  nm : Nat := 0
  msgs : Nat → Option Msg := fun _ => none
  wk : Nat → Nat := fun _ => 0
  wv : Nat → Nat := fun _ => 0
  replies : List Reply := []
  err : Option String := none

def St.spawn (s : St) (p : Proc) : St := { s with np := s.np + 1, procs := upd s.procs s.np (some p) }
def St.setProc (s : St) (pid : Nat) (p : Proc) : St := { s with procs := upd s.procs pid (some p) }
def St.send (s : St) (m : Msg) : St := { s with nm := s.nm + 1, msgs := upd s.msgs s.nm (some m) }
def St.reply (s : St) (op : Nat) (txt : String) : St := { s with replies := ⟨op, txt⟩ :: s.replies }
def St.fail (s : St) (e : String) : St := { s with err := some e }

def St.tail (s : St) : Nat := s.n - 1

/-- `ChainNode._mark_committed` -/
def markCommitted (s : St) (i k q : Nat) : St :=
  let c := max (s.cseq i k) q
  let s1 := { s with cseq := upd2 s.cseq i k c }
  if s.aseq i k ≤ c then { s1 with dirty := upd2 s1.dirty i k false } else s1

/-- apply a write at node `i` if it is newer than what the node applied for the key -/
def applyAt (s : St) (i k v q : Nat) : St :=
  if s.aseq i k < q then
    { s with aseq := upd2 s.aseq i k q, store := upd2 s.store i k (some v),
             dirty := if s.craq then upd2 s.dirty i k true else s.dirty }
  else s

def okTxt (q : Nat) : String := s!"ok {q}"

def resumeWrite (s : St) (pid : Nat) (p : Proc) : St :=
  if p.seg = 1 then
    if p.seq ≠ s.applied + 1 then s.fail "put-not-fifo" else
    let s1 := { s with applied := s.applied + 1, store := upd2 s.store 0 p.key (some p.val),
                       aseq := upd2 s.aseq 0 p.key p.seq,
                       dirty := if s.craq then upd2 s.dirty 0 p.key true else s.dirty }
    let s2 := s1.send { kind := .prop, dst := 1, key := p.key, val := p.val, seq := p.seq }
    s2.setProc pid { p with seg := 2 }
  else if p.seg = 2 then s.setProc pid { p with seg := 3 }
  else
    if s.ackd p.seq then
      ((markCommitted s 0 p.key p.seq).reply p.op (okTxt p.seq)).setProc pid { p with seg := 4, fin := true }
    else s.fail "resumed-without-ack"

/-- CommitNotify to `from-1, from-2, …, 0` (walks `prev_node`) -/
def sendNotes (s : St) (k q : Nat) : Nat → St
  | 0 => s
  | i + 1 => sendNotes (s.send { kind := .cnote, dst := i, key := k, val := 0, seq := q }) k q i

def resumeProp (s : St) (pid : Nat) (p : Proc) : St :=
  let i := p.node
  if p.seg = 1 then
    let s1 := applyAt s i p.key p.val p.seq
    let s2 := if i = s.tail then s1.send { kind := .wack, dst := 0, key := p.key, val := 0, seq := p.seq }
              else s1.send { kind := .prop, dst := i + 1, key := p.key, val := p.val, seq := p.seq }
    s2.setProc pid { p with seg := 2 }
  else if p.seg = 2 then
    if i = s.tail then
      let s1 := markCommitted s i p.key p.seq
      if s.craq then (sendNotes s1 p.key p.seq i).setProc pid { p with seg := 3 }
      else s1.setProc pid { p with seg := 3, fin := true }
    else s.setProc pid { p with seg := 3, fin := true }
  else s.setProc pid { p with seg := 4, fin := true }

def resumeRead (s : St) (pid : Nat) (p : Proc) : St :=
  if p.seg = 1 then
    if s.craq && p.node != s.tail && s.dirty p.node p.key then
      (s.send { kind := .rfwd, dst := s.tail, key := p.key, val := 0, seq := 0, op := p.op }).setProc pid
        { p with seg := 2 }
    else (s.reply p.op s!"val {showOpt (s.store p.node p.key)}").setProc pid { p with seg := 2, fin := true }
  else s.setProc pid { p with seg := 3, fin := true }

def resume (s : St) (pid : Nat) : St :=
  match s.procs pid with
  | none => s.fail "no-such-process"
  | some p =>
    if p.fin then s.fail "process-finished" else
    match p.kind with
    | .write => resumeWrite s pid p
    | .prop => resumeProp s pid p
    | .read => resumeRead s pid p
    | .other => s.fail "process-finished"

def deliver (s : St) (mid : Nat) : St :=
  match s.msgs mid with
  | none => s.fail "no-such-message"
  | some m =>
    if m.delivered then s.fail "already-delivered" else
    let s1 := { s with msgs := upd s.msgs mid (some { m with delivered := true }) }
    match m.kind with
    | .prop => s1.spawn { kind := .prop, node := m.dst, key := m.key, val := m.val, seq := m.seq, op := mid }
    | .wack =>
      ({ s1 with ackd := upd s1.ackd m.seq true }).spawn
        { kind := .other, node := 0, key := m.key, val := 0, seq := m.seq, op := mid, fin := true }
    | .cnote =>
      (if s.craq then markCommitted s1 m.dst m.key m.seq else s1).spawn
        { kind := .other, node := m.dst, key := m.key, val := 0, seq := m.seq, op := mid, fin := true }
    | .rfwd => s1.spawn { kind := .read, node := m.dst, key := m.key, val := 0, seq := 0, op := m.op }

def step (s : St) : Act → St
  | .cw op node k v =>
    if node ≥ s.n then s.fail "no-such-node" else
    if node ≠ 0 then
      (s.reply op "error").spawn { kind := .other, node := node, key := k, val := v, seq := 0, op := op, fin := true }
    else
      let q := s.seq + 1
      ({ s with seq := q, wk := upd s.wk q k, wv := upd s.wv q v }).spawn
        { kind := .write, node := 0, key := k, val := v, seq := q, op := op }
  | .cr op node k =>
    if node ≥ s.n then s.fail "no-such-node" else
    s.spawn { kind := .read, node := node, key := k, val := 0, seq := 0, op := op }
  | .dl mid => deliver s mid
  | .rs pid => resume s pid
  | .ae _ _ => s.fail "no-anti-entropy"
  | .tick _ => s.fail "no-clock"

def run (s : St) : List Act → St
  | [] => s
  | a :: as => run (step s a) as

def init (craq : Bool) (n : Nat) : St := { craq, n }

def quiescent (s : St) : Prop :=
  s.applied = s.seq ∧ (∀ mid < s.nm, ∀ m, s.msgs mid = some m → m.delivered = true) ∧
  (∀ pid < s.np, ∀ p, s.procs pid = some p → p.fin = true)

def quiescentB (s : St) : Bool :=
  s.applied == s.seq &&
  (List.range s.nm).all (fun i => match s.msgs i with | some m => m.delivered | none => true) &&
  (List.range s.np).all (fun i => match s.procs i with | some p => p.fin | none => true)

end HappyModel.C17.Chain
