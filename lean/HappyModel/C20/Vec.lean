/-!
Counter / register vectors as plain lists (an absent index reads as 0).  They stand for the Python
lists `CountMinSketch._counters[row]` and `HyperLogLog._registers`, which are created with a fixed
length full of zeros; reading an index the list has not grown to yet gives the same 0.
-/
namespace HappyModel.C20

abbrev Vec := List Nat

namespace Vec

def get (v : Vec) (i : Nat) : Nat := v.getD i 0

/-- `v[i] += d`, padding with zeros -/
def addAt : Vec → Nat → Nat → Vec
  | [], 0, d => [d]
  | [], i+1, d => 0 :: addAt [] i d
  | x :: xs, 0, d => (x + d) :: xs
  | x :: xs, i+1, d => x :: addAt xs i d

/-- `v[i] = max(v[i], d)`, padding with zeros -/
def maxAt : Vec → Nat → Nat → Vec
  | [], 0, d => [d]
  | [], i+1, d => 0 :: maxAt [] i d
  | x :: xs, 0, d => (max x d) :: xs
  | x :: xs, i+1, d => x :: maxAt xs i d

/-- pointwise sum, padding the shorter list -/
def vadd : Vec → Vec → Vec
  | [], ys => ys
  | xs, [] => xs
  | x :: xs, y :: ys => (x + y) :: vadd xs ys

/-- pointwise maximum, padding the shorter list -/
def vmax : Vec → Vec → Vec
  | [], ys => ys
  | xs, [] => xs
  | x :: xs, y :: ys => max x y :: vmax xs ys

@[simp] theorem get_nil (i : Nat) : get [] i = 0 := by simp [get]
@[simp] theorem get_cons_zero (x : Nat) (xs : Vec) : get (x :: xs) 0 = x := by simp [get]
@[simp] theorem get_cons_succ (x : Nat) (xs : Vec) (i : Nat) : get (x :: xs) (i+1) = get xs i := by
  simp [get]

theorem get_addAt (v : Vec) (i d j : Nat) :
    get (addAt v i d) j = if j = i then get v j + d else get v j := by
  induction v generalizing i j with
  | nil =>
    induction i generalizing j with
    | zero => cases j <;> simp [addAt]
    | succ i ih =>
      cases j with
      | zero => simp [addAt]
      | succ j => simp [addAt, ih]
  | cons x xs ih =>
    cases i with
    | zero => cases j <;> simp [addAt]
    | succ i =>
      cases j with
      | zero => simp [addAt]
      | succ j => simp [addAt, ih]

theorem get_maxAt (v : Vec) (i d j : Nat) :
    get (maxAt v i d) j = if j = i then max (get v j) d else get v j := by
  induction v generalizing i j with
  | nil =>
    induction i generalizing j with
    | zero => cases j <;> simp [maxAt]
    | succ i ih =>
      cases j with
      | zero => simp [maxAt]
      | succ j => simp [maxAt, ih]
  | cons x xs ih =>
    cases i with
    | zero => cases j <;> simp [maxAt]
    | succ i =>
      cases j with
      | zero => simp [maxAt]
      | succ j => simp [maxAt, ih]

theorem get_vadd (a b : Vec) (i : Nat) : get (vadd a b) i = get a i + get b i := by
  induction a generalizing b i with
  | nil => simp [vadd]
  | cons x xs ih =>
    cases b with
    | nil => simp [vadd]
    | cons y ys =>
      cases i with
      | zero => simp [vadd]
      | succ i => simp [vadd, ih]

theorem get_vmax (a b : Vec) (i : Nat) : get (vmax a b) i = max (get a i) (get b i) := by
  induction a generalizing b i with
  | nil => simp [vmax]
  | cons x xs ih =>
    cases b with
    | nil => simp [vmax]
    | cons y ys =>
      cases i with
      | zero => simp [vmax]
      | succ i => simp [vmax, ih]

end Vec
end HappyModel.C20
