import HappyModel.C20.Sketch
/-!
Model of `happysimulator/sketching/topk.py` (Space-Saving).  `_counters` is an insertion-ordered
`dict`: an association list in insertion order; `min(values, key=count)` picks the *first* counter
with the minimal count; `del` + insert moves the new item to the end.
-/
namespace HappyModel.C20

structure Ctr where
  item : Nat
  count : Nat
  err : Nat
deriving Repr, DecidableEq

structure TopK where
  k : Nat
  cs : List Ctr
  n : Nat
deriving Repr

def TopK.empty (k : Nat) : TopK := ⟨k, [], 0⟩

/-- minimal counter value (0 for no counters: `max_error()` of an empty sketch) -/
def minCount : List Ctr → Nat
  | [] => 0
  | [c] => c.count
  | c :: d :: l => min c.count (minCount (d :: l))

/-- Python `min(self._counters.values(), key=lambda c: c.count)`: first minimal element -/
def firstMin (cs : List Ctr) : Option Ctr := cs.find? (fun c => c.count == minCount cs)

def isTracked (cs : List Ctr) (x : Nat) : Bool := cs.any (fun c => c.item == x)

def incr (x c : Nat) (cs : List Ctr) : List Ctr :=
  cs.map fun ct => if ct.item = x then { ct with count := ct.count + c } else ct

def TopK.add (s : TopK) (x c : Nat) : TopK :=
  if c = 0 then s
  else if isTracked s.cs x then { s with cs := incr x c s.cs, n := s.n + c }
  else if s.cs.length < s.k then { s with cs := s.cs ++ [⟨x, c, 0⟩], n := s.n + c }
  else
    match firstMin s.cs with
    | none => { s with n := s.n + c }  -- k = 0 is rejected by the constructor; unreachable
    | some m =>
      { s with cs := s.cs.filter (fun ct => ct.item != m.item) ++ [⟨x, m.count + c, m.count⟩],
               n := s.n + c }

def TopK.ofStream (k : Nat) (xs : Stream) : TopK :=
  xs.foldl (fun s p => s.add p.1 p.2) (TopK.empty k)

def TopK.find (s : TopK) (x : Nat) : Option Ctr := s.cs.find? (fun c => c.item == x)

/-- (`x in topk`, `estimate_with_error(x).count`, `.error`) -/
def TopK.query (s : TopK) (x : Nat) : Bool × Nat × Nat :=
  match s.find x with
  | some c => (true, c.count, c.err)
  | none => (false, 0, minCount s.cs)

/-- `top()`: stable sort by count, descending -/
def TopK.top (s : TopK) : List Ctr := s.cs.mergeSort (fun a b => decide (a.count ≥ b.count))

end HappyModel.C20
