import HappyModel.C20.Merkle
/-!
`MerkleTree` as the *stateful* object the code implements: the `_data` dict and the stored `_root`
are two pieces of state; `update` / `remove` change the dict **and rebuild the stored tree**, `diff`
walks the stored trees only.  (`Merkle.lean` has the pure functions: `build`, `diffTrees`, `mapPut`,
`mapDel`.)  The point of keeping `root` as state is the clause "after every operation sequence the
stored hashes are those of the present contents" — `HappyProofs/C20/MerkleState.lean`.

Values are *serialisation ids*: two Python values get the same id exactly when the tree hashes them
alike (`repr(value)` is what `_hash_leaf` feeds to SHA-256).  `canon` maps a serialisation id to the
id of its Python-equality class (`1`, `1.0`, `True` ↦ one class); the code that exists hashes the
serialisation (`canon = id`, variant `current`), a tree that hashed a canonical form would be
`repaired`.
-/
namespace HappyModel.C20

structure MT where
  data : List (Nat × Nat) := []     -- sorted by key, distinct keys
  root : Option MTree := none
deriving Repr, DecidableEq

inductive MOp
  | upd (k v : Nat)
  | del (k : Nat)
deriving Repr, DecidableEq

namespace MT

/-- `MerkleTree.build(dict)`: a dict has one value per key (the last one given) -/
def ofList (m : List (Nat × Nat)) : MT :=
  let d := m.foldl (fun acc p => mapPut acc p.1 p.2) []
  ⟨d, build d⟩

/-- `update(key, value)`: store, then rebuild — unconditionally -/
def update (t : MT) (k v : Nat) : MT :=
  let d := mapPut t.data k v
  ⟨d, build d⟩

/-- `remove(key)`: `False` and no change for an absent key, else delete and rebuild -/
def remove (t : MT) (k : Nat) : Bool × MT :=
  if t.data.any (fun p => p.1 == k) then
    let d := mapDel t.data k
    (true, ⟨d, build d⟩)
  else (false, t)

def step (t : MT) : MOp → MT
  | .upd k v => t.update k v
  | .del k => (t.remove k).2

def run (t : MT) : List MOp → MT
  | [] => t
  | o :: os => run (t.step o) os

/-- `a.diff(b)`: only the stored trees are consulted -/
def diff (hl hc : Nat → Nat → Nat) (a b : MT) : List (Nat × Nat) := diffTrees hl hc a.root b.root

end MT

/-- values through `canon` (what a tree hashing canonical forms would store) -/
def mapVals (canon : Nat → Nat) (m : List (Nat × Nat)) : List (Nat × Nat) := m.map fun p => (p.1, canon p.2)

def MOp.canon (c : Nat → Nat) : MOp → MOp
  | .upd k v => .upd k (c v)
  | .del k => .del k

end HappyModel.C20
