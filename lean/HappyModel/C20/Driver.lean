import HappyModel.C20.Judge
import HappyModel.C20.SeqRun
/-! Line-protocol driver for C20 (see `hv/props/c20.py` for the other side). -/
namespace HappyModel.C20.Driver
open HappyModel.C20 HappyModel.C20.Run HappyModel.C20.Judge

def handle (hdr : List String) (body : List String) : List String :=
  match hdr with
  | ["bloom"] => runMergeable bloomOps body
  | ["cms"] => runMergeable cmsOps body
  | ["hll"] => runMergeable hllOps body
  | ["topk"] => runTopK body
  | ["reservoir"] => runRes body
  | ["merkle"] => runMerkle "current" body
  | ["merkle", variant] => runMerkle variant body
  | ["tdigest"] => runTd body
  | ["judge-bloom"] => judgeMergeable "bloom" (some bloomLower) body
  | ["judge-cms"] => judgeMergeable "cms" (some cmsLower) body
  | ["judge-hll"] => judgeMergeable "hll" none body
  | ["judge-topk"] => judgeTopK body
  | ["judge-reservoir"] => judgeRes body
  | ["judge-merkle"] => judgeMerkle body
  | ["judge-tdigest"] => judgeTd body
  | ["seq"] => SeqRun.runSeq body
  | ["judge-seq"] => SeqRun.judgeSeq body
  | _ => ["bad-mode"]

end HappyModel.C20.Driver
