import HappyModel.C20.Spec
import HappyModel.C20.TopK
import HappyModel.C20.Reservoir
/-!
Sketch *programs*: several sketches ("registers") of one kind live side by side and are used the
way a windowed aggregation uses them — `add` to one, `merge` one into another, `clear` one, keep
going.  The merge law of C20 is about the value a merge produces, so it has to hold *later* too:
whatever happens to the inputs of a merge afterwards (more adds, `clear()`, further merges), the
target is still the sketch of the streams as they were concatenated at merge time.

* `SeqOp` / `seqStep` / `seqRun` — the program semantics over any sketch algebra `SeqAlg`;
* `logical` — the same program run in the algebra of plain lists: the *logical stream* of every
  register (add appends, merge concatenates the source's stream as it is now, clear empties);
* `frameOk` — Spec clause "an operation changes no sketch but its target" on observed snapshots;
* `TopK.merge` — model of `TopK.merge` (executable only; the property text has no TopK merge law).
-/
namespace HappyModel.C20

inductive SeqOp (α : Type) where
  | add (r : Nat) (x : α) (c : Nat)
  | merge (t s : Nat)
  | clear (r : Nat)
  | skip                      -- an operation the sketch rejected (ValueError): no effect at all
deriving Repr

/-- the only register an operation may change -/
def SeqOp.target {α : Type} : SeqOp α → Option Nat
  | .add r _ _ => some r
  | .merge t _ => some t
  | .clear r => some r
  | .skip => none

/-- a kind of sketch: a fresh sketch for register `r` (registers may be configured differently),
    `add` on register `r` (its hash family), `merge target source` -/
structure SeqAlg (σ α : Type) where
  empty : Nat → σ
  add : Nat → σ → α → Nat → σ
  merge : σ → σ → σ
  clear : Nat → σ → σ := fun r _ => empty r

/-- registers are a list; an index outside it makes the operation a no-op -/
def seqStep {σ α : Type} (A : SeqAlg σ α) (regs : List σ) : SeqOp α → List σ
  | .add r x c =>
    match regs[r]? with
    | some s => regs.set r (A.add r s x c)
    | none => regs
  | .merge t s =>
    match regs[t]?, regs[s]? with
    | some a, some b => regs.set t (A.merge a b)
    | _, _ => regs
  | .clear r =>
    match regs[r]? with
    | some s => regs.set r (A.clear r s)
    | none => regs
  | .skip => regs

def seqRun {σ α : Type} (A : SeqAlg σ α) (regs : List σ) (ops : List (SeqOp α)) : List σ :=
  ops.foldl (seqStep A) regs

def seqInit {σ α : Type} (A : SeqAlg σ α) (n : Nat) : List σ := (List.range n).map A.empty

/-- the algebra of plain weighted streams -/
def logicalAlg (α : Type) : SeqAlg (List (α × Nat)) α where
  empty _ := []
  add _ s x c := s ++ [(x, c)]
  merge a b := a ++ b

/-- the logical stream of every register after `ops` (started from `n` empty registers) -/
def logical {α : Type} (n : Nat) (ops : List (SeqOp α)) : List (List (α × Nat)) :=
  seqRun (logicalAlg α) (seqInit (logicalAlg α) n) ops

/-- the sketch of a stream, built in register `r`'s configuration by adds alone -/
def SeqAlg.ofStream {σ α : Type} (A : SeqAlg σ α) (r : Nat) (xs : List (α × Nat)) : σ :=
  xs.foldl (fun s p => A.add r s p.1 p.2) (A.empty r)

/-! ### Spec clause: an operation changes nothing but its target

`before` / `after` are what every register reported (all its public observables, as printed)
right before and right after one operation. -/

def frameOk (target : Option Nat) (before after : List (List String)) : Bool :=
  before.length == after.length &&
    (List.range before.length).all fun r =>
      target == some r || before[r]? == after[r]?

/-! ### the three mergeable sketches as algebras (hash family / dimensions per register) -/

def bloomAlg (h : Nat → Nat → Nat → Nat) (m k : Nat → Nat) : SeqAlg Bloom Nat where
  empty r := Bloom.empty (m r) (k r)
  add r := Bloom.add (h r)
  merge := Bloom.merge

def cmsAlg (h : Nat → Nat → Nat → Nat) (w d : Nat → Nat) : SeqAlg CMS Nat where
  empty r := CMS.empty (w r) (d r)
  add r := CMS.add (h r)
  merge := CMS.merge

def hllAlg (h : Nat → Nat → Nat) (p : Nat → Nat) : SeqAlg HLL Nat where
  empty r := HLL.empty (p r)
  add r := HLL.add (h r)
  merge := HLL.merge

/-! ### TopK.merge (topk.py:215) -/

def bumpBy (x c e : Nat) (cs : List Ctr) : List Ctr :=
  cs.map fun ct => if ct.item = x then { ct with count := ct.count + c, err := ct.err + e } else ct

/-- one iteration of `for counter in other._counters.values()` -/
def TopK.mergeStep (s : TopK) (c : Ctr) : TopK :=
  if isTracked s.cs c.item then { s with cs := bumpBy c.item c.count c.err s.cs }
  else
    let s1 := s.add c.item c.count
    { s1 with cs := bumpBy c.item 0 c.err s1.cs }

def TopK.merge (a b : TopK) : TopK :=
  let r := b.cs.foldl TopK.mergeStep a
  let fresh := sumList ((b.cs.filter fun c => !isTracked a.cs c.item).map (·.count))
  { r with n := r.n + b.n - fresh }

def topkAlg (k : Nat → Nat) : SeqAlg TopK Nat where
  empty r := TopK.empty (k r)
  add _ s x c := s.add x c
  merge := TopK.merge

/-! ### reservoir: a register is the sampler together with what is left of its random script -/

def resAlg (k : Nat → Nat) (script : Nat → List Nat) : SeqAlg (Res × List Nat) Nat where
  empty r := (Res.empty (k r), script r)
  add _ s x c := Res.run s.1 (List.replicate c x) s.2
  merge a b := a.1.merge b.1 a.2
  clear r s := (Res.empty (k r), s.2)     -- `clear()` keeps the generator where it is

end HappyModel.C20
