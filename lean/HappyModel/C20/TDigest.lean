/-!
Model of `TDigest.quantile` (`happysimulator/sketching/tdigest.py`) over an *abstract digest*: a list of
centroids `(mean, weight)` sorted by mean, the observed minimum `lo` and maximum `hi`.  Means are
integers (any linearly ordered grid: the driver feeds order-preserving integer keys of the doubles),
weights are natural numbers, the quantile is a fraction `a / b`; all arithmetic is exact
(`Frac` = integer numerator over a positive natural denominator).

The centroid arithmetic of `add` / `_compress` (floats: `asin`, `sqrt`, weighted means) is *not*
modelled: the digest the quantile function walks over is an input — the driver takes it from the real
object.  What is modelled is the walk of `quantile(q)`:

    target = q · N                                   (N = total weight)
    first centroid i (in order) with  run_i ≤ target ≤ run_i + w_i        (run_i = weight before i)
      i = 0        : target < w/2  →  lo + (target / (w/2)) · (m − lo)           else m
      i = last ≠ 0 : target > run + w/2  →  m + ((target − run − w/2) / (w/2)) · (hi − m)   else m
      otherwise    : t = (target − run)/w < 1/2  →  prev + (m − prev) · (1/2 + t)          else m
    q = 0 → lo,  q = 1 → hi

(the code's `min(centroid.mean, …)` / `min(max, …)` clamps only matter for float rounding: in exact
arithmetic the interpolation factor is ≤ 1 on each branch.)  Every answer carries the *bracket*
`[lo, hi]` of its rule — the two numbers it interpolates between (`lo = hi = m` for `return m`) — which
is what a float implementation can be compared with without any tolerance.

With `T = 2·a·N` all comparisons are between naturals: `target ⋚ x` is `T ⋚ 2·b·x`.
-/
namespace HappyModel.C20

structure Frac where
  num : Int
  den : Nat
deriving Repr, DecidableEq

/-- `x ≤ y` for fractions with positive denominators -/
def Frac.le (x y : Frac) : Prop := x.num * (y.den : Int) ≤ y.num * (x.den : Int)

instance (x y : Frac) : Decidable (x.le y) := by unfold Frac.le; exact inferInstance

/-- an answer of the quantile walk: the value and the bracket of the rule that produced it -/
structure QAns where
  lo : Int
  hi : Int
  v : Frac
deriving Repr, DecidableEq

/-- `return centroid.mean` (or `min` / `max`) -/
def QAns.flat (m : Int) : QAns := ⟨m, m, ⟨m, 1⟩⟩

def QAns.isFlat (r : QAns) : Bool := r.lo == r.hi

/-- the loop of `quantile`: `first` = we are at centroid 0, `prev` = mean of the previous centroid
    (the fallback value once the list is exhausted), `run` = weight before the current centroid -/
def tdWalk (T b : Nat) (lo hi : Int) : Bool → Int → Nat → List (Int × Nat) → QAns
  | _, prev, _, [] => .flat prev
  | first, prev, run, (m, c) :: rest =>
    if 2 * b * run ≤ T ∧ T ≤ 2 * b * (run + c) then
      if first then
        if T < b * c then ⟨lo, m, ⟨lo * ((b * c : Nat) : Int) + (T : Int) * (m - lo), b * c⟩⟩
        else .flat m
      else if rest.isEmpty then
        if 2 * b * run + b * c < T then
          ⟨m, hi, ⟨m * ((b * c : Nat) : Int) + ((T : Int) - ((2 * b * run + b * c : Nat) : Int)) * (hi - m), b * c⟩⟩
        else .flat m
      else
        if T < 2 * b * run + b * c then
          ⟨prev, m, ⟨prev * ((2 * b * c : Nat) : Int)
                      + (m - prev) * (((b * c : Nat) : Int) + (T : Int) - ((2 * b * run : Nat) : Int)), 2 * b * c⟩⟩
        else .flat m
    else tdWalk T b lo hi false m (run + c) rest

def sumW : List (Int × Nat) → Nat
  | [] => 0
  | (_, c) :: rest => c + sumW rest

structure TD where
  cs : List (Int × Nat)
  lo : Int
  hi : Int
deriving Repr

def TD.N (d : TD) : Nat := sumW d.cs

/-- `quantile(a / b)` of a non-empty digest -/
def TD.quantile (d : TD) (a b : Nat) : QAns :=
  if a = 0 then .flat d.lo
  else if a = b then .flat d.hi
  else tdWalk (2 * a * d.N) b d.lo d.hi true d.lo 0 d.cs

/-- means nondecreasing starting above `prev`, weights positive -/
def sortedFrom (prev : Int) : List (Int × Nat) → Prop
  | [] => True
  | (m, c) :: rest => prev ≤ m ∧ 0 < c ∧ sortedFrom m rest

def sortedFromB (prev : Int) : List (Int × Nat) → Bool
  | [] => true
  | (m, c) :: rest => decide (prev ≤ m) && decide (0 < c) && sortedFromB m rest

/-- what `_flush` / `_compress` / `merge` maintain: centroids sorted by mean with positive weights,
    all means within the observed `[lo, hi]` -/
structure TD.WF (d : TD) : Prop where
  sorted : sortedFrom d.lo d.cs
  top : ∀ mc ∈ d.cs, mc.1 ≤ d.hi
  lohi : d.lo ≤ d.hi

def TD.wfB (d : TD) : Bool :=
  sortedFromB d.lo d.cs && d.cs.all (fun mc => decide (mc.1 ≤ d.hi)) && decide (d.lo ≤ d.hi)

/-! ### Spec predicates over answers (model answers in the theorems, observed keys in the judge) -/

/-- answers for an increasing grid of quantiles are nondecreasing -/
def fracsNondecreasing : List Frac → Prop
  | a :: b :: l => a.le b ∧ fracsNondecreasing (b :: l)
  | _ => True

/-- `lo ≤ v ≤ hi` -/
def Frac.within (lo hi : Int) (v : Frac) : Prop :=
  lo * (v.den : Int) ≤ v.num ∧ v.num ≤ hi * (v.den : Int)

/-- tie to a float implementation: an observed value `r` (on the same ordered grid as the means) agrees
    with the model answer when it lies in the answer's bracket — for a `return mean` rule that is
    equality with that mean -/
def QAns.admits (ans : QAns) (r : Int) : Bool := decide (ans.lo ≤ r) && decide (r ≤ ans.hi)

end HappyModel.C20
