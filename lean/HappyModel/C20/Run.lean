import HappyModel.Proto
import HappyModel.C20.Spec
import HappyModel.C20.TopK
import HappyModel.C20.Reservoir
import HappyModel.C20.Merkle
import HappyModel.C20.MerkleState
/-!
Model modes of the C20 driver: parse a block, run the model, print the canonical transcript
(`hv/props/c20.py` prints the same lines from the real objects).
-/
namespace HappyModel.C20.Run
open HappyModel.Proto HappyModel.C20

/-- token lists of the body lines that start with `tag` (tag removed) -/
def linesWith (tag : String) (body : List String) : List (List String) :=
  body.filterMap fun l => match toks l with
    | t :: rest => if t == tag then some rest else none
    | [] => none

def firstWith (tag : String) (body : List String) : List String :=
  ((linesWith tag body).head?).getD []

/-- hash table `item ↦ values` as a function `item → index → value` -/
structure HTable where
  rows : List (Nat × List Nat)

def HTable.parse (tag : String) (body : List String) : HTable :=
  ⟨(linesWith tag body).filterMap fun ts => match ts with
    | x :: vs => some (natD x, nats vs)
    | [] => none⟩

def HTable.fn (t : HTable) (x i : Nat) : Nat :=
  match t.rows.find? (fun r => r.1 == x) with
  | some (_, vs) => vs.getD i 0
  | none => 0

/-- `add x c` lines in order: (item, signed count) -/
def parseAdds (body : List String) : List (Nat × Int) :=
  (linesWith "add" body).filterMap fun ts => match ts with
    | [x, c] => some (natD x, intD c)
    | _ => none

/-- the accepted part of a signed stream (negative counts raise before any change) -/
def accepted (adds : List (Nat × Int)) : Stream :=
  adds.filterMap fun (x, c) => if c < 0 then none else some (x, c.toNat)

def addErrs (adds : List (Nat × Int)) : List String :=
  (adds.zipIdx.filter (fun p => p.1.2 < 0)).map fun p => s!"adderr {p.2}"

/-! ### Bloom / Count-Min / HyperLogLog share one scenario -/

structure Ops (σ : Type) where
  make : List Int → Option σ
  add : (Nat → Nat → Nat) → σ → Nat → Nat → σ
  compat : List Int → List Int → Bool
  merge : σ → σ → σ
  st : σ → String
  n : σ → Nat
  query : Option ((Nat → Nat → Nat) → σ → Nat → Nat)

def bloomOps : Ops Bloom where
  make cfg := match cfg with
    | [m, k, _] => if m ≤ 0 || k ≤ 0 then none else some (Bloom.empty m.toNat k.toNat)
    | _ => none
  add := Bloom.add
  compat a b := a == b
  merge := Bloom.merge
  st b := showNats ((List.range b.m).filter b.bit)
  n b := b.n
  query := some fun h b x => if b.contains h x then 1 else 0

def cmsOps : Ops CMS where
  make cfg := match cfg with
    | [w, d, _] => if w ≤ 0 || d ≤ 0 then none else some (CMS.empty w.toNat d.toNat)
    | _ => none
  add := CMS.add
  compat a b := a == b
  merge := CMS.merge
  st s := showNats ((List.range s.d).flatMap fun r => (List.range s.w).map fun c => s.cell r c)
  n s := s.n
  query := some CMS.estimate

def hllOps : Ops HLL where
  make cfg := match cfg with
    | [p, _] => if p < 4 || p > 16 then none else some (HLL.empty p.toNat)
    | _ => none
  add h := HLL.add (fun x => h x 0)
  compat a b := a == b
  merge := HLL.merge
  st s := joinSp ((s.regs.zipIdx.filter (fun p => p.1 != 0)).map fun p => s!"{p.2}:{p.1}")
  n s := s.n
  query := none

def showSketch {σ} (ops : Ops σ) (name : String) (h : Nat → Nat → Nat) (s : σ) (probes : List Nat) :
    List String :=
  [s!"{name} n {ops.n s} st {ops.st s}"] ++
    match ops.query with
    | some q => [s!"{name}q {showNats (probes.map (q h s))}"]
    | none => []

def runMergeable {σ} (ops : Ops σ) (body : List String) : List String :=
  let cfgA := ints (firstWith "cfgA" body)
  let cfgB := ints (firstWith "cfgB" body)
  let hA := (HTable.parse "hA" body).fn
  let hB := (HTable.parse "hB" body).fn
  let adds := parseAdds body
  let split := natD ((firstWith "split" body).headD "0")
  let probes := nats (firstWith "probe" body)
  match ops.make cfgA, ops.make cfgB with
  | some eA, some eB =>
    let feed := fun (h : Nat → Nat → Nat) (e : σ) (xs : Stream) => xs.foldl (fun s p => ops.add h s p.1 p.2) e
    let w := feed hA eA (accepted adds)
    let a := feed hA eA (accepted (adds.take split))
    let b := feed hB eB (accepted (adds.drop split))
    addErrs adds ++ showSketch ops "W" hA w probes ++ showSketch ops "A" hA a probes
      ++ showSketch ops "B" hB b probes
      ++ (if ops.compat cfgA cfgB then
            ["merge ok"] ++ showSketch ops "M" hA (ops.merge a b) probes
          else ["merge err ValueError"])
  | _, _ => ["err ValueError"]

/-! ### TopK -/

def showTop (s : TopK) : String :=
  joinSp (s.top.map fun c => s!"{c.item}:{c.count}:{c.err}")

def topkSnap (s : TopK) (probes : List Nat) : List String :=
  [s!"n {s.n} thr {s.n / s.k} maxerr {minCount s.cs}", s!"top {showTop s}"] ++
    probes.map fun x =>
      let q := s.query x
      s!"q {x} {showBool q.1} {q.2.1} {q.2.2}"

def runTopK (body : List String) : List String :=
  let k := intD ((firstWith "cfg" body).headD "0")
  let probes := nats (firstWith "probe" body)
  if k ≤ 0 then ["err ValueError"] else
  let rec go (s : TopK) (i : Nat) : List String → List String
    | [] => []
    | l :: ls =>
      match toks l with
      | ["add", x, c] =>
        if intD c < 0 then s!"adderr {i}" :: go s (i + 1) ls
        else go (s.add (natD x) (intD c).toNat) (i + 1) ls
      | ["snap"] => topkSnap s probes ++ go s i ls
      | _ => go s i ls
  go (TopK.empty k.toNat) 0 body

/-! ### reservoir -/

def showRes (name : String) (s : Res) : String := s!"{name} n {s.n} sample {showNats s.items}"

def runRes (body : List String) : List String :=
  let kA := intD ((firstWith "cfgA" body).headD "0")
  let kB := intD ((firstWith "cfgB" body).headD "0")
  let adds := parseAdds body
  let split := natD ((firstWith "split" body).headD "0")
  let sc := fun tag => nats (firstWith tag body)
  if kA ≤ 0 || kB ≤ 0 then ["err ValueError"] else
  let arr := fun (xs : List (Nat × Int)) => expand (accepted xs)
  let w := (Res.run (Res.empty kA.toNat) (arr adds) (sc "scriptW")).1
  let a := (Res.run (Res.empty kA.toNat) (arr (adds.take split)) (sc "scriptA")).1
  let b := (Res.run (Res.empty kB.toNat) (arr (adds.drop split)) (sc "scriptB")).1
  addErrs adds ++ [showRes "W" w, showRes "A" a, showRes "B" b] ++
    (if kA == kB then ["merge ok", showRes "M" (a.merge b (sc "scriptM")).1]
     else ["merge err ValueError"])

/-! ### Merkle -/

structure PTable where
  rows : List ((Nat × Nat) × Nat)

def PTable.parse (tag : String) (body : List String) : PTable :=
  ⟨(linesWith tag body).filterMap fun ts => match ts with
    | [a, b, c] => some ((natD a, natD b), natD c)
    | _ => none⟩

/-- missing entries get a value no shipped digest id uses (ids are small); the run reports them -/
def PTable.fn (t : PTable) (a b : Nat) : Nat :=
  match t.rows.find? (fun r => r.1 == (a, b)) with
  | some (_, v) => v
  | none => 1000000007 + a * 1000003 + b

def pairsOf : List Nat → List (Nat × Nat)
  | a :: b :: rest => (a, b) :: pairsOf rest
  | _ => []

def showRanges (rs : List (Nat × Nat)) : String :=
  joinSp (rs.map fun r => s!"{r.1}-{r.2}")

def sortKV (m : List (Nat × Nat)) : List (Nat × Nat) := m.mergeSort (fun a b => decide (a.1 ≤ b.1))

/-- `pyeq v c v c …` as a function (identity where the table is silent) -/
def clsOf (body : List String) : Nat → Nat :=
  let tbl := pairsOf (nats (firstWith "pyeq" body))
  fun v => match tbl.find? (·.1 == v) with
    | some p => p.2
    | none => v

/-- the two stateful trees (`MerkleState.lean`); variant `repaired` stores canonical forms -/
def runMerkle (variant : String) (body : List String) : List String :=
  let hl := (PTable.parse "hl" body).fn
  let hc := (PTable.parse "hc" body).fn
  let canon : Nat → Nat := if variant == "repaired" then clsOf body else id
  let a0 := MT.ofList (mapVals canon (pairsOf (nats (firstWith "a" body))))
  let b0 := MT.ofList (mapVals canon (pairsOf (nats (firstWith "b" body))))
  let rec go (a b : MT) : List String → List String
    | [] => []
    | l :: ls =>
      match toks l with
      | ["upd", "a", k, v] => go (a.update (natD k) (canon (natD v))) b ls
      | ["upd", "b", k, v] => go a (b.update (natD k) (canon (natD v))) ls
      | ["del", "a", k] => s!"del {showBool (a.remove (natD k)).1}" :: go (a.remove (natD k)).2 b ls
      | ["del", "b", k] => s!"del {showBool (b.remove (natD k)).1}" :: go a (b.remove (natD k)).2 ls
      | ["diff"] =>
        let eq := (a.root.map (MTree.hash hl hc)) == (b.root.map (MTree.hash hl hc))
        s!"d ab {showRanges (MT.diff hl hc a b)} | ba {showRanges (MT.diff hl hc b a)} | eq {showBool eq} | size {a.data.length} {b.data.length}"
          :: go a b ls
      | _ => go a b ls
  go a0 b0 body

/-! ### t-digest: only what needs no float — `item_count`, `min`, `max` (values as order keys) -/

def keyMin : List Int → Option Int
  | [] => none
  | a :: l => some (l.foldl min a)

def keyMax : List Int → Option Int
  | [] => none
  | a :: l => some (l.foldl max a)

def showOpt : Option Int → String
  | none => "none"
  | some v => toString v

/-- `add key c` lines: (order key of the value, signed count) -/
def parseTdAdds (body : List String) : List (Int × Int) :=
  (linesWith "add" body).filterMap fun ts => match ts with
    | [x, c] => some (intD x, intD c)
    | _ => none

def tdLine (name : String) (adds : List (Int × Int)) : String :=
  let live := adds.filter (fun p => p.2 > 0)
  let n := (live.map (·.2)).foldl (· + ·) 0
  s!"{name} n {n} min {showOpt (keyMin (live.map (·.1)))} max {showOpt (keyMax (live.map (·.1)))}"

def runTd (body : List String) : List String :=
  let cfg := ints (firstWith "cfg" body)
  let adds := parseTdAdds body
  let split := natD ((firstWith "split" body).headD "0")
  if cfg.headD 0 ≤ 0 then ["err ValueError"] else
  ((adds.zipIdx.filter (fun p => p.1.2 < 0)).map fun p => s!"adderr {p.2}") ++
    [tdLine "W" adds, tdLine "A" (adds.take split), tdLine "B" (adds.drop split), tdLine "M" adds]

end HappyModel.C20.Run
