import HappyModel.C20.Sketch
/-!
C20 specification predicates, decidable, over *observed* values (what an implementation answered),
independent of the model's internals.

"For any input stream, a Bloom filter reports every inserted item as present, a Count-Min sketch
never underestimates a count, and space-saving TopK estimates exceed true counts by at most the
reported error while tracking every item more frequent than N/k. Merging two Bloom, Count-Min or
HyperLogLog sketches gives exactly the sketch of the concatenated streams; t-digest quantiles are
non-decreasing in q and lie within the observed minimum and maximum; a reservoir holds min(k, n)
items of the stream; a Merkle-tree diff is empty exactly when the two maps are equal and otherwise
its ranges cover every key whose value differs."
-/
namespace HappyModel.C20

/-! ### one-sided answers (Bloom, Count-Min) -/

/-- `answers[i]` is what the sketch answered for `probes[i]`; it must be at least `lower probes[i]` -/
def lowerOk (lower : Nat → Nat) : List Nat → List Nat → Bool
  | [], [] => true
  | x :: ps, a :: as => decide (lower x ≤ a) && lowerOk lower ps as
  | _, _ => false

/-- Bloom: contains(x) (as 0/1) must be 1 for every x inserted at least once -/
def bloomLower (xs : Stream) (x : Nat) : Nat := min 1 (trueCount xs x)

/-- Count-Min: estimate(x) ≥ true count of x -/
def cmsLower (xs : Stream) (x : Nat) : Nat := trueCount xs x

/-! ### merge = sketch of the concatenated stream: both states are observed, they must be equal -/

/-- canonical observable state of a sketch: state numbers and `item_count` -/
structure SObs where
  st : List Nat
  n : Nat
  q : List Nat
deriving Repr, DecidableEq

def mergeIsConcat (merged whole : SObs) : Bool :=
  merged.st == whole.st && merged.n == whole.n && merged.q == whole.q

/-! ### TopK (space saving) -/

/-- what `estimate_with_error(x)` / `x in topk` reported for one probe -/
structure TObs where
  item : Nat
  tracked : Bool
  count : Nat
  err : Nat
deriving Repr

/-- true ≤ estimate ≤ true + error for tracked items; an untracked item reports 0 with the
    sketch-wide error bound, which must still cover its true count -/
def topkBoundOk (xs : Stream) (o : TObs) : Bool :=
  let t := trueCount xs o.item
  decide (o.count ≤ t + o.err) &&
    (if o.tracked then decide (t ≤ o.count) else o.count == 0 && decide (t ≤ o.err))

/-- every item more frequent than N/k is tracked (`N / k` is `guaranteed_threshold()`) -/
def topkHeavyOk (xs : Stream) (k : Nat) (o : TObs) : Bool :=
  !(decide (total xs / k < trueCount xs o.item)) || o.tracked

def sumList : List Nat → Nat
  | [] => 0
  | a :: l => a + sumList l

/-- `top()` counters sum to N and `item_count` is N -/
def topkSumOk (xs : Stream) (topCounts : List Nat) (itemCount : Nat) : Bool :=
  sumList topCounts == total xs && itemCount == total xs

/-! ### reservoir -/

/-- the stream with weights expanded: `add(x, c)` is `c` single arrivals -/
def expand : Stream → List Nat
  | [] => []
  | (x, c) :: rest => List.replicate c x ++ expand rest

def reservoirSizeOk (k n : Nat) (sample : List Nat) : Bool := sample.length == min k n
def reservoirSubsetOk (arrivals : List Nat) (sample : List Nat) : Bool :=
  sample.all fun x => arrivals.contains x

/-! ### Merkle diff: maps are association lists key ↦ value, ranges are inclusive (start, end) -/

def lookupKV (m : List (Nat × Nat)) (k : Nat) : Option Nat := (m.find? (·.1 == k)).map (·.2)

def covered (ranges : List (Nat × Nat)) (k : Nat) : Bool :=
  ranges.any fun r => decide (r.1 ≤ k) && decide (k ≤ r.2)

/-- empty diff ⇔ equal maps (as functions on the keys that occur) -/
def merkleEmptyIffEqual (a b : List (Nat × Nat)) (ranges : List (Nat × Nat)) : Bool :=
  let keys := a.map (·.1) ++ b.map (·.1)
  ranges.isEmpty == keys.all fun k => lookupKV a k == lookupKV b k

/-- every key whose value differs (or which exists on one side only) lies in some range -/
def merkleCovers (a b : List (Nat × Nat)) (ranges : List (Nat × Nat)) : Bool :=
  let keys := a.map (·.1) ++ b.map (·.1)
  keys.all fun k => lookupKV a k == lookupKV b k || covered ranges k

/-- equal as Python dicts: the same keys, and per key values of the same `==` class (`cls` maps a
    serialisation id to its equality class: `1`, `1.0`, `True` are three serialisations of one class) -/
def pyEqualMaps (cls : Nat → Nat) (a b : List (Nat × Nat)) : Bool :=
  let keys := a.map (·.1) ++ b.map (·.1)
  keys.all fun k => (lookupKV a k).map cls == (lookupKV b k).map cls

/-- the property's Merkle clauses with "equal" read as Python's `==` on dicts (an alternative reading
    to serialised identity; the two coincide when `cls` is injective on the values that occur) -/
def merkleEmptyIffEqualC (cls : Nat → Nat) (a b : List (Nat × Nat)) (ranges : List (Nat × Nat)) : Bool :=
  ranges.isEmpty == pyEqualMaps cls a b

def merkleCoversC (cls : Nat → Nat) (a b : List (Nat × Nat)) (ranges : List (Nat × Nat)) : Bool :=
  let keys := a.map (·.1) ++ b.map (·.1)
  keys.all fun k => (lookupKV a k).map cls == (lookupKV b k).map cls || covered ranges k

/-! ### t-digest: values cross as order-preserving integer keys of the doubles -/

def nondecreasing : List Int → Bool
  | a :: b :: l => decide (a ≤ b) && nondecreasing (b :: l)
  | _ => true

def withinMinMax (lo hi : Int) (qs : List Int) : Bool := qs.all fun v => decide (lo ≤ v) && decide (v ≤ hi)

end HappyModel.C20
