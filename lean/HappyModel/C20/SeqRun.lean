import HappyModel.C20.Judge
import HappyModel.C20.Seq
/-!
Driver modes `seq` (model) and `judge-seq` (Spec) for sketch programs — see `Seq.lean`.

Block body (both modes):
    kind <bloom|cms|hll|topk|reservoir|tdigest>
    cfg <idx> <ints…>            one per distinct configuration
    reg <cfgidx…>                configuration of register 0, 1, …
    probe <items…>
    h <cfgidx> <item> <values…>  real hash values (model mode; bloom / cms / hll)
    script <reg> <draws…>        reservoir: the register's random script
    op add <r> <item> <count> | op merge <t> <s> | op clear <r> | op look <r> <item>
`look` is a membership / frequency question put to ONE register (bloom: contains, cms: estimate, topk:
estimate_with_error); it changes nothing (`SeqOp.skip`) and its answer is the extra line `l<r> …` right after the
operation line.  Programs made of explicit questions run with an empty `probe` list, so that every register has its own
history of questions (a sketch that remembers earlier questions must still answer like the sketch of its stream).
Judge mode: after `init` and after every `op` line the implementation's snapshot of *every* register
`obs r<i> …`, for bloom/cms/hll the reference sketches `obs w<i> …` (a fresh sketch fed with the
register's logical stream), for t-digest `obs q<i> keys…` (quantiles on an increasing grid).
-/
namespace HappyModel.C20.SeqRun
open HappyModel.Proto HappyModel.C20 HappyModel.C20.Run

/-! ### scenario parsing -/

structure Scn where
  kind : String
  cfgs : List (Nat × List Int)
  regCfg : List Nat
  probes : List Nat

def Scn.parse (body : List String) : Scn :=
  { kind := (firstWith "kind" body).headD ""
    cfgs := (linesWith "cfg" body).filterMap fun ts => match ts with
      | i :: rest => some (natD i, ints rest)
      | [] => none
    regCfg := nats (firstWith "reg" body)
    probes := nats (firstWith "probe" body) }

def Scn.nregs (sc : Scn) : Nat := sc.regCfg.length
def Scn.cfgIdx (sc : Scn) (r : Nat) : Nat := sc.regCfg.getD r 0
def Scn.cfgOf (sc : Scn) (r : Nat) : List Int :=
  match sc.cfgs.find? (fun p => p.1 == sc.cfgIdx r) with
  | some (_, c) => c
  | none => []
/-- `j`-th configuration number of register `r` (0 if absent / negative) -/
def Scn.num (sc : Scn) (r j : Nat) : Nat := ((sc.cfgOf r).getD j 0).toNat
/-- two sketches can be merged iff they were configured identically (t-digest: always) -/
def Scn.compat (sc : Scn) (t s : Nat) : Bool := sc.kind == "tdigest" || sc.cfgOf t == sc.cfgOf s

/-- hash table per configuration: `h <cfgidx> <item> <values…>` -/
structure HTab where
  rows : List (Nat × Nat × List Nat)

def HTab.parse (body : List String) : HTab :=
  ⟨(linesWith "h" body).filterMap fun ts => match ts with
    | c :: x :: vs => some (natD c, natD x, nats vs)
    | _ => none⟩

def HTab.fn (t : HTab) (c x i : Nat) : Nat :=
  match t.rows.find? (fun r => r.1 == c && r.2.1 == x) with
  | some (_, _, vs) => vs.getD i 0
  | none => 0

/-- an operation line; `true` when the sketch must reject it (negative count, incompatible merge) -/
def parseSeqOp {α : Type} (item : String → α) (compat : Nat → Nat → Bool) (ts : List String) :
    Option (SeqOp α × Bool) :=
  match ts with
  | ["add", r, x, c] =>
    if intD c < 0 then some (.skip, true) else some (.add (natD r) (item x) (intD c).toNat, false)
  | ["merge", t, s] =>
    if compat (natD t) (natD s) then some (.merge (natD t) (natD s), false) else some (.skip, true)
  | ["clear", r] => some (.clear (natD r), false)
  | ["look", _, _] => some (.skip, false)
  | _ => none

/-- `look r x` → `(r, x)` -/
def lookOf (ts : List String) : Option (Nat × Nat) :=
  match ts with
  | ["look", r, x] => some (natD r, natD x)
  | _ => none

/-! ### model mode -/

structure SeqKind (σ α : Type) where
  alg : SeqAlg σ α
  item : String → α
  showReg : Nat → σ → String
  hasRef : Bool
  /-- the answer of register `r` (in state `s`) to a question about item `x` -/
  look : Nat → σ → Nat → String := fun _ _ _ => "-"

def snapLines {σ α : Type} (K : SeqKind σ α) (regs : List σ) (ls : List (List (α × Nat))) : List String :=
  (regs.zipIdx.map fun p => s!"r{p.2} {K.showReg p.2 p.1}") ++
    (if K.hasRef then ls.zipIdx.map fun p => s!"w{p.2} {K.showReg p.2 (K.alg.ofStream p.2 p.1)}" else [])

def runKind {σ α : Type} (K : SeqKind σ α) (sc : Scn) (body : List String) : List String :=
  let rec go (regs : List σ) (ls : List (List (α × Nat))) (j : Nat) : List (List String) → List String
    | [] => []
    | ts :: rest =>
      match parseSeqOp K.item sc.compat ts with
      | none => "bad-op" :: go regs ls (j + 1) rest
      | some (op, rej) =>
        let regs' := seqStep K.alg regs op
        let ls' := seqStep (logicalAlg α) ls op
        [s!"s {j} {joinSp ts}"] ++ (if rej then ["err ValueError"] else [])
          ++ (match lookOf ts with
              | some (r, x) => (match regs[r]? with
                                | some st => [s!"l{r} {K.look r st x}"]
                                | none => [])
              | none => [])
          ++ snapLines K regs' ls'
          ++ go regs' ls' (j + 1) rest
  let regs0 := seqInit K.alg sc.nregs
  let ls0 := seqInit (logicalAlg α) sc.nregs
  ["s init"] ++ snapLines K regs0 ls0 ++ go regs0 ls0 1 (linesWith "op" body)

def showQ (xs : List Nat) : String := "| q " ++ showNats xs

def bloomKind (sc : Scn) (ht : HTab) : SeqKind Bloom Nat where
  alg := bloomAlg (fun r => ht.fn (sc.cfgIdx r)) (fun r => sc.num r 0) (fun r => sc.num r 1)
  item := natD
  showReg r b :=
    s!"n {b.n} st {showNats ((List.range b.m).filter b.bit)} " ++
      showQ (sc.probes.map fun x => if b.contains (ht.fn (sc.cfgIdx r)) x then 1 else 0)
  hasRef := true
  look r b x := if b.contains (ht.fn (sc.cfgIdx r)) x then "1" else "0"

def cmsKind (sc : Scn) (ht : HTab) : SeqKind CMS Nat where
  alg := cmsAlg (fun r => ht.fn (sc.cfgIdx r)) (fun r => sc.num r 0) (fun r => sc.num r 1)
  item := natD
  showReg r s :=
    s!"n {s.n} st {showNats ((List.range s.d).flatMap fun row => (List.range s.w).map fun c => s.cell row c)} " ++
      showQ (sc.probes.map (s.estimate (ht.fn (sc.cfgIdx r))))
  hasRef := true
  look r s x := toString (s.estimate (ht.fn (sc.cfgIdx r)) x)

def hllKind (sc : Scn) (ht : HTab) : SeqKind HLL Nat where
  alg := hllAlg (fun r x => ht.fn (sc.cfgIdx r) x 0) (fun r => sc.num r 0)
  item := natD
  showReg _ s :=
    s!"n {s.n} st {joinSp ((s.regs.zipIdx.filter (fun p => p.1 != 0)).map fun p => s!"{p.2}:{p.1}")} | q"
  hasRef := true

def topkKind (sc : Scn) : SeqKind TopK Nat where
  alg := topkAlg (fun r => sc.num r 0)
  item := natD
  showReg _ s :=
    s!"n {s.n} thr {s.n / s.k} maxerr {minCount s.cs} top {showTop s} | q " ++
      joinSp (sc.probes.map fun x =>
        let q := s.query x
        s!"{x}:{showBool q.1}:{q.2.1}:{q.2.2}")
  hasRef := false
  look _ s x :=
    let q := s.query x
    s!"{x}:{showBool q.1}:{q.2.1}:{q.2.2}"

def resKind (sc : Scn) (body : List String) : SeqKind (Res × List Nat) Nat where
  alg := resAlg (fun r => sc.num r 0) (fun r =>
    match (linesWith "script" body).find? (fun ts => ts.head? == some (toString r)) with
    | some (_ :: vs) => nats vs
    | _ => [])
  item := natD
  showReg _ s := s!"n {s.1.n} sample {showNats s.1.items}"
  hasRef := false

/-- t-digest: only what needs no float — `item_count`, `min`, `max` of the live values -/
def tdAlg : SeqAlg (List (Int × Nat)) Int where
  empty _ := []
  add _ s x c := if c = 0 then s else s ++ [(x, c)]
  merge a b := a ++ b

def tdKind : SeqKind (List (Int × Nat)) Int where
  alg := tdAlg
  item := intD
  showReg _ s :=
    s!"n {(s.map (·.2)).foldl (· + ·) 0} min {showOpt (keyMin (s.map (·.1)))} max {showOpt (keyMax (s.map (·.1)))}"
  hasRef := false

def runSeq (body : List String) : List String :=
  let sc := Scn.parse body
  let ht := HTab.parse body
  if sc.kind == "bloom" then runKind (bloomKind sc ht) sc body
  else if sc.kind == "cms" then runKind (cmsKind sc ht) sc body
  else if sc.kind == "hll" then runKind (hllKind sc ht) sc body
  else if sc.kind == "topk" then runKind (topkKind sc) sc body
  else if sc.kind == "reservoir" then runKind (resKind sc body) sc body
  else if sc.kind == "tdigest" then runKind tdKind sc body
  else ["bad-kind"]

/-! ### judge mode -/

/-- one group: the operation tokens (`[]` for the initial snapshot) and its `obs` lines -/
def groups (body : List String) : List (List String × List (List String)) :=
  let step := fun (acc : List (List String × List (List String))) (l : String) =>
    match toks l with
    | ["init"] => acc ++ [([], [])]
    | "op" :: ts => acc ++ [(ts, [])]
    | "obs" :: ts =>
      match acc.getLast? with
      | some (o, obs) => acc.dropLast ++ [(o, obs ++ [ts])]
      | none => acc
    | _ => acc
  body.foldl step []

/-- tokens a register reported under `tag` (`r`, `w`, `q`) -/
def obsOf (obs : List (List String)) (tag : String) (i : Nat) : Option (List String) :=
  (obs.find? fun ts => ts.head? == some s!"{tag}{i}").map (·.drop 1)

/-- everything register `i` reported, for the frame clause -/
def fullObs (obs : List (List String)) (i : Nat) : Option (List String) :=
  (obsOf obs "r" i).map fun r => r ++ ["#"] ++ ((obsOf obs "q" i).getD []) ++ ["#"] ++ ((obsOf obs "c" i).getD [])

/-- `n N st … | q …` -/
def parseSObs (ts : List String) : Option SObs :=
  match ts with
  | "n" :: n :: "st" :: rest =>
    let st := rest.takeWhile (· != "|")
    let q := (rest.dropWhile (· != "|")).drop 2
    some ⟨st.map (fun s => match s.splitOn ":" with
                    | [a, b] => natD a * 1000 + natD b
                    | _ => natD s), natD n, nats q⟩
  | _ => none

structure JCtx where
  sc : Scn
  merged : Bool               -- the register's logical history contains a merge since its last clear
  reg : Nat
  look : Option Nat := none   -- the operation just executed was a question to this register about this item

def checkMergeable (lower : Option (Stream → Nat → Nat)) (c : JCtx) (xs : Stream)
    (r : List String) (w : Option (List String)) (l : Option (List String)) : Option String :=
  let kind := c.sc.kind
  match parseSObs r, w.bind parseSObs with
  | some o, some ref =>
    if !mergeIsConcat o ref then some s!"{kind}/merge/not-sketch-of-concatenation"
    else if o.n != total xs then some s!"{kind}/count/item-count-not-stream-total"
    else match lower with
      | some lo =>
        (Judge.check (lowerOk (lo xs) c.sc.probes o.q) s!"{kind}/seq/one-sided-bound-broken").or <|
          -- an explicit question: the one-sided bound against the register's logical stream as it is now
          match c.look with
          | some x =>
            match l with
            | some [a] => Judge.check (lowerOk (lo xs) [x] [natD a]) s!"{kind}/lookup/one-sided-bound-broken"
            | _ => some s!"{kind}/missing-observation"
          | none => none
      | none => none
  | _, _ => some s!"{kind}/missing-observation"

/-- `n N thr T maxerr E top i:c:e… | q x:t:c:e…` -/
def checkTopK (c : JCtx) (xs : Stream) (r : List String) (l : Option (List String)) : Option String :=
  if c.merged then none else
  match r with
  | "n" :: n :: "thr" :: _ :: "maxerr" :: _ :: "top" :: rest =>
    let top := Judge.parseTop (rest.takeWhile (· != "|"))
    let qs := (rest.dropWhile (· != "|")).drop 2 ++
      (match c.look, l with
       | some _, some ans => ans
       | some _, none => ["missing"]
       | none, _ => [])
    if !topkSumOk xs top (natD n) then some "topk/sum/counters-do-not-sum-to-N" else
    qs.findSome? fun q =>
      match q.splitOn ":" with
      | [x, t, cnt, e] =>
        let o : TObs := ⟨natD x, t == "1", natD cnt, natD e⟩
        if !topkBoundOk xs o then
          some (if o.tracked && trueCount xs o.item > o.count then "topk/estimate/below-true-count"
                else "topk/estimate/exceeds-true-plus-error")
        else if !topkHeavyOk xs (c.sc.num c.reg 0) o then some "topk/heavy/frequent-item-not-tracked"
        else none
      | _ => some "topk/missing-observation"
  | _ => some "topk/missing-observation"

def checkRes (c : JCtx) (xs : Stream) (r : List String) : Option String :=
  match r with
  | "n" :: n :: "sample" :: sample =>
    let arrivals := expand xs
    if natD n != arrivals.length then some "reservoir/count/item-count-not-stream-total"
    else if !reservoirSizeOk (c.sc.num c.reg 0) arrivals.length (nats sample) then some "reservoir/seq/size-not-min-k-n"
    else if !reservoirSubsetOk arrivals (nats sample) then some "reservoir/seq/item-not-from-stream"
    else none
  | _ => some "reservoir/missing-observation"

def parseCents (ts : List String) : List (Int × Nat) :=
  ts.filterMap fun s => match s.splitOn ":" with
    | [k, c] => some (intD k, natD c)
    | _ => none

def checkTd (xs : List (Int × Nat)) (r : List String) (q : Option (List String)) (cents : Option (List String)) :
    Option String :=
  let live := (xs.filter (fun p => p.2 > 0)).map (·.1)
  let n := (xs.map (·.2)).foldl (· + ·) 0
  match r with
  | "n" :: n' :: _ =>
    if natD n' != n then some "tdigest/count/item-count-not-stream-total" else
    match q, keyMin live, keyMax live with
    | some qs, some lo, some hi =>
      if !nondecreasing (ints qs) then some "tdigest/quantile/not-monotone"
      else if !withinMinMax lo hi (ints qs) then some "tdigest/quantile/outside-min-max"
      else match cents, r with
        -- the tie with the quantile model, on the real object's own centroids / min / max / item_count
        | some cs, ["n", n'', "min", mn, "max", mx] =>
          Judge.tdTieCheck (parseCents cs) (intD mn) (intD mx) (natD n'') (qs.length - 1) (ints qs)
        | _, _ => none
    | none, some _, some _ => some "tdigest/missing-observation"
    | _, _, _ => none
  | _ => some "tdigest/missing-observation"

def setD {β : Type} (l : List β) (i : Nat) (v : β) : List β := l.set i v

/-- walk the groups: frame clause between consecutive snapshots, then the per-register clauses
    against the logical streams -/
def judgeKind {α : Type} (sc : Scn) (item : String → α)
    (check : JCtx → List (α × Nat) → List (List String) → Option String)
    (body : List String) : List String :=
  let n := sc.nregs
  let rec go (ls : List (List (α × Nat))) (merged : List Bool) (prev : Option (List (List String))) :
      List (List String × List (List String)) → Option String
    | [] => none
    | (ts, obs) :: rest =>
      let parsed : Option (SeqOp α × Bool) := if ts.isEmpty then some (.skip, false) else parseSeqOp item sc.compat ts
      match parsed with
      | none => some "seq/malformed-judge-input"
      | some (op, _) =>
        let lk := lookOf ts
        let ls' := seqStep (logicalAlg α) ls op
        let merged' := match op with
          | .merge t _ => merged.set t true
          | .clear r => merged.set r false
          | _ => merged
        let cur := (List.range n).filterMap (fullObs obs)
        if cur.length != n then some s!"{sc.kind}/missing-observation" else
        let frame := match prev with
          | some p => frameOk op.target p cur
          | none => true
        if !frame then some s!"{sc.kind}/frame/untouched-sketch-changed" else
        match (List.range n).findSome? fun r =>
            check ⟨sc, merged'.getD r false, r, lk.bind fun p => if p.1 == r then some p.2 else none⟩
              (ls'.getD r []) obs with
        | some sig => some sig
        | none => go ls' merged' (some cur) rest
  match go (seqInit (logicalAlg α) n) (List.replicate n false) none (groups body) with
  | none => ["ok"]
  | some sig => [s!"viol {sig}"]

def judgeSeq (body : List String) : List String :=
  let sc := Scn.parse body
  let natCheck := fun (f : JCtx → Stream → List String → Option (List String) → Option (List String) → Option String) =>
    fun (c : JCtx) (xs : Stream) (obs : List (List String)) =>
      match obsOf obs "r" c.reg with
      | some r => f c xs r (obsOf obs "w" c.reg) (obsOf obs "l" c.reg)
      | none => some s!"{c.sc.kind}/missing-observation"
  if sc.kind == "bloom" then judgeKind sc natD (natCheck (checkMergeable (some bloomLower))) body
  else if sc.kind == "cms" then judgeKind sc natD (natCheck (checkMergeable (some cmsLower))) body
  else if sc.kind == "hll" then judgeKind sc natD (natCheck (checkMergeable none)) body
  else if sc.kind == "topk" then judgeKind sc natD (natCheck fun c xs r _ l => checkTopK c xs r l) body
  else if sc.kind == "reservoir" then judgeKind sc natD (natCheck fun c xs r _ _ => checkRes c xs r) body
  else if sc.kind == "tdigest" then
    judgeKind sc intD (fun c xs obs =>
      match obsOf obs "r" c.reg with
      | some r => checkTd xs r (obsOf obs "q" c.reg) (obsOf obs "c" c.reg)
      | none => some "tdigest/missing-observation") body
  else ["viol seq/malformed-judge-input"]

end HappyModel.C20.SeqRun
