import HappyModel.C20.Sketch
/-!
Model of `happysimulator/sketching/reservoir.py` (Algorithm R).  Every random draw is an *input*:
the harness installs a scripted generator whose `randint(a, b)` answers `a + v % (b - a + 1)` and
whose `random()` answers `(v % 64) / 64` for the next scripted natural `v`; the model consumes the
same script.  Theorems quantify over every script.
-/
namespace HappyModel.C20

structure Res where
  k : Nat
  items : List Nat
  n : Nat
deriving Repr

def Res.empty (k : Nat) : Res := ⟨k, [], 0⟩

/-- next scripted value (0 when the script is exhausted) and the rest of the script -/
def nextDraw : List Nat → Nat × List Nat
  | [] => (0, [])
  | v :: vs => (v, vs)

/-- `_add_one(item)`; returns the new state and the unconsumed script -/
def Res.addOne (s : Res) (x : Nat) (script : List Nat) : Res × List Nat :=
  if s.items.length < s.k then ({ s with items := s.items ++ [x], n := s.n + 1 }, script)
  else
    let j := (nextDraw script).1 % (s.n + 1)   -- randint(0, total_count - 1) after the increment
    (if j < s.k then { s with items := s.items.set j x, n := s.n + 1 } else { s with n := s.n + 1 },
     (nextDraw script).2)

/-- a list of single arrivals -/
def Res.run (s : Res) : List Nat → List Nat → Res × List Nat
  | [], script => (s, script)
  | x :: xs, script => Res.run (s.addOne x script).1 xs (s.addOne x script).2

/-- one iteration of the merge loop: pick a side by `random() < na / (na + nb)`, then an index -/
def mergePick (a b : Res) (script : List Nat) : Option Nat × List Nat :=
  let v := (nextDraw script).1 % 64
  let s1 := (nextDraw script).2
  if v * (a.n + b.n) < 64 * a.n then
    if a.items.isEmpty then (none, s1)
    else (a.items[(nextDraw s1).1 % a.items.length]?, (nextDraw s1).2)
  else
    if b.items.isEmpty then (none, s1)
    else (b.items[(nextDraw s1).1 % b.items.length]?, (nextDraw s1).2)

def mergeLoop (a b : Res) : Nat → List Nat → List Nat × List Nat
  | 0, script => ([], script)
  | i + 1, script =>
    let p := mergePick a b script
    let rest := mergeLoop a b i p.2
    (match p.1 with | some x => x :: rest.1 | none => rest.1, rest.2)

/-- `merge(other)` (capacities already checked equal) -/
def Res.merge (a b : Res) (script : List Nat) : Res × List Nat :=
  if a.n + b.n = 0 then (a, script)
  else
    let r := mergeLoop a b (min a.k (a.n + b.n)) script
    ({ a with items := r.1.take a.k, n := a.n + b.n }, r.2)

end HappyModel.C20
