import HappyModel.C20.Run
import HappyModel.C20.TDigest
/-!
Judge modes of the C20 driver: evaluate the Spec predicates (`Spec.lean`) on what an implementation
reported.  Input = the scenario lines of the model block plus `obs …` lines carrying the
implementation's own transcript.  Output `ok` or `viol <signature> [detail]`.
-/
namespace HappyModel.C20.Judge
open HappyModel.Proto HappyModel.C20 HappyModel.C20.Run

/-- `obs <name> n <n> st <state…>` and `obs <name>q <answers…>` → observed sketch -/
def obsSketch (name : String) (body : List String) : Option SObs :=
  let obs := linesWith "obs" body
  let stLine := obs.find? fun ts => ts.head? == some name
  let qLine := obs.find? fun ts => ts.head? == some (name ++ "q")
  match stLine with
  | some (_ :: "n" :: n :: "st" :: st) =>
    some ⟨st.map (fun s => match s.splitOn ":" with
                    | [a, b] => natD a * 1000 + natD b
                    | _ => natD s),
          natD n, match qLine with | some (_ :: q) => nats q | _ => []⟩
  | _ => none

def firstSome : List (Option String) → Option String
  | [] => none
  | some s :: _ => some s
  | none :: l => firstSome l

def check (b : Bool) (sig : String) : Option String := if b then none else some sig

/-- Bloom / Count-Min / HLL.  `lower` = the one-sided bound of the sketch (none for HLL). -/
def judgeMergeable (kind : String) (lower : Option (Stream → Nat → Nat)) (body : List String) :
    List String :=
  let adds := parseAdds body
  let split := natD ((firstWith "split" body).headD "0")
  let probes := nats (firstWith "probe" body)
  let whole := accepted adds
  let xa := accepted (adds.take split)
  let xb := accepted (adds.drop split)
  let one := fun (name : String) (xs : Stream) (o : Option SObs) =>
    match lower, o with
    | some lo, some s => check (lowerOk (lo xs) probes s.q) s!"{kind}/{name}/one-sided-bound-broken"
    | _, _ => none
  let w := obsSketch "W" body
  let m := obsSketch "M" body
  let r := firstSome [
    (if w.isNone then some s!"{kind}/missing-observation" else none),
    one "whole" whole w, one "half" xa (obsSketch "A" body), one "half" xb (obsSketch "B" body),
    one "merged" whole m,
    (match m, w with
     | some ms, some ws => check (mergeIsConcat ms ws) s!"{kind}/merge/not-sketch-of-concatenation"
     | _, _ => none)]
  match r with
  | none => ["ok"]
  | some sig => [s!"viol {sig}"]

/-! ### TopK: after every `snap`, lines `obs n … thr … maxerr …`, `obs top …`, `obs q x t c e`* -/

def parseTop (ts : List String) : List Nat :=
  ts.filterMap fun s => match s.splitOn ":" with
    | [_, c, _] => some (natD c)
    | _ => none

def judgeTopK (body : List String) : List String :=
  let k := natD ((firstWith "cfg" body).headD "0")
  let rec go (xs : Stream) (pending : Bool) (topSum : Option (List Nat)) (n : Nat) :
      List String → Option String
    | [] => none
    | l :: ls =>
      match toks l with
      | ["add", x, c] =>
        if intD c < 0 then go xs false none 0 ls else go (xs ++ [(natD x, (intD c).toNat)]) false none 0 ls
      | ["snap"] => go xs true none 0 ls
      | ["obs", "n", n', "thr", _, "maxerr", _] => go xs pending topSum (natD n') ls
      | "obs" :: "top" :: rest =>
        if topkSumOk xs (parseTop rest) n then go xs pending (some (parseTop rest)) n ls
        else some "topk/sum/counters-do-not-sum-to-N"
      | ["obs", "q", x, t, c, e] =>
        let o : TObs := ⟨natD x, t == "1", natD c, natD e⟩
        if !topkBoundOk xs o then
          some (if o.tracked && trueCount xs o.item > o.count then "topk/estimate/below-true-count"
                else "topk/estimate/exceeds-true-plus-error")
        else if !topkHeavyOk xs k o then some "topk/heavy/frequent-item-not-tracked"
        else go xs pending topSum n ls
      | _ => go xs pending topSum n ls
  if k == 0 then ["ok"] else
  match go [] false none 0 body with
  | none => ["ok"]
  | some sig => [s!"viol {sig}"]

/-! ### reservoir -/

def obsRes (name : String) (body : List String) : Option (Nat × List Nat) :=
  match (linesWith "obs" body).find? fun ts => ts.head? == some name with
  | some (_ :: "n" :: n :: "sample" :: xs) => some (natD n, nats xs)
  | _ => none

def judgeRes (body : List String) : List String :=
  let kA := natD ((firstWith "cfgA" body).headD "0")
  let kB := natD ((firstWith "cfgB" body).headD "0")
  let adds := parseAdds body
  let split := natD ((firstWith "split" body).headD "0")
  let arr := fun (xs : List (Nat × Int)) => expand (accepted xs)
  let one := fun (name : String) (k : Nat) (arrivals : List Nat) =>
    match obsRes name body with
    | none => none
    | some (_, sample) =>
      if !reservoirSizeOk k arrivals.length sample then some s!"reservoir/{name}/size-not-min-k-n"
      else if !reservoirSubsetOk arrivals sample then some s!"reservoir/{name}/item-not-from-stream"
      else none
  let r := firstSome [
    (if (obsRes "W" body).isNone then some "reservoir/missing-observation" else none),
    one "W" kA (arr adds), one "A" kA (arr (adds.take split)), one "B" kB (arr (adds.drop split)),
    one "M" kA (arr adds)]
  match r with
  | none => ["ok"]
  | some sig => [s!"viol {sig}"]

/-! ### Merkle: `obs d ab r… | ba r… | eq e | size x y` after each `diff` -/

def parseRanges (ts : List String) : List (Nat × Nat) :=
  ts.filterMap fun s => match s.splitOn "-" with
    | [a, b] => some (natD a, natD b)
    | _ => none

/-- `pyeq v c v c …`: the Python-equality class of each serialisation id (absent: identity) -/
def parseCls (body : List String) : Nat → Nat :=
  let tbl := pairsOf (nats (firstWith "pyeq" body))
  fun v => match tbl.find? (·.1 == v) with
    | some p => p.2
    | none => v

/-- one `diff` observation against the logical maps.  Without a `pyeq` table "equal" is serialised
    identity (the tree's own notion: two values are the same iff it hashes them alike); with one the
    case asks for Python's `==` (`cls`). -/
def judgeDiff (py : Bool) (cls : Nat → Nat) (a b : List (Nat × Nat)) (ts : List String) : Option String :=
  let ab := parseRanges ((ts.drop 1).takeWhile (· != "|"))
  let rest := (ts.dropWhile (· != "|")).drop 1
  let ba := parseRanges ((rest.drop 1).takeWhile (· != "|"))
  if py then
    -- the registered finding is about values that are equal under == but SERIALISED DIFFERENTLY; maps that are
    -- identical serialisation by serialisation (`pyEqualMaps id`) with a non-empty diff are a plain violation
    let sigE := fun (r : List (Nat × Nat)) =>
      if pyEqualMaps cls a b && !r.isEmpty then
        (if pyEqualMaps id a b then "merkle/diff/nonempty-but-identical" else "merkle/diff/nonempty-but-python-equal")
      else "merkle/diff/empty-iff-equal-broken"
    firstSome [
      check (merkleEmptyIffEqualC cls a b ab) (sigE ab),
      check (merkleEmptyIffEqualC cls b a ba) (sigE ba),
      check (merkleCoversC cls a b ab) "merkle/diff/differing-key-not-covered",
      check (merkleCoversC cls b a ba) "merkle/diff/differing-key-not-covered"]
  else
    firstSome [
      check (merkleEmptyIffEqual a b ab) "merkle/diff/empty-iff-equal-broken",
      check (merkleEmptyIffEqual b a ba) "merkle/diff/empty-iff-equal-broken",
      check (merkleCovers a b ab) "merkle/diff/differing-key-not-covered",
      check (merkleCovers b a ba) "merkle/diff/differing-key-not-covered"]

/-- The logical maps are what the *user* stored: `a`/`b` lines, then every `upd`/`del` (an `upd` is an
    `update(key, value)` call, whether the value is a new object or the stored object changed in
    place and published again).  Every `diff` is judged against them. -/
def judgeMerkle (body : List String) : List String :=
  let a0 := (MT.ofList (pairsOf (nats (firstWith "a" body)))).data
  let b0 := (MT.ofList (pairsOf (nats (firstWith "b" body)))).data
  let cls := parseCls body
  let py := body.any fun l => l.startsWith "pyeq"
  let rec go (a b : List (Nat × Nat)) (want : Bool) : List String → Option String
    | [] => if want then some "merkle/missing-observation" else none
    | l :: ls =>
      match toks l with
      | ["upd", "a", k, v] => go (mapPut a (natD k) (natD v)) b want ls
      | ["upd", "b", k, v] => go a (mapPut b (natD k) (natD v)) want ls
      | ["del", "a", k] => go (mapDel a (natD k)) b want ls
      | ["del", "b", k] => go a (mapDel b (natD k)) want ls
      | ["diff"] => if want then some "merkle/missing-observation" else go a b true ls
      | "obs" :: "d" :: rest =>
        match judgeDiff py cls a b rest with
        | some sig => some sig
        | none => go a b false ls
      | _ => go a b want ls
  match go a0 b0 false body with
  | none => ["ok"]
  | some sig => [s!"viol {sig}"]

/-! ### t-digest: `obs Wq keys…`, `obs Mq keys…` = quantile(q) for an increasing grid of q -/

/-- Tie between the real `TDigest.quantile` and the model (`TDigest.lean`): the digest the real object walks
    over (`cs` = its centroids as (order key of the mean, count), `lo` / `hi` = keys of min / max, `n` = item_count)
    must be well formed, and the observed answer for `i / b` must lie in the bracket of the rule the model applies
    (equality with the centroid mean for a `return centroid.mean` rule).  `b` is a power of two (the adapter asks
    for the tie only then): `q · N`, the half-weights and every comparison of the walk are then exact in doubles,
    so model and code take the same branch; the float interpolation itself is clamped by the code to its bracket. -/
def tdTieCheck (cs : List (Int × Nat)) (lo hi : Int) (n b : Nat) (qs : List Int) : Option String :=
  let d : TD := ⟨cs, lo, hi⟩
  if cs.isEmpty then none
  else if !d.wfB then some "tdigest/tie/centroids-ill-formed"
  else if d.N != n then some "tdigest/tie/weights-do-not-sum-to-item-count"
  else if qs.length != b + 1 then some "tdigest/missing-observation"
  else qs.zipIdx.findSome? fun p =>
    if (d.quantile p.2 b).admits p.1 then none else some "tdigest/tie/quantile-outside-the-bracket-of-its-rule"

/-- `tie <b>`, `cent <name> <key> <count>`*, `lohi <name> <lo> <hi> <n>` -/
def tdTie (name : String) (body : List String) (qs : List Int) : Option String :=
  match firstWith "tie" body with
  | [bs] =>
    let cs := (linesWith "cent" body).filterMap fun ts => match ts with
      | [nm, k, c] => if nm == name then some (intD k, natD c) else none
      | _ => none
    match (linesWith "lohi" body).find? fun ts => ts.head? == some name with
    | some [_, lo, hi, n] => tdTieCheck cs (intD lo) (intD hi) (natD n) (natD bs) qs
    | _ => none
  | _ => none

def judgeTd (body : List String) : List String :=
  let adds := parseTdAdds body
  let live := (adds.filter (fun p => p.2 > 0)).map (·.1)
  let one := fun (name : String) =>
    match (linesWith "obs" body).find? fun ts => ts.head? == some name with
    | some (_ :: qs) =>
      match keyMin live, keyMax live with
      | some lo, some hi =>
        if !nondecreasing (ints qs) then some "tdigest/quantile/not-monotone"
        else if !withinMinMax lo hi (ints qs) then some "tdigest/quantile/outside-min-max"
        else tdTie (if name == "Wq" then "W" else "M") body (ints qs)
      | _, _ => none
    | _ => none
  match firstSome [one "Wq", one "Mq"] with
  | none => ["ok"]
  | some sig => [s!"viol {sig}"]

end HappyModel.C20.Judge
