import HappyModel.C20.Vec
/-!
Models of `happysimulator/sketching/{bloom_filter,count_min_sketch,hyperloglog}.py`.

Items are natural numbers (the harness numbers the Python items it uses).  The hash family is a
*parameter* `h`: for Bloom `h x i` is `BloomFilter._hash(x, i)` (bit index of item `x` under hash
function `i`), for Count-Min `h x r` is `CountMinSketch._hash(x, r)` (column of `x` in row `r`), for
HyperLogLog `h x` is the 64-bit value `HyperLogLog._hash(x)`.  The harness ships the real values as
a table; theorems quantify over every `h`.

`add x c` with `c = 0` is the code's early `return`; negative counts raise `ValueError` before any
state change and are handled by the driver (the model's stream is `List (Nat × Nat)`).
-/
namespace HappyModel.C20

/-- a weighted stream: (item, count) -/
abbrev Stream := List (Nat × Nat)

/-- number of occurrences of `x` (sum of its counts) -/
def trueCount : Stream → Nat → Nat
  | [], _ => 0
  | (y, c) :: rest, x => (if y = x then c else 0) + trueCount rest x

/-- total weight `N` -/
def total : Stream → Nat
  | [] => 0
  | (_, c) :: rest => c + total rest

/-! ## Bloom filter — `_bits` as the list of set bit indices (a set; order/duplicates irrelevant) -/

structure Bloom where
  m : Nat
  k : Nat
  bits : List Nat
  n : Nat
deriving Repr

def Bloom.empty (m k : Nat) : Bloom := ⟨m, k, [], 0⟩

/-- the `k` bit indices of `x`: `[_hash(x, i) for i in range(k)]` -/
def positions (h : Nat → Nat → Nat) (k x : Nat) : List Nat := (List.range k).map (h x)

def Bloom.bit (b : Bloom) (p : Nat) : Bool := b.bits.contains p

def Bloom.add (h : Nat → Nat → Nat) (b : Bloom) (x c : Nat) : Bloom :=
  if c = 0 then b else { b with bits := positions h b.k x ++ b.bits, n := b.n + c }

def Bloom.contains (h : Nat → Nat → Nat) (b : Bloom) (x : Nat) : Bool :=
  (positions h b.k x).all b.bit

/-- `merge`: OR of the bit arrays, counts added (configuration equality is checked by the caller) -/
def Bloom.merge (a b : Bloom) : Bloom := { a with bits := a.bits ++ b.bits, n := a.n + b.n }

def Bloom.ofStream (h : Nat → Nat → Nat) (m k : Nat) (xs : Stream) : Bloom :=
  xs.foldl (fun s p => s.add h p.1 p.2) (Bloom.empty m k)

/-! ## Count-Min sketch — `_counters[row][col]` -/

structure CMS where
  w : Nat
  d : Nat
  rows : List Vec
  n : Nat
deriving Repr

def CMS.empty (w d : Nat) : CMS := ⟨w, d, List.replicate d [], 0⟩

def CMS.cell (s : CMS) (r c : Nat) : Nat := Vec.get (s.rows.getD r []) c

/-- `for row in range(depth): counters[row][_hash(item,row)] += count` (rows numbered from `r`) -/
def addRows (h : Nat → Nat → Nat) (x c : Nat) : Nat → List Vec → List Vec
  | _, [] => []
  | r, v :: vs => Vec.addAt v (h x r) c :: addRows h x c (r + 1) vs

def CMS.add (h : Nat → Nat → Nat) (s : CMS) (x c : Nat) : CMS :=
  if c = 0 then s else { s with rows := addRows h x c 0 s.rows, n := s.n + c }

def minList : List Nat → Nat
  | [] => 0
  | [a] => a
  | a :: b :: l => min a (minList (b :: l))

/-- `min(counters[row][_hash(item,row)] for row in range(depth))` -/
def CMS.estimate (h : Nat → Nat → Nat) (s : CMS) (x : Nat) : Nat :=
  minList ((List.range s.d).map fun r => s.cell r (h x r))

def mergeRows : List Vec → List Vec → List Vec
  | [], ys => ys
  | xs, [] => xs
  | x :: xs, y :: ys => Vec.vadd x y :: mergeRows xs ys

def CMS.merge (a b : CMS) : CMS := { a with rows := mergeRows a.rows b.rows, n := a.n + b.n }

def CMS.ofStream (h : Nat → Nat → Nat) (w d : Nat) (xs : Stream) : CMS :=
  xs.foldl (fun s p => s.add h p.1 p.2) (CMS.empty w d)

/-! ## HyperLogLog — `_registers` -/

structure HLL where
  p : Nat
  regs : Vec
  n : Nat
deriving Repr

def HLL.empty (p : Nat) : HLL := ⟨p, [], 0⟩

/-- `_count_leading_zeros(value, max_bits)` for `value < 2^max_bits` -/
def clz (value bits : Nat) : Nat := if value = 0 then bits else bits - (Nat.log2 value + 1)

/-- register index: first `p` bits of the 64-bit hash -/
def hllIdx (p hash : Nat) : Nat := hash >>> (64 - p)

/-- run length: leading zeros of the remaining `64-p` bits, plus one -/
def hllRun (p hash : Nat) : Nat := clz (hash % 2 ^ (64 - p)) (64 - p) + 1

def HLL.add (h : Nat → Nat) (s : HLL) (x c : Nat) : HLL :=
  if c = 0 then s else
    { s with regs := Vec.maxAt s.regs (hllIdx s.p (h x)) (hllRun s.p (h x)), n := s.n + c }

def HLL.merge (a b : HLL) : HLL := { a with regs := Vec.vmax a.regs b.regs, n := a.n + b.n }

def HLL.ofStream (h : Nat → Nat) (p : Nat) (xs : Stream) : HLL :=
  xs.foldl (fun s q => s.add h q.1 q.2) (HLL.empty p)

def HLL.reg (s : HLL) (i : Nat) : Nat := Vec.get s.regs i

end HappyModel.C20
