import HappyModel.C20.Sketch
/-!
Model of `happysimulator/sketching/merkle_tree.py`.  Keys are natural numbers (the rank of the key
string in the sorted key pool, so `<` on keys is the string order the code uses); values are value
ids.  The node hashes are parameters: `hl k v` stands for `_hash_leaf(key, value)` and `hc a b` for
`_hash_children(a, b)`; the harness ships the real digests (numbered) as tables.
-/
namespace HappyModel.C20

inductive MTree
  | leaf (k v : Nat)
  | node (l r : MTree)
deriving Repr, DecidableEq

namespace MTree

def hash (hl hc : Nat → Nat → Nat) : MTree → Nat
  | leaf k v => hl k v
  | node l r => hc (hash hl hc l) (hash hl hc r)

/-- `key_range.start` -/
def lo : MTree → Nat
  | leaf k _ => k
  | node l _ => lo l

/-- `key_range.end` -/
def hi : MTree → Nat
  | leaf k _ => k
  | node _ r => hi r

/-- key-value pairs in order -/
def items : MTree → List (Nat × Nat)
  | leaf k v => [(k, v)]
  | node l r => items l ++ items r

end MTree

/-- `_build_tree(sorted_items)` with explicit fuel (≥ length) -/
def buildF : Nat → List (Nat × Nat) → MTree
  | 0, _ => .leaf 0 0
  | _ + 1, [] => .leaf 0 0
  | _ + 1, [(k, v)] => .leaf k v
  | f + 1, a :: b :: l =>
    let mid := (a :: b :: l).length / 2
    .node (buildF f ((a :: b :: l).take mid)) (buildF f ((a :: b :: l).drop mid))

/-- `MerkleTree.build(data)` / the rebuild in `update`/`remove`: `None` root for an empty map -/
def build (data : List (Nat × Nat)) : Option MTree :=
  if data.isEmpty then none else some (buildF data.length data)

/-- `_diff_nodes(a, b)` -/
def diffNodes (hl hc : Nat → Nat → Nat) : MTree → MTree → List (Nat × Nat)
  | .node al ar, .node bl br =>
    if (MTree.node al ar).hash hl hc = (MTree.node bl br).hash hl hc then []
    else diffNodes hl hc al bl ++ diffNodes hl hc ar br
  | a, b =>
    if a.hash hl hc = b.hash hl hc then []
    else [(min a.lo b.lo, max a.hi b.hi)]

/-- `MerkleTree.diff(other)` -/
def diffTrees (hl hc : Nat → Nat → Nat) : Option MTree → Option MTree → List (Nat × Nat)
  | none, none => []
  | none, some b => [(b.lo, b.hi)]
  | some a, none => [(a.lo, a.hi)]
  | some a, some b => if a.hash hl hc = b.hash hl hc then [] else diffNodes hl hc a b

/-- the `_data` dict, kept sorted by key: `update` -/
def mapPut : List (Nat × Nat) → Nat → Nat → List (Nat × Nat)
  | [], k, v => [(k, v)]
  | (k', v') :: rest, k, v =>
    if k < k' then (k, v) :: (k', v') :: rest
    else if k = k' then (k, v) :: rest
    else (k', v') :: mapPut rest k v

/-- `remove` -/
def mapDel (m : List (Nat × Nat)) (k : Nat) : List (Nat × Nat) := m.filter (fun p => p.1 != k)

end HappyModel.C20
