import HappyModel.Proto
import HappyModel.C16.PageSpec
/-! Driver sub-handler for the `pagecache` family (infrastructure/page_cache.py). Headers start with `page` / `judge-page`. -/
namespace HappyModel.C16.Page
open HappyModel.Proto

def parseOp (ts : List String) : Option Op :=
  match ts with
  | ["read", p] => some (.read (natD p))
  | ["write", p] => some (.write (natD p))
  | ["flush"] => some .flush
  | _ => none

def opTable (body : List String) : List (Nat × Op) :=
  body.filterMap fun l =>
    match toks l with
    | "op" :: i :: rest => (parseOp rest).map fun o => (natD i, o)
    | _ => none

def findOp : List (Nat × Op) → Nat → Option Op
  | [], _ => none
  | (j, o) :: r, i => if j == i then some o else findOp r i

def showRes : Res → String
  | .ok => "ok"
  | .count n => s!"n={n}"
  | .err .key => "err KeyError"
  | .err .runtime => "err RuntimeError"

def showPg (q : Pg) : String := if q.dirty then s!"{q.id}*" else toString q.id

/-- `seg i | P <lru order> | cached dirty | hits misses evictions dirty_writebacks readaheads` -/
def stateLine (i : Nat) (s : St) : String :=
  s!"seg {i} | P {joinSp (s.pages.map showPg)} | {s.pages.length} {dirtyCount s.pages} | {s.hits} {s.misses} {s.ev} {s.dwb} {s.ra}"

def runPage (variant : String) (cap ra : Nat) (body : List String) : List String :=
  let cfg : Cfg := ⟨cap, ra, variant == "repaired"⟩
  let ops := opTable body
  let segs : List Nat := body.filterMap fun l =>
    match toks l with
    | ["seg", i] => some (natD i)
    | _ => none
  let rec go (s : St) (started : List Nat) : List Nat → List String
    | [] => []
    | i :: rest =>
      let act : Option Act :=
        if started.contains i then some (.resume i)
        else (findOp ops i).map fun o => .start i o
      match act with
      | none => "bad-seg" :: go s started rest
      | some a =>
        let r := step cfg s a
        let ls := match r.2 with
          | some x => [stateLine i r.1, s!"ret {i} {showRes x}"]
          | none => [stateLine i r.1]
        ls ++ go r.1 (i :: started) rest
  go {} [] segs

def parseRes (t : String) : Option (Option Res) :=
  if t == "-" then some none
  else if t == "ok" then some (some .ok)
  else if t.startsWith "n=" then (nat? (t.drop 2).toString).map fun n => some (.count n)
  else if t == "err_KeyError" then some (some (.err .key))
  else if t.startsWith "err_" then some (some (.err .runtime))
  else none

/-- `obs i c d h m e w r res` -/
def parseObs (ops : List (Nat × Op)) (l : String) : Option Obs :=
  match toks l with
  | ["obs", i, c, d, h, m, e, w, r, res] =>
    match findOp ops (natD i), parseRes res, [c, d, h, m, e, w, r].all (fun t => (nat? t).isSome) with
    | some o, some rs, true => some ⟨natD i, o.kind, (match o with | .read p => p | .write p => p | .flush => 0), natD c, natD d, natD h, natD m, natD e, natD w, natD r, rs⟩
    | _, _, _ => none
  | _ => none

def judgePage (cap ra : Nat) (body : List String) : List String :=
  let ops := opTable body
  let lines := body.filter (fun l => l.startsWith "obs ")
  let obs := lines.filterMap (parseObs ops)
  if obs.length != lines.length then ["viol pagecache/malformed-judge-input"] else
  match judge cap ra {} obs with
  | none => ["ok"]
  | some sig => [s!"viol {sig}"]

def handle? (hdr : List String) (body : List String) : Option (List String) :=
  match hdr with
  | ["page", variant, cap, ra] => some (runPage variant (natD cap) (natD ra) body)
  | ["judge-page", cap, ra] => some (judgePage (natD cap) (natD ra) body)
  | _ => none

end HappyModel.C16.Page
