import HappyModel.C16.Tier
import HappyModel.C16.StoreSpec
/-!
C16 for `MultiTierCache` — the property text over what a user can observe.

An *observed run*: the operation table, the order in which operation segments executed, after every
segment for every tier the public views `get_cached_keys()`, `get_dirty_keys()` and the tier policy's
tracked keys, the value every operation returned, and the backing store's contents at the end.

* size      per tier, `len(get_cached_keys()) ≤ capacity` at every observation;
* keys      per tier, policy-tracked keys = cached keys at every observation;
* read-after-write   over the MultiTierCache API (`get` / `put` / `delete`), the regular-register
            clause `readOk` of `StoreSpec.lean`: a get returns the value of a write that completed
            before the get was issued, or a later / overlapping one — whatever tier or store served it;
* lost-write   when everything has completed, the backing store holds for every key that no tier
            reports dirty the value of a write that no other write to the key entirely follows.
Direct tier reads (`tget`) are not judged (they are reads of one `CachedStore`, not of the hierarchy).
-/
namespace HappyModel.C16.Tier
open HappyModel.C16

/-- one tier as seen after a segment -/
structure TView where
  cached : List Key
  dirty : List Key
  tracked : List Key
deriving Repr

structure MObs where
  i : Nat
  tiers : List TView
  res : Option Res
deriving Repr

/-- the operation as the register clauses of `StoreSpec` see it (a direct tier read is neither a read
    nor a write of the hierarchy) -/
def MOp.toOpK : MOp → OpK
  | .get k => .get k
  | .put k v => .put k v
  | .del k => .del k
  | .inv k => .inv k
  | .invAll => .invAll
  | .tget _ k => .inv k

def MObs.toObs (o : MObs) : Obs := ⟨o.i, [], [], [], o.res⟩

def judgeTierViews : List Nat → List TView → Option String
  | cap :: caps, v :: vs =>
    if cap < v.cached.length then some "multitier/size/exceeds-capacity"
    else if v.tracked != v.cached then some "multitier/keys/policy-ne-cache"
    else judgeTierViews caps vs
  | [], [] => none
  | _, _ => some "multitier/malformed-observation"

def judgeViews (caps : List Nat) (evs : List MObs) : Option String :=
  evs.findSome? fun o => judgeTierViews caps o.tiers

/-- did the last write completed before segment `rs` delete the key? (signature detail only) -/
def lastIsDel (ws : List WRec) (key : Key) (rs : Nat) : Bool :=
  let before := (ws.filter (·.key == key)).filter fun w => match w.e with | some e => e < rs | none => false
  match before.foldl (fun acc w => match acc with
      | none => some w
      | some (a : WRec) => if a.s < w.s then some w else some a) none with
  | some w => w.val.isNone
  | none => false

def staleSig (ws : List WRec) (key : Key) (rs : Nat) : String :=
  "multitier/read-after-write/stale/" ++ (if lastIsDel ws key rs then "after-delete" else "after-put")

def judgeReads (ops : List (Nat × MOp)) (evs : List MObs) : Option String :=
  let ops' := ops.map fun (i, o) => (i, o.toOpK)
  let evs' := evs.map MObs.toObs
  let ws := writesOf ops' evs'
  ops.findSome? fun (i, op) =>
    match op, firstIdx evs' i, endIdx evs' i with
    | .get k, some rs, some re =>
      match (evs'.getD re ⟨0, [], [], [], none⟩).res with
      | some (.val v) =>
        if readOk ws k rs re (some v) then none
        else if ws.any (fun w => w.key == k && w.val == some v) then some (staleSig ws k rs)
        else some "multitier/read/unknown-value"
      | some .none => if readOk ws k rs re none then none else some (staleSig ws k rs)
      | _ => some "multitier/read/malformed-result"
    | _, _, _ => none

/-- final backing contents (`fin`) against the writes, once everything has completed -/
def judgeFinal (ops : List (Nat × MOp)) (evs : List MObs) (fin : List (Key × Nat)) : Option String :=
  let ops' := ops.map fun (i, o) => (i, o.toOpK)
  let evs' := evs.map MObs.toObs
  let ws := writesOf ops' evs'
  if ops'.any (fun (i, _) => (endIdx evs' i).isNone) then none else
  let stillDirty := match evs.getLast? with
    | some o => (o.tiers.map TView.dirty).flatten
    | none => []
  let keys := ((ws.map (·.key) ++ fin.map (·.1)).eraseDups).filter fun k => !stillDirty.contains k
  keys.findSome? fun k =>
    let mine := ws.filter (·.key == k)
    let v := aget? fin k
    let ok := (mine.isEmpty && v.isNone) ||
      mine.any fun w' => w'.val == v && !(mine.any fun w => follows w w')
    if ok then none else some "multitier/lost-write"

def judgeTier (caps : List Nat) (ops : List (Nat × MOp)) (evs : List MObs) (fin : Option (List (Key × Nat))) :
    Option String :=
  match judgeViews caps evs with
  | some s => some s
  | none =>
    match (match fin with | some f => judgeFinal ops evs f | none => none) with
    | some s => some s
    | none => judgeReads ops evs

end HappyModel.C16.Tier
