/-!
Model of `PageCache` (components/infrastructure/page_cache.py) as a transition system whose
actions are the *segments* of its generator methods: `start i op` runs call `i` up to its first
`yield` (or to its `return`), `resume i` runs it from there to the next `yield` / `return`.  Which
call advances when is an input (the schedule), so theorems quantify over every interleaving; the
engine is not part of the model.  Nothing in `PageCache` depends on the clock, so segments carry no
time.

The cache is an `OrderedDict` page id ↦ page object, least recently used first.  A page object is
modelled with a *generation* number: `flush` of the current code keeps a reference to the object it
is writing, and `self._pages[p] = _CachedPage(p)` for a key that is already present replaces the
object in place (no reordering, no structural mutation).

Two variants (`Cfg.rep`):
* `current`  — the code as it is: `_load_page` / the read-ahead loop make room *before* the disk
  read is yielded and insert afterwards; `_evict_one` chooses its victim, yields the write-back
  latency, then `del`s by id (KeyError if a concurrent eviction removed it); `flush` iterates the
  live dict across yields (CPython: "OrderedDict mutated during iteration" when the dict was
  structurally changed and the iterator is not yet exhausted — `St.ver` is `od_state`).
* `repaired` — fixes/C16-pagecache-capacity.diff: the victim is popped before the write-back latency
  is yielded; after the disk read room is made again and re-checked after every yield, a page that
  is already cached is left alone; a read-ahead page is only inserted into room that is still
  free; `flush` walks a snapshot of the ids and re-checks "cached and dirty" after the yield.
-/
namespace HappyModel.C16.Page

structure Pg where
  id : Nat
  dirty : Bool
  gen : Nat
deriving Repr, DecidableEq

structure Cfg where
  cap : Nat
  ra : Nat        -- readahead_pages
  rep : Bool      -- repaired variant
deriving Repr

inductive Op
  | read (p : Nat)
  | write (p : Nat)
  | flush
deriving Repr, DecidableEq

inductive Err
  | key        -- KeyError (`del self._pages[oldest_id]`)
  | runtime    -- RuntimeError (dict mutated during iteration)
deriving Repr, DecidableEq

inductive Res
  | ok
  | count (n : Nat)
  | err (e : Err)
deriving Repr, DecidableEq

/-- what follows once `_ensure_space` / the insert loop has made room -/
inductive Cont
  | load (p : Nat)     -- `_load_page`: yield the disk read
  | ins (p : Nat)      -- repaired `_insert_clean` after the disk read, then the read-ahead loop
  | write (p : Nat)    -- `write_page`: insert the dirty page and return
deriving Repr, DecidableEq

/-- where a call is suspended -/
inductive Pend
  | evict (victim : Nat) (k : Cont)   -- write-back latency of a dirty victim (current: still cached; repaired: already popped)
  | disk (p : Nat)                    -- disk read of the requested page
  | ahead (p i : Nat)                 -- disk read of read-ahead page `p + i`
  | flushC (id gen : Nat) (rest : List Nat) (stamp n : Nat)
  | flushR (id : Nat) (rest : List Nat) (n : Nat)
deriving Repr, DecidableEq

structure St where
  pages : List Pg := []
  hits : Nat := 0
  misses : Nat := 0
  ev : Nat := 0
  dwb : Nat := 0
  ra : Nat := 0
  gen : Nat := 0                  -- next page-object identity
  ver : Nat := 0                  -- `od_state`: bumped by every structural change of the dict
  pend : List (Nat × Pend) := []
  /-- ghost (never printed, never read by the transitions): how often `write_page` turned an
  absent or clean page dirty -/
  made : Nat := 0
deriving Repr, DecidableEq

/-! ### the ordered dict -/

def has (ps : List Pg) (p : Nat) : Bool := ps.any (·.id == p)

def findPg : List Pg → Nat → Option Pg
  | [], _ => none
  | q :: qs, p => if q.id == p then some q else findPg qs p

/-- remove the (first) entry of `p` -/
def erase1 : List Pg → Nat → List Pg
  | [], _ => []
  | q :: qs, p => if q.id == p then qs else q :: erase1 qs p

/-- replace the (first) entry of `p` in place -/
def replace1 : List Pg → Nat → Pg → List Pg
  | [], _, _ => []
  | q :: qs, p, n => if q.id == p then n :: qs else q :: replace1 qs p n

def isLast : List Pg → Nat → Bool
  | [], _ => false
  | [q], p => q.id == p
  | _ :: q :: qs, p => isLast (q :: qs) p

def dirtyCount (ps : List Pg) : Nat := ps.countP (·.dirty)

def isDirty (ps : List Pg) (p : Nat) : Bool :=
  match findPg ps p with
  | some q => q.dirty
  | none => false

/-- `move_to_end(p)` (structural change unless `p` is already last) -/
def St.touch (s : St) (p : Nat) : St :=
  match findPg s.pages p with
  | some q => if isLast s.pages p then s else { s with pages := erase1 s.pages p ++ [q], ver := s.ver + 1 }
  | none => s

/-- `self._pages[p] = _CachedPage(p, dirty)`: in place if the key exists, appended otherwise -/
def St.assign (s : St) (p : Nat) (d : Bool) : St :=
  if has s.pages p then { s with pages := replace1 s.pages p ⟨p, d, s.gen⟩, gen := s.gen + 1 }
  else { s with pages := s.pages ++ [⟨p, d, s.gen⟩], gen := s.gen + 1, ver := s.ver + 1 }

/-- `page.dirty = d` on the cached object of `p` -/
def St.setDirty (s : St) (p : Nat) (d : Bool) : St :=
  match findPg s.pages p with
  | some q => { s with pages := replace1 s.pages p { q with dirty := d } }
  | none => s

def St.setPend (s : St) (i : Nat) (p : Pend) : St := { s with pend := s.pend ++ [(i, p)] }

def findPend : List (Nat × Pend) → Nat → Option Pend
  | [], _ => none
  | (j, p) :: r, i => if j == i then some p else findPend r i

def erasePend : List (Nat × Pend) → Nat → List (Nat × Pend)
  | [], _ => []
  | (j, p) :: r, i => if j == i then r else (j, p) :: erasePend r i

/-! ### `_ensure_space` / `_evict_one` up to the next yield -/

/-- `while len(pages) >= capacity: _evict_one()`; `some v`: suspended on the write-back of dirty
victim `v`.  A clean victim is dropped without a yield.  `fuel` ≥ number of pages + 1. -/
def ensure (cfg : Cfg) : Nat → St → St × Option Nat
  | 0, s => (s, none)
  | fuel + 1, s =>
    if s.pages.length < cfg.cap then (s, none) else
    match s.pages with
    | [] => (s, none)                 -- `if not self._pages: return` (capacity 0 is rejected by the constructor)
    | q :: qs =>
      if cfg.rep then
        -- popitem(last=False); evictions += 1; a dirty victim is then written back
        let s1 := { s with pages := qs, ev := s.ev + 1, ver := s.ver + 1 }
        if q.dirty then (s1, some q.id) else ensure cfg fuel s1
      else
        if q.dirty then (s, some q.id)
        else ensure cfg fuel { s with pages := qs, ev := s.ev + 1, ver := s.ver + 1 }

/-- the read-ahead loop of `read_page` from offset `i`, up to the next yield (`n` = iterations left) -/
def raLoop (cfg : Cfg) (idx p : Nat) : Nat → Nat → St → St × Option Res
  | 0, _, s => (s, some .ok)
  | n + 1, i, s =>
    if !has s.pages (p + i) && decide (s.pages.length < cfg.cap) then (s.setPend idx (.ahead p i), none)
    else raLoop cfg idx p n (i + 1) s

def readAhead (cfg : Cfg) (idx p i : Nat) (s : St) : St × Option Res :=
  raLoop cfg idx p (cfg.ra + 1 - i) i s

/-- room has been made and nothing was yielded since: run the continuation -/
def afterRoom (cfg : Cfg) (s : St) (idx : Nat) : Cont → St × Option Res
  | .load p => (s.setPend idx (.disk p), none)
  | .ins p => readAhead cfg idx p 1 (s.assign p false)
  | .write p =>
    let fresh := !isDirty s.pages p
    ({ s.assign p true with made := s.made + (if fresh then 1 else 0) }, some .ok)

/-- make room, then continue with `k` (repaired `ins`: only while the page is still absent) -/
def withRoom (cfg : Cfg) (s : St) (idx : Nat) (k : Cont) : St × Option Res :=
  match k with
  | .ins p =>
    if has s.pages p then readAhead cfg idx p 1 s else
    match ensure cfg (s.pages.length + 1) s with
    | (s1, none) => afterRoom cfg s1 idx k
    | (s1, some v) => (s1.setPend idx (.evict v k), none)
  | _ =>
    match ensure cfg (s.pages.length + 1) s with
    | (s1, none) => afterRoom cfg s1 idx k
    | (s1, some v) => (s1.setPend idx (.evict v k), none)

/-! ### flush -/

/-- current: `for page in self._pages.values()` resumed with the iterator at `rest`; the iterator
raises when it is asked for another element after a structural change -/
def flushNextC (s : St) (idx stamp : Nat) : List Nat → Nat → St × Option Res
  | [], n => (s, some (.count n))
  | p :: rest, n =>
    if s.ver != stamp then (s, some (.err .runtime)) else
    match findPg s.pages p with
    | some q => if q.dirty then (s.setPend idx (.flushC p q.gen rest stamp n), none) else flushNextC s idx stamp rest n
    | none => (s, some (.err .key))    -- unreachable: the key set is unchanged while `ver = stamp`

/-- repaired: `for page_id in list(self._pages)` -/
def flushNextR (s : St) (idx : Nat) : List Nat → Nat → St × Option Res
  | [], n => (s, some (.count n))
  | p :: rest, n =>
    if isDirty s.pages p then (s.setPend idx (.flushR p rest n), none) else flushNextR s idx rest n

/-! ### segments -/

def start (cfg : Cfg) (s : St) (i : Nat) : Op → St × Option Res
  | .read p =>
    if has s.pages p then ({ s with hits := s.hits + 1 }.touch p, some .ok)
    else withRoom cfg { s with misses := s.misses + 1 } i (.load p)
  | .write p =>
    if has s.pages p then
      let fresh := !isDirty s.pages p
      ((({ s with hits := s.hits + 1, made := s.made + (if fresh then 1 else 0) }).setDirty p true).touch p, some .ok)
    else withRoom cfg { s with misses := s.misses + 1 } i (.write p)
  | .flush =>
    if cfg.rep then flushNextR s i (s.pages.map (·.id)) 0
    else flushNextC s i s.ver (s.pages.map (·.id)) 0

/-- a later segment of call `i`, suspended at `p` (already removed from `pend`) -/
def resume (cfg : Cfg) (s : St) (i : Nat) : Pend → St × Option Res
  | .evict v k =>
    let s1 := { s with dwb := s.dwb + 1 }
    if cfg.rep then withRoom cfg s1 i k
    else if has s1.pages v then
      withRoom cfg { s1 with pages := erase1 s1.pages v, ev := s1.ev + 1, ver := s1.ver + 1 } i k
    else (s1, some (.err .key))
  | .disk p =>
    if cfg.rep then withRoom cfg s i (.ins p)
    else readAhead cfg i p 1 (s.assign p false)
  | .ahead p j =>
    if cfg.rep then
      if !has s.pages (p + j) && decide (s.pages.length < cfg.cap) then
        readAhead cfg i p (j + 1) { s.assign (p + j) false with ra := s.ra + 1 }
      else readAhead cfg i p (j + 1) s
    else readAhead cfg i p (j + 1) { s.assign (p + j) false with ra := s.ra + 1 }
  | .flushC p g rest stamp n =>
    if cfg.rep then (s, none) else     -- a continuation of the other variant: never created
    let s1 := match findPg s.pages p with
      | some q => if q.gen == g then s.setDirty p false else s
      | none => s
    flushNextC { s1 with dwb := s1.dwb + 1 } i stamp rest (n + 1)
  | .flushR p rest n =>
    if !cfg.rep then (s, none) else    -- a continuation of the other variant: never created
    if isDirty s.pages p then flushNextR { s.setDirty p false with dwb := s.dwb + 1 } i rest (n + 1)
    else flushNextR s i rest n

inductive Act
  | start (i : Nat) (op : Op)
  | resume (i : Nat)
deriving Repr, DecidableEq

def step (cfg : Cfg) (s : St) : Act → St × Option Res
  | .start i op => start cfg s i op
  | .resume i =>
    match findPend s.pend i with
    | some p => resume cfg { s with pend := erasePend s.pend i } i p
    | none => (s, none)

def run (cfg : Cfg) (s : St) : List Act → St
  | [] => s
  | a :: as => run cfg (step cfg s a).1 as

end HappyModel.C16.Page
