import HappyModel.C16.Store
/-!
Model of `MultiTierCache` (multi_tier_cache.py): a list of `CachedStore` tiers (the model `St` of
`Store.lean`, one per tier, each with its own `Cfg`) in front of ONE shared backing store, plus
`_access_counts`.  As in `Store.lean` the actions are generator segments (`start i op`, `resume i`);
which operation advances when is an input.

Tier-level code is not re-modelled: a tier method called by the multi-tier cache *is* the
corresponding segment of the `CachedStore` model, run on the tier with the shared backing store
plugged into its `back` field (`onTier`):
* `tier.get(key)` after `contains_cached`  = `start c s i (.get k)` / `step c s (.resume i)` (hit path),
* `tier.invalidate(key)` on every tier     = `sweep (.inv k)`,  `invalidate_all` = `sweep .invAll`,
* `tiers[0].put(key, value)`               = `start c s i (.put k v)` / `step c s (.resume i)`,
* `_maybe_promote` / `_cache_value`        = `cachePut` on tier 0.
`tget t k` is a read issued directly at tier `t` (the only way a tier below L1 gets populated).

Two variants (`MCfg.rep`):
* `current`  — /repo HEAD;
* `repaired` — fixes/C16-multitier-consistency.diff: `put`/`delete` bump a per-key epoch when they
  start and when they return and count as in flight in between; a value read from a lower tier or
  from the backing store is promoted / filled into L1 only if no put/delete of the key started or
  returned since the read began and none is in flight; `delete` invalidates the tiers again once the
  backing delete has been applied, `put` the lower tiers once `tiers[0].put` has returned (a tier that
  is also read directly may have re-filled the key meanwhile).
-/
namespace HappyModel.C16.Tier
open HappyModel.C16

inductive Promo
  | always
  | never
  | second
deriving Repr, DecidableEq

structure MCfg where
  tiers : List Cfg
  promo : Promo
  rep : Bool
deriving Repr

inductive MOp
  | get (k : Key)
  | put (k : Key) (v : Nat)
  | del (k : Key)
  | inv (k : Key)
  | invAll
  | tget (t : Nat) (k : Key)
deriving Repr, DecidableEq

/-- what an operation will do when it is resumed -/
inductive MPend
  | tierGet (t : Nat) (k : Key) (e : Nat)   -- inside `tier.get` of tier `t`
  | backGet (k : Key) (e : Nat)             -- inside `backing_store.get`
  | putBack (k : Key) (v : Nat)             -- inside `backing_store.put`
  | putL1 (k : Key)                         -- inside `tiers[0].put`
  | delBack (k : Key)                       -- inside `backing_store.delete`
  | direct (t : Nat)                        -- a direct read at tier `t`
deriving Repr, DecidableEq

structure MSt where
  tiers : List St
  back : List (Key × Nat) := []
  acc : List (Key × Nat) := []
  epoch : List (Key × Nat) := []
  infl : List (Key × Nat) := []
  pend : List (Nat × MPend) := []
deriving Repr

/-- the tier as its own code sees it: in front of the shared backing store -/
def plug (s : St) (b : List (Key × Nat)) : St := { s with back := b }

/-- run tier-level code `f` on tier `t` -/
def onTier (cfg : MCfg) (ms : MSt) (t : Nat) (f : Cfg → St → St × Option Res) : MSt × Option Res :=
  match cfg.tiers[t]?, ms.tiers[t]? with
  | some c, some s =>
    ({ ms with tiers := ms.tiers.set t (f c (plug s ms.back)).1, back := (f c (plug s ms.back)).1.back },
     (f c (plug s ms.back)).2)
  | _, _ => (ms, none)

/-- `for tier in self._tiers: tier.invalidate(key)` (`op = .inv k`) / `tier.invalidate_all()` -/
def sweepL (op : OpK) : List Cfg → List St → List (Key × Nat) → List St × List (Key × Nat)
  | c :: cs, s :: ss, b =>
    ((start c (plug s b) 0 op 0).1 :: (sweepL op cs ss (start c (plug s b) 0 op 0).1.back).1,
     (sweepL op cs ss (start c (plug s b) 0 op 0).1.back).2)
  | _, ss, b => (ss, b)

def MSt.sweep (cfg : MCfg) (ms : MSt) (op : OpK) : MSt :=
  { ms with tiers := (sweepL op cfg.tiers ms.tiers ms.back).1, back := (sweepL op cfg.tiers ms.tiers ms.back).2 }

/-- the same over `self._tiers[1:]` -/
def MSt.sweepLow (cfg : MCfg) (ms : MSt) (op : OpK) : MSt :=
  { ms with tiers := ms.tiers.take 1 ++ (sweepL op (cfg.tiers.drop 1) (ms.tiers.drop 1) ms.back).1,
            back := (sweepL op (cfg.tiers.drop 1) (ms.tiers.drop 1) ms.back).2 }

/-- index of the first tier with `contains_cached(key)` -/
def firstHit (k : Key) : List St → Nat → Option Nat
  | [], _ => none
  | s :: ss, n => if k ∈ akeys s.cache then some n else firstHit k ss (n + 1)

def MSt.setPend (ms : MSt) (i : Nat) (p : MPend) : MSt := { ms with pend := ms.pend ++ [(i, p)] }
def MSt.clearPend (ms : MSt) (i : Nat) : MSt := { ms with pend := ms.pend.filter (·.1 != i) }

/-- repaired: a put/delete of `k` starts -/
def MSt.enter (cfg : MCfg) (ms : MSt) (k : Key) : MSt :=
  if cfg.rep then { ms with epoch := aset ms.epoch k (cnt ms.epoch k + 1), infl := aset ms.infl k (cnt ms.infl k + 1) }
  else ms
/-- repaired: it returns -/
def MSt.leave (cfg : MCfg) (ms : MSt) (k : Key) : MSt :=
  if cfg.rep then { ms with epoch := aset ms.epoch k (cnt ms.epoch k + 1), infl := aset ms.infl k (cnt ms.infl k - 1) }
  else ms

def MSt.fillAllowed (ms : MSt) (k : Key) (e : Nat) : Bool := cnt ms.epoch k == e && cnt ms.infl k == 0

def shouldPromote (cfg : MCfg) (ms : MSt) (k : Key) : Bool :=
  match cfg.promo with
  | .always => true
  | .never => false
  | .second => decide (2 ≤ cnt ms.acc k)

/-- `_maybe_promote` / `_cache_value`: `tiers[0]._cache_put(key, value)` -/
def MSt.fillL1 (cfg : MCfg) (ms : MSt) (k v now : Nat) : MSt :=
  (onTier cfg ms 0 (fun c s => (cachePut c s k v now, none))).1

/-- first segment of operation `i` -/
def mstart (cfg : MCfg) (ms : MSt) (i : Nat) (op : MOp) (now : Nat) : MSt × Option Res :=
  match op with
  | .get k =>
    match firstHit k ms.tiers 0 with
    | some t =>
      ((onTier cfg { ms with acc := aset ms.acc k (cnt ms.acc k + 1) } t
          (fun c s => start c s i (.get k) now)).1.setPend i (.tierGet t k (cnt ms.epoch k)), none)
    | none => (({ ms with acc := aset ms.acc k (cnt ms.acc k + 1) } : MSt).setPend i (.backGet k (cnt ms.epoch k)), none)
  | .put k v => ((ms.enter cfg k).setPend i (.putBack k v), none)
  | .del k => (((ms.enter cfg k).sweep cfg (.inv k)).setPend i (.delBack k), none)
  | .inv k => (ms.sweep cfg (.inv k), some .none)
  | .invAll => ({ ms.sweep cfg .invAll with acc := [] }, some .none)
  | .tget t k => ((onTier cfg ms t (fun c s => start c s i (.get k) now)).1.setPend i (.direct t), none)

/-- the tail of `get` after a tier returned `v`: promotion -/
def afterTierGet (cfg : MCfg) (ms : MSt) (t : Nat) (k : Key) (e v now : Nat) : MSt :=
  if 0 < t && shouldPromote cfg ms k && (!cfg.rep || ms.fillAllowed k e) then ms.fillL1 cfg k v now else ms

/-- a later segment of operation `i` whose continuation is `p` -/
def mresume (cfg : MCfg) (ms0 : MSt) (i : Nat) (p : MPend) (now : Nat) : MSt × Option Res :=
  match p with
  | .tierGet t k e =>
    match (onTier cfg (ms0.clearPend i) t (fun c s => step c s (.resume i now))).2 with
    | some (.val v) =>
      (afterTierGet cfg (onTier cfg (ms0.clearPend i) t (fun c s => step c s (.resume i now))).1 t k e v now,
       some (.val v))
    | other => ((onTier cfg (ms0.clearPend i) t (fun c s => step c s (.resume i now))).1, other)
  | .backGet k e =>
    match aget? ms0.back k with
    | some x =>
      if !cfg.rep || (ms0.clearPend i).fillAllowed k e then ((ms0.clearPend i).fillL1 cfg k x now, some (.val x))
      else (ms0.clearPend i, some (.val x))
    | none => (ms0.clearPend i, some .none)
  | .putBack k v =>
    ((onTier cfg (({ ms0.clearPend i with back := aset ms0.back k v } : MSt).sweep cfg (.inv k)) 0
        (fun c s => start c s i (.put k v) now)).1.setPend i (.putL1 k), none)
  | .putL1 k =>
    ((if cfg.rep then (onTier cfg (ms0.clearPend i) 0 (fun c s => step c s (.resume i now))).1.sweepLow cfg (.inv k)
      else (onTier cfg (ms0.clearPend i) 0 (fun c s => step c s (.resume i now))).1).leave cfg k, some .none)
  | .delBack k =>
    ((if cfg.rep then ({ ms0.clearPend i with back := adel ms0.back k, acc := adel ms0.acc k } : MSt).sweep cfg (.inv k)
      else ({ ms0.clearPend i with back := adel ms0.back k, acc := adel ms0.acc k } : MSt)).leave cfg k,
     some (.bool (!ms0.tiers.isEmpty || decide (k ∈ akeys ms0.back))))
  | .direct t => onTier cfg (ms0.clearPend i) t (fun c s => step c s (.resume i now))

inductive MAct
  | start (i : Nat) (op : MOp) (now : Nat)
  | resume (i : Nat) (now : Nat)
deriving Repr

def mstep (cfg : MCfg) (ms : MSt) : MAct → MSt × Option Res
  | .start i op now => mstart cfg ms i op now
  | .resume i now =>
    match ms.pend.find? (·.1 == i) with
    | some (_, p) => mresume cfg ms i p now
    | none => (ms, none)

def mrun (cfg : MCfg) (ms : MSt) : List MAct → MSt
  | [] => ms
  | a :: as => mrun cfg (mstep cfg ms a).1 as

/-- the initial state: one empty tier per policy -/
def MSt.init (pols : List Pol) : MSt := { tiers := pols.map fun p => { pol := p } }

end HappyModel.C16.Tier
