import HappyModel.C16.Policies
/-!
Model of `SoftTTLCache` (soft_ttl_cache.py): fresh / stale / expired zones, background refresh,
request coalescing, LRU capacity.  Same shape as `Store.lean`: actions are operation segments, the
schedule and the clock reading of every segment (`now`, integer nanoseconds) are inputs.

Variants: `current` — the coalesced hard-miss path returns whatever entry is in the cache after the
wait, without looking at its age; `repaired` (fixes/C16-softttl-coalesced-age.diff) — it re-validates
the entry against the hard TTL and otherwise falls through to a blocking fetch.
-/
namespace HappyModel.C16

structure TCfg where
  soft : Nat
  hard : Nat
  cap : Option Nat
  rep : Bool
deriving Repr

inductive TOp
  | get (k : Key)
  | put (k : Key) (v : Nat)
  | inv (k : Key)
  | invAll
  | bput (k : Key) (v : Nat)   -- the source of truth changes behind the cache (`put_sync` on the backing store)
  | bdel (k : Key)             -- … or loses the key (`delete_sync`)
  | refresh (k : Key)          -- the `_sttl_refresh` event the cache sent to itself
deriving Repr, DecidableEq

/-- what a finished operation reports; `served v cat t` = value served from the cache entry cached
    at `cat`, the decision to serve it taken at `t` (the issue time of a hit, the end of the wait of a
    coalesced request) -/
inductive TRes
  | none
  | fetched (v : Nat)
  | served (v cat issued : Nat)
  | done
deriving Repr, DecidableEq

inductive TPend
  | hit (v cat issued : Nat)
  | coalesced (k : Key) (issued : Nat)
  | miss (k : Key)
  | put (k : Key) (v : Nat)
  | refresh (k : Key)
deriving Repr, DecidableEq

structure TSt where
  cache : List (Key × Nat × Nat) := []     -- key ↦ (value, cached_at)
  refreshing : List Key := []
  order : List Key := []                   -- `_access_order`, front = LRU
  back : List (Key × Nat) := []
  spawned : List Key := []                 -- refresh events sent and not yet started
  pend : List (Nat × TPend) := []
deriving Repr

def TSt.setPend (s : TSt) (i : Nat) (p : TPend) : TSt := { s with pend := s.pend ++ [(i, p)] }
def TSt.clearPend (s : TSt) (i : Nat) : TSt := { s with pend := s.pend.filter (·.1 != i) }

def lruTouch (l : List Key) (k : Key) : List Key := if k ∈ l then l.erase k ++ [k] else l

/-- `while len(cache) >= capacity: _evict_lru()` -/
def tEvict : Nat → Nat → TSt → TSt
  | 0, _, s => s
  | fuel + 1, cap, s =>
    if s.cache.length < cap then s else
    match s.order with
    | [] => s
    | k :: r => tEvict fuel cap { s with order := r, cache := adel s.cache k }

/-- `_store` -/
def tStore (cfg : TCfg) (s : TSt) (k v now : Nat) : TSt :=
  let s1 := match cfg.cap with
    | some c => if k ∈ akeys s.cache then s else tEvict (s.cache.length + 1) c s
    | none => s
  { s1 with order := (if k ∈ s1.order then s1.order.erase k else s1.order) ++ [k],
            cache := aset s1.cache k (v, now) }

def tStart (cfg : TCfg) (s : TSt) (i : Nat) (op : TOp) (now : Nat) : TSt × Option TRes :=
  match op with
  | .get k =>
    let hardMiss (s : TSt) : TSt × Option TRes :=
      if k ∈ s.refreshing then (s.setPend i (.coalesced k now), none) else (s.setPend i (.miss k), none)
    match aget? s.cache k with
    | some (v, cat) =>
      let s1 := { s with order := lruTouch s.order k }
      if now - cat < cfg.soft then (s1.setPend i (.hit v cat now), none)
      else if now - cat < cfg.hard then
        if k ∈ s1.refreshing then (s1.setPend i (.hit v cat now), none)
        else ({ s1 with refreshing := s1.refreshing ++ [k], spawned := s1.spawned ++ [k] }.setPend i (.hit v cat now), none)
      else hardMiss s1
    | none => hardMiss s
  | .put k v => (s.setPend i (.put k v), none)
  | .inv k =>
    if k ∈ akeys s.cache then ({ s with cache := adel s.cache k, order := s.order.erase k }, some .done)
    else (s, some .done)
  | .invAll => ({ s with cache := [], order := [], refreshing := [] }, some .done)
  | .bput k v => ({ s with back := aset s.back k v }, some .done)
  | .bdel k => ({ s with back := adel s.back k }, some .done)
  | .refresh k => ({ s with spawned := s.spawned.erase k }.setPend i (.refresh k), none)

def tResume (cfg : TCfg) (s0 : TSt) (i : Nat) (p : TPend) (now : Nat) : TSt × Option TRes :=
  let s := s0.clearPend i
  match p with
  | .hit v cat issued => (s, some (.served v cat issued))
  | .coalesced k _ =>
    match aget? s.cache k with
    | some (v, cat) =>
      if cfg.rep then
        if now - cat < cfg.hard then (s, some (.served v cat now)) else (s.setPend i (.miss k), none)
      else (s, some (.served v cat now))
    | none => if cfg.rep then (s.setPend i (.miss k), none) else (s, some .none)
  | .miss k =>
    match aget? s.back k with
    | some v => (tStore cfg s k v now, some (.fetched v))
    | none => (s, some .none)
  | .put k v => (tStore cfg { s with back := aset s.back k v } k v now, some .done)
  | .refresh k =>
    let s1 := match aget? s.back k with
      | some v => tStore cfg s k v now
      | none => s
    ({ s1 with refreshing := s1.refreshing.filter (· != k) }, some .done)

inductive TAct
  | start (i : Nat) (op : TOp) (now : Nat)
  | resume (i : Nat) (now : Nat)
deriving Repr

def tStep (cfg : TCfg) (s : TSt) : TAct → TSt × Option TRes
  | .start i op now => tStart cfg s i op now
  | .resume i now =>
    match s.pend.find? (·.1 == i) with
    | some (_, p) => tResume cfg s i p now
    | none => (s, none)

/-- run a schedule, collecting what every completed operation reported -/
def tRun (cfg : TCfg) (s : TSt) : List TAct → TSt × List TRes
  | [] => (s, [])
  | a :: as =>
    let r := tStep cfg s a
    let rest := tRun cfg r.1 as
    (rest.1, (match r.2 with | some x => [x] | none => []) ++ rest.2)

/-- the property on a served value: younger than the hard TTL when it was chosen -/
def TRes.ageOk (hard : Nat) : TRes → Bool
  | .served _ cat issued => decide (issued < cat + hard)
  | _ => true

end HappyModel.C16
