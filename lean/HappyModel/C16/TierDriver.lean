import HappyModel.Proto
import HappyModel.C16.PolicySpec
import HappyModel.C16.TierSpec
/-! Driver sub-handler for the `multitier` family (MultiTierCache). Headers start with `tier` / `judge-tier`.

Body lines: `tier <policy> <arg> <cap> <wt>` (one per tier, L1 first), `pick <tier> k…` (RNG draws of
that tier's policy), `op <i> get k | put k v | del k | inv k | invall | tget t k`, `adv <i> <t_ns>` (the
segment schedule of the real run); judge mode: `obs <i> | T0 C … D … P … | T1 … | R <res>` and `fin k=v …`. -/
namespace HappyModel.C16.Tier
open HappyModel.Proto HappyModel.C16

def showRes : Res → String
  | .none => "None"
  | .val v => toString v
  | .bool b => if b then "True" else "False"
  | .count n => s!"n={n}"

def parseRes (t : String) : Option Res :=
  if t == "None" then some .none
  else if t == "True" then some (.bool true)
  else if t == "False" then some (.bool false)
  else (nat? t).map .val

def showKV (l : List (Key × Nat)) : String :=
  joinSp ((l.mergeSort (fun a b => a.1 ≤ b.1)).map fun p => s!"{p.1}={p.2}")

def parseKV (ts : List String) : List (Key × Nat) :=
  ts.filterMap fun t =>
    match t.splitOn "=" with
    | [a, b] => some (natD a, natD b)
    | _ => none

def parseMOp (ts : List String) : Option MOp :=
  match ts with
  | ["get", k] => some (.get (natD k))
  | ["put", k, v] => some (.put (natD k) (natD v))
  | ["del", k] => some (.del (natD k))
  | ["inv", k] => some (.inv (natD k))
  | ["invall"] => some .invAll
  | ["tget", t, k] => some (.tget (natD t) (natD k))
  | _ => none

def parsePromo (s : String) : Promo :=
  if s == "never" then .never else if s == "on_second_access" then .second else .always

structure TierDecl where
  name : String
  arg : Nat
  cap : Nat
  wt : Bool
  picks : List (List Key) := []

structure Script where
  tiers : List TierDecl := []
  ops : List (Nat × MOp) := []
  advs : List (Nat × Nat) := []

def addPick : List TierDecl → Nat → List Key → List TierDecl
  | [], _, _ => []
  | d :: ds, 0, p => { d with picks := d.picks ++ [p] } :: ds
  | d :: ds, n + 1, p => d :: addPick ds n p

def parseScript (body : List String) : Script :=
  body.foldl (fun sc l =>
    match toks l with
    | ["tier", name, arg, cap, wt] => { sc with tiers := sc.tiers ++ [⟨name, natD arg, natD cap, wt == "1", []⟩] }
    | "pick" :: n :: ks => { sc with tiers := addPick sc.tiers (natD n) (nats ks) }
    | "op" :: i :: rest =>
      match parseMOp rest with
      | some o => { sc with ops := sc.ops ++ [(natD i, o)] }
      | none => sc
    | ["adv", i, t] => { sc with advs := sc.advs ++ [(natD i, natD t)] }
    | _ => sc) {}

def tierPart (n : Nat) (s : St) : String :=
  s!"T{n} C {showNats (sortKeys (akeys s.cache))} D {showNats (sortKeys s.dirty)} P {showNats (sortKeys s.pol.tracked)}"

def tierParts : Nat → List St → List String
  | _, [] => []
  | n, s :: ss => tierPart n s :: tierParts (n + 1) ss

def stateLine (i : Nat) (ms : MSt) : String :=
  " | ".intercalate ([s!"adv {i}"] ++ tierParts 0 ms.tiers ++ [s!"B {showKV ms.back}"])

/-- clock reading handed to the TTL policy: milliseconds -/
def msOf (t : Nat) : Nat := t / 1000000

def allSome {α} : List (Option α) → Option (List α)
  | [] => some []
  | none :: _ => none
  | some a :: r => (allSome r).map (a :: ·)

def runTier (variant promo : String) (body : List String) : List String :=
  let sc := parseScript body
  match allSome (sc.tiers.map fun d => Pol.ofName d.name d.arg) with
  | none => ["bad-policy"]
  | some pols =>
    -- the tiers of the pinned tree are the repaired `CachedStore` (fixes/C16-cachedstore-consistency.diff)
    let cfg : MCfg := ⟨sc.tiers.map fun d => ⟨d.cap, d.wt, true, d.picks⟩, parsePromo promo, variant == "repaired"⟩
    let rec go (ms : MSt) (started : List Nat) : List (Nat × Nat) → List String
      | [] => []
      | (i, t) :: rest =>
        let act : Option MAct :=
          if started.contains i then some (.resume i (msOf t))
          else (sc.ops.find? (·.1 == i)).map fun (_, o) => .start i o (msOf t)
        match act with
        | none => "bad-adv" :: go ms started rest
        | some a =>
          let r := mstep cfg ms a
          let ls := match r.2 with
            | some x => [stateLine i r.1, s!"ret {i} {showRes x}"]
            | none => [stateLine i r.1]
          ls ++ go r.1 (i :: started) rest
    go (MSt.init pols) [] sc.advs

/-- `["T0", "C", c…, "D", d…, "P", p…]` -/
def parseView (ts : List String) : Option TView :=
  match ts with
  | _ :: "C" :: rest =>
    let c := rest.takeWhile (· != "D")
    match rest.dropWhile (· != "D") with
    | "D" :: rest2 =>
      let d := rest2.takeWhile (· != "P")
      match rest2.dropWhile (· != "P") with
      | "P" :: p => some ⟨nats c, nats d, nats p⟩
      | _ => none
    | _ => none
  | _ => none

def parseObsLine (l : String) : Option MObs :=
  match (l.splitOn "|").map toks with
  | ["obs", i] :: parts =>
    match parts.getLast?, allSome (parts.dropLast.map parseView) with
    | some ["R", r], some vs =>
      if r == "-" then some ⟨natD i, vs, none⟩
      else (parseRes r).map fun x => ⟨natD i, vs, some x⟩
    | _, _ => none
  | _ => none

def judgeTierBlock (body : List String) : List String :=
  let sc := parseScript body
  let evs := body.filterMap parseObsLine
  let fin := body.findSome? fun l => match toks l with
    | "fin" :: kv => some (parseKV kv)
    | _ => none
  let nObs := (body.filter (fun l => l.startsWith "obs ")).length
  if nObs != evs.length then ["viol multitier/malformed-judge-input"] else
  match judgeTier (sc.tiers.map (·.cap)) sc.ops evs fin with
  | none => ["ok"]
  | some sig => [s!"viol {sig}"]

def handle? (hdr : List String) (body : List String) : Option (List String) :=
  match hdr with
  | ["tier", variant, promo] => some (runTier variant promo body)
  | ["judge-tier"] => some (judgeTierBlock body)
  | _ => none

end HappyModel.C16.Tier
