import HappyModel.C16.Page
/-!
C16 for `PageCache` — the property text over what a user of the public API can observe.

An *observed run* is the call table plus, after every executed generator segment, the public
readings `pages_cached`, `dirty_pages`, `stats.{hits, misses, evictions, dirty_writebacks,
readaheads}` and, when the call returned in that segment, what it returned (or the exception that
escaped).  The judge folds `jstep` over the observations:

* size        `pages_cached ≤ capacity_pages` at every observation;
* dirty       `dirty_pages ≤ pages_cached`;
* error       no call ends with an exception;
* evictions   pages leave the cache only through counted evictions: over one segment
              `cached' + Δevictions ∈ [cached, cached + 1]` (a segment inserts at most one page; a
              `flush` segment inserts and evicts nothing);
* write-back  "write-back data is never discarded before it reaches the backing store", through the
              counters: `Φ = dirty_writebacks + dirty_pages` (written back + still dirty) may only
              grow, by one, in the segment in which a `write_page` returns (it turned an absent or
              clean page dirty), and may only fall while a read/write call holds a victim whose write-back is
              under way — at most one per call, returned before the call ends.  Per segment of call
              `i` with debt `b i ∈ {0,1}` (0 when it starts): a segment that yields sets
              `b i := b i - ΔΦ` (must stay in {0,1}); the returning segment of a `read_page` has
              `ΔΦ = b i`, of a `write_page` `ΔΦ - b i ∈ {0,1}` and `= 1` when the call missed and
              returned in its first segment; a `flush` segment has `ΔΦ = 0`.  Too small a `ΔΦ`: a
              dirty page was dropped without write-back; too large: a write-back was counted for
              nothing.  Moreover `dirty_pages` rises in no segment other than a returning
              `write_page` (by at most one), and right after a `write_page` returned at least one
              page is dirty.  Per page: a returning `write_page(p)` may leave `Φ` unchanged only if `p`
              can be dirty already, i.e. another `write_page(p)` has returned since `dirty_pages` was
              last observed to be 0 — otherwise the written page was not left dirty (the write is
              lost: nothing will ever write it back);
* lru         "eviction removes the entry its policy designates" (least recently used), judged through
              hits and misses while the calls so far did not overlap and read-ahead is off: a
              `read_page` / `write_page` of page `p` is a hit iff `p` is among the `capacity_pages`
              most recently accessed distinct pages (LRU stack distance), a miss otherwise;
* flush       a `flush` whose segments ran with no other segment in between returns the number of
              pages that were dirty when it started, leaves `dirty_pages = 0`, and
              `dirty_writebacks` grew by what it returned.
-/
namespace HappyModel.C16.Page

inductive Kind
  | read | write | flush
deriving Repr, DecidableEq

def Op.kind : Op → Kind
  | .read _ => .read
  | .write _ => .write
  | .flush => .flush

/-- public readings after one segment of call `i` -/
structure Obs where
  i : Nat
  kind : Kind
  page : Nat     -- the page the call was given (0 for flush)
  c : Nat        -- pages_cached
  d : Nat        -- dirty_pages
  h : Nat
  m : Nat
  e : Nat        -- evictions
  w : Nat        -- dirty_writebacks
  r : Nat        -- readaheads
  res : Option Res
deriving Repr, DecidableEq

/-- a flush in flight: dirty_pages / dirty_writebacks when it started, and whether only its own
segments ran since -/
structure FlushRec where
  i : Nat
  d0 : Nat
  w0 : Nat
  alone : Bool
deriving Repr, DecidableEq

structure JSt where
  c : Nat := 0
  d : Nat := 0
  h : Nat := 0
  m : Nat := 0
  e : Nat := 0
  w : Nat := 0
  r : Nat := 0
  rw : List (Nat × Nat) := []    -- read/write calls in flight with their debt
  fl : List FlushRec := []       -- flushes in flight
  seq : Bool := true             -- no two calls have overlapped so far
  recent : List Nat := []        -- distinct pages by recency of access, most recent first
  mayDirty : List Nat := []      -- pages a `write_page` returned for since `dirty_pages` was last seen 0
deriving Repr, DecidableEq

def debtOf : List (Nat × Nat) → Nat → Option Nat
  | [], _ => none
  | (j, b) :: r, i => if j == i then some b else debtOf r i

def dropCall : List (Nat × Nat) → Nat → List (Nat × Nat)
  | [], _ => []
  | (j, b) :: r, i => if j == i then r else (j, b) :: dropCall r i

def findFlush : List FlushRec → Nat → Option FlushRec
  | [], _ => none
  | f :: fs, i => if f.i == i then some f else findFlush fs i

/-- one observation; `.error sig` is a violated clause -/
def jstep (cap ra : Nat) (j : JSt) (o : Obs) : Except String JSt :=
  if cap < o.c then .error "pagecache/size/exceeds-capacity"
  else if o.c < o.d then .error "pagecache/dirty/more-than-cached"
  else if (match o.res with | some (.err _) => true | _ => false) then .error "pagecache/op/internal-error"
  else if o.h < j.h || o.m < j.m || o.e < j.e || o.w < j.w || o.r < j.r then .error "pagecache/stats/counter-decreased"
  else
  let dEv := o.e - j.e
  let ins := if o.kind == .flush then 0 else 1
  if o.c + dEv < j.c then .error "pagecache/evictions/page-left-uncounted"
  else if j.c + ins < o.c + dEv then .error "pagecache/evictions/count-mismatch"
  else
  let wfin := o.kind == .write && o.res == some .ok
  if j.d + (if wfin then 1 else 0) < o.d then .error "pagecache/dirty/appeared-without-write"
  else if wfin && o.d == 0 then .error "pagecache/writeback/write-not-dirty"
  else
  -- Φ accounting for this segment
  let phi := j.w + j.d
  let phi' := o.w + o.d
  let first := (debtOf j.rw o.i).isNone
  let b := (debtOf j.rw o.i).getD 0
  let finished := o.res.isSome
  -- there must be a debt b' ∈ [0, debtMax] and a gain ∈ [gainMin, gainMax] with phi' + b' = phi + b + gain
  let gainMax := if wfin then 1 else 0
  -- per page: a page can only be dirty already if a `write_page` of it has returned since
  -- `dirty_pages` was last observed to be 0; otherwise the returning write must have dirtied it
  let gainMin := if wfin && ((first && o.m == j.m + 1) || !j.mayDirty.contains o.page) then 1 else 0
  let debtMax := if o.kind == .flush || finished then 0 else 1
  if phi' + debtMax < phi + b + gainMin then .error "pagecache/writeback/dirty-page-dropped"
  else if phi + b + gainMax < phi' then .error "pagecache/writeback/counted-more-than-dirtied"
  else
  let b' := phi + b - phi'       -- debt after a yielding segment (gain is 0 there)
  let rw := if o.kind == .flush then j.rw
            else if finished then dropCall j.rw o.i
            else (o.i, b') :: dropCall j.rw o.i
  -- LRU through hits and misses, while calls have not overlapped
  let starting := if o.kind == .flush then (findFlush j.fl o.i).isNone else first
  let seq := j.seq && !(starting && !(j.rw.isEmpty && j.fl.isEmpty))
  let access := starting && o.kind != .flush
  let hit := o.h == j.h + 1 && o.m == j.m
  let miss := o.h == j.h && o.m == j.m + 1
  let expectHit := (j.recent.take cap).contains o.page
  if access && seq && ra == 0 && !(if expectHit then hit else miss) then .error "pagecache/lru/hit-miss-not-lru"
  else
  let recent := if access then o.page :: j.recent.filter (· != o.page) else j.recent
  let md := if o.d == 0 then [] else if wfin then o.page :: j.mayDirty else j.mayDirty
  -- flushes: every other flush in flight is no longer alone
  let others := (j.fl.filter (·.i != o.i)).map fun f => { f with alone := false }
  if o.kind == .flush then
    let me : FlushRec := (findFlush j.fl o.i).getD ⟨o.i, j.d, j.w, true⟩
    match o.res with
    | some (.count n) =>
      if me.alone && n != me.d0 then .error "pagecache/flush/return-ne-dirty-at-start"
      else if me.alone && o.d != 0 then .error "pagecache/flush/dirty-left-after-flush"
      else if me.alone && o.w != me.w0 + n then .error "pagecache/flush/writebacks-ne-return"
      else .ok { c := o.c, d := o.d, h := o.h, m := o.m, e := o.e, w := o.w, r := o.r, rw := rw, fl := others, seq := seq, recent := recent, mayDirty := md }
    | some _ => .error "pagecache/flush/malformed-result"
    | none => .ok { c := o.c, d := o.d, h := o.h, m := o.m, e := o.e, w := o.w, r := o.r, rw := rw, fl := me :: others, seq := seq, recent := recent, mayDirty := md }
  else
    .ok { c := o.c, d := o.d, h := o.h, m := o.m, e := o.e, w := o.w, r := o.r, rw := rw, fl := others, seq := seq, recent := recent, mayDirty := md }

/-- `none` = every clause holds on the observed run -/
def judge (cap ra : Nat) : JSt → List Obs → Option String
  | _, [] => none
  | j, o :: os =>
    match jstep cap ra j o with
    | .error sig => some sig
    | .ok j' => judge cap ra j' os

end HappyModel.C16.Page
