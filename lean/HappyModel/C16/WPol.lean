import HappyModel.Proto
/-!
Model of `write_policies.py`: the three write-policy objects (`WriteThrough`, `WriteBack`,
`WriteAround`).  They are bookkeeping objects a cache consults: which written keys still have to
reach the backing store (write-back), which have to be dropped from the cache (write-around).

Spec (`judgeWPol`), over the calls made and the answers observed only:
* write-back — a key is *owed* to the backing store from `on_write(key)` until an `on_flush` that
  names it; `get_keys_to_flush()` must return exactly the owed keys (a forgotten key is write-back
  data discarded before it reached the store), `dirty_count` their number, `should_flush()` must be
  true exactly when that number has reached `max_dirty`, `should_write_through()` is false;
* write-around — `get_keys_to_invalidate()` returns exactly the keys written since the previous
  call (each at least once); writes go through;
* write-through — writes go through, nothing is ever owed.
-/
namespace HappyModel.C16.WPol
open HappyModel.Proto

abbrev Key := Nat

inductive Kind
  | through
  | back (maxDirty : Nat)
  | around
deriving Repr, DecidableEq

inductive Op
  | write (k : Key)                 -- on_write(key, value)
  | shouldWT                        -- should_write_through()
  | shouldFlush                     -- should_flush()
  | keysToFlush                     -- get_keys_to_flush()   (a set: compared sorted)
  | onFlush (ks : List Key)         -- on_flush(keys)
  | dirtyCount                      -- WriteBack.dirty_count
  | keysToInvalidate                -- WriteAround.get_keys_to_invalidate()
deriving Repr, DecidableEq

inductive Out
  | unit
  | bool (b : Bool)
  | keys (ks : List Key)
  | num (n : Nat)
  | noAttr                          -- the policy object has no such method / property
deriving Repr, DecidableEq

structure St where
  dirty : List Key := []            -- WriteBack._dirty_keys (a set: no duplicates)
  inval : List Key := []            -- WriteAround._invalidated_keys (a list: duplicates kept)
deriving Repr

def insertSet (l : List Key) (k : Key) : List Key := if l.contains k then l else l ++ [k]

def insertSorted (k : Key) : List Key → List Key
  | [] => [k]
  | a :: l => if k ≤ a then k :: a :: l else a :: insertSorted k l

/-- insertion sort (structural, so that `decide` can run the model) -/
def sortKeys : List Key → List Key
  | [] => []
  | a :: l => insertSorted a (sortKeys l)

def step (kind : Kind) (s : St) : Op → St × Out
  | .write k =>
    match kind with
    | .through => (s, .unit)
    | .back _ => ({ s with dirty := insertSet s.dirty k }, .unit)
    | .around => ({ s with inval := s.inval ++ [k] }, .unit)
  | .shouldWT =>
    match kind with
    | .back _ => (s, .bool false)
    | _ => (s, .bool true)
  | .shouldFlush =>
    match kind with
    | .back m => (s, .bool (decide (m ≤ s.dirty.length)))
    | _ => (s, .bool false)
  | .keysToFlush =>
    match kind with
    | .back _ => (s, .keys (sortKeys s.dirty))
    | _ => (s, .keys [])
  | .onFlush ks =>
    match kind with
    | .back _ => ({ s with dirty := s.dirty.filter fun k => !ks.contains k }, .unit)
    | _ => (s, .unit)
  | .dirtyCount =>
    match kind with
    | .back _ => (s, .num s.dirty.length)
    | _ => (s, .noAttr)
  | .keysToInvalidate =>
    match kind with
    | .around => ({ s with inval := [] }, .keys s.inval)
    | _ => (s, .noAttr)

/-- run from state `s`, collecting the answers -/
def run (kind : Kind) (s : St) : List Op → List Out
  | [] => []
  | op :: ops => (step kind s op).2 :: run kind (step kind s op).1 ops

/-! ### Spec: what the call history alone says -/

/-- is `k` owed to the backing store after the calls `hist` (latest call first)? -/
def owed : List Op → Key → Bool
  | [], _ => false
  | .write k' :: rest, k => k' == k || owed rest k
  | .onFlush ks :: rest, k => !ks.contains k && owed rest k
  | _ :: rest, k => owed rest k

/-- keys written since the previous `get_keys_to_invalidate()` (latest call first), in call order -/
def pendingInval : List Op → List Key
  | [] => []
  | .write k :: rest => pendingInval rest ++ [k]
  | .keysToInvalidate :: _ => []
  | _ :: rest => pendingInval rest

def dedupKeys : List Key → List Key
  | [] => []
  | k :: ks => if (dedupKeys ks).contains k then dedupKeys ks else k :: dedupKeys ks

def opKeys : Op → List Key
  | .write k => [k]
  | .onFlush ks => ks
  | _ => []

def mentioned (hist : List Op) : List Key := dedupKeys (hist.flatMap opKeys)

def owedKeys (hist : List Op) : List Key := (mentioned hist).filter (owed hist)

def sameSet (a b : List Key) : Bool := a.all b.contains && b.all a.contains

/-- one observed answer against the history before the call (latest first) -/
def judgeOne (kind : Kind) (hist : List Op) (op : Op) (out : Out) : Option String :=
  match kind, op, out with
  | .back _, .keysToFlush, .keys ks =>
    if !(owedKeys hist).all ks.contains then some "wpol/writeback/dirty-key-forgotten"
    else if !ks.all (owed hist) then some "wpol/writeback/flushed-key-still-listed"
    else none
  | .back _, .dirtyCount, .num n =>
    if n == (owedKeys hist).length then none else some "wpol/writeback/dirty-count-wrong"
  | .back m, .shouldFlush, .bool b =>
    if b == decide (m ≤ (owedKeys hist).length) then none else some "wpol/writeback/should-flush-wrong"
  | .back _, .shouldWT, .bool b => if b then some "wpol/writeback/claims-write-through" else none
  | .around, .keysToInvalidate, .keys ks =>
    if sameSet ks (pendingInval hist) then none
    else if !(pendingInval hist).all ks.contains then some "wpol/writearound/written-key-not-invalidated"
    else some "wpol/writearound/unwritten-key-invalidated"
  | .around, .shouldWT, .bool b => if b then none else some "wpol/writearound/write-not-passed-on"
  | .around, .shouldFlush, .bool b => if b then some "wpol/writearound/asks-for-flush" else none
  | .around, .keysToFlush, .keys ks => if ks.isEmpty then none else some "wpol/writearound/asks-for-flush"
  | .through, .shouldWT, .bool b => if b then none else some "wpol/writethrough/write-not-passed-on"
  | .through, .shouldFlush, .bool b => if b then some "wpol/writethrough/asks-for-flush" else none
  | .through, .keysToFlush, .keys ks => if ks.isEmpty then none else some "wpol/writethrough/asks-for-flush"
  | _, .write _, .unit => none
  | _, .onFlush _, .unit => none
  | .through, .dirtyCount, .noAttr => none
  | .around, .dirtyCount, .noAttr => none
  | .through, .keysToInvalidate, .noAttr => none
  | .back _, .keysToInvalidate, .noAttr => none
  | _, _, _ => some "wpol/malformed-observation"

/-- judge a whole observed run; `hist` = calls made so far, latest first -/
def judgeWPol (kind : Kind) (hist : List Op) : List (Op × Out) → Option String
  | [] => none
  | (op, out) :: rest =>
    match judgeOne kind hist op out with
    | some sig => some sig
    | none => judgeWPol kind (op :: hist) rest

/-! ### line protocol: `wpol <kind> <max_dirty>` / `judge-wpol <kind> <max_dirty>` -/

def parseKind (name : String) (m : Nat) : Option Kind :=
  if name == "through" then some .through
  else if name == "back" then some (.back m)
  else if name == "around" then some .around
  else none

def parseOp (ts : List String) : Option Op :=
  match ts with
  | ["w", k] => some (.write (natD k))
  | ["wt"] => some .shouldWT
  | ["sf"] => some .shouldFlush
  | ["gk"] => some .keysToFlush
  | "of" :: ks => some (.onFlush (nats ks))
  | ["dc"] => some .dirtyCount
  | ["gi"] => some .keysToInvalidate
  | _ => none

def showOut : Out → String
  | .unit => "-"
  | .bool b => if b then "True" else "False"
  | .keys ks => "keys " ++ showNats ks
  | .num n => s!"n {n}"
  | .noAttr => "noattr"

def parseOut (ts : List String) : Option Out :=
  match ts with
  | ["-"] => some .unit
  | ["True"] => some (.bool true)
  | ["False"] => some (.bool false)
  | "keys" :: ks => some (.keys (nats ks))
  | ["n", n] => some (.num (natD n))
  | ["noattr"] => some .noAttr
  | _ => none

def handle? (hdr : List String) (body : List String) : Option (List String) :=
  match hdr with
  | ["wpol", name, m] =>
    match parseKind name (natD m) with
    | none => some ["bad-kind"]
    | some kind =>
      let ops := body.filterMap fun l => parseOp (toks l)
      if ops.length != body.length then some ["bad-op"]
      else some ((run kind {} ops).map showOut)
  | ["judge-wpol", name, m] =>
    match parseKind name (natD m) with
    | none => some ["viol wpol/malformed-judge-input"]
    | some kind =>
      -- body: alternating call line / `obs <answer>` line
      let rec pairs : List String → Option (List (Op × Out))
        | a :: b :: rest =>
          match parseOp (toks a), (match toks b with | "obs" :: ts => parseOut ts | _ => none), pairs rest with
          | some op, some out, some ps => some ((op, out) :: ps)
          | _, _, _ => none
        | [] => some []
        | _ => none
      match pairs body with
      | none => some ["viol wpol/malformed-judge-input"]
      | some ps =>
        match judgeWPol kind [] ps with
        | none => some ["ok"]
        | some sig => some [s!"viol {sig}"]
  | _ => none

end HappyModel.C16.WPol
