/-!
Model of `happysimulator/components/datastore/eviction_policies.py`: the nine eviction policies as
pure state machines over `on_access / on_insert / on_remove / evict / clear`.

Python containers are mirrored literally:
* `OrderedDict[str, None]` / `list[str]`  ↦ `List Key` (front = oldest / least recent);
  `d[k] = None` on a present key keeps its position, `move_to_end` = erase + append,
  `list.remove(x)` = `List.erase` (first occurrence), `pop(0)` = tail;
* `dict[str, int]` ↦ insertion-ordered association list (`aset` keeps the position of a present key);
* `set[str]` (RandomEviction) ↦ `List Key` without duplicates; its iteration order is never used
  because the random draw is an input.

Inputs that the code takes from outside are inputs of the model:
* `now` — the reading of `clock_func()` (TTL policy), an arbitrary natural number;
* `pick` — the draw of the policy's RNG, as a priority list over keys: `RandomEviction` takes the
  first tracked key of the list, `SampledLRUEviction` the first `sample_size` tracked keys.  Every
  possible draw is some list; theorems quantify over every list.
-/
namespace HappyModel.C16

abbrev Key := Nat

/-! ### insertion-ordered association lists (Python `dict`) -/

def akeys {α} (l : List (Key × α)) : List Key := l.map (·.1)

/-- `d[k] = v` -/
def aset {α} (l : List (Key × α)) (k : Key) (v : α) : List (Key × α) :=
  if k ∈ akeys l then l.map (fun p => if p.1 = k then (k, v) else p) else l ++ [(k, v)]

/-- `d.pop(k, None)` -/
def adel {α} (l : List (Key × α)) (k : Key) : List (Key × α) := l.filter (fun p => p.1 != k)

def aget? {α} (l : List (Key × α)) (k : Key) : Option α := (l.find? (fun p => p.1 == k)).map (·.2)

/-- first entry with the smallest value (`min(d, key=…)`, and LFU's "first key with min count") -/
def argminFirst : List (Key × Nat) → Option (Key × Nat)
  | [] => none
  | p :: rest =>
    match argminFirst rest with
    | none => some p
    | some q => if q.2 < p.2 then some q else some p

/-- operations on a policy; `now`/`pick` are the external inputs described above -/
inductive POp
  | access (k : Key)
  | insert (k : Key) (now : Nat)
  | remove (k : Key)
  | evict (now : Nat) (pick : List Key)
  | clear
deriving Repr, DecidableEq

/-! ### LRU -/
structure LRU where
  order : List Key := []
deriving Repr, DecidableEq

def LRU.access (s : LRU) (k : Key) : LRU := if k ∈ s.order then ⟨s.order.erase k ++ [k]⟩ else s
def LRU.insert (s : LRU) (k : Key) : LRU := if k ∈ s.order then s else ⟨s.order ++ [k]⟩
def LRU.remove (s : LRU) (k : Key) : LRU := ⟨s.order.erase k⟩
def LRU.evict (s : LRU) : Option Key × LRU :=
  match s.order with
  | [] => (none, s)
  | k :: r => (some k, ⟨r⟩)

/-! ### LFU -/
structure LFU where
  counts : List (Key × Nat) := []
deriving Repr, DecidableEq

def LFU.access (s : LFU) (k : Key) : LFU :=
  match aget? s.counts k with
  | some c => ⟨aset s.counts k (c + 1)⟩
  | none => s
def LFU.insert (s : LFU) (k : Key) : LFU := ⟨aset s.counts k 1⟩
def LFU.remove (s : LFU) (k : Key) : LFU := ⟨adel s.counts k⟩
def LFU.evict (s : LFU) : Option Key × LFU :=
  match argminFirst s.counts with
  | none => (none, s)
  | some p => (some p.1, ⟨adel s.counts p.1⟩)

/-! ### TTL (`now - insert_time >= ttl` over integers is `now ≥ insert_time + ttl`) -/
structure TTL where
  ttl : Nat
  times : List (Key × Nat) := []
deriving Repr, DecidableEq

def TTL.insert (s : TTL) (k : Key) (now : Nat) : TTL := { s with times := aset s.times k now }
def TTL.remove (s : TTL) (k : Key) : TTL := { s with times := adel s.times k }
def TTL.expired (s : TTL) (now : Nat) (p : Key × Nat) : Bool := decide (p.2 + s.ttl ≤ now)
def TTL.victim (s : TTL) (now : Nat) : Option (Key × Nat) :=
  match s.times.find? (s.expired now) with
  | some p => some p
  | none => argminFirst s.times
def TTL.evict (s : TTL) (now : Nat) : Option Key × TTL :=
  match s.victim now with
  | none => (none, s)
  | some p => (some p.1, { s with times := adel s.times p.1 })

/-! ### FIFO -/
structure FIFO where
  order : List Key := []
deriving Repr, DecidableEq

def FIFO.insert (s : FIFO) (k : Key) : FIFO := if k ∈ s.order then s else ⟨s.order ++ [k]⟩
def FIFO.remove (s : FIFO) (k : Key) : FIFO := ⟨s.order.erase k⟩
def FIFO.evict (s : FIFO) : Option Key × FIFO :=
  match s.order with
  | [] => (none, s)
  | k :: r => (some k, ⟨r⟩)

/-! ### Random (the draw is the first tracked key of the priority list `pick`; a list naming no tracked
key falls back to the head) -/
structure Rnd where
  keys : List Key := []
deriving Repr, DecidableEq

def Rnd.insert (s : Rnd) (k : Key) : Rnd := if k ∈ s.keys then s else ⟨s.keys ++ [k]⟩
def Rnd.remove (s : Rnd) (k : Key) : Rnd := ⟨s.keys.erase k⟩
def Rnd.choose (s : Rnd) (pick : List Key) : Option Key :=
  match pick.find? (fun c => s.keys.contains c) with
  | some c => some c
  | none => s.keys.head?
def Rnd.evict (s : Rnd) (pick : List Key) : Option Key × Rnd :=
  match s.choose pick with
  | none => (none, s)
  | some c => (some c, ⟨s.keys.erase c⟩)

/-! ### Segmented LRU -/
structure SLRU where
  prob : List Key := []
  prot : List Key := []
deriving Repr, DecidableEq

def SLRU.access (s : SLRU) (k : Key) : SLRU :=
  if k ∈ s.prob then ⟨s.prob.erase k, s.prot.erase k ++ [k]⟩
  else if k ∈ s.prot then ⟨s.prob, s.prot.erase k ++ [k]⟩
  else s
def SLRU.insert (s : SLRU) (k : Key) : SLRU := if k ∈ s.prob then s else ⟨s.prob ++ [k], s.prot⟩
def SLRU.remove (s : SLRU) (k : Key) : SLRU := ⟨s.prob.erase k, s.prot.erase k⟩
def SLRU.evict (s : SLRU) : Option Key × SLRU :=
  match s.prob with
  | k :: r => (some k, ⟨r, s.prot⟩)
  | [] =>
    match s.prot with
    | k :: r => (some k, ⟨[], r⟩)
    | [] => (none, s)

/-! ### Sampled LRU (logical clock, sample is an input) -/
structure Sampled where
  size : Nat := 5
  times : List (Key × Nat) := []
  clock : Nat := 0
deriving Repr, DecidableEq

def Sampled.access (s : Sampled) (k : Key) : Sampled :=
  if k ∈ akeys s.times then { s with times := aset s.times k (s.clock + 1), clock := s.clock + 1 } else s
def Sampled.insert (s : Sampled) (k : Key) : Sampled :=
  { s with times := aset s.times k (s.clock + 1), clock := s.clock + 1 }
def Sampled.remove (s : Sampled) (k : Key) : Sampled := { s with times := adel s.times k }
/-- the drawn sample: the first `size` tracked keys of the priority list `pick`
    (a list naming no tracked key falls back to all entries) -/
def Sampled.drawn (s : Sampled) (pick : List Key) : List Key :=
  (pick.filter (fun c => (akeys s.times).contains c)).take s.size
def Sampled.sample (s : Sampled) (pick : List Key) : List (Key × Nat) :=
  let c := s.times.filter (fun p => (s.drawn pick).contains p.1)
  if c.isEmpty then s.times else c
def Sampled.evict (s : Sampled) (pick : List Key) : Option Key × Sampled :=
  match argminFirst (s.sample pick) with
  | none => (none, s)
  | some p => (some p.1, { s with times := adel s.times p.1 })

/-! ### Clock (second chance): `_keys` and `_ref_bits` kept together as one ring -/
structure Clock where
  ring : List (Key × Bool) := []
  hand : Nat := 0
deriving Repr, DecidableEq

def Clock.fixHand (ring : List (Key × Bool)) (hand : Nat) : Nat :=
  if ring.length ≤ hand ∧ ring ≠ [] then 0 else hand

def Clock.access (s : Clock) (k : Key) : Clock :=
  { s with ring := s.ring.map (fun p => if p.1 = k then (k, true) else p) }
def Clock.insert (s : Clock) (k : Key) : Clock :=
  if k ∈ akeys s.ring then s else { s with ring := s.ring ++ [(k, true)] }
def Clock.remove (s : Clock) (k : Key) : Clock :=
  if k ∈ akeys s.ring then
    let r := adel s.ring k
    ⟨r, Clock.fixHand r s.hand⟩
  else s

/-- evict the entry under the hand -/
def Clock.take (ring : List (Key × Bool)) (hand : Nat) : Option Key × Clock :=
  match ring[hand]? with
  | none => (none, ⟨ring, hand⟩)
  | some p =>
    let r := ring.eraseIdx hand
    (some p.1, ⟨r, Clock.fixHand r hand⟩)

/-- the `while scanned < 2·len` loop, `fuel` = iterations left -/
def Clock.scan : Nat → List (Key × Bool) → Nat → Option Key × Clock
  | 0, ring, hand => Clock.take ring hand
  | fuel + 1, ring, hand =>
    match ring[hand]? with
    | none => (none, ⟨ring, hand⟩)
    | some p =>
      if p.2 then Clock.scan fuel (ring.set hand (p.1, false)) ((hand + 1) % ring.length)
      else Clock.take ring hand

def Clock.evict (s : Clock) : Option Key × Clock :=
  if s.ring.isEmpty then (none, s) else Clock.scan (2 * s.ring.length) s.ring s.hand

/-! ### 2Q -/
structure TwoQ where
  a1in : List Key := []
  a1out : List Key := []
  am : List Key := []
deriving Repr, DecidableEq

def TwoQ.a1outMax : Nat := 50

def TwoQ.access (s : TwoQ) (k : Key) : TwoQ :=
  if k ∈ s.am then { s with am := s.am.erase k ++ [k] } else s
def TwoQ.insert (s : TwoQ) (k : Key) : TwoQ :=
  if k ∈ s.a1out then
    { s with a1out := s.a1out.erase k, am := if k ∈ s.am then s.am else s.am ++ [k] }
  else { s with a1in := s.a1in ++ [k] }
def TwoQ.remove (s : TwoQ) (k : Key) : TwoQ := ⟨s.a1in.erase k, s.a1out.erase k, s.am.erase k⟩
def TwoQ.trim (l : List Key) : List Key := l.drop (l.length - TwoQ.a1outMax)
def TwoQ.evict (s : TwoQ) : Option Key × TwoQ :=
  match s.a1in with
  | k :: r => (some k, { s with a1in := r, a1out := TwoQ.trim (s.a1out ++ [k]) })
  | [] =>
    match s.am with
    | k :: r => (some k, { s with am := r })
    | [] => (none, s)

/-! ### all nine behind one type -/
inductive Pol
  | lru (s : LRU) | lfu (s : LFU) | ttl (s : TTL) | fifo (s : FIFO) | rnd (s : Rnd)
  | slru (s : SLRU) | sampled (s : Sampled) | clock (s : Clock) | twoq (s : TwoQ)
deriving Repr, DecidableEq

def Pol.access : Pol → Key → Pol
  | .lru s, k => .lru (s.access k)
  | .lfu s, k => .lfu (s.access k)
  | .ttl s, _ => .ttl s
  | .fifo s, _ => .fifo s
  | .rnd s, _ => .rnd s
  | .slru s, k => .slru (s.access k)
  | .sampled s, k => .sampled (s.access k)
  | .clock s, k => .clock (s.access k)
  | .twoq s, k => .twoq (s.access k)

def Pol.insert : Pol → Key → Nat → Pol
  | .lru s, k, _ => .lru (s.insert k)
  | .lfu s, k, _ => .lfu (s.insert k)
  | .ttl s, k, now => .ttl (s.insert k now)
  | .fifo s, k, _ => .fifo (s.insert k)
  | .rnd s, k, _ => .rnd (s.insert k)
  | .slru s, k, _ => .slru (s.insert k)
  | .sampled s, k, _ => .sampled (s.insert k)
  | .clock s, k, _ => .clock (s.insert k)
  | .twoq s, k, _ => .twoq (s.insert k)

def Pol.remove : Pol → Key → Pol
  | .lru s, k => .lru (s.remove k)
  | .lfu s, k => .lfu (s.remove k)
  | .ttl s, k => .ttl (s.remove k)
  | .fifo s, k => .fifo (s.remove k)
  | .rnd s, k => .rnd (s.remove k)
  | .slru s, k => .slru (s.remove k)
  | .sampled s, k => .sampled (s.remove k)
  | .clock s, k => .clock (s.remove k)
  | .twoq s, k => .twoq (s.remove k)

def Pol.evict : Pol → Nat → List Key → Option Key × Pol
  | .lru s, _, _ => (s.evict.1, .lru s.evict.2)
  | .lfu s, _, _ => (s.evict.1, .lfu s.evict.2)
  | .ttl s, now, _ => ((s.evict now).1, .ttl (s.evict now).2)
  | .fifo s, _, _ => (s.evict.1, .fifo s.evict.2)
  | .rnd s, _, pick => ((s.evict pick).1, .rnd (s.evict pick).2)
  | .slru s, _, _ => (s.evict.1, .slru s.evict.2)
  | .sampled s, _, pick => ((s.evict pick).1, .sampled (s.evict pick).2)
  | .clock s, _, _ => (s.evict.1, .clock s.evict.2)
  | .twoq s, _, _ => (s.evict.1, .twoq s.evict.2)

def Pol.clear : Pol → Pol
  | .lru _ => .lru {}
  | .lfu _ => .lfu {}
  | .ttl s => .ttl { ttl := s.ttl }
  | .fifo _ => .fifo {}
  | .rnd _ => .rnd {}
  | .slru _ => .slru {}
  | .sampled s => .sampled { size := s.size }
  | .clock _ => .clock {}
  | .twoq _ => .twoq {}

/-- the keys the policy could still hand out through `evict` -/
def Pol.tracked : Pol → List Key
  | .lru s => s.order
  | .lfu s => akeys s.counts
  | .ttl s => akeys s.times
  | .fifo s => s.order
  | .rnd s => s.keys
  | .slru s => s.prob ++ s.prot
  | .sampled s => akeys s.times
  | .clock s => akeys s.ring
  | .twoq s => s.a1in ++ s.am

/-- one operation; the second component is what `evict` returned (none for the other calls) -/
def Pol.step (p : Pol) : POp → Option Key × Pol
  | .access k => (none, p.access k)
  | .insert k now => (none, p.insert k now)
  | .remove k => (none, p.remove k)
  | .evict now pick => p.evict now pick
  | .clear => (none, p.clear)

def Pol.run (p : Pol) : List POp → Pol
  | [] => p
  | o :: os => Pol.run (p.step o).2 os

/-- by name, as the harness spells them; `arg` = ttl (TTL) / sample size (sampled LRU) -/
def Pol.ofName (name : String) (arg : Nat) : Option Pol :=
  match name with
  | "lru" => some (.lru {})
  | "lfu" => some (.lfu {})
  | "ttl" => some (.ttl { ttl := arg })
  | "fifo" => some (.fifo {})
  | "random" => some (.rnd {})
  | "slru" => some (.slru {})
  | "sampled" => some (.sampled { size := arg })
  | "clock" => some (.clock {})
  | "twoq" => some (.twoq {})
  | _ => none

end HappyModel.C16
