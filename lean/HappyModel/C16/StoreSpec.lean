import HappyModel.C16.Store
/-!
C16, part 2 — the property text over what a user of `CachedStore` can observe.

An *observed run* is: the operation table, the order in which operation segments executed (first
and last segment of an operation = its issue and completion), after every segment the public views
`get_cached_keys()`, `get_dirty_keys()` and the policy's tracked keys, the value every operation
returned, and the backing store's contents at the end.

* size      `len(get_cached_keys()) ≤ capacity` at every observation;
* keys      policy-tracked keys = cached keys at every observation;
* read-after-write   a `get` returns the value of a write `w'` to its key (a delete writes "absent";
            the initial state is a write that precedes everything) such that no write `w` that
            *completed before the get was issued* began after `w'` completed — i.e. the value of a
            write that completed before the read, or a later / overlapping one;
* lost-write   when every operation has completed the backing store holds, for every key that is not
            still dirty in the cache (`get_dirty_keys()`: data waiting for a flush is not lost), the
            value of a write that no other write to the key entirely follows.
-/
namespace HappyModel.C16

/-- one executed segment and what was visible right after it -/
structure Obs where
  i : Nat
  cached : List Key
  dirty : List Key
  tracked : List Key
  res : Option Res
deriving Repr

/-- a write to a key: `val = none` is a delete; `s`/`e` are segment indices of issue / completion -/
structure WRec where
  key : Key
  val : Option Nat
  s : Nat
  e : Option Nat
deriving Repr

def firstIdx (evs : List Obs) (i : Nat) : Option Nat := evs.findIdx? (·.i == i)
def endIdx (evs : List Obs) (i : Nat) : Option Nat := evs.findIdx? (fun o => o.i == i && o.res.isSome)

def writesOf (ops : List (Nat × OpK)) (evs : List Obs) : List WRec :=
  ops.filterMap fun (i, op) =>
    match firstIdx evs i with
    | none => none
    | some s =>
      match op with
      | .put k v => some ⟨k, some v, s, endIdx evs i⟩
      | .del k => some ⟨k, none, s, endIdx evs i⟩
      | _ => none

/-- `w` entirely follows `w'`: it began after `w'` completed -/
def follows (w w' : WRec) : Bool :=
  match w'.e with
  | some e' => e' < w.s
  | none => false

/-- may a read issued at segment `rs` (completing at `re`) of `key` return `v`? -/
def readOk (ws : List WRec) (key : Key) (rs re : Nat) (v : Option Nat) : Bool :=
  let mine := ws.filter (·.key == key)
  let before := mine.filter fun w => match w.e with | some e => e < rs | none => false
  let initialOk := v.isNone && before.isEmpty
  initialOk || mine.any fun w' => w'.val == v && w'.s < re && !(before.any fun w => follows w w')

def staleSig (cfg : Cfg) (ws : List WRec) (key : Key) (rs : Nat) : String :=
  let before := (ws.filter (·.key == key)).filter fun w => match w.e with | some e => e < rs | none => false
  let lastIsDel := match before.foldl (fun acc w => match acc with
      | none => some w
      | some (a : WRec) => if a.s < w.s then some w else some a) none with
    | some w => w.val.isNone
    | none => false
  let m := if cfg.wt then "wt" else "wb"
  s!"store/read-after-write/stale/{m}/" ++ (if lastIsDel then "after-delete" else "after-put")

def judgeReads (cfg : Cfg) (ops : List (Nat × OpK)) (evs : List Obs) : Option String :=
  let ws := writesOf ops evs
  ops.findSome? fun (i, op) =>
    match op, firstIdx evs i, endIdx evs i with
    | .get k, some rs, some re =>
      match (evs.getD re ⟨0, [], [], [], none⟩).res with
      | some (.val v) =>
        if readOk ws k rs re (some v) then none
        else if ws.any (fun w => w.key == k && w.val == some v) then some (staleSig cfg ws k rs)
        else some "store/read/unknown-value"
      | some .none => if readOk ws k rs re none then none else some (staleSig cfg ws k rs)
      | _ => some "store/read/malformed-result"
    | _, _, _ => none

/-! ### read-after-write, overlapping writes

`readOk` lets a read return the value of any write that no completed write *entirely follows*; two
writes that overlap are unordered for it.  The property's "that write's value or a later one" orders
them: a write `w` that was issued after `w'` **and** completed after `w'` is the later one (the cache
takes writes in issue order, the backing store in completion order, so only a write that is later in
both respects is later in both places).  `readOkOrd` is `readOk` with `follows` replaced by
`supersedes` (which `follows` implies): a read may return the value of a write that no write
completed before the read was issued supersedes.  Proved for write-through stores
(`read_after_write_ordered_all_interleavings`); false of write-back stores in one known way, which gets its own
signature (`wbOvertaken`, `read_after_write_ordered_writeback_false`). -/

/-- `w` is the later write of the two: issued after `w'` and completed after `w'` -/
def supersedes (w w' : WRec) : Bool :=
  w'.s < w.s && (match w'.e, w.e with
    | some e', some e => e' < e
    | _, _ => false)

def readOkOrd (ws : List WRec) (key : Key) (rs re : Nat) (v : Option Nat) : Bool :=
  let mine := ws.filter (·.key == key)
  let before := mine.filter fun w => match w.e with | some e => e < rs | none => false
  let initialOk := v.isNone && before.isEmpty
  initialOk || mine.any fun w' => w'.val == v && w'.s < re && !(before.any fun w => supersedes w w')

/-- write-back stores, the one known way to violate the ordered clause (fixes/C16-writeback-overtaken-by-delete.known.md):
    the read found nothing, a delete `d` and a put `w` of the key both completed before it, `w` supersedes `d`
    and was issued while `d` was still in flight, and between the issue of `w` and the completion of `d` the key
    was observed *not dirty* — the put's value had left the dirty set (written back by an eviction, an
    invalidation or a flush) before the backing-store delete landed on top of it -/
def wbOvertaken (ws : List WRec) (evs : List Obs) (key : Key) (rs : Nat) : Bool :=
  let mine := ws.filter (·.key == key)
  let before := mine.filter fun w => match w.e with | some e => e < rs | none => false
  before.any fun d => d.val.isNone && before.any fun w =>
    w.val.isSome && supersedes w d &&
      (match d.e with
       | some de => w.s < de && (List.range de).any fun t =>
           w.s ≤ t && !((evs.getD t ⟨0, [], [], [], none⟩).dirty.contains key)
       | none => false)

def judgeReadsOrd (cfg : Cfg) (ops : List (Nat × OpK)) (evs : List Obs) : Option String :=
  let ws := writesOf ops evs
  let m := if cfg.wt then "wt" else "wb"
  ops.findSome? fun (i, op) =>
    match op, firstIdx evs i, endIdx evs i with
    | .get k, some rs, some re =>
      match (evs.getD re ⟨0, [], [], [], none⟩).res with
      | some (.val v) =>
        if readOkOrd ws k rs re (some v) then none else some s!"store/read-after-write/superseded/{m}/value"
      | some .none =>
        if readOkOrd ws k rs re none then none
        else if !cfg.wt && wbOvertaken ws evs k rs then
          some "store/read-after-write/superseded/wb/writeback-overtaken-by-earlier-delete"
        else some s!"store/read-after-write/superseded/{m}/absent"
      | _ => none
    | _, _, _ => none

def judgeObs (cfg : Cfg) (evs : List Obs) : Option String :=
  evs.findSome? fun o =>
    if cfg.cap < o.cached.length then some "store/size/exceeds-capacity"
    else if o.tracked != o.cached then some "store/keys/policy-ne-cache"
    else none

/-- final backing contents (`fin`) against the writes, once everything has completed -/
def judgeFinal (cfg : Cfg) (ops : List (Nat × OpK)) (evs : List Obs) (fin : List (Key × Nat)) : Option String :=
  let ws := writesOf ops evs
  if ops.any (fun (i, _) => (endIdx evs i).isNone) then none else
  let stillDirty := match evs.getLast? with
    | some o => o.dirty
    | none => []
  let keys := ((ws.map (·.key) ++ fin.map (·.1)).eraseDups).filter fun k => !stillDirty.contains k
  keys.findSome? fun k =>
    let mine := ws.filter (·.key == k)
    let v := aget? fin k
    let ok := (mine.isEmpty && v.isNone) ||
      mine.any fun w' => w'.val == v && !(mine.any fun w => follows w w')
    if ok then none
    else some (if cfg.wt then "store/writethrough/lost-write" else "store/writeback/lost-write")

/-! ### cache warming (cache_warming.py)

A `CacheWarmer` is one more client: it issues `cache.get(key)` for each key of its list, one after
the other.  Its gets are operations like any other (numbered from `warmBase` by the harness) and are
judged by the clauses above; what the warmer *reports* must match what its gets returned, and the
warm-up must come to an end. -/

def warmBase : Nat := 2000

structure WarmObs where
  n : Nat          -- keys_to_warm
  warmed : Nat     -- keys_warmed
  failed : Nat     -- keys_failed
  complete : Bool  -- is_complete and progress == 1.0, when the run ended
deriving Repr

def judgeWarm (evs : List Obs) (w : WarmObs) : Option String :=
  let rets := evs.filterMap fun o => if warmBase ≤ o.i then o.res else none
  let vals := (rets.filter fun r => match r with | .val _ => true | _ => false).length
  let nones := (rets.filter fun r => match r with | .none => true | _ => false).length
  if w.warmed != vals then some "warmer/stats/warmed-count-wrong"
  else if w.failed != nones then some "warmer/stats/failed-count-wrong"
  else if !w.complete then some "warmer/progress/never-completes"
  else if w.warmed + w.failed != w.n then some "warmer/progress/complete-before-all-keys"
  else none

def judgeStore (cfg : Cfg) (ops : List (Nat × OpK)) (evs : List Obs) (fin : Option (List (Key × Nat))) :
    Option String :=
  match judgeObs cfg evs with
  | some s => some s
  | none =>
    match (match fin with | some f => judgeFinal cfg ops evs f | none => none) with
    | some s => some s
    | none =>
      match judgeReads cfg ops evs with
      | some s => some s
      | none => judgeReadsOrd cfg ops evs

end HappyModel.C16
