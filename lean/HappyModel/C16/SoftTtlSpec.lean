import HappyModel.C16.SoftTtl
/-!
C16, soft TTL clause over observables: every value a `get` returns was read from the backing store
(or written through the cache) less than `hard_ttl` before the get was issued.

Observables: for every get its issue time, return time and value; the *source events* — every read
of the backing store that returned a value (seen by the backing store object the user supplied) and
every completed `put` through the cache — with their times.  All times integer nanoseconds.
-/
namespace HappyModel.C16

structure GetObs where
  key : Key
  issued : Nat
  returned : Nat
  val : Option Nat
deriving Repr

structure SrcObs where
  key : Key
  val : Nat
  time : Nat
deriving Repr

def judgeSoftGet (hard : Nat) (srcs : List SrcObs) (g : GetObs) : Option String :=
  match g.val with
  | none => none
  | some v =>
    let mine := srcs.filter fun s => s.key == g.key && s.val == v && s.time ≤ g.returned
    if mine.isEmpty then some "softttl/value/unknown-source"
    else if mine.any fun s => g.issued < s.time + hard then none
    else some "softttl/age/served-older-than-hard-ttl"

def judgeSoft (hard : Nat) (srcs : List SrcObs) (gets : List GetObs) : Option String :=
  gets.findSome? (judgeSoftGet hard srcs)

/-! ### size and LRU bookkeeping

After every segment (of a client operation or of a background refresh): the cache holds at most
`cache_capacity` entries (`get_cached_keys()`), and the keys its LRU bookkeeping tracks are exactly
the keys it holds — an entry outside the bookkeeping can never be chosen as a victim.  Both key lists
arrive sorted. -/

structure SoftObs where
  cached : List Key
  order : List Key
deriving Repr

def judgeSoftObs (cap : Option Nat) (obs : List SoftObs) : Option String :=
  obs.findSome? fun o =>
    if (match cap with | some c => decide (c < o.cached.length) | none => false) then
      some "softttl/size/exceeds-capacity"
    else if o.order != o.cached then some "softttl/keys/lru-ne-cache"
    else none

def judgeSoftAll (hard : Nat) (cap : Option Nat) (srcs : List SrcObs) (gets : List GetObs) (obs : List SoftObs) :
    Option String :=
  match judgeSoftObs cap obs with
  | some s => some s
  | none => judgeSoft hard srcs gets

end HappyModel.C16
