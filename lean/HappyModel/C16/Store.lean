import HappyModel.C16.Policies
/-!
Model of `CachedStore` (cached_store.py) in front of a `KVStore` with latency, as a transition
system whose actions are the *segments* of the generator methods: `start i op` runs operation `i`
up to its first `yield`, `resume i` runs it from there to the next `yield` or to its `return`.
Which operation advances when is an input (the schedule), so theorems quantify over every
interleaving of segments; the engine is not part of the model.

`KVStore.get/put/delete` read or change the backing dict at the *end* of their latency
(`yield latency` is their first statement), so `start` of a miss / write-through put / delete only
records the pending continuation and `resume` touches the backing store.

Two variants (`Cfg.rep`):
* `current`  — the code as it is;
* `repaired` — fixes/C16-cachedstore-consistency.diff: a dirty entry is written back
  (`put_sync`) before an eviction, invalidation or delete drops it; `flush` writes the value the cache holds
  when the write latency has elapsed; a miss installs what it read only if no put/delete of the key
  started meanwhile and no backing write of the key is in flight.
-/
namespace HappyModel.C16

structure Cfg where
  cap : Nat
  wt : Bool                 -- write_through
  rep : Bool                -- repaired variant
  picks : List (List Key)   -- RNG draws of the policy, used round-robin
deriving Repr

inductive OpK
  | get (k : Key)
  | put (k : Key) (v : Nat)
  | del (k : Key)
  | inv (k : Key)
  | invAll
  | flush (order : List Key)   -- `list(self._dirty_keys)`: the set's iteration order is an input
deriving Repr, DecidableEq

inductive Res
  | none
  | val (v : Nat)
  | bool (b : Bool)
  | count (n : Nat)
deriving Repr, DecidableEq

/-- what an operation will do when it is resumed -/
inductive Pend
  | getHit (v : Nat)
  | getMiss (k : Key) (epoch : Nat)
  | putWT (k : Key) (v : Nat)
  | putWB
  | del (k : Key) (inCache : Bool)
  | flushCur (k : Key) (v : Nat) (rest : List Key) (n : Nat)
  | flushRep (k : Key) (rest : List Key) (n : Nat)
deriving Repr, DecidableEq

structure St where
  cache : List (Key × Nat) := []
  dirty : List Key := []
  pol : Pol
  back : List (Key × Nat) := []
  nEv : Nat := 0
  pend : List (Nat × Pend) := []
  epoch : List (Key × Nat) := []
  infl : List (Key × Nat) := []
deriving Repr

def setAdd (l : List Key) (k : Key) : List Key := if k ∈ l then l else l ++ [k]
def setDel (l : List Key) (k : Key) : List Key := l.filter (· != k)

def cnt (l : List (Key × Nat)) (k : Key) : Nat := (aget? l k).getD 0

def St.pick (cfg : Cfg) (s : St) : List Key :=
  if cfg.picks.isEmpty then [] else cfg.picks.getD (s.nEv % cfg.picks.length) []

/-- repaired: `_write_back_if_dirty` -/
def St.writeBack (s : St) (k : Key) : St :=
  match aget? s.cache k with
  | some v => if k ∈ s.dirty then { s with back := aset s.back k v, dirty := setDel s.dirty k } else s
  | none => s

def St.writeBackAll (s : St) : List Key → St
  | [] => s
  | k :: ks => St.writeBackAll (s.writeBack k) ks

/-- one iteration of the eviction loop: drop `ek` (repaired: write it back first if dirty) -/
def evictOne (cfg : Cfg) (s : St) (ek : Key) (pol' : Pol) : St :=
  { (if cfg.rep then s.writeBack ek else s) with
    cache := adel s.cache ek, dirty := setDel (if cfg.rep then s.writeBack ek else s).dirty ek,
    pol := pol', nEv := s.nEv + 1 }

/-- the `while len(cache) >= capacity` loop of `_cache_put` -/
def evictLoop (cfg : Cfg) : Nat → St → Nat → St
  | 0, s, _ => s
  | fuel + 1, s, now =>
    if s.cache.length < cfg.cap then s else
    match (s.pol.evict now (s.pick cfg)).1 with
    | none => { s with pol := (s.pol.evict now (s.pick cfg)).2 }
    | some ek => evictLoop cfg fuel (evictOne cfg s ek (s.pol.evict now (s.pick cfg)).2) now

def cachePut (cfg : Cfg) (s : St) (k v now : Nat) : St :=
  if k ∈ akeys s.cache then { s with pol := s.pol.access k, cache := aset s.cache k v }
  else
    let s1 := evictLoop cfg (s.cache.length + s.pol.tracked.length + 1) s now
    { s1 with pol := s1.pol.insert k now, cache := aset s1.cache k v }

def cacheRemove (s : St) (k : Key) : St :=
  { s with cache := adel s.cache k, dirty := setDel s.dirty k, pol := s.pol.remove k }

def St.bump (cfg : Cfg) (s : St) (k : Key) : St :=
  if cfg.rep then { s with epoch := aset s.epoch k (cnt s.epoch k + 1) } else s
def St.inflInc (cfg : Cfg) (s : St) (k : Key) : St :=
  if cfg.rep then { s with infl := aset s.infl k (cnt s.infl k + 1) } else s
def St.inflDec (cfg : Cfg) (s : St) (k : Key) : St :=
  if cfg.rep then { s with infl := aset s.infl k (cnt s.infl k - 1) } else s

def St.setPend (s : St) (i : Nat) (p : Pend) : St := { s with pend := s.pend ++ [(i, p)] }
def St.clearPend (s : St) (i : Nat) : St := { s with pend := s.pend.filter (·.1 != i) }

/-- the `for key in snapshot` loop of `flush`, up to the next `yield` -/
def flushNext (cfg : Cfg) (s : St) (i : Nat) : List Key → Nat → St × Option Res
  | [], n => (s, some (.count n))
  | k :: rest, n =>
    if cfg.rep then
      if k ∈ s.dirty ∧ k ∈ akeys s.cache then (s.setPend i (.flushRep k rest n), none)
      else flushNext cfg s i rest n
    else
      match aget? s.cache k with
      | some v => (s.setPend i (.flushCur k v rest n), none)
      | none => flushNext cfg s i rest n

/-- first segment of operation `i` -/
def start (cfg : Cfg) (s : St) (i : Nat) (op : OpK) (now : Nat) : St × Option Res :=
  match op with
  | .get k =>
    match aget? s.cache k with
    | some v => ({ s with pol := s.pol.access k }.setPend i (.getHit v), none)
    | none => (s.setPend i (.getMiss k (cnt s.epoch k)), none)
  | .put k v =>
    let s1 := cachePut cfg (s.bump cfg k) k v now
    if cfg.wt then ((s1.inflInc cfg k).setPend i (.putWT k v), none)
    else ({ s1 with dirty := setAdd s1.dirty k }.setPend i .putWB, none)
  | .del k =>
    let s0 := s.bump cfg k
    let inC := decide (k ∈ akeys s0.cache)
    let s1 := if inC then cacheRemove (if cfg.rep then s0.writeBack k else s0) k else s0
    ((s1.inflInc cfg k).setPend i (.del k inC), none)
  | .inv k =>
    if k ∈ akeys s.cache then
      (cacheRemove (if cfg.rep then s.writeBack k else s) k, some .none)
    else (s, some .none)
  | .invAll =>
    let s1 := if cfg.rep then s.writeBackAll s.dirty else s
    ({ s1 with cache := [], dirty := [], pol := s1.pol.clear }, some .none)
  | .flush order => flushNext cfg s i order 0

def St.fillAllowed (s : St) (k : Key) (epoch : Nat) : Bool :=
  cnt s.epoch k == epoch && cnt s.infl k == 0

/-- a later segment of operation `i` whose continuation is `p` -/
def resume (cfg : Cfg) (s0 : St) (i : Nat) (p : Pend) (now : Nat) : St × Option Res :=
  let s := s0.clearPend i
  match p with
  | .getHit v => (s, some (.val v))
  | .getMiss k e =>
    match aget? s.back k with
    | some x =>
      if !cfg.rep || s.fillAllowed k e then (cachePut cfg s k x now, some (.val x)) else (s, some (.val x))
    | none => (s, some .none)
  | .putWT k v => ({ s with back := aset s.back k v }.inflDec cfg k, some .none)
  | .putWB => (s, some .none)
  | .del k inC =>
    let ex := decide (k ∈ akeys s.back)
    ({ s with back := adel s.back k }.inflDec cfg k, some (.bool (inC || ex)))
  | .flushCur k v rest n =>
    flushNext cfg { s with back := aset s.back k v, dirty := setDel s.dirty k } i rest (n + 1)
  | .flushRep k rest n =>
    if k ∈ s.dirty ∧ k ∈ akeys s.cache then flushNext cfg (s.writeBack k) i rest (n + 1)
    else flushNext cfg s i rest n

inductive Act
  | start (i : Nat) (op : OpK) (now : Nat)
  | resume (i : Nat) (now : Nat)
deriving Repr

def step (cfg : Cfg) (s : St) : Act → St × Option Res
  | .start i op now => start cfg s i op now
  | .resume i now =>
    match s.pend.find? (·.1 == i) with
    | some (_, p) => resume cfg s i p now
    | none => (s, none)

def run (cfg : Cfg) (s : St) : List Act → St
  | [] => s
  | a :: as => run cfg (step cfg s a).1 as

end HappyModel.C16
