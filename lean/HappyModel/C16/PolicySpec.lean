import HappyModel.C16.Policies
/-!
C16, part 1 — what an eviction policy owes its cache, stated over *histories*.

`SpecSt` is computed from the operation list and from the keys that `evict` *returned* only (no
policy internals): for every key that was inserted and not yet removed / evicted it records when it
was inserted, when it was last touched (insert or access) and how often.  The clauses:

* keys      the set of keys the policy tracks is exactly the set of held keys
            (hence `evict` returns a key iff some key is held, and only held keys);
* lru       the evicted key has the smallest last-touch index among held keys;
* fifo      … the smallest insertion index;
* lfu       … the smallest touch count;
* ttl       an expired key if one exists (clock reading ≥ insertion reading + ttl), else the
            smallest insertion reading;
* slru      a never-re-accessed key (oldest first) if one exists, else the least recently touched;
* sampled   the least recently touched key of the drawn sample.

A history is *well formed* when `on_insert k` is only called for a key that is not held — the
protocol `CachedStore._cache_put` follows (`Store.lean` proves it does).  Histories that are not
well formed are not judged (the model still mirrors what the code does with them).
-/
namespace HappyModel.C16

structure HRec where
  key : Key
  ins : Nat      -- index of the inserting operation
  last : Nat     -- index of the last insert/access
  cnt : Nat      -- 1 + accesses since insertion
  insNow : Nat   -- clock reading at insertion
deriving Repr, DecidableEq

structure SpecSt where
  held : List HRec := []
  tick : Nat := 0
  wf : Bool := true
deriving Repr

def SpecSt.keys (s : SpecSt) : List Key := s.held.map (·.key)
def SpecSt.has (s : SpecSt) (k : Key) : Bool := s.held.any (·.key == k)
def SpecSt.rec? (s : SpecSt) (k : Key) : Option HRec := s.held.find? (·.key == k)

/-- advance the history by one call; `res` is what `evict` returned -/
def SpecSt.step (s : SpecSt) (op : POp) (res : Option Key) : SpecSt :=
  let t := s.tick + 1
  match op with
  | .access k =>
    { s with tick := t,
             held := s.held.map fun r => if r.key == k then { r with last := s.tick, cnt := r.cnt + 1 } else r }
  | .insert k now =>
    if s.has k then { s with tick := t, wf := false }
    else { s with tick := t, held := s.held ++ [⟨k, s.tick, s.tick, 1, now⟩] }
  | .remove k => { s with tick := t, held := s.held.filter (·.key != k) }
  | .evict _ _ =>
    match res with
    | some k => { s with tick := t, held := s.held.filter (·.key != k) }
    | none => { s with tick := t }
  | .clear => { s with tick := t, held := [] }

inductive Kind | lru | lfu | ttl (ttl : Nat) | fifo | rnd | slru | sampled (size : Nat) | clock | twoq
deriving Repr, DecidableEq

def Pol.kind : Pol → Kind
  | .lru _ => .lru | .lfu _ => .lfu | .ttl s => .ttl s.ttl | .fifo _ => .fifo | .rnd _ => .rnd
  | .slru _ => .slru | .sampled s => .sampled s.size | .clock _ => .clock | .twoq _ => .twoq

/-- the order law of each kind for evicting `v` from the held set (before the eviction) -/
def orderOk (kind : Kind) (s : SpecSt) (now : Nat) (pick : List Key) (v : HRec) : Bool :=
  match kind with
  | .lru => s.held.all fun r => v.last ≤ r.last
  | .fifo => s.held.all fun r => v.ins ≤ r.ins
  | .lfu => s.held.all fun r => v.cnt ≤ r.cnt
  | .ttl ttl =>
    if s.held.any (fun r => r.insNow + ttl ≤ now) then decide (v.insNow + ttl ≤ now)
    else s.held.all fun r => v.insNow ≤ r.insNow
  | .slru =>
    if s.held.any (fun r => r.cnt == 1) then
      v.cnt == 1 && s.held.all fun r => r.cnt != 1 || v.ins ≤ r.ins
    else s.held.all fun r => v.last ≤ r.last
  | .sampled size =>
    let drawn := (pick.filter fun c => s.held.any (·.key == c)).take size
    if drawn.isEmpty then true
    else drawn.contains v.key && s.held.all fun r => !drawn.contains r.key || v.last ≤ r.last
  | .rnd | .clock | .twoq => true

def orderSig : Kind → String
  | .lru => "policy/lru/not-least-recent"
  | .fifo => "policy/fifo/not-oldest"
  | .lfu => "policy/lfu/not-least-frequent"
  | .ttl _ => "policy/ttl/not-expired-or-oldest"
  | .slru => "policy/slru/segment-order"
  | .sampled _ => "policy/sampled/not-lru-of-sample"
  | _ => "policy/order"

/-- judge what `evict` returned against the history so far -/
def judgeEvict (kind : Kind) (s : SpecSt) (now : Nat) (pick : List Key) (res : Option Key) : Option String :=
  match res with
  | none => if s.held.isEmpty then none else some "policy/evict/none-when-nonempty"
  | some k =>
    match s.rec? k with
    | none => some "policy/evict/untracked-key"
    | some v => if orderOk kind s now pick v then none else some (orderSig kind)

def sortKeys (l : List Key) : List Key := l.mergeSort (· ≤ ·)

/-- judge one call: `res` = returned key, `obs` = the policy's tracked keys after the call (sorted) -/
def judgeStep (kind : Kind) (s : SpecSt) (op : POp) (res : Option Key) (obs : List Key) : Option String :=
  let s' := s.step op res
  if !s'.wf then none else
  let e := match op with
    | .evict now pick => judgeEvict kind s now pick res
    | _ => none
  match e with
  | some sig => some sig
  | none => if sortKeys s'.keys == obs then none else some "policy/keys/tracked-ne-held"

/-- whole history: list of (call, returned key, tracked keys after) -/
def judgePolicy (kind : Kind) : SpecSt → Nat → List (POp × Option Key × List Key) → Option (String × Nat)
  | _, _, [] => none
  | s, i, (op, res, obs) :: rest =>
    let s' := s.step op res
    if !s'.wf then none else
    match judgeStep kind s op res obs with
    | some sig => some (sig, i)
    | none => judgePolicy kind s' (i + 1) rest

/-- the history after a judged prefix (what was called and what `evict` returned) -/
def SpecSt.after (s : SpecSt) : List (POp × Option Key × List Key) → SpecSt
  | [] => s
  | (op, res, _) :: rest => (s.step op res).after rest

/-- A call that *raised*.  The five methods of the protocol are total: on a well-formed history none
    of them has a reason to fail (the model `Pol.step` is a total function and the unmodified code
    never raises; `policy_keys_eq_cache_keys` is what makes e.g. `list.remove` inside `on_remove`
    safe).  An exception is what stale bookkeeping typically turns into one call later, so it is
    judged — after the clauses above have been applied to the calls that did return. -/
def judgeRaised (s : SpecSt) (op : POp) : Option String :=
  if (s.step op none).wf then some "policy/call/raised" else none

/-- whole history, possibly ending in a call that raised -/
def judgePolicyExc (kind : Kind) (hist : List (POp × Option Key × List Key)) (raised : Option POp) :
    Option (String × Nat) :=
  match judgePolicy kind {} 0 hist with
  | some r => some r
  | none =>
    match raised with
    | none => none
    | some op =>
      if !(SpecSt.after {} hist).wf then none
      else (judgeRaised (SpecSt.after {} hist) op).map fun sig => (sig, hist.length)

/-- The `clear` law (`policy_clear_is_fresh`), judged on the implementation's own answers: the calls
    after the last `clear()` were replayed on a freshly constructed policy of the same kind; every
    call must have been answered the same way (returned key, tracked keys, eviction order from
    there).  `main`/`fresh` are the two answer lines of each such call, with its index. -/
def judgeFresh (pairs : List (Nat × List String × List String)) : Option (String × Nat) :=
  (pairs.find? fun p => p.2.1 != p.2.2).map fun p => ("policy/clear/not-fresh", p.1)

end HappyModel.C16
