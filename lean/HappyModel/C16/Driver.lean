import HappyModel.Proto
import HappyModel.C16.PolicySpec
import HappyModel.C16.StoreSpec
import HappyModel.C16.SoftTtlSpec
import HappyModel.C16.TierDriver
import HappyModel.C16.PageDriver
import HappyModel.C16.WPol
/-! Line-protocol driver for C16 (see `hv/props/c16.py` for the other side). -/
namespace HappyModel.C16.Driver
open HappyModel.Proto HappyModel.C16

/-- policy call lines: `a <now> k` | `i <now> k` | `r <now> k` | `e <now> pick…` | `c <now>` -/
def parsePOp (ts : List String) : Option (POp × Nat) :=
  match ts with
  | ["a", now, k] => some (.access (natD k), natD now)
  | ["i", now, k] => some (.insert (natD k) (natD now), natD now)
  | ["r", now, k] => some (.remove (natD k), natD now)
  | "e" :: now :: pick => some (.evict (natD now) (nats pick), natD now)
  | ["c", now] => some (.clear, natD now)
  | _ => none

def showRes : Option Key → String
  | none => "-"
  | some k => toString k

/-- evict until empty (at most `fuel` times): the complete eviction order from this state -/
def drain : Nat → Pol → Nat → List Key
  | 0, _, _ => []
  | fuel + 1, p, now =>
    match (p.evict now []).1 with
    | none => []
    | some k => k :: drain fuel (p.evict now []).2 now

def deterministic : Pol → Bool
  | .rnd _ | .sampled _ => false
  | _ => true

def polLine (res : Option Key) (p : Pol) (now : Nat) : String :=
  let d := if deterministic p then showNats (drain (p.tracked.length + 1) p now) else "~"
  s!"r {showRes res} T {showNats (sortKeys p.tracked)} D {d}"

def runPolicy (name : String) (arg : Nat) (body : List String) : List String :=
  match Pol.ofName name arg with
  | none => ["bad-policy"]
  | some p0 =>
    let rec go (p : Pol) : List String → List String
      | [] => []
      | l :: ls =>
        match parsePOp (toks l) with
        | none => "bad-op" :: go p ls
        | some (op, now) =>
          let r := p.step op
          polLine r.1 r.2 now :: go r.2 ls
    go p0 body

def parseObs (ts : List String) : Option (Option Key × List Key) :=
  match ts with
  | "obs" :: r :: "T" :: ks => some (if r == "-" then none else some (natD r), nats ks)
  | _ => none

def judgePolicyBlock (name : String) (arg : Nat) (body : List String) : List String :=
  match Pol.ofName name arg with
  | none => ["viol policy/malformed-judge-input"]
  | some p0 =>
    -- a history may end in `<call>` / `exc <Kind>`: the call raised instead of returning
    let rec pairs : List String → Option (List (POp × Option Key × List Key) × Option POp)
      | a :: b :: rest =>
        if b.startsWith "exc" then (parsePOp (toks a)).map fun (op, _) => ([], some op)
        else match parsePOp (toks a), parseObs (toks b), pairs rest with
        | some (op, _), some (r, ks), some (ps, x) => some ((op, r, ks) :: ps, x)
        | _, _, _ => none
      | [] => some ([], none)
      | _ => none
    -- `after-clear i <answer>` / `fresh i <answer>`: the companion run of the clear law
    let isCmp := fun (l : String) => l.startsWith "after-clear " || l.startsWith "fresh "
    let rec cmps : List String → List (Nat × List String × List String)
      | a :: b :: rest =>
        match toks a, toks b with
        | "after-clear" :: i :: x, "fresh" :: _ :: y => (natD i, x, y) :: cmps rest
        | _, _ => cmps rest
      | _ => []
    match pairs (body.filter (!isCmp ·)) with
    | none => ["viol policy/malformed-judge-input"]
    | some (ps, raised) =>
      match judgePolicyExc p0.kind ps raised with
      | some (sig, i) => [s!"viol {sig} at-op {i}"]
      | none =>
        match judgeFresh (cmps (body.filter isCmp)) with
        | none => ["ok"]
        | some (sig, i) => [s!"viol {sig} at-op {i}"]


/-! ### CachedStore -/

def showRes' : Res → String
  | .none => "None"
  | .val v => toString v
  | .bool b => if b then "True" else "False"
  | .count n => s!"n={n}"

def parseRes (t : String) : Option Res :=
  if t == "None" then some .none
  else if t == "True" then some (.bool true)
  else if t == "False" then some (.bool false)
  else if t.startsWith "n=" then some (.count (natD (t.drop 2).toString))
  else (nat? t).map .val

def showKV (l : List (Key × Nat)) : String :=
  joinSp ((l.mergeSort (fun a b => a.1 ≤ b.1)).map fun p => s!"{p.1}={p.2}")

def parseKV (ts : List String) : List (Key × Nat) :=
  ts.filterMap fun t =>
    match t.splitOn "=" with
    | [a, b] => some (natD a, natD b)
    | _ => none

def parseOpK (ts : List String) : Option OpK :=
  match ts with
  | ["get", k] => some (.get (natD k))
  | ["put", k, v] => some (.put (natD k) (natD v))
  | ["del", k] => some (.del (natD k))
  | ["inv", k] => some (.inv (natD k))
  | ["invall"] => some .invAll
  | ["flush"] => some (.flush [])
  | _ => none

def stateLine (i : Nat) (s : St) : String :=
  s!"adv {i} | C {showNats (sortKeys (akeys s.cache))} | D {showNats (sortKeys s.dirty)} | P {showNats (sortKeys s.pol.tracked)} | B {showKV s.back}"

structure Script where
  picks : List (List Key) := []
  ops : List (Nat × OpK) := []
  advs : List (Nat × Nat × List Key) := []
  warm : Option Nat := none      -- a CacheWarmer with that many keys takes part (its gets are ops ≥ warmBase)

def parseScript (body : List String) : Script :=
  body.foldl (fun sc l =>
    match toks l with
    | "pick" :: ks => { sc with picks := sc.picks ++ [nats ks] }
    | "op" :: i :: rest =>
      match parseOpK rest with
      | some o => { sc with ops := sc.ops ++ [(natD i, o)] }
      | none => sc
    | "adv" :: i :: t :: order => { sc with advs := sc.advs ++ [(natD i, natD t, nats order)] }
    | ["warm", n] => { sc with warm := some (natD n) }
    | _ => sc) {}

/-- what the warmer reports at the end, from what its gets returned (`warm_keys` counts a value as
    warmed, `None` as failed, and completes after the last key) -/
def warmLine (n : Nat) (out : List String) : String :=
  let rets := out.filterMap fun l => match toks l with
    | ["ret", i, v] => if warmBase ≤ natD i then some v else none
    | _ => none
  let warmed := (rets.filter (· != "None")).length
  let failed := (rets.filter (· == "None")).length
  s!"warm n={n} warmed={warmed} failed={failed} complete={if rets.length == n then 1 else 0}"

/-- clock reading handed to the TTL policy: milliseconds -/
def msOf (t : Nat) : Nat := t / 1000000

def runStore (variant name : String) (arg cap : Nat) (wt : Bool) (body : List String) : List String :=
  match Pol.ofName name arg with
  | none => ["bad-policy"]
  | some p0 =>
    let sc := parseScript body
    let cfg : Cfg := ⟨cap, wt, variant == "repaired", sc.picks⟩
    let rec go (s : St) (started : List Nat) : List (Nat × Nat × List Key) → List String
      | [] => []
      | (i, t, order) :: rest =>
        let act : Option Act :=
          if started.contains i then some (.resume i (msOf t))
          else match sc.ops.find? (·.1 == i) with
            | some (_, .flush _) => some (.start i (.flush order) (msOf t))
            | some (_, o) => some (.start i o (msOf t))
            | none => none
        match act with
        | none => "bad-adv" :: go s started rest
        | some a =>
          let r := step cfg s a
          let ls := match r.2 with
            | some x => [stateLine i r.1, s!"ret {i} {showRes' x}"]
            | none => [stateLine i r.1]
          ls ++ go r.1 (i :: started) rest
    let out := go { pol := p0 } [] sc.advs
    match sc.warm with
    | some n => out ++ [warmLine n out]
    | none => out

/-- `obs i | C … | D … | P … | R res` -/
def parseObsLine (l : String) : Option Obs :=
  match (l.splitOn "|").map toks with
  | [["obs", i], ("C" :: c), ("D" :: d), ("P" :: p), ["R", r]] =>
    some ⟨natD i, nats c, nats d, nats p, if r == "-" then none else parseRes r⟩
  | _ => none

def judgeStoreBlock (name : String) (arg cap : Nat) (wt : Bool) (body : List String) : List String :=
  let sc := parseScript body
  let evs := body.filterMap parseObsLine
  let fin := body.findSome? fun l => match toks l with
    | "fin" :: kv => some (parseKV kv)
    | _ => none
  let nObs := (body.filter (fun l => l.startsWith "obs ")).length
  if nObs != evs.length then ["viol store/malformed-judge-input"] else
  let _ := name; let _ := arg
  let kv := fun (ts : List String) (key : String) =>
    natD (((ts.find? (·.startsWith (key ++ "="))).getD "").drop (key.length + 1)).toString
  let warm : Option WarmObs := body.findSome? fun l => match toks l with
    | "warmobs" :: ts => some ⟨kv ts "n", kv ts "warmed", kv ts "failed", kv ts "complete" == 1⟩
    | _ => none
  -- `raised <op> <Kind>`: the operation raised instead of returning (judged last: the clauses on
  -- what was observed before it come first)
  let raised := body.any fun l => l.startsWith "raised "
  match judgeStore ⟨cap, wt, false, []⟩ sc.ops evs fin with
  | some sig => [s!"viol {sig}"]
  | none =>
    if raised then ["viol store/op/raised"] else
    match sc.warm, warm with
    | some _, none => ["viol warmer/missing-observation"]
    | _, some w =>
      match judgeWarm evs w with
      | none => ["ok"]
      | some sig => [s!"viol {sig}"]
    | none, none => ["ok"]

/-! ### SoftTTLCache -/

def parseTOp (ts : List String) : Option TOp :=
  match ts with
  | ["get", k] => some (.get (natD k))
  | ["put", k, v] => some (.put (natD k) (natD v))
  | ["inv", k] => some (.inv (natD k))
  | ["invall"] => some .invAll
  | ["bput", k, v] => some (.bput (natD k) (natD v))
  | ["bdel", k] => some (.bdel (natD k))
  | _ => none

def showTRes : TRes → String
  | .none => "None"
  | .fetched v => toString v
  | .served v _ _ => toString v
  | .done => "ok"

def tStateLine (i : Nat) (s : TSt) : String :=
  s!"adv {i} | C {showNats (sortKeys (akeys s.cache))} | F {showNats (sortKeys s.refreshing)} | O {showNats s.order} | B {showKV s.back}"

def runSoft (variant : String) (soft hard cap : Nat) (body : List String) : List String :=
  let cfg : TCfg := ⟨soft, hard, if cap == 0 then none else some cap, variant == "repaired"⟩
  let ops : List (Nat × TOp) := body.filterMap fun l =>
    match toks l with
    | "op" :: i :: rest => (parseTOp rest).map fun o => (natD i, o)
    | _ => none
  let advs : List (Nat × Nat × List String) := body.filterMap fun l =>
    match toks l with
    | "adv" :: i :: t :: rest => some (natD i, natD t, rest)
    | _ => none
  let rec go (s : TSt) (started : List Nat) : List (Nat × Nat × List String) → List String
    | [] => []
    | (i, t, extra) :: rest =>
      let act : Option TAct :=
        if started.contains i then some (.resume i t)
        else match extra with
          | ["refresh", k] =>
            -- the cache must have sent exactly this refresh event
            if s.spawned.contains (natD k) then some (.start i (.refresh (natD k)) t) else none
          | _ => (ops.find? (·.1 == i)).map fun (_, o) => .start i o t
      match act with
      | none => "bad-adv" :: go s started rest
      | some a =>
        let src : List String := match a with
          | .resume _ _ =>
            match s.pend.find? (·.1 == i) with
            | some (_, .miss k) | some (_, .refresh k) =>
              match aget? s.back k with
              | some v => [s!"src {k} {v}"]
              | none => []
            | _ => []
          | _ => []
        let r := tStep cfg s a
        let ls := match r.2 with
          | some x => [tStateLine i r.1, s!"ret {i} {showTRes x}"]
          | none => [tStateLine i r.1]
        src ++ ls ++ go r.1 (i :: started) rest
  go {} [] advs

def judgeSoftBlock (hard cap : Nat) (body : List String) : List String :=
  let gets := body.filterMap fun l =>
    match toks l with
    | ["get", k, ti, tr, v] => some (⟨natD k, natD ti, natD tr, if v == "None" then none else some (natD v)⟩ : GetObs)
    | _ => none
  let srcs := body.filterMap fun l =>
    match toks l with
    | ["src", k, v, t] => some (⟨natD k, natD v, natD t⟩ : SrcObs)
    | _ => none
  -- `obs | C <sorted cached keys> | O <sorted LRU-tracked keys>`
  let obs := body.filterMap fun l =>
    match (l.splitOn "|").map toks with
    | [["obs"], ("C" :: c), ("O" :: o)] => some (⟨nats c, nats o⟩ : SoftObs)
    | _ => none
  let nObs := (body.filter (fun l => l.startsWith "obs ")).length
  if nObs != obs.length then ["viol softttl/malformed-judge-input"] else
  match judgeSoftAll hard (if cap == 0 then none else some cap) srcs gets obs with
  | none => ["ok"]
  | some sig => [s!"viol {sig}"]

def handle (hdr : List String) (body : List String) : List String :=
  match hdr with
  | ["policy", name, arg] => runPolicy name (natD arg) body
  | ["judge-policy", name, arg] => judgePolicyBlock name (natD arg) body
  | ["store", variant, name, arg, cap, wt] => runStore variant name (natD arg) (natD cap) (wt == "1") body
  | ["judge-store", name, arg, cap, wt] => judgeStoreBlock name (natD arg) (natD cap) (wt == "1") body
  | ["softttl", variant, soft, hard, cap] => runSoft variant (natD soft) (natD hard) (natD cap) body
  | ["judge-softttl", hard, cap] => judgeSoftBlock (natD hard) (natD cap) body
  | _ =>
    -- families kept in their own files: MultiTierCache (`tier…`), PageCache (`page…`), write policies (`wpol…`)
    match Tier.handle? hdr body with
    | some out => out
    | none =>
      match Page.handle? hdr body with
      | some out => out
      | none =>
        match WPol.handle? hdr body with
        | some out => out
        | none => ["bad-mode"]

end HappyModel.C16.Driver
