/-!
# C08 part 1 — queue policies as pure state machines (mirror of the code that exists)

`happysimulator/components/queue_policy.py` (FIFOQueue, LIFOQueue, PriorityQueue),
`queue_policies/{deadline_queue,fair_queue,weighted_fair_queue,adaptive_lifo,red,codel}.py`,
`industrial/balking.py` (wrapper).

One state structure serves every policy; each policy only touches the fields its Python class has.
`q` is the deque / heap contents **in insertion order** (CPython `deque` is a list; `heapq` with the
total order `(key, insert_order)` is modelled as extract-minimum of a list — DESIGN §4).
`flows` is the `OrderedDict` of FairQueue / WeightedFairQueue in dictionary order.

Random draws (BalkingQueue, REDQueue) and CoDel's float control law are *inputs* of the operation
(`coin`, `rdrop`, `k`): theorems quantify over all of them.
-/
namespace HappyModel.C08

structure Item where
  id : Nat
  key : Nat      -- priority (PriorityQueue) or deadline in ns (DeadlineQueue)
  flow : Nat
deriving Repr, DecidableEq

inductive Kind
  | fifo | lifo | prio | deadline | adaptive | red | codel | fair | wfq
deriving DecidableEq, Repr

structure Cfg where
  kind : Kind := .fifo
  cap : Option Nat := none        -- `none` = unbounded (float("inf"))
  thr : Nat := 1                  -- AdaptiveLIFO congestion threshold
  maxFlows : Option Nat := none   -- FairQueue.max_flows
  perFlow : Option Nat := none    -- per_flow_capacity
  balk : Option Nat := none       -- BalkingQueue wrapper: threshold
  weights : List Nat := []        -- WeightedFairQueue: get_weight(flow i) = weights[i] (default 1)
deriving Repr

inductive Op
  /-- push `it` at clock `now`; `coin` = the balking draw came out below the balk probability;
      `rdrop` = RED decided to drop this packet -/
  | push (it : Item) (now : Nat) (coin : Bool) (rdrop : Bool)
  /-- pop at clock `now`; `k` = number of head drops CoDel's control law asked for -/
  | pop (now : Nat) (k : Nat)
  | peek (now : Nat)
  /-- `DeadlineQueue.purge_expired()` at clock `now` (the other policies have no such method: no-op) -/
  | purge (now : Nat)
  /-- the read-only public accessors of the policy at clock `now`, asked about flow `f`:
      DeadlineQueue `count_expired()`, `count_valid()`; FairQueue `get_flow_depth(f)`, `flow_count`;
      WeightedFairQueue `get_flow_depth(f)`, `flow_count`, `get_flow_weight(f)`;
      AdaptiveLIFO `is_congested` -/
  | query (now : Nat) (f : Nat)
deriving Repr

inductive Out
  | pushed (ok : Bool)
  | popped (r : Option Item)
  | peeked (r : Option Item)
  | purged (n : Nat)
  | info (xs : List Nat)
deriving Repr, DecidableEq

/-- heap / deque entry: the item and its `insert_order` -/
structure Ent where
  item : Item
  seq : Nat
deriving Repr, DecidableEq

/-- `_FlowState` (FairQueue uses weight = credits = 1) -/
structure FlowSt where
  fid : Nat
  q : List Item
  weight : Nat
  credits : Nat
deriving Repr, DecidableEq

structure St where
  q : List Ent := []
  ctr : Nat := 0
  flows : List FlowSt := []
  total : Nat := 0
  -- statistics (public `stats` snapshots)
  enq : Nat := 0
  deq : Nat := 0          -- dequeued (AdaptiveLIFO: dequeued_fifo)
  deqL : Nat := 0         -- AdaptiveLIFO: dequeued_lifo
  drp : Nat := 0          -- dropped after acceptance: expired (deadline) / CoDel dropped
  rdrp : Nat := 0         -- RED: refused by the early-drop decision (never accepted)
  rejA : Nat := 0         -- capacity_rejected / rejected_flow_capacity / rejected_capacity
  rejB : Nat := 0         -- rejected_max_flows
  created : Nat := 0
  removed : Nat := 0
  balked : Nat := 0
  switches : Nat := 0
  wasCong : Bool := false
deriving Repr

def capFull (cap : Option Nat) (n : Nat) : Bool :=
  match cap with
  | none => false
  | some k => decide (k ≤ n)

/-- strict heap order of `_PriorityEntry` / `_DeadlineEntry`: (key, insert_order) -/
def entLt (a b : Ent) : Bool :=
  decide (a.item.key < b.item.key) || (a.item.key == b.item.key && decide (a.seq < b.seq))

/-- `heapq.heappop` on a list: the minimum under `entLt` and the remaining entries (order kept) -/
def extractMin : List Ent → Option (Ent × List Ent)
  | [] => none
  | e :: es =>
    match extractMin es with
    | none => some (e, [])
    | some (m, rest) => if entLt m e then some (m, e :: rest) else some (e, es)

def len (c : Cfg) (s : St) : Nat :=
  match c.kind with
  | .fair | .wfq => s.total
  | _ => s.q.length

/-! ## push -/

def weightOf (c : Cfg) (f : Nat) : Nat :=
  let w := c.weights.getD f 1
  if w < 1 then 1 else w

def findFlow (fs : List FlowSt) (f : Nat) : Option FlowSt := fs.find? (·.fid == f)

/-- `self._flows[flow_id].append(item)`: the (first) flow with this id gets the item -/
def appendTo : List FlowSt → Nat → Item → List FlowSt
  | [], _, _ => []
  | fl :: fs, f, it =>
    if fl.fid == f then { fl with q := fl.q ++ [it] } :: fs else fl :: appendTo fs f it

def pushList (c : Cfg) (s : St) (it : Item) : St × Bool :=
  if capFull c.cap s.q.length then ({ s with rejA := s.rejA + 1 }, false)
  else ({ s with q := s.q ++ [⟨it, s.ctr⟩], ctr := s.ctr + 1, enq := s.enq + 1 }, true)

def pushRed (c : Cfg) (s : St) (it : Item) (rdrop : Bool) : St × Bool :=
  if capFull c.cap s.q.length then ({ s with rejA := s.rejA + 1 }, false)
  else if rdrop then ({ s with rdrp := s.rdrp + 1 }, false)
  else ({ s with q := s.q ++ [⟨it, s.ctr⟩], ctr := s.ctr + 1, enq := s.enq + 1 }, true)

def pushFair (c : Cfg) (s : St) (it : Item) : St × Bool :=
  match findFlow s.flows it.flow with
  | none =>
    if capFull c.maxFlows s.flows.length then ({ s with rejB := s.rejB + 1 }, false)
    else
      -- a fresh flow queue is empty, per_flow_capacity ≥ 1: never rejected
      ({ s with flows := s.flows ++ [⟨it.flow, [it], 1, 1⟩], created := s.created + 1,
                total := s.total + 1, enq := s.enq + 1 }, true)
  | some fl =>
    if capFull c.perFlow fl.q.length then ({ s with rejA := s.rejA + 1 }, false)
    else ({ s with flows := appendTo s.flows it.flow it, total := s.total + 1, enq := s.enq + 1 }, true)

def pushWfq (c : Cfg) (s : St) (it : Item) : St × Bool :=
  if capFull c.cap s.total then ({ s with rejA := s.rejA + 1 }, false)
  else
    match findFlow s.flows it.flow with
    | none =>
      let w := weightOf c it.flow
      ({ s with flows := s.flows ++ [⟨it.flow, [it], w, w⟩], created := s.created + 1,
                total := s.total + 1, enq := s.enq + 1 }, true)
    | some fl =>
      if capFull c.perFlow fl.q.length then ({ s with rejA := s.rejA + 1 }, false)
      else ({ s with flows := appendTo s.flows it.flow it, total := s.total + 1, enq := s.enq + 1 }, true)

def pushInner (c : Cfg) (s : St) (it : Item) (rdrop : Bool) : St × Bool :=
  match c.kind with
  | .fair => pushFair c s it
  | .wfq => pushWfq c s it
  | .red => pushRed c s it rdrop
  | _ => pushList c s it

/-- `BalkingQueue.push` around the inner policy (when `c.balk` is set) -/
def push (c : Cfg) (s : St) (it : Item) (coin rdrop : Bool) : St × Bool :=
  match c.balk with
  | some t =>
    if decide (t ≤ len c s) && coin then ({ s with balked := s.balked + 1 }, false)
    else pushInner c s it rdrop
  | none => pushInner c s it rdrop

/-! ## pop -/

def popHead (s : St) : St × Option Item :=
  match s.q with
  | [] => (s, none)
  | e :: es => ({ s with q := es, deq := s.deq + 1 }, some e.item)

/-- `deque.pop()`: last element -/
def popLast (s : St) : St × Option Item :=
  match s.q.getLast? with
  | none => (s, none)
  | some e => ({ s with q := s.q.dropLast, deq := s.deq + 1 }, some e.item)

def popCodel (s : St) (k : Nat) : St × Option Item :=
  match s.q with
  | [] => (s, none)
  | e :: es =>
    let d := min k es.length
    ({ s with q := es.drop d, deq := s.deq + 1, drp := s.drp + d }, some e.item)

def popAdaptive (c : Cfg) (s : St) : St × Option Item :=
  match s.q with
  | [] => (s, none)
  | e :: es =>
    let cong := decide (c.thr ≤ s.q.length)
    let sw := if cong != s.wasCong then s.switches + 1 else s.switches
    if cong then
      match (e :: es).getLast? with
      | none => (s, none)
      | some l => ({ s with q := (e :: es).dropLast, deqL := s.deqL + 1, switches := sw, wasCong := cong }, some l.item)
    else ({ s with q := es, deq := s.deq + 1, switches := sw, wasCong := cong }, some e.item)

def popPrio (s : St) : St × Option Item :=
  match extractMin s.q with
  | none => (s, none)
  | some (m, rest) => ({ s with q := rest, deq := s.deq + 1 }, some m.item)

/-- `DeadlineQueue.pop`: the `while self._heap` loop, one `heappop` per iteration -/
def popDeadline (now : Nat) : Nat → St → St × Option Item
  | 0, s => (s, none)
  | fuel + 1, s =>
    match extractMin s.q with
    | none => (s, none)
    | some (m, rest) =>
      if m.item.key < now then popDeadline now fuel { s with q := rest, drp := s.drp + 1 }
      else ({ s with q := rest, deq := s.deq + 1 }, some m.item)

/-- `FairQueue.pop` (recursion on an empty first flow mirrored with fuel) -/
def popFair : Nat → St → St × Option Item
  | 0, s => (s, none)
  | fuel + 1, s =>
    match s.flows with
    | [] => (s, none)
    | fl :: rest =>
      match fl.q with
      | [] => popFair fuel { s with flows := rest, removed := s.removed + 1 }
      | it :: q' =>
        if q'.isEmpty then
          ({ s with flows := rest, removed := s.removed + 1, total := s.total - 1, deq := s.deq + 1 }, some it)
        else
          ({ s with flows := rest ++ [{ fl with q := q' }], total := s.total - 1, deq := s.deq + 1 }, some it)

/-- `WeightedFairQueue.pop`: the `while attempts < max_attempts` loop -/
def popWfq : Nat → St → St × Option Item
  | 0, s => (s, none)
  | fuel + 1, s =>
    match s.flows with
    | [] => (s, none)
    | fl :: rest =>
      match fl.q with
      | [] => popWfq fuel { s with flows := rest, removed := s.removed + 1 }
      | it :: q' =>
        if 0 < fl.credits then
          let cr := fl.credits - 1
          let exhausted := decide (cr = 0)
          let fl' : FlowSt := { fl with q := q', credits := if exhausted then fl.weight else cr }
          if q'.isEmpty then
            ({ s with flows := rest, removed := s.removed + 1, total := s.total - 1, deq := s.deq + 1 }, some it)
          else if exhausted then
            ({ s with flows := rest ++ [fl'], total := s.total - 1, deq := s.deq + 1 }, some it)
          else
            ({ s with flows := fl' :: rest, total := s.total - 1, deq := s.deq + 1 }, some it)
        else
          popWfq fuel { s with flows := rest ++ [{ fl with credits := fl.weight }] }

def pop (c : Cfg) (s : St) (now k : Nat) : St × Option Item :=
  match c.kind with
  | .fifo | .red => popHead s
  | .lifo => popLast s
  | .codel => popCodel s k
  | .adaptive => popAdaptive c s
  | .prio => popPrio s
  | .deadline => popDeadline now (s.q.length + 1) s
  | .fair => popFair (s.flows.length + 1) s
  | .wfq => popWfq (2 * s.flows.length) s

/-! ## peek -/

def peek (c : Cfg) (s : St) (now : Nat) : Option Item :=
  match c.kind with
  | .fifo | .red | .codel => s.q.head?.map (·.item)
  | .lifo => s.q.getLast?.map (·.item)
  | .adaptive => if decide (c.thr ≤ s.q.length) then s.q.getLast?.map (·.item) else s.q.head?.map (·.item)
  | .prio => (extractMin s.q).map (·.1.item)
  | .deadline => (extractMin (s.q.filter fun e => decide (now ≤ e.item.key))).map (·.1.item)
  | .fair | .wfq => (s.flows.find? fun fl => !fl.q.isEmpty).bind (·.q.head?)

/-! ## purge_expired and the read-only accessors -/

def isLive (now : Nat) (e : Ent) : Bool := decide (now ≤ e.item.key)

/-- `DeadlineQueue.purge_expired`: every entry with `deadline < now` is removed and counted as
    expired; the survivors are re-heapified (the heap is a list under extract-minimum here, so the
    survivors simply keep their insertion order) -/
def purge (c : Cfg) (s : St) (now : Nat) : St × Nat :=
  match c.kind with
  | .deadline =>
    let live := s.q.filter (isLive now)
    ({ s with q := live, drp := s.drp + (s.q.length - live.length) }, s.q.length - live.length)
  | _ => (s, 0)

def flowDepth (fs : List FlowSt) (f : Nat) : Nat :=
  match findFlow fs f with
  | some fl => fl.q.length
  | none => 0

def query (c : Cfg) (s : St) (now f : Nat) : List Nat :=
  match c.kind with
  | .deadline =>
    let live := (s.q.filter (isLive now)).length
    [s.q.length - live, live]
  | .fair => [flowDepth s.flows f, s.flows.length]
  | .wfq =>
    [flowDepth s.flows f, s.flows.length,
     match findFlow s.flows f with
     | some fl => fl.weight
     | none => c.weights.getD f 1]
  | .adaptive => [if decide (c.thr ≤ s.q.length) then 1 else 0]
  | _ => []

def step (c : Cfg) (s : St) : Op → St × Out
  | .push it _ coin rdrop => ((push c s it coin rdrop).1, .pushed (push c s it coin rdrop).2)
  | .pop now k => ((pop c s now k).1, .popped (pop c s now k).2)
  | .peek now => (s, .peeked (peek c s now))
  | .purge now => ((purge c s now).1, .purged (purge c s now).2)
  | .query now f => (s, .info (query c s now f))

/-- run an operation list, collecting the outputs and the state after every operation -/
def run (c : Cfg) : St → List Op → List (Out × St)
  | _, [] => []
  | s, o :: os => ((step c s o).2, (step c s o).1) :: run c (step c s o).1 os

def finalSt (c : Cfg) : St → List Op → St
  | s, [] => s
  | s, o :: os => finalSt c (step c s o).1 os

end HappyModel.C08
