import HappyModel.C08.Pipe
import HappyModel.C08.PolicySpec
/-!
# C08 part 2 — the pipeline property as a decidable predicate over an observed run

"Each event offered to a queue-fronted component is at every instant exactly one of
rejected-and-counted, waiting, in service, or completed exactly once; work in service never exceeds
the concurrency limit, and no simulated time passes while an item waits and the worker has free
capacity for it."  Items leave the queue in the order its policy defines.

The judge reads a log of the deliveries an observer of the public entities sees (what arrived
where, what the handler answered, the public counters) and keeps, from that log alone, the status
of every item: refused (rejected at offer, counted), waiting (in acceptance order), in transit
(dequeued, on its way to the worker — inside one instant), in service, done.
A rejection is only legal at offer time: an item that was accepted and is later discarded by the
worker is lost work.
-/
namespace HappyModel.C08.Pipe
open HappyModel.C08

/-- one observed delivery -/
structure Obs where
  t : Nat
  act : Act
  res : Res
  depth : Nat
  acc : Nat
  dropped : Nat
  active : Nat
  completed : Nat
  rejected : Nat
deriving Repr

structure JSt where
  waiting : List Item := []
  transit : List Nat := []
  service : List Nat := []
  done : List Nat := []
  refused : List Nat := []
  offered : List Nat := []
  accepted : Nat := 0
  lastT : Nat := 0
  limit : Nat := 1
  lowerT : Option Nat := none   -- instant of the last decrease of the limit
  prevLimit : Nat := 0          -- the limit before that decrease
  started : Bool := false
deriving Repr

/-- the instant `lastT` is over: nothing may be in transit, nothing may wait beside a free slot -/
def strandCheck (j : JSt) : Option String :=
  if !j.transit.isEmpty then some "pipe/strand/dequeued-item-not-started-in-its-instant"
  else if !j.waiting.isEmpty && decide (j.service.length < j.limit) then
    some "pipe/strand/waiting-with-free-capacity"
  else none

def judgeAct (pol : Cfg) (j : JSt) (o : Obs) : Except String JSt :=
  match o.act, o.res with
  | .arr it, .accepted ok =>
    if j.offered.contains it.id then .error "pipe/item/offered-twice"
    else
      let full := capFull pol.cap j.waiting.length
      if ok && full then .error "pipe/queue/accepted-beyond-capacity"
      else if !ok && !full then .error "pipe/queue/rejected-with-room"
      else if ok then .ok { j with waiting := j.waiting ++ [it], offered := it.id :: j.offered, accepted := j.accepted + 1 }
      else .ok { j with refused := it.id :: j.refused, offered := it.id :: j.offered }
  | .poll, .popped none =>
    if !j.waiting.isEmpty then .error "pipe/queue/poll-none-but-work-waiting" else .ok j
  | .poll, .popped (some i) =>
    match j.waiting.find? (·.id == i) with
    | none => .error "pipe/queue/dequeued-item-not-waiting"
    | some it =>
      if sChoose pol { held := j.waiting } 0 != some it then .error "pipe/queue/order"
      else .ok { j with waiting := removeFirst (·.id == i) j.waiting, transit := j.transit ++ [i] }
  | .deliver (some i), _ =>
    if !j.transit.contains i then .error "pipe/item/delivered-not-in-transit" else .ok j
  | .work i, .started ok =>
    if !j.transit.contains i then .error "pipe/item/started-not-in-transit"
    else if !ok then .error "pipe/worker/accepted-item-discarded"
    else if pol.kind == .fifo && j.transit.head? != some i then .error "pipe/order/start-not-in-dequeue-order"
    else
      let j' := { j with transit := j.transit.erase i, service := j.service ++ [i] }
      if j'.limit < j'.service.length then
        -- distinguished: the limit was lowered (shift change) earlier in this very instant and the
        -- start fits under the limit that was in force before
        if j'.lowerT == some o.t && decide (j'.service.length ≤ j'.prevLimit) then
          .error "pipe/worker/in-service-exceeds-limit/limit-lowered-in-same-instant"
        else .error "pipe/worker/in-service-exceeds-limit"
      else .ok j'
  | .fin i, _ =>
    if !j.service.contains i then .error "pipe/item/completed-not-in-service"
    else .ok { j with service := j.service.erase i, done := i :: j.done }
  | .shift c, _ =>
    if c < j.limit then
      .ok { j with limit := c, lowerT := some o.t, prevLimit := if j.lowerT == some o.t then max j.prevLimit j.limit else j.limit }
    else .ok { j with limit := c }
  | .notify, _ => .ok j
  | .disp, _ => .ok j
  | .deliver none, _ => .ok j
  | _, _ => .error "pipe/malformed-observation"

def judgeCounters (j : JSt) (o : Obs) : Option String :=
  if o.depth != j.waiting.length then some "pipe/counters/depth-not-waiting-count"
  else if o.acc != j.accepted then some "pipe/counters/accepted"
  else if o.dropped != j.refused.length then some "pipe/counters/dropped-not-refused-count"
  else if o.completed != j.done.length then some "pipe/counters/completed"
  else if o.active != j.service.length then some "pipe/counters/active-not-in-service-count"
  else if o.acc != j.waiting.length + j.transit.length + j.service.length + j.done.length then
    some "pipe/conservation"
  else none

def judgeObs (pol : Cfg) (j : JSt) (o : Obs) : Except String JSt :=
  if o.res == .err then .error "pipe/malformed-observation" else
  let strand := if j.started && decide (j.lastT < o.t) then strandCheck j else none
  match strand with
  | some v => .error v
  | none =>
    match judgeAct pol j o with
    | .error v => .error v
    | .ok j' =>
      match judgeCounters j' o with
      | some v => .error v
      | none => .ok { j' with lastT := o.t, started := true }

def judgeRun (pol : Cfg) : JSt → Nat → List Obs → Option String
  | j, _, [] => (strandCheck j).map (· ++ " at-end")
  | j, i, o :: rest =>
    match judgeObs pol j o with
    | .error v => some (v ++ " at-line " ++ toString i)
    | .ok j' => judgeRun pol j' (i + 1) rest

end HappyModel.C08.Pipe
