import HappyModel.Proto
import HappyModel.C08.IndusModel
/-! Line protocol for the industrial-component models and judge (other side: `hv/props/c08_indus.py`). -/
namespace HappyModel.C08.Indus
open HappyModel.Proto

def optNatI (s : String) : Option Nat := if s == "-" || s == "none" then none else nat? s

/-- 0 = unlimited (pooled `queue_capacity`, gate `queue_capacity`) -/
def zeroUnl (n : Nat) : Option Nat := if n == 0 then none else some n

/-- `a1 b1 a2 b2 …` -/
def pairsI : List String → List (Nat × Nat)
  | a :: b :: rest => (natD a, natD b) :: pairsI rest
  | _ => []

/-- header: `[current|repaired]` then `pooled pool qcap [downstream 0|1]` | `conveyor cap` | `gate init_open qcap [open_ns close_ns]*` | `batch size timeout_ns [overlap]` | `reneging limit qcap [reneged_target 0|1]` -/
def parseHdrI : List String → Option Cfg
  | "current" :: rest => (parseHdrI rest).map fun c => { c with repaired := false }
  | "repaired" :: rest => parseHdrI rest
  | ["pooled", p, q] => some { comp := .pooled, limit := natD p, qcap := zeroUnl (natD q) }
  | ["pooled", p, q, d] => some { comp := .pooled, limit := natD p, qcap := zeroUnl (natD q), sink := d != "0" }
  | ["conveyor", c] => some { comp := .conveyor, limit := natD c, unlimited := natD c == 0 }
  | "gate" :: o :: q :: ws => some { comp := .gate, initOpen := o == "1", qcap := zeroUnl (natD q), windows := pairsI ws }
  | ["batch", b, t] => some { comp := .batch, limit := natD b, timeout := natD t }
  | ["batch", b, t, o] => some { comp := .batch, limit := natD b, timeout := natD t, overlap := o == "overlap" }
  | ["reneging", l, q] => some { comp := .reneging, limit := natD l, qcap := optNatI q }
  | ["reneging", l, q, r] => some { comp := .reneging, limit := natD l, qcap := optNatI q, rtarget := r != "0" }
  | _ => none

def parseActI : List String → Option (Nat × Act)
  | [t, "offer", i] => some (natD t, .offer (natD i) none)
  | [t, "offer", i, p] => some (natD t, .offer (natD i) (optNatI p))
  | [t, "fin", i] => some (natD t, .fin (natD i))
  | [t, "done", i] => some (natD t, .done (natD i))
  | [t, "rdone", i] => some (natD t, .rdone (natD i))
  | [t, "open"] => some (natD t, .openG)
  | [t, "close"] => some (natD t, .closeG)
  | [t, "copen"] => some (natD t, .copen)
  | [t, "cclose"] => some (natD t, .cclose)
  | [t, "timeout"] => some (natD t, .timeout)
  | [t, "bfin", k] => some (natD t, .bfin (natD k))
  | [t, "deq"] => some (natD t, .deq)
  | [t, "work", i] => some (natD t, .work (natD i))
  | _ => none

def showActI (c : Comp) : Act → String
  | .offer i p => if c == .reneging then s!"offer {i} {match p with | none => "-" | some x => toString x}" else s!"offer {i}"
  | .fin i => s!"fin {i}"
  | .done i => s!"done {i}"
  | .rdone i => s!"rdone {i}"
  | .openG => "open"
  | .closeG => "close"
  | .copen => "copen"
  | .cclose => "cclose"
  | .timeout => "timeout"
  | .bfin k => s!"bfin {k}"
  | .deq => "deq"
  | .work i => s!"work {i}"

def showResI : Res → String
  | .start => "start" | .wait => "wait" | .rej => "rej" | .pass => "pass" | .acc => "acc"
  | .renege => "renege" | .idle => "idle" | .dash => "-" | .none_ => "none"
  | .got i => toString i | .err => "err"

def parseResI (a : Act) (r : String) : Res :=
  match a, r with
  | .deq, "none" => .none_
  | .deq, x => match nat? x with | some i => .got i | none => .err
  | _, "start" => .start | _, "wait" => .wait | _, "rej" => .rej | _, "pass" => .pass | _, "acc" => .acc
  | _, "renege" => .renege | _, "idle" => .idle | _, "-" => .dash | _, "lost" => .none_
  | _, _ => .err

def runIndus (hdr body : List String) : List String :=
  match parseHdrI hdr with
  | none => ["bad-config"]
  | some cfg =>
    let acts := body.filterMap (fun l => parseActI (toks l))
    let rec go (s : MSt) : List (Nat × Act) → List String
      | [] => []
      | (t, a) :: rest =>
        let r := step cfg s t a
        s!"{t} {showActI cfg.comp a} -> {showResI r.2} | {showNats (counters cfg r.1)}" :: go r.1 rest
    go (init cfg) acts

/-- `<t> <action…> -> <res> | <counters…>` -/
def parseObsLineI (l : String) : Option Obs :=
  match l.splitOn " | " with
  | [left, right] =>
    match left.splitOn " -> " with
    | [a, r] =>
      match parseActI (toks a) with
      | some (t, act) =>
        let cs := toks right
        if cs.all (fun x => (int? x).isSome) then
          some ⟨t, act, parseResI act r.trimAscii.toString, cs.map (fun x => (intD x).toNat), cs.any (fun x => intD x < 0)⟩
        else none
      | none => none
    | _ => none
  | _ => none

def judgeIndus (hdr body : List String) : List String :=
  match parseHdrI hdr with
  | none => ["viol indus/malformed-judge-input"]
  | some cfg =>
    let obs := body.filterMap parseObsLineI
    if obs.length != body.length then ["viol indus/malformed-judge-input"]
    else match judgeRun cfg { isOpen := cfg.initOpen } 0 obs with
      | none => ["ok"]
      | some v => ["viol " ++ v]

end HappyModel.C08.Indus
