import HappyModel.C08.Indus
/-!
# C08 part 3 — executable models of the industrial components

Event-level transition systems mirroring the code that exists in
`components/industrial/pooled_cycle.py` (`handle_event`, `_start_cycle`: the item a completion takes
out of the queue is *re-sent to the component* and handled like any arrival),
`conveyor.py` (`handle_event`, `_transport`), `gate_controller.py` (`handle_event`, `_do_open`,
`_do_close`), `batch_processor.py` (`handle_event`: the first item of an empty buffer only arms the
timer; `_handle_timeout`; `_process_batch`: no look at `_processing`), `reneging.py`
(`handle_queued_event`) on top of `queue.py` (`_handle_enqueue`, `_handle_poll` with a FIFO policy).

An action is the delivery of one event to the component (or of one of its outputs to a sink); which
delivery comes next is an input — the schedule recorded from the implementation run in the
correspondence check, universally quantified in the theorems.  A delivery that is not pending is
answered `err` and leaves the state unchanged.
-/
namespace HappyModel.C08.Indus

structure MSt where
  queue : List WItem := []            -- pooled `_queue` / gate `_queue` / batch `_buffer` / reneging queue policy
  transit : List WItem := []          -- pooled: dequeued and re-sent; reneging: polled, on the way to the worker
  active : List Nat := []             -- ids in service (batch: numbers of the batches in process)
  batches : List (Nat × List Nat) := []
  nextBatch : Nat := 0
  timer : Option Nat := none          -- batch `_timeout_event`: the instant it fires
  out : List Nat := []                -- emitted to downstream, not yet delivered
  rout : List Nat := []               -- emitted to the reneged target, not yet delivered
  isOpen : Bool := true
  accepted : Nat := 0
  lost : Nat := 0                     -- pooled (ghost): accepted items rejected on re-delivery
  completed : Nat := 0
  rejected : Nat := 0
  passed : Nat := 0
  queuedTotal : Nat := 0
  cycles : Nat := 0
  batchesDone : Nat := 0
  timeouts : Nat := 0
  served : Nat := 0
  reneged : Nat := 0
deriving Repr

def init (cfg : Cfg) : MSt := { isOpen := cfg.initOpen }

/-- delivery at a sink -/
def sinkStep (s : MSt) (id : Nat) : MSt × Res :=
  if s.out.contains id then ({ s with out := s.out.erase id }, .dash) else (s, .err)

def stepPooled (cfg : Cfg) (s : MSt) (t : Nat) (a : Act) : MSt × Res :=
  match a with
  | .offer id _ =>
    if s.transit.any (·.id == id) then
      -- re-delivery of the item a completion dequeued (`lost`, `accepted` are ghost counters)
      let s' := { s with transit := s.transit.eraseP (·.id == id) }
      if cfg.repaired then
        -- repaired: the unit freed by the completion was kept for it
        ({ s' with active := s'.active ++ [id] }, .start)
      else if s'.active.length < cfg.limit then ({ s' with active := s'.active ++ [id] }, .start)
      else if full cfg.qcap s'.queue.length then ({ s' with rejected := s'.rejected + 1, lost := s'.lost + 1 }, .rej)
      else ({ s' with queue := s'.queue ++ [⟨id, t, none⟩] }, .wait)
    else
      let reserved := if cfg.repaired then s.transit.length else 0
      if s.active.length + reserved < cfg.limit then
        ({ s with active := s.active ++ [id], accepted := s.accepted + 1 }, .start)
      else if full cfg.qcap s.queue.length then ({ s with rejected := s.rejected + 1 }, .rej)
      else ({ s with queue := s.queue ++ [⟨id, t, none⟩], accepted := s.accepted + 1 }, .wait)
  | .fin id =>
    if !s.active.contains id then (s, .err)
    else
      let s := { s with active := s.active.erase id, completed := s.completed + 1,
                        out := if cfg.sink then s.out ++ [id] else s.out }
      match s.queue with
      | [] => (s, .dash)
      | w :: rest =>
        if cfg.repaired && decide (cfg.limit ≤ s.active.length + s.transit.length) then (s, .dash)
        else ({ s with queue := rest, transit := s.transit ++ [w] }, .dash)
  | .done id => sinkStep s id
  | _ => (s, .err)

def stepConveyor (cfg : Cfg) (s : MSt) (a : Act) : MSt × Res :=
  match a with
  | .offer id _ =>
    if !cfg.unlimited && decide (cfg.limit ≤ s.active.length) then ({ s with rejected := s.rejected + 1 }, .rej)
    else ({ s with active := s.active ++ [id] }, .start)
  | .fin id =>
    if !s.active.contains id then (s, .err)
    else ({ s with active := s.active.erase id, completed := s.completed + 1, out := s.out ++ [id] }, .dash)
  | .done id => sinkStep s id
  | _ => (s, .err)

def stepGate (cfg : Cfg) (s : MSt) (t : Nat) (a : Act) : MSt × Res :=
  match a with
  | .offer id _ =>
    if s.isOpen then ({ s with passed := s.passed + 1, out := s.out ++ [id], accepted := s.accepted + 1 }, .pass)
    else if full cfg.qcap s.queue.length then ({ s with rejected := s.rejected + 1 }, .rej)
    else ({ s with queue := s.queue ++ [⟨id, t, none⟩], queuedTotal := s.queuedTotal + 1, accepted := s.accepted + 1 }, .wait)
  | .openG =>
    if s.isOpen then (s, .dash)
    else ({ s with isOpen := true, cycles := s.cycles + 1, passed := s.passed + s.queue.length,
                   out := s.out ++ s.queue.map (·.id), queue := [] }, .dash)
  | .copen =>
    if s.isOpen then (s, .dash)
    else ({ s with isOpen := true, cycles := s.cycles + 1, passed := s.passed + s.queue.length,
                   out := s.out ++ s.queue.map (·.id), queue := [] }, .dash)
  | .closeG =>
    -- repaired (fixes/C08-indus-gate-overlapping-windows.diff): a schedule close inside another window is ignored
    if cfg.repaired && covered cfg.windows t then (s, .dash) else ({ s with isOpen := false }, .dash)
  | .cclose => ({ s with isOpen := false }, .dash)
  | .done id => sinkStep s id
  | _ => (s, .err)

/-- `_process_batch` up to its first yield -/
def processBatch (s : MSt) : MSt :=
  { s with batches := s.batches ++ [(s.nextBatch, s.queue.map (·.id))], active := s.active ++ [s.nextBatch],
           nextBatch := s.nextBatch + 1, queue := [], timer := none }

def stepBatch (cfg : Cfg) (s : MSt) (t : Nat) (a : Act) : MSt × Res :=
  match a with
  | .offer id _ =>
    let s := { s with queue := s.queue ++ [⟨id, t, none⟩], accepted := s.accepted + 1 }
    if cfg.repaired then
      -- repaired: the size test comes first
      if cfg.limit ≤ s.queue.length then (processBatch s, .start)
      else if s.queue.length == 1 && cfg.timeout != 0 then ({ s with timer := some (t + cfg.timeout) }, .wait)
      else (s, .wait)
    else if s.queue.length == 1 && cfg.timeout != 0 then ({ s with timer := some (t + cfg.timeout) }, .wait)
    else if cfg.limit ≤ s.queue.length then (processBatch s, .start)
    else (s, .wait)
  | .timeout =>
    if s.timer != some t then (s, .err)
    else
      let s := { s with timer := none }
      if s.queue.isEmpty then (s, .idle)
      else (processBatch { s with timeouts := s.timeouts + 1 }, .start)
  | .bfin k =>
    match s.batches.find? (·.1 == k) with
    | none => (s, .err)
    | some (k, ids) =>
      ({ s with batches := s.batches.erase (k, ids), active := s.active.erase k, batchesDone := s.batchesDone + 1,
                completed := s.completed + ids.length, out := s.out ++ ids }, .dash)
  | .done id => sinkStep s id
  | _ => (s, .err)

def stepReneging (cfg : Cfg) (s : MSt) (t : Nat) (a : Act) : MSt × Res :=
  match a with
  | .offer id pat =>
    if full cfg.qcap s.queue.length then ({ s with rejected := s.rejected + 1 }, .rej)
    else ({ s with queue := s.queue ++ [⟨id, t, pat⟩], accepted := s.accepted + 1 }, .acc)
  | .deq =>
    match s.queue with
    | [] => (s, .none_)
    | w :: rest => ({ s with queue := rest, transit := s.transit ++ [w] }, .got w.id)
  | .work id =>
    match s.transit.find? (·.id == id) with
    | none => (s, .err)
    | some w =>
      let s := { s with transit := s.transit.eraseP (·.id == id) }
      if expired w t then
        -- `reneged_target is None`: counted, nothing forwarded
        ({ s with reneged := s.reneged + 1, rout := if cfg.rtarget then s.rout ++ [id] else s.rout }, .renege)
      else ({ s with served := s.served + 1, active := s.active ++ [id] }, .start)
  | .fin id =>
    if !s.active.contains id then (s, .err)
    else ({ s with active := s.active.erase id, completed := s.completed + 1, out := s.out ++ [id] }, .dash)
  | .done id => sinkStep s id
  | .rdone id => if s.rout.contains id then ({ s with rout := s.rout.erase id }, .dash) else (s, .err)
  | _ => (s, .err)

def step (cfg : Cfg) (s : MSt) (t : Nat) (a : Act) : MSt × Res :=
  match cfg.comp with
  | .pooled => stepPooled cfg s t a
  | .conveyor => stepConveyor cfg s a
  | .gate => stepGate cfg s t a
  | .batch => stepBatch cfg s t a
  | .reneging => stepReneging cfg s t a

/-- the public counters, in the order the harness prints them -/
def counters (cfg : Cfg) (s : MSt) : List Nat :=
  match cfg.comp with
  | .pooled => [cfg.limit - s.active.length, s.active.length, s.queue.length, s.completed, s.rejected]
  | .conveyor => [s.active.length, s.completed, s.rejected]
  | .gate => [if s.isOpen then 1 else 0, s.queue.length, s.passed, s.queuedTotal, s.rejected, s.cycles]
  | .batch => [s.queue.length, s.batchesDone, s.completed, s.timeouts]
  | .reneging => [s.queue.length, s.accepted, s.rejected, s.served, s.reneged, s.active.length]

/-- states along a schedule (projection form, so that `simp` unfolds it) -/
def run (cfg : Cfg) : MSt → List (Nat × Act) → MSt
  | s, [] => s
  | s, (t, a) :: rest => run cfg (step cfg s t a).1 rest

end HappyModel.C08.Indus
