import HappyModel.Proto
import HappyModel.C08.PipeSpec
/-! Line protocol for the pipeline model and judge (other side: `hv/props/c08.py`, family `pipe`). -/
namespace HappyModel.C08.Pipe
open HappyModel.Proto HappyModel.C08

def optNat' (s : String) : Option Nat := if s == "-" || s == "none" then none else nat? s

/-- header: variant worker limit kind cap -/
def parseHdr : List String → Option (PCfg × Nat)
  | [v, w, lim, kind, cap] =>
    let variant := if v == "current" then Variant.current else Variant.repaired
    let worker := if w == "shifted" then Worker.shifted else Worker.server
    let k : Option Kind := match kind with
      | "fifo" => some .fifo | "lifo" => some .lifo | "prio" => some .prio | _ => none
    k.map fun kd => ({ variant, worker, pol := { kind := kd, cap := optNat' cap } }, natD lim)
  | _ => none

def parseAct : List String → Option (Nat × Act)
  | [t, "arr", i, key] => some (natD t, .arr ⟨natD i, natD key, 0⟩)
  | [t, "notify"] => some (natD t, .notify)
  | [t, "poll"] => some (natD t, .poll)
  | [t, "deliver", x] => some (natD t, .deliver (optNat' x))
  | [t, "work", i] => some (natD t, .work (natD i))
  | [t, "disp"] => some (natD t, .disp)
  | [t, "fin", i] => some (natD t, .fin (natD i))
  | [t, "shift", c] => some (natD t, .shift (natD c))
  | _ => none

def showAct : Act → String
  | .arr it => s!"arr {it.id} {it.key}"
  | .notify => "notify"
  | .poll => "poll"
  | .deliver none => "deliver none"
  | .deliver (some i) => s!"deliver {i}"
  | .work i => s!"work {i}"
  | .disp => "disp"
  | .fin i => s!"fin {i}"
  | .shift c => s!"shift {c}"

def showRes : Res → String
  | .err => "err"
  | .accepted b => showBool b
  | .polled b => if b then "poll" else "idle"
  | .popped none => "none"
  | .popped (some i) => toString i
  | .done => "-"
  | .started b => if b then "start" else "reject"

def parseRes (a : Act) (r : String) : Res :=
  if r == "err" then .err else
  match a with
  | .arr _ => .accepted (r == "1")
  | .poll => .popped (optNat' r)
  | .work _ => .started (r == "start")
  | .deliver (some _) | .fin _ => .done
  | _ => .polled (r == "poll")

def line (c : PCfg) (t : Nat) (a : Act) (r : Res) (s : PSt) : String :=
  s!"{t} {showAct a} -> {showRes r} | {s.depth c} {s.acc} {s.dropped} {s.active} {s.completed} {s.rejected} {s.limit}"

def runPipe (hdr body : List String) : List String :=
  match parseHdr hdr with
  | none => ["bad-config"]
  | some (c, lim) =>
    let acts := body.filterMap (fun l => parseAct (toks l))
    let rec go (s : PSt) : List (Nat × Act) → List String
      | [] => []
      | (t, a) :: rest =>
        let r := step c s a
        line c t a r.2 r.1 :: go r.1 rest
    go { limit := lim } acts

/-- `<t> <action…> -> <res> | depth acc dropped active completed rejected limit` -/
def parseObsLine (l : String) : Option Obs :=
  match l.splitOn " | " with
  | [left, right] =>
    match left.splitOn " -> " with
    | [a, r] =>
      match parseAct (toks a), nats (toks right) with
      | some (t, act), [d, ac, dr, av, co, rj, _lim] =>
        some ⟨t, act, parseRes act r.trimAscii.toString, d, ac, dr, av, co, rj⟩
      | _, _ => none
    | _ => none
  | _ => none

def judgePipe (hdr body : List String) : List String :=
  match parseHdr hdr with
  | none => ["viol pipe/malformed-judge-input"]
  | some (c, lim) =>
    let obs := body.filterMap parseObsLine
    if obs.length != body.length then ["viol pipe/malformed-judge-input"]
    else match judgeRun c.pol { limit := lim } 0 obs with
      | none => ["ok"]
      | some v => ["viol " ++ v]

end HappyModel.C08.Pipe
