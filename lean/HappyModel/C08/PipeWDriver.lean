import HappyModel.Proto
import HappyModel.C08.PipeWSpec
/-! Line protocol for the capacity-unit pipeline model and judge (other side: `hv/props/c08.py`, family `pipew`). -/
namespace HappyModel.C08.PipeW
open HappyModel.Proto

def optNat' (s : String) : Option Nat := if s == "-" || s == "none" then none else nat? s

/-- header: wake admission conc lo hi limit kind cap  (wake, admission = 0 | 1; conc = fixed | dynamic | weighted; lo/hi only for dynamic) -/
def parseHdr : List String → Option (WCfg × Nat)
  | [wk, ad, cm, lo, hi, lim, kind, cap] =>
    let conc : Option Conc := match cm with
      | "fixed" => some .fixed | "weighted" => some .weighted
      | "dynamic" => some (.dynamic (natD lo) (optNat' hi)) | _ => none
    let k : Option QKind := match kind with
      | "fifo" => some .fifo | "lifo" => some .lifo | "prio" => some .prio | _ => none
    match conc, k with
    | some cc, some kd => some ({ wake := wk == "1", admission := ad == "1", conc := cc, kind := kd, cap := optNat' cap }, natD lim)
    | _, _ => none
  | _ => none

/-- `(t, action, weight on a work line)` -/
def parseAct : List String → Option (Nat × Act × Nat)
  | [t, "arr", i, key, w] => some (natD t, .arr ⟨natD i, natD key, natD w⟩, 0)
  | [t, "notify"] => some (natD t, .notify, 0)
  | [t, "poll"] => some (natD t, .poll, 0)
  | [t, "deliver", x] => some (natD t, .deliver (optNat' x), 0)
  | [t, "work", i, w] => some (natD t, .work (natD i), natD w)
  | [t, "disp"] => some (natD t, .disp, 0)
  | [t, "fin", i] => some (natD t, .fin (natD i), 0)
  | [t, "limit", n] => some (natD t, .limit (natD n), 0)
  | _ => none

def showAct (s : WSt) : Act → String
  | .arr it => s!"arr {it.id} {it.key} {it.w}"
  | .notify => "notify"
  | .poll => "poll"
  | .deliver none => "deliver none"
  | .deliver (some i) => s!"deliver {i}"
  | .work i => s!"work {i} {((byId s.works i).map (·.w)).getD 0}"
  | .disp => "disp"
  | .fin i => s!"fin {i}"
  | .limit n => s!"limit {n}"

def showRes : Res → String
  | .err => "err"
  | .accepted b => showBool b
  | .polled b => if b then "poll" else "idle"
  | .popped none => "none"
  | .popped (some i) => toString i
  | .done => "-"
  | .started b => if b then "start" else "reject"

def parseRes (a : Act) (r : String) : Res :=
  if r == "err" then .err else
  match a with
  | .arr _ => .accepted (r == "1")
  | .poll => .popped (optNat' r)
  | .work _ => .started (r == "start")
  | .deliver (some _) | .fin _ => .done
  | _ => .polled (r == "poll")

/-- `<t> <action…> -> <res> | depth acc dropped active completed rejected limit available` -/
def line (t : Nat) (before : WSt) (a : Act) (r : Res) (s : WSt) : String :=
  -- whether `set_limit` woke the driver is not visible at the call; the `notify` delivery that follows is
  let rs := match a with | .limit _ => "-" | _ => showRes r
  s!"{t} {showAct before a} -> {rs} | {s.q.length} {s.acc} {s.dropped} {s.used} {s.completed} {s.rejected} {s.limit} {s.avail}"

def runPipeW (hdr body : List String) : List String :=
  match parseHdr hdr with
  | none => ["bad-config"]
  | some (c, lim) =>
    let acts := body.filterMap (fun l => parseAct (toks l))
    let rec go (s : WSt) : List (Nat × Act × Nat) → List String
      | [] => []
      | (t, a, _) :: rest =>
        let r := step c s a
        line t s a r.2 r.1 :: go r.1 rest
    go { limit := lim } acts

def parseObsLine (l : String) : Option Obs :=
  match l.splitOn " | " with
  | [left, right] =>
    match left.splitOn " -> " with
    | [a, r] =>
      match parseAct (toks a), nats (toks right) with
      | some (t, act, w), [d, ac, dr, av, co, rj, lim, free] =>
        some ⟨t, act, parseRes act r.trimAscii.toString, w, d, ac, dr, av, co, rj, lim, free⟩
      | _, _ => none
    | _ => none
  | _ => none

def judgePipeW (hdr body : List String) : List String :=
  match parseHdr hdr with
  | none => ["viol pipe/malformed-judge-input"]
  | some (c, lim) =>
    let obs := body.filterMap parseObsLine
    if obs.length != body.length then ["viol pipe/malformed-judge-input"]
    else match judgeRun c { limit := lim } 0 obs with
      | none => ["ok"]
      | some v => ["viol " ++ v]

end HappyModel.C08.PipeW
