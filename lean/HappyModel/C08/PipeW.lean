/-!
# C08 part 2b — Queue + QueueDriver + `Server` over every `ConcurrencyModel`, in capacity units

Sibling of `Pipe.lean` for the capacity models of `components/server/concurrency.py`:

* `FixedConcurrency`    — one unit per request, fixed limit;
* `DynamicConcurrency`  — one unit per request, `set_limit` / `scale_up` / `scale_down` move the
  limit inside `[min_limit, max_limit]` while requests are queued and in service;
* `WeightedConcurrency` — a request takes `metadata.weight` units of a fixed pool.

`Server.handle_queued_event` acquires `weight` units, yields the service time, releases `weight`
units.  `QueueDriver._poll_if_ready` asks `target.has_capacity()` — one unit — before it polls.

Two independent switches say which tree is modelled:

* `wake` (default on = /repo HEAD since d187c1c): a `set_limit` that raises the limit while work is
  queued pushes a `QueueNotifyEvent` for the driver.  Off = the code before that commit, where the
  raised limit stayed unused until the next completion (`scale_up_strands_current`).
* `admission` (default off = /repo HEAD): off — a granted poll dequeues whatever the policy hands out; if
  `acquire(weight)` then fails the worker rejects the request and counts it in `requests_rejected`
  (it never starts and takes no capacity).  On — the design suggestion
  `fixes/C08-weighted-head-admission.diff`: the poll carries the worker's admission test, the queue
  applies it to the item it is about to hand out and answers with an empty delivery when it does
  not fit, so nothing is rejected after it left the queue.

The queue is the list specification of the policy (held items in acceptance order, `pick` = what
`pop` returns: oldest / newest / first minimal key); part 1 proves the deque / heap models of
`queue_policy.py` refine exactly this specification (`fifo_order`, `lifo_order`, `prio_stable`).
As in `Pipe.lean` the schedule of deliveries is an input.
-/
namespace HappyModel.C08.PipeW

/-- which `ConcurrencyModel` the server was built with -/
inductive Conc
  | fixed
  | dynamic (lo : Nat) (hi : Option Nat)   -- `min_limit`, `max_limit`
  | weighted
deriving DecidableEq, Repr

inductive QKind | fifo | lifo | prio
deriving DecidableEq, Repr

structure WItem where
  id : Nat
  key : Nat := 0
  w : Nat := 1          -- `metadata.weight`
deriving DecidableEq, Repr

structure WCfg where
  wake : Bool := true       -- a raised limit with work waiting notifies the driver (HEAD)
  admission : Bool := false     -- the head admission test travels with the poll (design suggestion)
  conc : Conc := .fixed
  kind : QKind := .fifo
  cap : Option Nat := none
deriving Repr

/-- capacity units a request takes and gives back: its weight under `WeightedConcurrency`
    (`acquire` raises for a weight below 1, so such requests are never offered), one otherwise -/
def wOf (c : WCfg) (it : WItem) : Nat :=
  match c.conc with
  | .weighted => max it.w 1
  | _ => 1

def sumW (c : WCfg) : List WItem → Nat
  | [] => 0
  | x :: xs => wOf c x + sumW c xs

/-- first item with the smallest key (stable priority order) -/
def firstMinW : List WItem → Option WItem
  | [] => none
  | x :: xs =>
    match firstMinW xs with
    | none => some x
    | some m => if m.key < x.key then some m else some x

/-- the item `policy.pop()` / `policy.peek()` returns -/
def pick : QKind → List WItem → Option WItem
  | .fifo, q => q.head?
  | .lifo, q => q.getLast?
  | .prio, q => firstMinW q

inductive Act
  | arr (it : WItem)           -- a request reaches the resource (enqueue)
  | notify                     -- QueueNotifyEvent reaches the driver
  | poll                       -- QueuePollEvent reaches the queue
  | deliver (x : Option Nat)   -- QueueDeliverEvent (payload id / empty) reaches the driver
  | work (i : Nat)             -- the retargeted payload reaches the worker
  | disp                       -- QueueDispatchedEvent reaches the driver
  | fin (i : Nat)              -- the service generator of item i resumes and finishes
  | limit (n : Nat)            -- `DynamicConcurrency.set_limit(n)` called by a controller
deriving Repr, DecidableEq

inductive Res
  | err
  | accepted (ok : Bool)
  | polled (b : Bool)          -- notify / disp / empty deliver: a poll was emitted; limit: a notify was emitted
  | popped (x : Option Nat)
  | done
  | started (ok : Bool)
deriving Repr, DecidableEq

structure WSt where
  q : List WItem := []                 -- waiting items, acceptance order
  acc : Nat := 0
  dropped : Nat := 0
  busy : Bool := false
  recheck : Bool := false
  nNotify : Nat := 0
  nPoll : Nat := 0
  nDisp : Nat := 0
  delivers : List WItem := []
  nEmpty : Nat := 0
  works : List WItem := []
  used : Nat := 0                      -- `ConcurrencyModel.active`: capacity units in use
  limit : Nat := 1                     -- `ConcurrencyModel.limit`
  inService : List WItem := []
  completed : Nat := 0
  rejected : Nat := 0
deriving Repr

/-- `ConcurrencyModel.available` (Dynamic clamps at 0; Fixed and Weighted never go below) -/
def WSt.avail (s : WSt) : Nat := s.limit - s.used

/-- `has_capacity(weight)` / the test inside `acquire(weight)` for `k` units -/
def fits (s : WSt) (k : Nat) : Bool := decide (s.used + k ≤ s.limit)

def full (c : WCfg) (s : WSt) : Bool :=
  match c.cap with
  | none => false
  | some k => decide (k ≤ s.q.length)

def byId (l : List WItem) (i : Nat) : Option WItem := l.find? (fun x => x.id == i)

/-- `QueueDriver._poll_if_ready`: one round trip at a time, `target.has_capacity()` asks for one unit -/
def pollIfReady (s : WSt) : WSt × Bool :=
  if s.busy then ({ s with recheck := true }, false)
  else if fits s 1 then ({ s with busy := true, recheck := false, nPoll := s.nPoll + 1 }, true)
  else (s, false)

def stepArr (c : WCfg) (s : WSt) (it : WItem) : WSt × Res :=
  if full c s then ({ s with dropped := s.dropped + 1 }, .accepted false)
  else
    ({ s with q := s.q ++ [it], acc := s.acc + 1,
              nNotify := if s.q.isEmpty then s.nNotify + 1 else s.nNotify }, .accepted true)

def stepNotify (s : WSt) : WSt × Res :=
  if s.nNotify = 0 then (s, .err)
  else ((pollIfReady { s with nNotify := s.nNotify - 1 }).1, .polled (pollIfReady { s with nNotify := s.nNotify - 1 }).2)

/-- may the queue hand `it` out now?  (`admission`: the worker's admission test travels with the poll) -/
def admits (c : WCfg) (s : WSt) (it : WItem) : Bool :=
  if c.admission then fits s (wOf c it) else true

def stepPoll (c : WCfg) (s : WSt) : WSt × Res :=
  if s.nPoll = 0 then (s, .err)
  else
    match pick c.kind s.q with
    | none => ({ s with nPoll := s.nPoll - 1, nEmpty := s.nEmpty + 1 }, .popped none)
    | some it =>
      if admits c s it then
        ({ s with nPoll := s.nPoll - 1, q := s.q.erase it, delivers := s.delivers ++ [it] }, .popped (some it.id))
      else ({ s with nPoll := s.nPoll - 1, nEmpty := s.nEmpty + 1 }, .popped none)

def stepDeliver (s : WSt) : Option Nat → WSt × Res
  | some i =>
    match byId s.delivers i with
    | none => (s, .err)
    | some it => ({ s with delivers := s.delivers.erase it, works := s.works ++ [it], nDisp := s.nDisp + 1 }, .done)
  | none =>
    if s.nEmpty = 0 then (s, .err)
    else if s.recheck then
      ((pollIfReady { s with nEmpty := s.nEmpty - 1, busy := false }).1,
       .polled (pollIfReady { s with nEmpty := s.nEmpty - 1, busy := false }).2)
    else ({ s with nEmpty := s.nEmpty - 1, busy := false }, .polled false)

def stepDisp (s : WSt) : WSt × Res :=
  if s.nDisp = 0 then (s, .err)
  else
    ((pollIfReady { s with nDisp := s.nDisp - 1, busy := false }).1,
     .polled (pollIfReady { s with nDisp := s.nDisp - 1, busy := false }).2)

/-- `Server.handle_queued_event` up to its first yield: `acquire(weight)` or reject -/
def stepWork (c : WCfg) (s : WSt) (i : Nat) : WSt × Res :=
  match byId s.works i with
  | none => (s, .err)
  | some it =>
    if fits s (wOf c it) then
      ({ s with works := s.works.erase it, used := s.used + wOf c it, inService := s.inService ++ [it] }, .started true)
    else
      -- rejected and counted (`requests_rejected`); the generator returns before its first yield,
      -- so the completion hook runs at once
      ((pollIfReady { s with works := s.works.erase it, rejected := s.rejected + 1 }).1, .started false)

/-- the rest of `handle_queued_event`: `release(weight)`, count, completion hook -/
def stepFin (c : WCfg) (s : WSt) (i : Nat) : WSt × Res :=
  match byId s.inService i with
  | none => (s, .err)
  | some it =>
    ((pollIfReady { s with inService := s.inService.erase it, used := s.used - wOf c it,
                           completed := s.completed + 1 }).1, .done)

/-- `DynamicConcurrency.set_limit`: clamp into `[min_limit, max_limit]` -/
def clampLimit (lo : Nat) (hi : Option Nat) (n : Nat) : Nat :=
  match hi with
  | none => max lo n
  | some h => min h (max lo n)

def newLimit (c : WCfg) (s : WSt) (n : Nat) : Nat :=
  match c.conc with
  | .dynamic lo hi => clampLimit lo hi n
  | _ => s.limit

def stepLimit (c : WCfg) (s : WSt) (n : Nat) : WSt × Res :=
  if c.wake = true ∧ s.limit < newLimit c s n ∧ s.q ≠ [] then
    ({ s with limit := newLimit c s n, nNotify := s.nNotify + 1 }, .polled true)
  else ({ s with limit := newLimit c s n }, .polled false)

def step (c : WCfg) (s : WSt) : Act → WSt × Res
  | .arr it => stepArr c s it
  | .notify => stepNotify s
  | .poll => stepPoll c s
  | .deliver x => stepDeliver s x
  | .work i => stepWork c s i
  | .disp => stepDisp s
  | .fin i => stepFin c s i
  | .limit n => stepLimit c s n

def run (c : WCfg) : WSt → List Act → List (Res × WSt)
  | _, [] => []
  | s, a :: as => ((step c s a).2, (step c s a).1) :: run c (step c s a).1 as

def final (c : WCfg) : WSt → List Act → WSt
  | s, [] => s
  | s, a :: as => final c (step c s a).1 as

/-- no component event is pending: the instant is over for this component -/
def quiescent (s : WSt) : Bool :=
  s.nNotify == 0 && s.nPoll == 0 && s.nDisp == 0 && s.nEmpty == 0 && s.delivers.isEmpty && s.works.isEmpty

end HappyModel.C08.PipeW
