import HappyModel.C08.Policy
/-!
# C08 part 1 — the list specification of every queue policy, and the judge

"Items leave a queue in the order its policy defines (FIFO, LIFO, stable priority, deadline, fair
share) and a policy never holds more than its capacity, with enqueued = dequeued + dropped + held
at all times."

The specification state is only the list `held` of accepted and not yet removed items **in
acceptance order** (plus, for the fair-share policies, a service ticket per backlogged flow).
What each policy must return is a function of that list:

* FIFO (also RED, CoDel, Balking∘FIFO): the oldest held item;
* LIFO: the newest; AdaptiveLIFO: newest when `len ≥ threshold`, else oldest;
* stable priority: the first item (in acceptance order) whose key is ≤ every held key;
* deadline: every held item with `deadline < now` is dropped and counted, never returned; the
  answer is the stable minimum of the remaining ones;
* fair share: the backlogged flow that was served (or became backlogged) least recently is served
  next, oldest item first; a flow of weight w keeps its turn for w consecutive items.

`judge` evaluates this on what an implementation reported (results, `len`, statistics).
-/
namespace HappyModel.C08

/-- a backlogged flow in the specification: when it last got the turn, and what is left of it -/
structure Act where
  fid : Nat
  ticket : Nat
  credits : Nat
  weight : Nat
deriving Repr, DecidableEq

structure SSt where
  held : List Item := []
  act : List Act := []
  clock : Nat := 0
  acc : Nat := 0      -- accepted pushes
  deq : Nat := 0      -- items returned by pop
  drp : Nat := 0      -- items dropped after acceptance (expired, CoDel)
deriving Repr

def removeFirst (p : Item → Bool) : List Item → List Item
  | [] => []
  | x :: xs => if p x then xs else x :: removeFirst p xs

def isMinIn (l : List Item) (x : Item) : Bool := l.all fun y => decide (x.key ≤ y.key)

/-- stable minimum: first item in acceptance order whose key is minimal -/
def firstMin (l : List Item) : Option Item := l.find? (isMinIn l)

def minAct : List Act → Option Act
  | [] => none
  | a :: as =>
    match minAct as with
    | none => some a
    | some m => if m.ticket < a.ticket then some m else some a

def SSt.accept (s : SSt) (it : Item) : SSt := { s with held := s.held ++ [it], acc := s.acc + 1 }

def SSt.activate (s : SSt) (f w : Nat) : SSt :=
  { s with act := s.act ++ [⟨f, s.clock, w, w⟩], clock := s.clock + 1 }

def sPushInner (c : Cfg) (s : SSt) (it : Item) (rdrop : Bool) : SSt × Bool :=
  let n := s.held.length
  let fl := s.held.filter (·.flow == it.flow)
  match c.kind with
  | .fair =>
    if fl.isEmpty then
      if capFull c.maxFlows s.act.length then (s, false) else ((s.accept it).activate it.flow 1, true)
    else if capFull c.perFlow fl.length then (s, false) else (s.accept it, true)
  | .wfq =>
    if capFull c.cap n then (s, false)
    else if fl.isEmpty then ((s.accept it).activate it.flow (weightOf c it.flow), true)
    else if capFull c.perFlow fl.length then (s, false) else (s.accept it, true)
  | .red => if capFull c.cap n then (s, false) else if rdrop then (s, false) else (s.accept it, true)
  | _ => if capFull c.cap n then (s, false) else (s.accept it, true)

def sPush (c : Cfg) (s : SSt) (it : Item) (coin rdrop : Bool) : SSt × Bool :=
  match c.balk with
  | some t => if decide (t ≤ s.held.length) && coin then (s, false) else sPushInner c s it rdrop
  | none => sPushInner c s it rdrop

/-- which held item the policy defines as next (no state change) -/
def sChoose (c : Cfg) (s : SSt) (now : Nat) : Option Item :=
  match c.kind with
  | .fifo | .red | .codel => s.held.head?
  | .lifo => s.held.getLast?
  | .adaptive => if decide (c.thr ≤ s.held.length) then s.held.getLast? else s.held.head?
  | .prio => firstMin s.held
  | .deadline => firstMin (s.held.filter fun x => decide (now ≤ x.key))
  | .fair | .wfq =>
    match minAct s.act with
    | none => none
    | some a => s.held.find? (·.flow == a.fid)

/-- the turn bookkeeping after flow `a` was served once -/
def serveAct (s : SSt) (a : Act) (stillBacklogged : Bool) : SSt :=
  let others := s.act.filter (·.fid != a.fid)
  if !stillBacklogged then { s with act := others }
  else if a.credits ≤ 1 then
    { s with act := others ++ [{ a with ticket := s.clock, credits := a.weight }], clock := s.clock + 1 }
  else { s with act := s.act.map fun b => if b.fid == a.fid then { b with credits := b.credits - 1 } else b }

def sPop (c : Cfg) (s : SSt) (now k : Nat) : SSt × Option Item :=
  match c.kind with
  | .fifo | .red =>
    match s.held with
    | [] => (s, none)
    | x :: xs => ({ s with held := xs, deq := s.deq + 1 }, some x)
  | .codel =>
    match s.held with
    | [] => (s, none)
    | x :: xs =>
      let d := min k xs.length
      ({ s with held := xs.drop d, deq := s.deq + 1, drp := s.drp + d }, some x)
  | .lifo =>
    match s.held.getLast? with
    | none => (s, none)
    | some x => ({ s with held := s.held.dropLast, deq := s.deq + 1 }, some x)
  | .adaptive =>
    if decide (c.thr ≤ s.held.length) then
      match s.held.getLast? with
      | none => (s, none)
      | some x => ({ s with held := s.held.dropLast, deq := s.deq + 1 }, some x)
    else
      match s.held with
      | [] => (s, none)
      | x :: xs => ({ s with held := xs, deq := s.deq + 1 }, some x)
  | .prio =>
    match firstMin s.held with
    | none => (s, none)
    | some x => ({ s with held := removeFirst (isMinIn s.held) s.held, deq := s.deq + 1 }, some x)
  | .deadline =>
    let live := s.held.filter fun x => decide (now ≤ x.key)
    let s1 := { s with held := live, drp := s.drp + (s.held.length - live.length) }
    match firstMin live with
    | none => (s1, none)
    | some x => ({ s1 with held := removeFirst (isMinIn live) live, deq := s1.deq + 1 }, some x)
  | .fair | .wfq =>
    match minAct s.act with
    | none => (s, none)
    | some a =>
      match s.held.find? (·.flow == a.fid) with
      | none => (s, none)
      | some x =>
        let held' := removeFirst (·.flow == a.fid) s.held
        let s1 := { s with held := held', deq := s.deq + 1 }
        (serveAct s1 a (held'.any (·.flow == a.fid)), some x)

/-- `purge_expired` in the specification: exactly the held items whose deadline has passed leave,
    counted as dropped; the others stay held in acceptance order (so the order law of the next
    pops is the one of `sPop` on the survivors) -/
def sPurge (c : Cfg) (s : SSt) (now : Nat) : SSt × Nat :=
  match c.kind with
  | .deadline =>
    let live := s.held.filter fun x => decide (now ≤ x.key)
    ({ s with held := live, drp := s.drp + (s.held.length - live.length) }, s.held.length - live.length)
  | _ => (s, 0)

/-- what the read-only accessors must answer, as a function of the held list / backlogged flows -/
def sQuery (c : Cfg) (s : SSt) (now f : Nat) : List Nat :=
  match c.kind with
  | .deadline =>
    let live := (s.held.filter fun x => decide (now ≤ x.key)).length
    [s.held.length - live, live]
  | .fair => [(s.held.filter (·.flow == f)).length, s.act.length]
  | .wfq =>
    [(s.held.filter (·.flow == f)).length, s.act.length,
     match s.act.find? (·.fid == f) with
     | some a => a.weight
     | none => c.weights.getD f 1]
  | .adaptive => [if decide (c.thr ≤ s.held.length) then 1 else 0]
  | _ => []

def sStep (c : Cfg) (s : SSt) : Op → SSt × Out
  | .push it _ coin rdrop => ((sPush c s it coin rdrop).1, .pushed (sPush c s it coin rdrop).2)
  | .pop now k => ((sPop c s now k).1, .popped (sPop c s now k).2)
  | .peek now => (s, .peeked (sChoose c s now))
  | .purge now => ((sPurge c s now).1, .purged (sPurge c s now).2)
  | .query now f => (s, .info (sQuery c s now f))

def sRun (c : Cfg) : SSt → List Op → List (Out × SSt)
  | _, [] => []
  | s, o :: os => ((sStep c s o).2, (sStep c s o).1) :: sRun c (sStep c s o).1 os

/-- total capacity a policy advertises (`QueuePolicy.capacity`), `none` = unbounded -/
def capOf (c : Cfg) : Option Nat :=
  match c.kind with
  | .fair =>
    match c.maxFlows, c.perFlow with
    | some m, some p => some (m * p)
    | _, _ => none
  | _ => c.cap

/-! ## the judge: the specification evaluated on an implementation's own answers -/

/-- what an implementation reported for one operation -/
structure PObs where
  out : Out
  len : Nat
  stats : Option (Nat × Nat × Nat)    -- (enqueued, dequeued, dropped-after-acceptance) if the policy has statistics
deriving Repr

def kindName : Kind → String
  | .fifo => "fifo" | .lifo => "lifo" | .prio => "priority" | .deadline => "deadline"
  | .adaptive => "adaptive-lifo" | .red => "red" | .codel => "codel" | .fair => "fair" | .wfq => "weighted-fair"

def judgeOne (c : Cfg) (s : SSt) (o : Op) (ob : PObs) : Option String :=
  let pre := "policy/" ++ kindName c.kind ++ "/"
  let exp := sStep c s o
  let s' := exp.1
  let outViol : Option String :=
    match exp.2, ob.out with
    | .pushed e, .pushed g =>
      if e == g then none
      else if g then some (pre ++ "accepted-beyond-capacity") else some (pre ++ "rejected-with-room")
    | .popped e, .popped g =>
      if e == g then none
      else match g with
        | none => some (pre ++ "pop-none-but-work-waiting")
        | some x =>
          if !(s.held.contains x) then some (pre ++ "pop-item-not-held")
          else if c.kind == .deadline && e != some x && decide (x.key < (match o with | .pop now _ => now | _ => 0)) then
            some (pre ++ "expired-item-returned")
          else some (pre ++ "order")
    | .peeked e, .peeked g => if e == g then none else some (pre ++ "peek-differs-from-next-pop")
    | .purged e, .purged g =>
      if e == g then none
      else if e < g then some (pre ++ "purge-removed-live-item") else some (pre ++ "purge-kept-expired-item")
    | .info e, .info g => if e == g then none else some (pre ++ "accessor-differs-from-held")
    | _, _ => some (pre ++ "malformed-observation")
  match outViol with
  | some v => some v
  | none =>
    if ob.len != s'.held.length then some (pre ++ "len-not-held-count")
    else if capFull ((capOf c).map (· + 1)) ob.len then some (pre ++ "held-exceeds-capacity")
    else
      match ob.stats with
      | none => none
      | some (e, d, x) =>
        if e != d + x + ob.len then some (pre ++ "conservation")
        else if e != s'.acc || d != s'.deq || x != s'.drp then some (pre ++ "statistics-miscount")
        else none

def judge (c : Cfg) : SSt → Nat → List (Op × PObs) → Option String
  | _, _, [] => none
  | s, i, (o, ob) :: rest =>
    match judgeOne c s o ob with
    | some v => some (v ++ " at-op " ++ toString i)
    | none => judge c (sStep c s o).1 (i + 1) rest

end HappyModel.C08
