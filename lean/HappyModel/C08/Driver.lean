import HappyModel.Proto
import HappyModel.C08.PolicySpec
import HappyModel.C08.PipeDriver
import HappyModel.C08.PipeWDriver
import HappyModel.C08.IndusDriver
/-! Line-protocol driver for C08 (other side: `hv/props/c08.py`). -/
namespace HappyModel.C08.Driver
open HappyModel.Proto HappyModel.C08

def optNat (s : String) : Option Nat := if s == "-" then none else nat? s

def parseKind : String → Option Kind
  | "fifo" => some .fifo | "lifo" => some .lifo | "prio" => some .prio | "deadline" => some .deadline
  | "adaptive" => some .adaptive | "red" => some .red | "codel" => some .codel
  | "fair" => some .fair | "wfq" => some .wfq | _ => none

/-- header: kind cap thr maxflows perflow balk w0 w1 … (`-` = none) -/
def parseCfg : List String → Option Cfg
  | k :: cap :: thr :: mf :: pf :: balk :: ws =>
    (parseKind k).map fun kind =>
      { kind, cap := optNat cap, thr := natD thr, maxFlows := optNat mf, perFlow := optNat pf,
        balk := optNat balk, weights := nats ws }
  | _ => none

def parseOp (ts : List String) : Option Op :=
  match ts with
  | ["push", id, key, flow, now, coin, rdrop] =>
    some (.push ⟨natD id, natD key, natD flow⟩ (natD now) (coin == "1") (rdrop == "1"))
  | ["pop", now, k] => some (.pop (natD now) (natD k))
  | ["peek", now] => some (.peek (natD now))
  | ["purge", now] => some (.purge (natD now))
  | ["query", now, f] => some (.query (natD now) (natD f))
  | _ => none

def showItem : Option Item → String
  | none => "none"
  | some x => toString x.id

def showOut : Out → String
  | .pushed ok => "push " ++ showBool ok
  | .popped r => "pop " ++ showItem r
  | .peeked r => "peek " ++ showItem r
  | .purged n => "purge " ++ toString n
  | .info xs => "query " ++ (if xs.isEmpty then "-" else ",".intercalate (xs.map toString))

def statsOf (c : Cfg) (s : St) : List Nat :=
  let base :=
    match c.kind with
    | .fifo | .lifo | .prio => []
    | .deadline | .codel => [s.enq, s.deq, s.drp, s.rejA]
    | .red => [s.enq, s.deq, s.rdrp, s.rejA]
    | .adaptive => [s.enq, s.deq, s.deqL, s.rejA, s.switches]
    | .fair => [s.enq, s.deq, s.rejA, s.rejB, s.created, s.removed, s.flows.length]
    | .wfq => [s.enq, s.deq, s.rejA, s.created, s.removed, s.flows.length]
  match c.balk with
  | some _ => s.balked :: base
  | none => base

def outLine (c : Cfg) (o : Out) (s : St) : String :=
  s!"{showOut o} {len c s} | {showNats (statsOf c s)}".trimAscii.toString

def runPolicy (hdr body : List String) : List String :=
  match parseCfg hdr with
  | none => ["bad-config"]
  | some c =>
    let ops := body.filterMap (fun l => parseOp (toks l))
    (run c {} ops).map fun (o, s) => outLine c o s

/-- `obs <0|1|id|none> <len> [enq deq drp]` -/
def parseObs (o : Op) (items : List Item) (ts : List String) : Option PObs :=
  match ts with
  | "obs" :: r :: ln :: rest =>
    let item? : Option Item :=
      if r == "none" then none
      else some ((items.find? (·.id == natD r)).getD ⟨natD r, 0, 0⟩)
    let out : Out :=
      match o with
      | .push .. => .pushed (r == "1")
      | .pop .. => .popped item?
      | .peek .. => .peeked item?
      | .purge .. => .purged (natD r)
      | .query .. => .info (if r == "-" then [] else (r.splitOn ",").map natD)
    let stats := match rest with
      | [e, d, x] => some (natD e, natD d, natD x)
      | _ => none
    some ⟨out, natD ln, stats⟩
  | _ => none

def judgePolicy (hdr body : List String) : List String :=
  match parseCfg hdr with
  | none => ["viol policy/malformed-judge-input"]
  | some c =>
    let items := body.filterMap fun l =>
      match parseOp (toks l) with
      | some (.push it ..) => some it
      | _ => none
    let rec pairs : List String → List (Op × PObs)
      | a :: b :: rest =>
        match parseOp (toks a) with
        | some o =>
          match parseObs o items (toks b) with
          | some ob => (o, ob) :: pairs rest
          | none => pairs rest
        | none => pairs rest
      | _ => []
    let ps := pairs body
    if ps.length * 2 != body.length then ["viol policy/malformed-judge-input"]
    else match judge c {} 0 ps with
      | none => ["ok"]
      | some v => ["viol " ++ v]

def handle (hdr : List String) (body : List String) : List String :=
  match hdr with
  | "policy" :: rest => runPolicy rest body
  | "judge-policy" :: rest => judgePolicy rest body
  | "pipe" :: rest => Pipe.runPipe rest body
  | "judge-pipe" :: rest => Pipe.judgePipe rest body
  | "pipew" :: rest => PipeW.runPipeW rest body
  | "judge-pipew" :: rest => PipeW.judgePipeW rest body
  | "indus" :: rest => Indus.runIndus rest body
  | "judge-indus" :: rest => Indus.judgeIndus rest body
  | _ => ["bad-mode"]

end HappyModel.C08.Driver
