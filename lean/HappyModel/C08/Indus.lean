/-!
# C08 part 3 — the industrial queue-fronted components: the item-state partition as a decidable
predicate over an observed run

"Each event offered to a queue-fronted component is at every instant exactly one of
rejected-and-counted, waiting, in service, or completed exactly once; work in service never exceeds
the concurrency limit, and no simulated time passes while an item waits and the worker has free
capacity for it."

Components: `PooledCycleResource` (pool of units + FIFO overflow queue), `ConveyorBelt` (fixed transit,
capacity), `GateController` (FIFO queue while closed), `BatchProcessor` (buffer, one batch in process),
`RenegingQueuedResource` (FIFO queue, dequeued items renege when they waited longer than their patience).

The judge reads the log of deliveries an observer of the public entities sees (`Obs`: clock, action,
what the handler answered, the public counters) and keeps — from that log alone, never from a model
state — the population every offered id is in:

  refused | waiting | transit (dequeued, on its way to the worker inside one instant) | in service |
  finished (left the component, not yet seen by the sink) | done | reneged-pending | reneged-done.

The in-service population and the list of ids seen at the sink are kept by `svcStep` / `doneStep`,
functions of the observation only, so that the soundness theorems
`HappyProofs/C08/IndusProps.lean: judge_sound_in_service, judge_sound_done_once` can speak about them
without the rest of the book.
-/
namespace HappyModel.C08.Indus

inductive Comp | pooled | conveyor | gate | batch | reneging
deriving DecidableEq, Repr

def Comp.name : Comp → String
  | .pooled => "pooled" | .conveyor => "conveyor" | .gate => "gate" | .batch => "batch" | .reneging => "reneging"

/-- configuration as far as the property needs it -/
structure Cfg where
  comp : Comp := .pooled
  /-- pool size / conveyor capacity / batch size / reneging concurrency -/
  limit : Nat := 1
  /-- conveyor with capacity 0: no limit -/
  unlimited : Bool := false
  /-- capacity of the waiting room (`none`: unbounded) -/
  qcap : Option Nat := none
  /-- batch flush timeout in ns (0: disabled) -/
  timeout : Nat := 0
  initOpen : Bool := true
  /-- reneging: a `reneged_target` is configured (`false`: reneged items are counted and discarded) -/
  rtarget : Bool := true
  /-- pooled: a `downstream` is configured (`false`: completed items are counted and leave) -/
  sink : Bool := true
  /-- model only: the variant of /repo with `fixes/C08-indus-pooled-dequeued-item-overtaken.diff` and
  `fixes/C08-indus-batch-size-one-waits-for-timeout.diff` applied (the judge does not look at it) -/
  repaired : Bool := true
  /-- batch: batches are independent services that may be in process side by side (`BatchProcessor` never
  reads `_processing`; DESIGN 13.6).  The one-batch limit is then not judged; a due flush timeout must start
  its batch whatever else is in process, and every other clause stays. -/
  overlap : Bool := false
  /-- gate: the `schedule` of the controller, `(open_at, close_at)` in ns, in the order it was given -/
  windows : List (Nat × Nat) := []
deriving Repr

inductive Act
  | offer (id : Nat) (pat : Option Nat)   -- an item reaches the component (patience in ns, reneging only)
  | fin (id : Nat)                        -- the service of item `id` ends
  | done (id : Nat)                       -- item `id` reaches the downstream sink
  | rdone (id : Nat)                      -- item `id` reaches the reneged-target sink
  | openG | closeG                        -- gate schedule events
  | copen | cclose                        -- gate: programmatic `open()` / `close()`
  | timeout                               -- batch timeout event
  | bfin (k : Nat)                        -- batch number `k` (in start order) ends
  | deq                                   -- the queue is polled (reneging)
  | work (id : Nat)                       -- the dequeued item reaches the worker (reneging)
deriving DecidableEq, Repr

inductive Res
  | start | wait | rej | pass | acc | renege | idle | dash | none_
  | got (id : Nat)
  | err
deriving DecidableEq, Repr

structure Obs where
  t : Nat
  act : Act
  res : Res
  ctr : List Nat
  /-- the component reported a negative counter (carried as 0 in `ctr`) -/
  neg : Bool := false
deriving Repr

/-! ## in-service population (function of the observations only) -/

structure Svc where
  ids : List Nat := []     -- item ids (batch: batch numbers) started and not finished
  next : Nat := 0          -- batch: number of the next batch
deriving Repr, DecidableEq

def svcStep (c : Comp) (s : Svc) (o : Obs) : Svc :=
  match c, o.act, o.res with
  | .pooled, .offer id _, .start => { s with ids := s.ids ++ [id] }
  | .conveyor, .offer id _, .start => { s with ids := s.ids ++ [id] }
  | .reneging, .work id, .start => { s with ids := s.ids ++ [id] }
  | .batch, .offer _ _, .start => { ids := s.ids ++ [s.next], next := s.next + 1 }
  | .batch, .timeout, .start => { ids := s.ids ++ [s.next], next := s.next + 1 }
  | .batch, .bfin k, _ => { s with ids := s.ids.erase k }
  | .pooled, .fin id, _ => { s with ids := s.ids.erase id }
  | .conveyor, .fin id, _ => { s with ids := s.ids.erase id }
  | .reneging, .fin id, _ => { s with ids := s.ids.erase id }
  | _, _, _ => s

/-- ids seen at the downstream sink, latest first (function of the observations only) -/
def doneStep (d : List Nat) (o : Obs) : List Nat :=
  match o.act with
  | .done id => id :: d
  | _ => d

/-- the concurrency limit of the configuration is exceeded by `n` items in service -/
def overLimit (cfg : Cfg) (n : Nat) : Bool :=
  match cfg.comp with
  | .pooled | .reneging => decide (cfg.limit < n)
  | .conveyor => !cfg.unlimited && decide (cfg.limit < n)
  | .batch => !cfg.overlap && decide (1 < n)
  | .gate => false

/-! ## the book -/

structure WItem where
  id : Nat
  t : Nat                      -- instant of the offer
  pat : Option Nat := none     -- patience (ns)
deriving Repr, DecidableEq

structure Book where
  offered : List Nat := []
  refused : List Nat := []
  waiting : List WItem := []
  transit : List WItem := []
  svc : Svc := {}
  batches : List (Nat × List Nat) := []
  finished : List Nat := []
  done : List Nat := []
  rpending : List Nat := []
  rdone : List Nat := []
  isOpen : Bool := true
  accepted : Nat := 0
  completed : Nat := 0         -- items whose service ended (pooled completed / conveyor transported / batch items_processed)
  passed : Nat := 0            -- gate passed_through
  queuedTotal : Nat := 0       -- gate queued_while_closed
  cycles : Nat := 0            -- gate open_cycles
  batchesDone : Nat := 0
  timeouts : Nat := 0
  served : Nat := 0
  reneged : Nat := 0
  lastT : Nat := 0
  started : Bool := false
  ctlSeen : Bool := false      -- gate: a programmatic open()/close() happened (the schedule no longer decides alone)
deriving Repr

/-- instant `t` lies in a window of the schedule (`open_at <= t < close_at`) -/
def covered (ws : List (Nat × Nat)) (t : Nat) : Bool := ws.any fun w => decide (w.1 ≤ t) && decide (t < w.2)

/-- some non-empty window of the schedule meets the stretch `[from, to)` of the clock (`to = none`: for ever) -/
def windowMeets (ws : List (Nat × Nat)) (frm : Nat) (to : Option Nat) : Bool :=
  ws.any fun w => decide (w.1 < w.2) && decide (frm < w.2) && (match to with | none => true | some t' => decide (w.1 < t'))

def full (cap : Option Nat) (n : Nat) : Bool :=
  match cap with
  | none => false
  | some k => decide (k ≤ n)

def sig (c : Comp) (s : String) : String := "indus/" ++ c.name ++ "/" ++ s

/-- arrival of item `id` at the downstream sink -/
def judgeDone (c : Comp) (j : Book) (id : Nat) : Except String Book :=
  if j.done.contains id then .error (sig c "completed-twice")
  else if !j.offered.contains id then .error (sig c "unknown-item")
  else if j.refused.contains id then .error (sig c "rejected-item-delivered")
  else if j.waiting.any (·.id == id) && c == .gate then .error (sig c "passed-while-closed")
  else if !j.finished.contains id then .error (sig c "delivered-not-finished")
  else if j.finished.head? != some id then .error (sig c "order")
  else .ok { j with finished := j.finished.erase id }     -- `done` is advanced by `judgeObs` (`doneStep`)

def judgePooled (cfg : Cfg) (j : Book) (o : Obs) : Except String Book :=
  let S := sig .pooled
  match o.act with
  | .offer id _ =>
    if j.transit.any (·.id == id) then
      -- re-delivery of the item a completion took out of the queue
      if (j.transit.head?.map (·.id)) != some id then .error (S "order")
      else match o.res with
        | .start => .ok { j with transit := j.transit.filter (·.id != id) }
        | .wait => .error (S "dequeued-item-requeued")
        | .rej => .error (S "accepted-item-rejected")
        | _ => .error (S "malformed-observation")
    else if j.waiting.any (·.id == id) then .error (S "order")   -- re-delivered, but not from the head of the queue
    else if j.offered.contains id then .error (S "offered-twice")
    else
      let free := cfg.limit - (j.svc.ids.length + j.transit.length)
      let isFull := full cfg.qcap j.waiting.length
      let j' := { j with offered := id :: j.offered }
      match o.res with
      | .start =>
        -- a unit freed for a dequeued item is not free for a later arrival
        if free == 0 && !j.transit.isEmpty then .error (S "order")
        else .ok { j' with accepted := j.accepted + 1 }
      | .wait =>
        if free != 0 then .error (S "queued-with-free-unit")
        else if isFull then .error (S "accepted-beyond-capacity")
        else .ok { j' with waiting := j.waiting ++ [⟨id, o.t, none⟩], accepted := j.accepted + 1 }
      | .rej =>
        if free != 0 || !isFull then .error (S "rejected-with-room")
        else .ok { j' with refused := id :: j.refused }
      | _ => .error (S "malformed-observation")
  | .fin id =>
    if !j.svc.ids.contains id then .error (S "completed-not-in-service")
    else
      -- without a downstream the completed item is counted and leaves the system
      let j' := { j with finished := if cfg.sink then j.finished ++ [id] else j.finished, completed := j.completed + 1 }
      match j.waiting with
      | [] => .ok j'
      | w :: rest => .ok { j' with waiting := rest, transit := j.transit ++ [w] }
  | .done id => judgeDone .pooled j id
  | _ => .error (S "malformed-observation")

def judgeConveyor (cfg : Cfg) (j : Book) (o : Obs) : Except String Book :=
  let S := sig .conveyor
  match o.act with
  | .offer id _ =>
    if j.offered.contains id then .error (S "offered-twice")
    else
      let isFull := !cfg.unlimited && decide (cfg.limit ≤ j.svc.ids.length)
      let j' := { j with offered := id :: j.offered }
      match o.res with
      | .start => .ok { j' with accepted := j.accepted + 1 }
      -- handed over in the very instant of the offer (no transport process): service started and ended at once
      | .pass =>
        if isFull then .error (S "in-service-exceeds-limit")
        else .ok { j' with accepted := j.accepted + 1, finished := j.finished ++ [id], completed := j.completed + 1 }
      | .rej => if !isFull then .error (S "rejected-with-room") else .ok { j' with refused := id :: j.refused }
      -- neither carried, nor handed over, nor counted as rejected
      | .none_ => .error (S "accepted-item-discarded")
      | _ => .error (S "malformed-observation")
  | .fin id =>
    if !j.svc.ids.contains id then .error (S "completed-not-in-service")
    else if j.svc.ids.head? != some id then .error (S "order")
    else .ok { j with finished := j.finished ++ [id], completed := j.completed + 1 }
  | .done id => judgeDone .conveyor j id
  | _ => .error (S "malformed-observation")

/-- the gate opens (no-op when it is open): everything queued is flushed downstream in order -/
def gateOpens (j : Book) : Book :=
  if j.isOpen then j
  else { j with isOpen := true, cycles := j.cycles + 1, finished := j.finished ++ j.waiting.map (·.id),
                passed := j.passed + j.waiting.length, waiting := [] }

def judgeGate (cfg : Cfg) (j : Book) (o : Obs) : Except String Book :=
  let S := sig .gate
  match o.act with
  | .offer id _ =>
    if j.offered.contains id then .error (S "offered-twice")
    else
      let j' := { j with offered := id :: j.offered }
      let isFull := full cfg.qcap j.waiting.length
      if j.isOpen then
        match o.res with
        | .pass => .ok { j' with finished := j.finished ++ [id], passed := j.passed + 1, accepted := j.accepted + 1 }
        | .wait => .error (S "held-while-open")
        | .rej => .error (S "rejected-while-open")
        | _ => .error (S "malformed-observation")
      else
        match o.res with
        | .pass => .error (S "passed-while-closed")
        | .wait =>
          if isFull then .error (S "accepted-beyond-capacity")
          else .ok { j' with waiting := j.waiting ++ [⟨id, o.t, none⟩], queuedTotal := j.queuedTotal + 1, accepted := j.accepted + 1 }
        | .rej => if !isFull then .error (S "rejected-with-room") else .ok { j' with refused := id :: j.refused }
        | _ => .error (S "malformed-observation")
  | .openG => .ok (gateOpens j)
  | .copen => .ok { gateOpens j with ctlSeen := true }
  | .closeG =>
    -- a schedule close may leave the gate open only while another window of the schedule covers the instant
    if o.ctr.head? == some 1 && j.isOpen then
      if covered cfg.windows o.t then .ok j else .error (S "close-ignored")
    else .ok { j with isOpen := false }
  | .cclose => .ok { j with isOpen := false, ctlSeen := true }
  | .done id => judgeDone .gate j id
  | _ => .error (S "malformed-observation")

def judgeBatch (cfg : Cfg) (j : Book) (o : Obs) : Except String Book :=
  let S := sig .batch
  let startBatch (j : Book) (ids : List Nat) : Book :=
    { j with batches := j.batches ++ [(j.svc.next, ids)], waiting := [] }
  match o.act with
  | .offer id _ =>
    if j.offered.contains id then .error (S "offered-twice")
    else
      let j' := { j with offered := id :: j.offered, accepted := j.accepted + 1 }
      match o.res with
      | .wait => .ok { j' with waiting := j.waiting ++ [⟨id, o.t, none⟩] }
      | .start =>
        if j.waiting.length + 1 < cfg.limit then .error (S "started-partial-batch")
        else if cfg.limit != 0 && decide (cfg.limit < j.waiting.length + 1) then .error (S "batch-exceeds-batch-size")
        else .ok (startBatch j' (j.waiting.map (·.id) ++ [id]))
      | _ => .error (S "malformed-observation")
  | .timeout =>
    match o.res with
    | .idle => .ok j
    | .start =>
      match j.waiting with
      | [] => .error (S "timeout-at-wrong-time")
      | w :: _ =>
        if cfg.timeout == 0 || w.t + cfg.timeout != o.t then .error (S "timeout-at-wrong-time")
        else .ok (startBatch { j with timeouts := j.timeouts + 1 } (j.waiting.map (·.id)))
    | _ => .error (S "malformed-observation")
  | .bfin k =>
    match j.batches.find? (·.1 == k) with
    | none => .error (S "completed-not-in-service")
    | some (_, ids) =>
      if !j.svc.ids.contains k then .error (S "completed-not-in-service")
      else .ok { j with batches := j.batches.filter (·.1 != k), finished := j.finished ++ ids,
                        completed := j.completed + ids.length, batchesDone := j.batchesDone + 1 }
  | .done id => judgeDone .batch j id
  | _ => .error (S "malformed-observation")

/-- has the item waited longer than its patience at instant `now`? -/
def expired (w : WItem) (now : Nat) : Bool :=
  match w.pat with
  | none => false
  | some p => decide (p < now - w.t)

/-- reneging counters are `depth accepted dropped served reneged active`: the delivery of one dequeued
item to the worker raised both `served` and `reneged` -/
def countedTwice (j : Book) (o : Obs) : Bool :=
  decide (j.served < o.ctr.getD 3 0) && decide (j.reneged < o.ctr.getD 4 0)

def judgeReneging (cfg : Cfg) (j : Book) (o : Obs) : Except String Book :=
  let S := sig .reneging
  match o.act with
  | .offer id pat =>
    if j.offered.contains id then .error (S "offered-twice")
    else
      let j' := { j with offered := id :: j.offered }
      let isFull := full cfg.qcap j.waiting.length
      match o.res with
      | .acc =>
        if isFull then .error (S "accepted-beyond-capacity")
        else .ok { j' with waiting := j.waiting ++ [⟨id, o.t, pat⟩], accepted := j.accepted + 1 }
      | .rej => if !isFull then .error (S "rejected-with-room") else .ok { j' with refused := id :: j.refused }
      | _ => .error (S "malformed-observation")
  | .deq =>
    match o.res with
    | .none_ => if !j.waiting.isEmpty then .error (S "poll-none-but-work-waiting") else .ok j
    | .got id =>
      match j.waiting with
      | [] => .error (S "dequeued-item-not-waiting")
      | w :: rest =>
        if w.id == id then .ok { j with waiting := rest, transit := j.transit ++ [w] }
        else if j.waiting.any (·.id == id) then .error (S "order")
        else .error (S "dequeued-item-not-waiting")
    | _ => .error (S "malformed-observation")
  | .work id =>
    match j.transit.find? (·.id == id) with
    | none => .error (S "started-not-in-transit")
    | some w =>
      let j' := { j with transit := j.transit.filter (·.id != id) }
      -- "exactly one of": one dequeued item is counted as served or as reneged, never as both
      if countedTwice j o then .error (S "item-in-two-states")
      else match o.res with
      | .start =>
        if expired w o.t then .error (S "served-after-patience")
        else .ok { j' with served := j.served + 1 }
      | .renege =>
        if !expired w o.t then .error (S "reneged-within-patience")
        else if cfg.rtarget then .ok { j' with rpending := j.rpending ++ [id], reneged := j.reneged + 1 }
        else .ok { j' with rdone := id :: j.rdone, reneged := j.reneged + 1 }   -- rejected-and-counted, discarded
      | _ => .error (S "accepted-item-discarded")
  | .fin id =>
    if !j.svc.ids.contains id then .error (S "completed-not-in-service")
    else .ok { j with finished := j.finished ++ [id], completed := j.completed + 1 }
  | .done id =>
    if j.rpending.contains id || j.rdone.contains id then .error (S "item-in-two-states")   -- reneged, yet completed
    else judgeDone .reneging j id
  | .rdone id =>
    if j.svc.ids.contains id || j.finished.contains id || j.done.contains id then
      .error (S "item-in-two-states")                                                        -- served, yet reneged
    else if j.rdone.contains id then .error (S "reneged-twice")
    else if j.rpending.head? != some id then .error (S "reneged-delivery-unexpected")
    else .ok { j with rpending := j.rpending.erase id, rdone := id :: j.rdone }
  | _ => .error (S "malformed-observation")

def judgeAct (cfg : Cfg) (j : Book) (o : Obs) : Except String Book :=
  match cfg.comp with
  | .pooled => judgePooled cfg j o
  | .conveyor => judgeConveyor cfg j o
  | .gate => judgeGate cfg j o
  | .batch => judgeBatch cfg j o
  | .reneging => judgeReneging cfg j o

/-! ## counters: what the component reports equals the judge's own books -/

def mismatch (c : Comp) (names : List String) (exp obs : List Nat) : Option String :=
  if exp.length != obs.length then some (sig c "counter-mismatch" ++ " arity")
  else
    match ((names.zip (exp.zip obs)).find? fun x => x.2.1 != x.2.2) with
    | some (n, e, g) => some (sig c "counter-mismatch" ++ s!" {n} expected {e} reported {g}")
    | none => none

def judgeCounters (cfg : Cfg) (j : Book) (o : Obs) : Option String :=
  let n := j.svc.ids.length
  match cfg.comp with
  | .pooled =>
    -- available active queued completed rejected
    mismatch .pooled ["available", "active", "queued", "completed", "rejected"]
      [cfg.limit - n, n, j.waiting.length, j.completed, j.refused.length] o.ctr
  | .conveyor =>
    -- "exactly one of": what the belt reports as in transit, transported and rejected adds up to what was offered
    match o.ctr with
    | [it, tr, rj] =>
      if it + tr + rj != j.offered.length then some (sig .conveyor "conservation" ++ s!" in_transit {it} + transported {tr} + rejected {rj} != offered {j.offered.length}")
      else mismatch .conveyor ["items_in_transit", "items_transported", "items_rejected"]
        [n, j.completed, j.refused.length] o.ctr
    | _ => mismatch .conveyor ["items_in_transit", "items_transported", "items_rejected"]
      [n, j.completed, j.refused.length] o.ctr
  | .gate =>
    -- a gate that reports queued items while it is open strands them
    match o.ctr with
    | [1, d, _, _, _, _] =>
      if j.isOpen && d != 0 then some (sig .gate "strand/waiting-with-free-capacity")
      else mismatch .gate ["is_open", "queue_depth", "passed_through", "queued_while_closed", "rejected", "open_cycles"]
        [if j.isOpen then 1 else 0, j.waiting.length, j.passed, j.queuedTotal, j.refused.length, j.cycles] o.ctr
    | _ => mismatch .gate ["is_open", "queue_depth", "passed_through", "queued_while_closed", "rejected", "open_cycles"]
        [if j.isOpen then 1 else 0, j.waiting.length, j.passed, j.queuedTotal, j.refused.length, j.cycles] o.ctr
  | .batch =>
    mismatch .batch ["buffer_depth", "batches_processed", "items_processed", "timeouts"]
      [j.waiting.length, j.batchesDone, j.completed, j.timeouts] o.ctr
  | .reneging =>
    match mismatch .reneging ["depth", "accepted", "dropped", "served", "reneged", "active"]
      [j.waiting.length, j.accepted, j.refused.length, j.served, j.reneged, n] o.ctr with
    | some v => some v
    | none =>
      if j.accepted != j.waiting.length + j.transit.length + n + j.finished.length + j.done.length
          + j.rpending.length + j.rdone.length then some (sig .reneging "conservation")
      else none

/-! ## quiescence: the instant `lastT` is over (`next`: the clock of the next line, `none` at the end of the run) -/

def strandCheck (cfg : Cfg) (j : Book) (next : Option Nat) : Option String :=
  let c := cfg.comp
  let n := j.svc.ids.length
  if !j.transit.isEmpty then some (sig c "strand/dequeued-item-not-started-in-its-instant")
  else if !j.finished.isEmpty || !j.rpending.isEmpty then some (sig c "item-lost")
  else
    match c with
    | .pooled | .reneging =>
      if !j.waiting.isEmpty && decide (n < cfg.limit) then some (sig c "strand/waiting-with-free-capacity") else none
    | .conveyor => none
    | .gate =>
      if !j.waiting.isEmpty && j.isOpen then some (sig c "strand/waiting-with-free-capacity")
      -- the schedule says open during (part of) the stretch the clock is about to cover, items wait, the gate is shut
      else if !j.waiting.isEmpty && !j.ctlSeen && windowMeets cfg.windows j.lastT next then
        some (sig c "strand/closed-inside-open-window")
      else none
    | .batch =>
      if (n == 0 || cfg.overlap) && decide (cfg.limit ≤ j.waiting.length) then some (sig c "strand/waiting-with-free-capacity")
      else match j.waiting, next with
        | w :: _, some t' =>
          if (n == 0 || cfg.overlap) && cfg.timeout != 0 && decide (w.t + cfg.timeout < t') then some (sig c "strand/timeout-overdue") else none
        | _ :: _, none =>
          if (n == 0 || cfg.overlap) && cfg.timeout != 0 then some (sig c "strand/timeout-overdue") else none
        | [], _ => none

/-- the run is over: nothing may be left inside the component unless the configuration holds it forever
(a closed gate; a partial batch with the timeout disabled) -/
def endCheck (cfg : Cfg) (j : Book) : Option String :=
  match strandCheck cfg j none with
  | some v => some v
  | none =>
    let c := cfg.comp
    if !j.svc.ids.isEmpty then some (sig c "item-lost")
    else match c with
      | .gate => none            -- waiting ⇒ closed (strandCheck)
      | .batch => if !j.waiting.isEmpty && cfg.timeout != 0 then some (sig c "item-lost") else none
      | _ => if !j.waiting.isEmpty then some (sig c "item-lost") else none

/-- strand clause, evaluated when the clock is about to advance -/
def strandGate (cfg : Cfg) (j : Book) (o : Obs) : Option String :=
  if j.started && decide (j.lastT < o.t) then strandCheck cfg j (some o.t) else none

/-- second half of one judge step: advance the observation-only populations, check limit and counters -/
def finishObs (cfg : Cfg) (j j1 : Book) (o : Obs) : Except String Book :=
  if overLimit cfg (svcStep cfg.comp j.svc o).ids.length then .error (sig cfg.comp "in-service-exceeds-limit")
  else
    match judgeCounters cfg { j1 with svc := svcStep cfg.comp j.svc o, done := doneStep j.done o, lastT := o.t, started := true } o with
    | some v => .error v
    | none => .ok { j1 with svc := svcStep cfg.comp j.svc o, done := doneStep j.done o, lastT := o.t, started := true }

def judgeObs (cfg : Cfg) (j : Book) (o : Obs) : Except String Book :=
  if o.res == .err then .error (sig cfg.comp "malformed-observation")
  else if o.neg then .error (sig cfg.comp "counter-mismatch" ++ " negative")
  else if decide (o.t < j.lastT) then .error (sig cfg.comp "clock-went-backwards")
  else
    match strandGate cfg j o with
    | some v => .error v
    | none =>
      match judgeAct cfg j o with
      | .error v => .error v
      | .ok j1 => finishObs cfg j j1 o

def judgeRun (cfg : Cfg) : Book → Nat → List Obs → Option String
  | j, _, [] => (endCheck cfg j).map (· ++ " at-end")
  | j, i, o :: rest =>
    match judgeObs cfg j o with
    | .error v => some (v ++ " at-line " ++ toString i)
    | .ok j' => judgeRun cfg j' (i + 1) rest

end HappyModel.C08.Indus
