import HappyModel.C08.Policy
/-!
# C08 part 2 — Queue + QueueDriver + worker as an event-level transition system

Mirror of `components/queue.py` (`_handle_enqueue`, `_handle_poll`), `components/queue_driver.py`
(`_handle_notify`, `_handle_delivery`, `_handle_work_payload`, completion hook, and — variant
`repaired` — `_poll_if_ready`, `_handle_dispatched`), `components/server/server.py`
(`handle_queued_event`: acquire / reject-after-dequeue / release) with `FixedConcurrency`, and
`components/industrial/shift_schedule.py` (`ShiftedServer`: no acquire check, capacity changes).

The state holds the events that are *pending* (created, not yet delivered) for the component; an
action delivers one of them.  Which one is delivered next is not decided here: the schedule is an
input (taken from the implementation run in the correspondence check, universally quantified in the
theorems).  An action that is not pending is answered with `err` and leaves the state unchanged.
-/
namespace HappyModel.C08.Pipe
open HappyModel.C08

inductive Variant | current | repaired
deriving DecidableEq, Repr

inductive Worker
  | server      -- `Server`: acquire on start, reject when full
  | shifted     -- `ShiftedServer`: no check on start, capacity follows the shift schedule
deriving DecidableEq, Repr

structure PCfg where
  variant : Variant := .repaired
  worker : Worker := .server
  pol : Cfg := {}
deriving Repr

inductive Act
  | arr (it : Item)            -- a request reaches the resource (enqueue)
  | notify                     -- QueueNotifyEvent reaches the driver
  | poll                       -- QueuePollEvent reaches the queue
  | deliver (x : Option Nat)   -- QueueDeliverEvent (payload id / empty) reaches the driver
  | work (i : Nat)             -- the retargeted payload reaches the worker
  | disp                       -- QueueDispatchedEvent reaches the driver (repaired only)
  | fin (i : Nat)              -- the service generator of item i resumes and finishes
  | shift (c : Nat)            -- ShiftedServer capacity change to c
deriving Repr, DecidableEq

/-- visible result of handling one action -/
inductive Res
  | err                        -- the action was not pending
  | accepted (ok : Bool)       -- arr
  | polled (b : Bool)          -- notify / disp / empty deliver / shift: did the handler emit a poll (shift: a notify)
  | popped (x : Option Nat)    -- poll
  | done                       -- deliver item, fin
  | started (ok : Bool)        -- work: started (true) or rejected after dequeue (false)
deriving Repr, DecidableEq

structure PSt where
  q : St := {}                         -- queue policy state
  acc : Nat := 0                       -- Queue.stats_accepted
  dropped : Nat := 0                   -- Queue.stats_dropped
  busy : Bool := false                 -- QueueDriver._busy (repaired)
  recheck : Bool := false              -- QueueDriver._recheck (repaired)
  nNotify : Nat := 0                   -- pending QueueNotifyEvents
  nPoll : Nat := 0                     -- pending QueuePollEvents
  nDisp : Nat := 0                     -- pending QueueDispatchedEvents
  delivers : List Nat := []            -- pending QueueDeliverEvents carrying an item
  nEmpty : Nat := 0                    -- pending empty QueueDeliverEvents (repaired)
  works : List Nat := []               -- pending payloads on their way to the worker
  active : Nat := 0                    -- concurrency model: active
  limit : Nat := 1                     -- concurrency limit / current shift capacity
  inService : List Nat := []           -- items whose service generator is suspended
  completed : Nat := 0
  rejected : Nat := 0                  -- Server.stats.requests_rejected
deriving Repr

def PSt.depth (c : PCfg) (s : PSt) : Nat := len c.pol s.q

def hasCap (s : PSt) : Bool := decide (s.active < s.limit)

/-- `QueueDriver._poll_if_ready` (repaired) / the inline `has_capacity()` test (current).
    Returns the new state and whether a poll was emitted. -/
def pollIfReady (c : PCfg) (s : PSt) : PSt × Bool :=
  match c.variant with
  | .current => if hasCap s then ({ s with nPoll := s.nPoll + 1 }, true) else (s, false)
  | .repaired =>
    if s.busy then ({ s with recheck := true }, false)
    else if hasCap s then ({ s with busy := true, recheck := false, nPoll := s.nPoll + 1 }, true)
    else (s, false)

def stepArr (c : PCfg) (s : PSt) (it : Item) : PSt × Res :=
  let wasEmpty := decide (s.depth c = 0)
  let r := push c.pol s.q it false false
  if r.2 then
    ({ s with q := r.1, acc := s.acc + 1, nNotify := if wasEmpty then s.nNotify + 1 else s.nNotify }, .accepted true)
  else ({ s with q := r.1, dropped := s.dropped + 1 }, .accepted false)

def stepNotify (c : PCfg) (s : PSt) : PSt × Res :=
  if s.nNotify = 0 then (s, .err)
  else
    ((pollIfReady c { s with nNotify := s.nNotify - 1 }).1, .polled (pollIfReady c { s with nNotify := s.nNotify - 1 }).2)

def stepPoll (c : PCfg) (s : PSt) : PSt × Res :=
  if s.nPoll = 0 then (s, .err)
  else
    let r := pop c.pol s.q 0 0
    let s1 := { s with nPoll := s.nPoll - 1, q := r.1 }
    match r.2 with
    | some it => ({ s1 with delivers := s1.delivers ++ [it.id] }, .popped (some it.id))
    | none =>
      match c.variant with
      | .current => (s1, .popped none)
      | .repaired => ({ s1 with nEmpty := s1.nEmpty + 1 }, .popped none)

def stepDeliver (c : PCfg) (s : PSt) : Option Nat → PSt × Res
  | some i =>
    if !s.delivers.contains i then (s, .err)
    else
      let s1 := { s with delivers := s.delivers.erase i, works := s.works ++ [i] }
      match c.variant with
      | .current => (s1, .done)
      | .repaired => ({ s1 with nDisp := s1.nDisp + 1 }, .done)
  | none =>
    if s.nEmpty = 0 then (s, .err)
    else
      let s2 := { s with nEmpty := s.nEmpty - 1, busy := false }
      if s2.recheck then ((pollIfReady c s2).1, .polled (pollIfReady c s2).2)
      else (s2, .polled false)

def stepDisp (c : PCfg) (s : PSt) : PSt × Res :=
  if s.nDisp = 0 then (s, .err)
  else
    ((pollIfReady c { s with nDisp := s.nDisp - 1, busy := false }).1,
     .polled (pollIfReady c { s with nDisp := s.nDisp - 1, busy := false }).2)

def stepWork (c : PCfg) (s : PSt) (i : Nat) : PSt × Res :=
  if !s.works.contains i then (s, .err)
  else
    let s1 := { s with works := s.works.erase i }
    match c.worker with
    | .shifted => ({ s1 with active := s1.active + 1, inService := s1.inService ++ [i] }, .started true)
    | .server =>
      if hasCap s1 then ({ s1 with active := s1.active + 1, inService := s1.inService ++ [i] }, .started true)
      else
        -- the generator returns before its first yield: the completion hook runs at once
        ((pollIfReady c { s1 with rejected := s1.rejected + 1 }).1, .started false)

def stepFin (c : PCfg) (s : PSt) (i : Nat) : PSt × Res :=
  if !s.inService.contains i then (s, .err)
  else
    let s1 := { s with inService := s.inService.erase i, active := s.active - 1, completed := s.completed + 1 }
    ((pollIfReady c s1).1, .done)

def stepShift (c : PCfg) (s : PSt) (cap : Nat) : PSt × Res :=
  let s1 := { s with limit := cap }
  match c.variant with
  | .current => (s1, .polled false)
  | .repaired =>
    if s.limit < cap ∧ 0 < s.depth c then ({ s1 with nNotify := s1.nNotify + 1 }, .polled true)
    else (s1, .polled false)

def step (c : PCfg) (s : PSt) : Act → PSt × Res
  | .arr it => stepArr c s it
  | .notify => stepNotify c s
  | .poll => stepPoll c s
  | .deliver x => stepDeliver c s x
  | .work i => stepWork c s i
  | .disp => stepDisp c s
  | .fin i => stepFin c s i
  | .shift cap => stepShift c s cap

def run (c : PCfg) : PSt → List Act → List (Res × PSt)
  | _, [] => []
  | s, a :: as => ((step c s a).2, (step c s a).1) :: run c (step c s a).1 as

def final (c : PCfg) : PSt → List Act → PSt
  | s, [] => s
  | s, a :: as => final c (step c s a).1 as

/-- no component event is pending: the instant is over for this component -/
def quiescent (s : PSt) : Bool :=
  s.nNotify == 0 && s.nPoll == 0 && s.nDisp == 0 && s.nEmpty == 0 && s.delivers.isEmpty && s.works.isEmpty

end HappyModel.C08.Pipe
