import HappyModel.C08.PipeW
/-!
# C08 part 2b — the pipeline property in capacity units, as a decidable predicate over an observed run

"Each event offered to a queue-fronted component is at every instant exactly one of
rejected-and-counted, waiting, in service, or completed exactly once; work in service never exceeds
the concurrency limit, and no simulated time passes while an item waits and the worker has free
capacity **for it**."

Reading of *rejected-and-counted*: the statement does not say that a rejection happens at offer only.
`Server` may dequeue a request on one free unit and then find that its weight does not fit; it
rejects it and counts it in `requests_rejected`.  That is a fifth population, "rejected by the worker,
counted" — inside the property as long as (a) the request really did not fit, (b) the rejection is
counted at that very delivery, (c) the request takes and returns no capacity and never starts.

The judge keeps its own books from the log of deliveries alone: which items wait (with their
weights), which are in transit, which are in service.  *Work in service* is the sum of the weights
of the started-and-not-finished items (one per item for the fixed and the dynamic model).  Clauses:

* item-state partition and queue order, as in `PipeSpec.lean`;
* a start never takes the in-service weight above the limit in force;
* every start takes exactly the item's weight out of the reported `active_requests`, every finish
  gives exactly that back; reported `active_requests` / `available_capacity` / limit equal the
  judge's books after every delivery;
* a dequeued item is rejected by the worker only if its weight does not fit (`rejected-although-fits`
  otherwise), `requests_rejected` goes up by exactly one at that delivery and equals the judge's count
  ever after (an item that vanishes uncounted is `accepted-item-discarded`), `active_requests` does
  not move;
* when an instant is over nothing is in transit and **no waiting item fits** into the free capacity
  (`limit − in-service weight < its weight` for every waiting item): the code dequeues on one free
  unit and throws a non-fitting head away rather than letting it block, so whenever something still
  waits no unit at all is free; a poll may come back empty only if nothing waits;
* with `admission` (the design suggestion, where a non-fitting head stays queued and blocks the items
  behind it in policy order) the last clause speaks about the item the policy would hand out next
  only, a poll may also come back empty when that item does not fit, and a rejection after dequeue
  is never legal.
-/
namespace HappyModel.C08.PipeW

structure Obs where
  t : Nat
  act : Act
  res : Res
  w : Nat            -- weight seen on a `work` line (the request's `metadata.weight` when it reached the worker)
  depth : Nat
  acc : Nat
  dropped : Nat
  active : Nat
  completed : Nat
  rejected : Nat
  limit : Nat
  avail : Nat
deriving Repr

structure JSt where
  waiting : List WItem := []
  transit : List WItem := []
  service : List WItem := []
  done : List Nat := []
  refused : List Nat := []
  rejectedW : List Nat := []    -- dequeued, did not fit, rejected by the worker and counted
  offered : List Nat := []
  accepted : Nat := 0
  lastT : Nat := 0
  limit : Nat := 1
  lowerT : Option Nat := none   -- instant of the last decrease of the limit
  prevLimit : Nat := 0          -- the limit before that decrease
  prevActive : Nat := 0         -- `active_requests` as reported on the previous line
  raised : Bool := false        -- the limit was raised beside waiting work and no poll has reached the queue since
  started : Bool := false
deriving Repr

/-- the judge's in-service weight -/
def JSt.used (c : WCfg) (j : JSt) : Nat := sumW c j.service

def capFullW (cap : Option Nat) (n : Nat) : Bool :=
  match cap with
  | none => false
  | some k => decide (k ≤ n)

def fitsJ (c : WCfg) (j : JSt) (it : WItem) : Bool := decide (j.used c + wOf c it ≤ j.limit)

/-- the items that may not be left waiting beside enough free capacity: all of them (HEAD), or the
    one the policy hands out next (`admission`: a heavier head blocks in policy order) -/
def mustNotFit (c : WCfg) (j : JSt) : List WItem :=
  if c.admission then (pick c.kind j.waiting).toList else j.waiting

/-- the instant `lastT` is over: nothing may be in transit, nothing that fits may wait -/
def strandCheck (c : WCfg) (j : JSt) : Option String :=
  if !j.transit.isEmpty then some "pipe/strand/dequeued-item-not-started-in-its-instant"
  else if (mustNotFit c j).any (fitsJ c j) then
    some (if j.raised then "pipe/strand/waiting-with-free-capacity/limit-raised-without-poll"
          else "pipe/strand/waiting-with-free-capacity")
  else none

def judgeAct (c : WCfg) (j : JSt) (o : Obs) : Except String JSt :=
  match o.act, o.res with
  | .arr it, .accepted ok =>
    if j.offered.contains it.id then .error "pipe/item/offered-twice"
    else if it.w == 0 then .error "pipe/malformed-observation"
    else
      let isFull := capFullW c.cap j.waiting.length
      if ok && isFull then .error "pipe/queue/accepted-beyond-capacity"
      else if !ok && !isFull then .error "pipe/queue/rejected-with-room"
      else if ok then .ok { j with waiting := j.waiting ++ [it], offered := it.id :: j.offered, accepted := j.accepted + 1 }
      else .ok { j with refused := it.id :: j.refused, offered := it.id :: j.offered }
  | .poll, .popped none =>
    match pick c.kind j.waiting with
    | none => .ok { j with raised := false }
    | some it =>
      if !c.admission || fitsJ c j it then .error "pipe/queue/poll-none-but-work-waiting"
      else .ok { j with raised := false }
  | .poll, .popped (some i) =>
    match byId j.waiting i with
    | none => .error "pipe/queue/dequeued-item-not-waiting"
    | some it =>
      if pick c.kind j.waiting != some it then .error "pipe/queue/order"
      else .ok { j with waiting := j.waiting.erase it, transit := j.transit ++ [it], raised := false }
  | .deliver (some i), _ =>
    if (byId j.transit i).isNone then .error "pipe/item/delivered-not-in-transit" else .ok j
  | .work i, .started ok =>
    match byId j.transit i with
    | none => .error "pipe/item/started-not-in-transit"
    | some it =>
      if o.w != it.w then .error "pipe/item/weight-changed-in-queue"
      else if c.kind == .fifo && (j.transit.head?.map (·.id)) != some i then .error "pipe/order/start-not-in-dequeue-order"
      else if !ok then
        -- rejected by the worker after dequeue: legal only if it really does not fit, counted now, nothing taken
        if c.admission then .error "pipe/worker/accepted-item-discarded"
        else if fitsJ c j it then .error "pipe/worker/rejected-although-fits"
        else if o.rejected != j.rejectedW.length + 1 then .error "pipe/worker/accepted-item-discarded"
        else if o.active != j.prevActive then .error "pipe/worker/capacity-taken-by-rejected-item"
        else .ok { j with transit := j.transit.erase it, rejectedW := i :: j.rejectedW }
      else
        let j' := { j with transit := j.transit.erase it, service := j.service ++ [it] }
        if j'.limit < j'.used c then
          if j'.lowerT == some o.t && decide (j'.used c ≤ j'.prevLimit) then
            .error "pipe/worker/in-service-exceeds-limit/limit-lowered-in-same-instant"
          else .error "pipe/worker/in-service-exceeds-limit"
        else if o.active != j.prevActive + wOf c it then .error "pipe/worker/capacity-taken-not-weight"
        else .ok j'
  | .fin i, _ =>
    match byId j.service i with
    | none => .error "pipe/item/completed-not-in-service"
    | some it =>
      if o.active + wOf c it != j.prevActive then .error "pipe/worker/capacity-not-returned"
      else .ok { j with service := j.service.erase it, done := i :: j.done }
  | .limit n, _ =>
    match c.conc with
    | .dynamic lo hi =>
      let l := clampLimit lo hi n
      if l < j.limit then
        .ok { j with limit := l, lowerT := some o.t, prevLimit := if j.lowerT == some o.t then max j.prevLimit j.limit else j.limit }
      else .ok { j with limit := l, raised := j.raised || (decide (j.limit < l) && !j.waiting.isEmpty) }
    | _ => .error "pipe/malformed-observation"
  | .notify, _ => .ok j
  | .disp, _ => .ok j
  | .deliver none, _ => .ok j
  | _, _ => .error "pipe/malformed-observation"

def judgeCounters (c : WCfg) (j : JSt) (o : Obs) : Option String :=
  if o.depth != j.waiting.length then some "pipe/counters/depth-not-waiting-count"
  else if o.acc != j.accepted then some "pipe/counters/accepted"
  else if o.dropped != j.refused.length then some "pipe/counters/dropped-not-refused-count"
  else if o.completed != j.done.length then some "pipe/counters/completed"
  else if o.rejected != j.rejectedW.length then some "pipe/counters/rejected-not-rejected-by-worker-count"
  else if o.active != j.used c then some "pipe/worker/counter-mismatch"
  else if o.limit != j.limit then some "pipe/worker/counter-mismatch/limit"
  else if o.avail != j.limit - j.used c then some "pipe/worker/counter-mismatch/available"
  else if o.acc != j.waiting.length + j.transit.length + j.service.length + j.done.length + j.rejectedW.length then
    some "pipe/conservation"
  else none

def judgeObs (c : WCfg) (j : JSt) (o : Obs) : Except String JSt :=
  if o.res == .err then .error "pipe/malformed-observation" else
  let strand := if j.started && decide (j.lastT < o.t) then strandCheck c j else none
  match strand with
  | some v => .error v
  | none =>
    match judgeAct c j o with
    | .error v => .error v
    | .ok j' =>
      match judgeCounters c j' o with
      | some v => .error v
      | none => .ok { j' with lastT := o.t, started := true, prevActive := o.active }

def judgeRun (c : WCfg) : JSt → Nat → List Obs → Option String
  | j, _, [] => (strandCheck c j).map (· ++ " at-end")
  | j, i, o :: rest =>
    match judgeObs c j o with
    | .error v => some (v ++ " at-line " ++ toString i)
    | .ok j' => judgeRun c j' (i + 1) rest

end HappyModel.C08.PipeW
