import HappyModel.C14.Ops
/-!
# Which writes had their WAL sync completed (model side of the `syncDone` observation)

`WriteAheadLog.append` asks the sync policy after the write latency; on "sync now" it yields the sync
latency (`Pc.pSync`) and the segment after that yield is the completion of the sync.  `syncDoneRun`
replays a schedule and collects the ids of the operations that executed that segment.
-/
namespace HappyModel.C15
open HappyModel.C14

/-- is the next segment of operation `id` the one after a sync-latency yield? -/
def atSync (y : Sys) (id : Nat) : Bool :=
  match y.frames.find? (fun f => f.id == id) with
  | some f => match f.pc with
    | .pSync _ _ _ => true
    | _ => false
  | none => false

/-- run the schedule, collecting (newest first) the operations whose sync completed -/
def syncDoneRun (cfg : Cfg) : Sys → List Nat → List Nat → Sys × List Nat
  | y, acc, [] => (y, acc)
  | y, acc, id :: ids => syncDoneRun cfg (y.step cfg id) (if atSync y id then id :: acc else acc) ids

/-- schedule hypothesis: sync completions happen in the order of their sequence numbers (every sync costs the
    same latency and the engine serves equal times first-in first-out) -/
def syncsInOrderB (cfg : Cfg) : Sys → List Nat → Bool
  | _, [] => true
  | y, id :: ids =>
    (match y.frames.find? (fun f => f.id == id) with
      | some f => match f.pc with
        | .pSync _ _ q => decide (y.st.synced ≤ q)
        | _ => true
      | none => true) && syncsInOrderB cfg (y.step cfg id) ids

end HappyModel.C15
