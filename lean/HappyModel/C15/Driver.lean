import HappyModel.C14.Driver
import HappyModel.C15.Spec
import HappyModel.C15.Sync
import HappyModel.C15.Phases
/-! Line-protocol driver for C15 (other side: `hv/props/c15.py`). -/
namespace HappyModel.C15.Driver
open HappyModel.Proto HappyModel.C14 HappyModel.C14.Driver HappyModel.C15

def seqOf : Pc → Option Nat
  | .pWal _ _ s => some s
  | .pSync _ _ s => some s
  | _ => none

def readsLine (tag : String) (n : Nat) (s : St) : String :=
  tag ++ " " ++ joinSp ((List.range n).map fun k => showCell (s.abs k))

def isWrite (inp : Input) (id : Nat) : Bool :=
  match inp.ops.lookup id with
  | some (.put _ _) => true
  | some (.del _) => true
  | _ => false

def wLine (inp : Input) (syncDone : List Nat) (f : Frame) : Option String :=
  match f.b with
  | none => none
  | some b =>
    if !isWrite inp f.id then none else
    let e := match f.e with | some e => toString e | none => "x"
    some s!"w {f.id} {f.seq0} {b} {e} {if syncDone.contains f.id then 1 else 0}"

/-- run the schedule, then crash + recover (+ recover, + crash + recover) -/
def runCrash (body : List String) : List String :=
  let inp := parse body
  let yd := syncDoneRun inp.cfg inp.sys [] inp.sched
  let y := yd.1
  let s1 := y.st.crash.recover
  let s2 := s1.recover
  let s3 := s2.crash.recover
  (sortFrames y.frames).filterMap frameLine ++
  (sortFrames y.frames).filterMap (wLine inp yd.2) ++
  [ s!"synced {y.st.synced}", s!"appended {y.st.nextSeq - 1}",
    readsLine "r1" inp.nkeys s1, s!"walsize {s1.wal.length}",
    readsLine "r2" inp.nkeys s2, readsLine "r3" inp.nkeys s3,
    "levels " ++ joinSp (s3.levels.map fun l => s!"{l.length}:{keyCount l}") ]

/-! judge input: the C14 `cfg`/`op` lines, then
    `w <id> <seq> <b> <e|x> <sync done 0|1>` per started write, `synced <n>`, `r1 …`, `r2 …`, `r3 …` -/
def parseReads (ts : List String) : List (Option Nat) := ts.map nat?

def judge (body : List String) : List String :=
  let inp := parse body
  let ws : List WRec := body.filterMap fun l =>
    match toks l with
    | ["w", id, seq, b, e, _] =>
      match inp.ops.lookup (natD id) with
      | some (.put k v) => some ⟨natD id, k, some v, natD seq, natD b, nat? e⟩
      | some (.del k) => some ⟨natD id, k, none, natD seq, natD b, nat? e⟩
      | _ => none
    | _ => none
  let syncDone : List Nat := body.filterMap fun l =>
    match toks l with
    | ["w", id, _, _, _, "1"] => some (natD id)
    | _ => none
  let every := match inp.cfg.wal with
    | some .every => true
    | _ => false
  let get (tag : String) : Option (List (Option Nat)) :=
    body.findSome? fun l => match toks l with
      | t :: rest => if t == tag then some (parseReads rest) else none
      | [] => none
  let synced := (body.findSome? fun l => match toks l with
      | ["synced", n] => some (natD n)
      | _ => none).getD 0
  match get "r1", get "r2", get "r3" with
  | some r1, some r2, some r3 =>
    if r1.length != inp.nkeys then ["viol wal/malformed-judge-input"] else
    match judgeCrashAck every ws syncDone synced r1 r2 r3 with
    | none => ["ok"]
    | some sig => [s!"viol {sig}"]
  | _, _, _ => ["viol wal/malformed-judge-input"]

/-! ### sequences of crashes (`crashes` / `judge-crashes`)

model input: the `cfg`/`op` lines (operation ids `1000·phase + 100·worker + index`), then per phase its `sched`
lines closed by a `crashpoint` line.  Output / judge input per phase: `phase <i>`, the `op` and `w` lines of the
phase's operations, `synced`, `appended`, `r1`, `walsize`, `r2`, `r3`, `levels`. -/

def splitPhases (body : List String) : List (List Nat) :=
  let r := body.foldl (fun (acc : List (List Nat) × List Nat) l =>
    match toks l with
    | "sched" :: ids => (acc.1, acc.2 ++ nats ids)
    | ["crashpoint"] => (acc.1 ++ [acc.2], [])
    | _ => acc) ([], [])
  r.1

def phaseLines (inp : Input) (i : Nat) (o : PhaseOut) : List String :=
  let mine := (sortFrames o.y.frames).filter fun f => f.id / 1000 == i
  [s!"phase {i}"] ++ mine.filterMap frameLine ++ mine.filterMap (wLine inp o.done) ++
  [ s!"synced {o.y.st.synced}", s!"appended {o.y.st.nextSeq - 1}",
    readsLine "r1" inp.nkeys o.s1, s!"walsize {o.s1.wal.length}",
    readsLine "r2" inp.nkeys o.s2, readsLine "r3" inp.nkeys o.s3,
    "levels " ++ joinSp (o.s3.levels.map fun l => s!"{l.length}:{keyCount l}") ]

def runCrashes (body : List String) : List String :=
  let inp := parse body
  let outs := runPhases inp.cfg { inp.sys with st := St.init inp.cfg inp.oracle } (splitPhases body)
  (outs.zipIdx.map fun (o, i) => phaseLines inp i o).flatten

/-- the judge's view of one phase: the lines between two `phase` markers -/
def phaseObsOf (inp : Input) (ls : List String) : PhaseObs :=
  let ws : List WRec := ls.filterMap fun l =>
    match toks l with
    | ["w", id, seq, b, e, _] =>
      match inp.ops.lookup (natD id) with
      | some (.put k v) => some ⟨natD id, k, some v, natD seq, natD b, nat? e⟩
      | some (.del k) => some ⟨natD id, k, none, natD seq, natD b, nat? e⟩
      | _ => none
    | _ => none
  let syncDone : List Nat := ls.filterMap fun l =>
    match toks l with
    | ["w", id, _, _, _, "1"] => some (natD id)
    | _ => none
  let get (tag : String) : List (Option Nat) :=
    (ls.findSome? fun l => match toks l with
      | t :: rest => if t == tag then some (parseReads rest) else none
      | [] => none).getD []
  let synced := (ls.findSome? fun l => match toks l with
      | ["synced", n] => some (natD n)
      | _ => none).getD 0
  ⟨ws, syncDone, synced, get "r1", get "r2", get "r3"⟩

def splitAtPhase (body : List String) : List (List String) :=
  let r := body.foldl (fun (acc : List (List String) × Option (List String)) l =>
    match toks l with
    | ["phase", _] => (match acc.2 with | some cur => acc.1 ++ [cur] | none => acc.1, some [])
    | _ => (acc.1, acc.2.map (· ++ [l]))) ([], none)
  match r.2 with
  | some cur => r.1 ++ [cur]
  | none => r.1

def judgeCrashes (body : List String) : List String :=
  let inp := parse body
  let every := match inp.cfg.wal with
    | some .every => true
    | _ => false
  let obs := (splitAtPhase body).map (phaseObsOf inp)
  if obs.isEmpty then ["viol wal/malformed-judge-input"] else
  match judgePhases every inp.nkeys (List.replicate inp.nkeys none) [] 0 obs with
  | none => ["ok"]
  | some sig => [s!"viol {sig}"]

def handle (hdr : List String) (body : List String) : List String :=
  match hdr with
  | ["crash"] => runCrash body
  | ["judge-crash"] => judge body
  | ["crashes"] => runCrashes body
  | ["judge-crashes"] => judgeCrashes body
  | _ => ["bad-mode"]

end HappyModel.C15.Driver
