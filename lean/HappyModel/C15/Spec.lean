import HappyModel.C14.Ops
/-!
# C15 specification predicate (durably acknowledged writes survive a crash at any point)

"after crash and recovery every write whose write-ahead-log sync had completed before the crash is
readable with its latest durable value, no overwritten or deleted value is resurrected, no value that
was never written appears, and recovering twice gives the same state as recovering once."

Observed: for every write operation started before the crash its key, value (or delete), the WAL
sequence number it was given, the indices of its first and last executed segment (`e = none`: not
completed at the crash); `synced_up_to` at the crash; the value of every key read after
`crash(); recover_from_crash()`, after a second `recover_from_crash()`, and after a second
`crash(); recover_from_crash()`.

A write is *durable* when its sequence number is ≤ `synced_up_to` at the crash.  Values of puts are
pairwise distinct, so a read value names its write.  A recovered value is admissible when no
durable write to the same key began after that write had completed ("latest" is real-time order;
concurrent writes may be ordered either way).

`judgeCrashAck` does not take the log's own `synced_up_to` as the ground truth for "whose sync had
completed": it also counts what the *clients* were told.  A write's sync has completed when the sync
policy answered "sync now" inside that write's `append` and the write went on after the sync latency
(`syncDone`, observed through the policy object and the operation's progress), or — under
`SyncEveryWrite` — when its `put()` / `delete()` returned.  An fsync covers every entry appended before
it, so every write with a sequence number up to the largest such one is durable as well.
-/
namespace HappyModel.C15
open HappyModel.C14

structure WRec where
  id : Nat
  key : Key
  cell : Cell
  seq : Nat
  b : Nat
  e : Option Nat
deriving Repr

def WRec.durable (w : WRec) (synced : Nat) : Bool := w.seq ≤ synced

/-- a durable write to `k` that began after `w` completed -/
def supersededBy (ws : List WRec) (synced : Nat) (k : Key) (w : WRec) : Option WRec :=
  ws.find? fun w' => w'.key == k && w'.id != w.id && w'.durable synced &&
    (match w.e with | some e => e < w'.b | none => false)

def judgeKey (ws : List WRec) (synced : Nat) (k : Key) (x : Option Nat) : Option String :=
  match x with
  | some v =>
    match ws.find? fun w => w.key == k && w.cell == some v with
    | none => some "wal/no-invention/value-never-written"
    | some w =>
      match supersededBy ws synced k w with
      | none => none
      | some w' => if w'.cell.isNone then some "wal/no-resurrection/durably-deleted-value-back"
                   else some "wal/no-resurrection/durably-overwritten-value-back"
  | none =>
    let initialOk := !(ws.any fun w' => w'.key == k && w'.durable synced)
    let delOk := ws.any fun d => d.key == k && d.cell.isNone && (supersededBy ws synced k d).isNone
    if initialOk || delOk then none else some "wal/durable-survive/durable-write-lost"

/-- `reads.get! k` is the value of key `k` after recovery -/
def judgeCrash (ws : List WRec) (synced : Nat) (r1 r2 r3 : List (Option Nat)) : Option String :=
  if r1 != r2 then some "wal/recover-idempotent/second-recover-differs"
  else if r1 != r3 then some "wal/recover-idempotent/second-crash-recover-differs"
  else (r1.zipIdx).findSome? fun (x, k) => (judgeKey ws synced k x).map fun s => s!"{s} key {k}"

/-- the highest WAL sequence number whose sync the clients saw complete: writes whose `append` was told to
    sync and went on afterwards (`syncDone`, by operation id), and under `SyncEveryWrite` every write that returned -/
def ackBound (every : Bool) (ws : List WRec) (syncDone : List Nat) : Nat :=
  (ws.filter fun w => syncDone.contains w.id || (every && w.e.isSome)).foldl (fun m w => max m w.seq) 0

/-- `judgeCrash` with durability judged from acknowledgements as well as from `synced_up_to` -/
def judgeCrashAck (every : Bool) (ws : List WRec) (syncDone : List Nat) (synced : Nat)
    (r1 r2 r3 : List (Option Nat)) : Option String :=
  judgeCrash ws (max synced (ackBound every ws syncDone)) r1 r2 r3

/-! ### sequences of crashes

After a crash the recovered contents are the durable baseline of what follows: every value read after
`crash(); recover_from_crash()` is either still in the surviving log or in an SSTable.  A later phase is
judged like a single-crash run whose history starts with one completed, durable write per key of the
baseline (`baselineRecs`: sequence number 0, finished before the phase's first segment), followed by the
phase's own writes.  Values of earlier phases that are not in the baseline were lost or overwritten before
the previous crash; if one of them is read after a later crash it has been resurrected. -/

/-- identifier space of the synthetic baseline writes (operation ids of a case are far below) -/
def baselineId (k : Key) : Nat := 900000 + k

def baselineRecs (base : List (Option Nat)) : List WRec :=
  base.zipIdx.filterMap fun (x, k) => x.map fun v => ⟨baselineId k, k, some v, 0, 0, some 0⟩

/-- one phase: `base` = reads after the previous crash cycle (all `none` for the first phase),
    `stale` = values written in earlier phases -/
def judgePhase (every : Bool) (base : List (Option Nat)) (stale : List Nat) (ws : List WRec) (syncDone : List Nat)
    (synced : Nat) (r1 r2 r3 : List (Option Nat)) : Option String :=
  match r1.zipIdx.find? fun (x, k) => match x with
      | some v => !(ws.any fun w => w.cell == some v) && base.getD k none != some v && stale.contains v
      | none => false with
  | some (_, k) => some s!"wal/no-resurrection/value-of-an-earlier-phase-back key {k}"
  | none => judgeCrashAck every (baselineRecs base ++ ws) syncDone synced r1 r2 r3

structure PhaseObs where
  ws : List WRec
  syncDone : List Nat
  synced : Nat
  r1 : List (Option Nat)
  r2 : List (Option Nat)
  r3 : List (Option Nat)

def judgePhases (every : Bool) (nkeys : Nat) : List (Option Nat) → List Nat → Nat → List PhaseObs → Option String
  | _, _, _, [] => none
  | base, stale, i, p :: rest =>
    if p.r1.length != nkeys then some "wal/malformed-judge-input" else
    match judgePhase every base stale p.ws p.syncDone p.synced p.r1 p.r2 p.r3 with
    | some sig => some s!"{sig} crash {i}"
    | none => judgePhases every nkeys p.r3 (stale ++ p.ws.filterMap (·.cell)) (i + 1) rest

end HappyModel.C15
