import HappyModel.C15.Sync
/-!
# Sequences of crashes: run, crash, recover, run on, crash again …

A case is a list of *phases*.  Each phase executes a schedule of generator segments (its own operations:
frames that are present from the beginning but are scheduled in their phase only), then the node crashes
(`St.crash`), recovers (`St.recover`), recovers a second time and crashes + recovers a second time (the
three reads of the single-crash check), and the next phase continues on that state.  Operations in flight
at a crash are abandoned: their frames are never scheduled again.  What a crash leaves behind on purpose
— exactly as `LSMTree.crash()` / `WriteAheadLog.crash()` do — : `next_sequence` is not rewound (the
sequence numbers of the surviving log have a gap where the unsynced tail was), `_wal_pending` keeps the
numbers of abandoned appends (the truncation bound of later flushes stays below them), `_compacting`
stays set when a compaction was suspended.
-/
namespace HappyModel.C15
open HappyModel.C14

structure PhaseOut where
  y : Sys                 -- system at the crash
  done : List Nat         -- operations whose WAL sync was seen to complete during this phase
  s1 : St                 -- after crash + recover
  s2 : St                 -- after a second recover
  s3 : St                 -- after a second crash + recover; the next phase starts here

def phaseOut (cfg : Cfg) (y : Sys) (sched : List Nat) : PhaseOut :=
  let yd := syncDoneRun cfg y [] sched
  { y := yd.1, done := yd.2, s1 := yd.1.st.crash.recover, s2 := yd.1.st.crash.recover.recover,
    s3 := yd.1.st.crash.recover.recover.crash.recover }

/-- the system the next phase starts from: recovered state, same frames, segment counter running on -/
def PhaseOut.next (o : PhaseOut) : Sys := { o.y with st := o.s3 }

def runPhases (cfg : Cfg) : Sys → List (List Nat) → List PhaseOut
  | _, [] => []
  | y, sched :: rest => phaseOut cfg y sched :: runPhases cfg (phaseOut cfg y sched).next rest

end HappyModel.C15
