import HappyModel.Proto
import HappyModel.C11.Observe
/-! Line-protocol driver for C11 (the other side is `hv/props/c11.py`).

    begin model <current|repaired> <n>      body: the `ev …` lines of a recorded schedule
    begin judge <n> <stable 0|1>            body: a whole implementation transcript
-/
namespace HappyModel.C11.Driver
open HappyModel.Proto HappyModel.C11 HappyModel.C11.Spec

def roleStr : Role → String
  | .follower => "F" | .candidate => "C" | .leader => "L"

def optStr : Option Nat → String
  | some v => toString v | none => "-"

def resStr : Res → String
  | .none => "none" | .val v => s!"v{v}" | .bool true => "T" | .bool false => "F"

def entStr (e : Nat × Nat) : String := s!"{e.1}:{e.2}"

def viewLine (i : Nat) (v : NodeView) : String :=
  joinSp ([s!"s {i} {roleStr v.role} {v.term} {optStr v.votedFor} {v.commit} {v.lastApplied} L"] ++ v.log.map entStr)

/-- the leader bookkeeping `_next_index` / `_match_index` of node `i` about its peers (by peer id,
    self left out).  Not an observable of the Spec: it is compared with the implementation only,
    so that a divergence of the replication bookkeeping is seen at the step where it arises. -/
def idxLine (n i : Nat) (x : Node) : String :=
  let ps := peers n i
  joinSp ([s!"x {i} N"] ++ ps.map (fun p => toString (x.nextIndex.getD p 1))
          ++ ["M"] ++ ps.map (fun p => toString (x.matchIndex.getD p 0)))

def bodyStr : Body → String
  | .rv t c li lt => s!"rv {t} {c} {li} {lt}"
  | .vr t g f => s!"vr {t} {showBool g} {f}"
  | .ae t l pi pt es lc => joinSp ([s!"ae {t} {l} {pi} {pt} {lc} E"] ++ es.map (fun e => entStr (e.term, e.cmd.id)))
  | .ar t s f mi => s!"ar {t} {showBool s} {f} {mi}"

def envLine (e : Env) : String := s!"m {e.id} {e.src} {e.dst} {bodyStr e.body}"

def parseOpt (s : String) : Option Nat := if s == "-" then none else nat? s

def parseAct (ts : List String) : Option Act :=
  match ts with
  | ["ev", "deliver", m] => some (.deliver (natD m))
  | ["ev", "timeout", i] => some (.timeout (natD i))
  | ["ev", "hb", i] => some (.heartbeat (natD i))
  | ["ev", "submit", i, f, c, op, k, v, e] => some (.submit (natD i) (natD f) ⟨natD c, natD op, natD k, natD v, parseOpt e⟩)
  | ["ev", "drop", m] => some (.drop (natD m))
  | ["ev", "crash", i] => some (.crash (natD i))
  | ["ev", "restart", i] => some (.restart (natD i))
  | _ => none

def actLine : Act → String
  | .deliver m => s!"ev deliver {m}"
  | .timeout i => s!"ev timeout {i}"
  | .heartbeat i => s!"ev hb {i}"
  | .submit i f c => s!"ev submit {i} {f} {c.id} {c.op} {c.key} {c.val} {optStr c.exp}"
  | .drop m => s!"ev drop {m}"
  | .crash i => s!"ev crash {i}"
  | .restart i => s!"ev restart {i}"

def hasView : Act → Bool
  | .drop _ => false
  | _ => true

def stepLines (s' : St) (o : StepOut) (a : Act) : List String :=
  let t := tgt o
  [actLine a]
  ++ (if hasView a && o.target.isSome then [viewLine t (viewOf (s'.nodes t)), idxLine s'.n t (s'.nodes t)] else [])
  ++ o.apps.map (fun p => s!"a {t} {p.1} {p.2.1.id} {resStr p.2.2}")
  ++ o.ress.map (fun p => s!"r {t} {p.1} {p.2.1} {resStr p.2.2}")
  ++ o.sent.map envLine

def runModel (v : Variant) (n : Nat) (body : List String) : List String :=
  let acts := body.filterMap (fun l => parseAct (toks l))
  let rec go (s : St) (acc : Array String) : List Act → Array String
    | [] => acc
    | a :: as =>
      let r := step v s a
      go r.1 (acc ++ (stepLines r.1 r.2 a).toArray) as
  (go (init n) #[] acts).toList

/-! ### judge: transcript → frames -/

def parseRole (s : String) : Role := if s == "L" then .leader else if s == "C" then .candidate else .follower

def parseEnt (s : String) : OEntry :=
  match s.splitOn ":" with
  | [a, b] => (natD a, natD b)
  | _ => (0, 0)

structure PState where
  views : Array NodeView
  cur : Option Frame := none
  out : Array Frame := #[]

def PState.flush (p : PState) : PState :=
  match p.cur with
  | some f =>
    let f' : Frame := { f with views := p.views.toList }
    { p with cur := none, out := p.out.push f' }
  | none => p

def feed (p : PState) (ts : List String) : PState :=
  match ts with
  | "ev" :: rest =>
    let p := p.flush
    let sub := match rest with
      | "submit" :: i :: f :: c :: _ => some (natD i, natD f, natD c)
      | _ => none
    let f0 : Frame := { views := [], submit := sub }
    { p with cur := some f0 }
  | "s" :: i :: r :: t :: vf :: c :: la :: "L" :: es =>
    let nv : NodeView := { role := parseRole r, term := natD t, votedFor := parseOpt vf, log := es.map parseEnt,
                           commit := natD c, lastApplied := natD la }
    { p with views := p.views.setIfInBounds (natD i) nv }
  | "a" :: i :: idx :: c :: _ =>
    { p with cur := p.cur.map (fun (f : Frame) => ({ f with apps := f.apps ++ [(natD i, natD idx, natD c)] } : Frame)) }
  | "r" :: i :: f :: idx :: _ =>
    { p with cur := p.cur.map (fun (fr : Frame) => ({ fr with ress := fr.ress ++ [(natD i, natD f, natD idx)] } : Frame)) }
  | _ => p

def initView : NodeView := { role := .follower, term := 0, votedFor := none, log := [], commit := 0, lastApplied := 0 }

def parseFrames (n : Nat) (body : List String) : List Frame :=
  let p0 : PState := { views := Array.replicate n initView }
  let p := (body.foldl (fun p l => feed p (toks l)) p0).flush
  { views := p0.views.toList } :: p.out.toList

def judgeBlock (n : Nat) (stable : Bool) (body : List String) : List String :=
  match judge stable (parseFrames n body) with
  | none => ["ok"]
  | some sig => [s!"viol {sig}"]

def handle (hdr : List String) (body : List String) : List String :=
  match hdr with
  | ["model", "current", n] => runModel Variant.current (natD n) body
  | ["model", "repaired", n] => runModel Variant.repaired (natD n) body
  | ["model", v, n] =>
    -- single repairs, for experiments: a 4-character mask like 1010
    let bits := v.toList.map (· == '1')
    runModel ⟨bits.getD 0 false, bits.getD 1 false, bits.getD 2 false, bits.getD 3 false⟩ (natD n) body
  | ["judge", n, st] => judgeBlock (natD n) (st == "1") body
  | _ => ["bad-header"]

end HappyModel.C11.Driver
