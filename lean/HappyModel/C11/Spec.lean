import HappyModel.C11.Model
/-!
C11 — the property, as decidable predicates over what an observer of a cluster sees.

> Under any message delays, reordering, loss, partitions and node crashes or restarts, at most
> one node is leader in any term; two logs that contain an entry with the same index and term
> are identical up to that index; an entry once committed is present in the log of every later
> leader; and no two nodes ever apply different commands at the same log index, each node
> applying indices in order without gaps.  A client's submit future resolves only with the
> index at which exactly its command was committed, and on a fault-free network whose delays
> are well below the election timeout every command submitted to the single established leader
> is committed and applied, in submission order, by every node.

An observation is a list of `Frame`s, one per delivered event: the public state of every node
right after the event (`state`, `current_term`, `log`, `log.commit_index`, …), the commands the
recording state machine saw, and the submit futures that became resolved.  Nothing here
mentions the model's handlers; the same predicates judge transcripts of the real `RaftNode`s
(driver mode `judge`) and are proved of every run of the model (`HappyProofs/C11/Props.lean`).
-/
namespace HappyModel.C11.Spec
open HappyModel.C11

/-- a log entry as seen from outside: (term, command id) -/
abbrev OEntry := Nat × Nat

structure NodeView where
  role : Role
  term : Nat
  votedFor : Option Nat
  log : List OEntry
  commit : Nat
  lastApplied : Nat
deriving DecidableEq, Repr

structure Frame where
  views : List NodeView                    -- node i at position i
  apps : List (Nat × Nat × Nat) := []      -- (node, index, command id) applied during the event
  ress : List (Nat × Nat × Nat) := []      -- (node, future, index) resolved during the event
  submit : Option (Nat × Nat × Nat) := none -- (node, future, command id) when the event was a submit
deriving Repr

/-! ### at most one leader per term -/

def leaderObs (f : Frame) : List (Nat × Nat) :=
  (f.views.zipIdx).filterMap (fun p => if p.1.role = .leader then some (p.1.term, p.2) else none)

/-- every pair of leader observations (anywhere in the run) with equal terms names one node -/
def electionOk (tr : List Frame) : Bool :=
  let obs := tr.flatMap leaderObs
  obs.all (fun a => obs.all (fun b => a.1 != b.1 || a.2 == b.2))

/-! ### log matching -/

/-- `l1` and `l2` agree on every index up to the last one where their terms coincide.
    Checked from the top: find the highest common index with equal terms, compare prefixes. -/
def logsMatch (l1 l2 : List OEntry) : Bool :=
  (List.range (min l1.length l2.length)).all (fun k =>
    match l1[k]?, l2[k]? with
    | some a, some b => a.1 != b.1 || (l1.take (k + 1) == l2.take (k + 1))
    | _, _ => true)

def frameLogMatching (f : Frame) : Bool :=
  f.views.all (fun a => f.views.all (fun b => logsMatch a.log b.log))

def logMatchingOk (tr : List Frame) : Bool := tr.all frameLogMatching

/-! ### applying: in order, without gaps, the same command at the same index everywhere -/

def appsOf (tr : List Frame) (i : Nat) : List (Nat × Nat) :=
  tr.flatMap (fun f => f.apps.filterMap (fun a => if a.1 = i then some a.2 else none))

/-- the indices are 1, 2, 3, … -/
def consecutiveFrom : Nat → List (Nat × Nat) → Bool
  | _, [] => true
  | k, a :: r => a.1 == k && consecutiveFrom (k + 1) r

def nNodes (tr : List Frame) : Nat := match tr with | [] => 0 | f :: _ => f.views.length

def applyOrderOk (tr : List Frame) : Bool :=
  (List.range (nNodes tr)).all (fun i => consecutiveFrom 1 (appsOf tr i))

/-- what a node hands to its state machine as its k-th command is entry k of its own log -/
def frameAppliesLog (f : Frame) : Bool :=
  f.apps.all (fun a => match f.views[a.1]? with
    | some v => (v.log[a.2.1 - 1]?).map (·.2) == some a.2.2 && decide (a.2.1 ≥ 1)
    | none => false)

def applyFromLogOk (tr : List Frame) : Bool := tr.all frameAppliesLog

def allApps (tr : List Frame) : List (Nat × Nat × Nat) := tr.flatMap (·.apps)

def applyAgreeOk (tr : List Frame) : Bool :=
  let a := allApps tr
  a.all (fun x => a.all (fun y => x.2.1 != y.2.1 || x.2.2 == y.2.2))

/-! ### commit index never moves backwards; committed prefixes agree -/

def commitsOf (f : Frame) : List Nat := f.views.map (·.commit)

def commitMonotoneOk : List Frame → Bool
  | f :: g :: r =>
    ((commitsOf f).zip (commitsOf g)).all (fun p => decide (p.1 ≤ p.2)) && commitMonotoneOk (g :: r)
  | _ => true

/-- the entries a frame shows as committed: (index, entry, term of the node that shows it) -/
def committedOf (f : Frame) : List (Nat × OEntry × Nat) :=
  f.views.flatMap (fun v => ((v.log.take v.commit).zipIdx).map (fun p => (p.2 + 1, p.1, v.term)))

/-- two committed entries at one index are the same entry -/
def commitAgreeOk (tr : List Frame) : Bool :=
  let c := (tr.flatMap committedOf).eraseDups
  c.all (fun x => c.all (fun y => x.1 != y.1 || x.2.1 == y.2.1))

/-! ### leader completeness -/

/-- every entry seen committed (by a node then in term `T`) so far is in the log of every node
    that is leader of a term `> T` in the current frame -/
def frameLeaderComplete (seen : List (Nat × OEntry × Nat)) (f : Frame) : Bool :=
  f.views.all (fun v =>
    v.role != .leader ||
    seen.all (fun c => decide (v.term ≤ c.2.2) || v.log[c.1 - 1]? == some c.2.1))

def leaderCompleteGo (seen : List (Nat × OEntry × Nat)) : List Frame → Bool
  | [] => true
  | f :: r =>
    let seen' := (committedOf f ++ seen).eraseDups
    frameLeaderComplete seen' f && leaderCompleteGo seen' r

def leaderCompleteOk (tr : List Frame) : Bool := leaderCompleteGo [] tr

/-! ### submit futures -/

def submitsOf (tr : List Frame) : List (Nat × Nat × Nat) := tr.filterMap (·.submit)

/-- walking the run: every resolution `(node, future, index)` belongs to a submit
    `(node, future, cmd)` made earlier on that node, and that node has applied exactly `cmd` at `index` -/
def submitGo (subs : List (Nat × Nat × Nat)) (apps : List (Nat × Nat × Nat)) : List Frame → Bool
  | [] => true
  | f :: r =>
    let subs' := match f.submit with | some s => s :: subs | none => subs
    let apps' := f.apps ++ apps
    f.ress.all (fun q =>
      match subs'.find? (fun s => s.1 == q.1 && s.2.1 == q.2.1) with
      | some s => apps'.contains (q.1, q.2.2, s.2.2)
      | none => false) && submitGo subs' apps' r

def submitOk (tr : List Frame) : Bool := submitGo [] [] tr

/-! ### bounded progress on a quiet network

`stable` runs are produced by the harness only: no faults, delays far below the election
timeout, commands submitted to the leader once it is established, and a quiet tail long enough
for two heartbeat rounds.  At the end every node has applied every accepted command, in
submission order. -/

/-- commands accepted by a node that was leader when `submit` was called, in submission order -/
def acceptedCmds (tr : List Frame) : List Nat :=
  tr.filterMap (fun f =>
    match f.submit with
    | some (i, _, c) => match f.views[i]? with
      | some v => if v.role = .leader then some c else none
      | none => none
    | none => none)

def stableOk (tr : List Frame) : Bool :=
  (List.range (nNodes tr)).all (fun i => (appsOf tr i).map (·.2) == acceptedCmds tr)

/-! ### the judge: first violated clause, as a stable signature -/

def judge (stable : Bool) (tr : List Frame) : Option String :=
  if !electionOk tr then some "raft/election/two-leaders-one-term"
  else if !logMatchingOk tr then some "raft/log-matching/same-index-term-different-prefix"
  else if !applyOrderOk tr then some "raft/apply/gap-or-reorder"
  else if !applyFromLogOk tr then some "raft/apply/not-the-log-entry-at-that-index"
  else if !applyAgreeOk tr then some "raft/apply/different-command-same-index"
  else if !commitAgreeOk tr then some "raft/commit/different-entry-same-index"
  else if !leaderCompleteOk tr then some "raft/leader-completeness/committed-entry-missing"
  else if !commitMonotoneOk tr then some "raft/commit/decreased"
  else if !submitOk tr then some "raft/submit/resolved-with-other-command"
  else if stable && !stableOk tr then some "raft/liveness/stable-leader-command-not-applied"
  else none

end HappyModel.C11.Spec
