/-!
Model of `happysimulator/components/consensus/{raft,log,raft_state_machine}.py`.

A cluster is `n` nodes (ids `0 … n-1`), a soup of sent messages (ids in send order) and a
set of crashed nodes.  Actions:

    deliver m     the network hands message `m` to its destination (`RaftNode.handle_event`)
    timeout i     node i's election timer fires            (`_handle_election_timeout`)
    heartbeat i   node i's heartbeat timer fires           (`_handle_heartbeat_tick`)
    submit i f c  a client calls `nodes[i].submit(c)` and keeps future `f`
    drop m        the network loses message `m` (partition, link loss)
    crash i / restart i   `CrashNode`: every event aimed at a crashed node is discarded; windows nest
                          (one `restart` closes one `crash`; the node is up when none is open)

There is no time in the model: which timer fires when, and the order in which messages
arrive, are *inputs* (the action list).  Theorems quantify over all action lists, so they cover
every choice of latencies, election-timeout draws, partitions and crash schedules.  The soup
never shrinks on delivery (so duplication is covered as well).

`Variant` switches between the code as pinned (`current`) and the four small repairs of
`fixes/C11-*.diff` (`repaired`).
-/
namespace HappyModel.C11

inductive Role | follower | candidate | leader
deriving DecidableEq, Repr

/-- a client command for `KVStateMachine`; `id` is the harness's unique tag (extra dict key) -/
structure Cmd where
  id : Nat
  op : Nat            -- 0 set, 1 get, 2 delete, 3 cas
  key : Nat
  val : Nat
  exp : Option Nat    -- `expected` of cas (None allowed)
deriving DecidableEq, Repr

structure Entry where
  term : Nat
  cmd : Cmd
deriving DecidableEq, Repr

/-- result of `KVStateMachine.apply` -/
inductive Res | none | val (v : Nat) | bool (b : Bool)
deriving DecidableEq, Repr

structure Variant where
  /-- D1 repaired: `_step_down` clears `voted_for` only when the term increases -/
  keepVote : Bool
  /-- D2 repaired: a successful AppendEntries ack reports `prev_log_index + len(entries)` -/
  matchSent : Bool
  /-- D3 repaired: an AppendEntriesResponse from an older term is ignored -/
  staleAck : Bool
  /-- D4 repaired: truncating the log discards the pending client futures at/after the cut -/
  dropPending : Bool
deriving DecidableEq, Repr

def Variant.current : Variant := ⟨false, false, false, false⟩
def Variant.repaired : Variant := ⟨true, true, true, true⟩

structure Node where
  term : Nat := 0
  votedFor : Option Nat := none
  role : Role := .follower
  log : List Entry := []
  commit : Nat := 0
  lastApplied : Nat := 0
  nextIndex : List Nat := []          -- `_next_index`, by peer id (default 1)
  matchIndex : List Nat := []         -- `_match_index`, by peer id (default 0)
  votes : List Nat := []              -- `_votes_received_set`
  pending : List (Nat × Nat) := []    -- `_pending_futures` with positive keys: log index ↦ future
  kv : List (Nat × Nat) := []         -- `KVStateMachine._data`
  applied : List (Nat × Cmd) := []    -- recording state machine: (index, command), newest first
deriving Repr

inductive Body
  | rv (term cand lastIdx lastTerm : Nat)
  | vr (term : Nat) (granted : Bool) (frm : Nat)
  | ae (term leader prevIdx prevTerm : Nat) (entries : List Entry) (commit : Nat)
  | ar (term : Nat) (success : Bool) (frm matchIdx : Nat)
deriving DecidableEq, Repr

structure Env where
  id : Nat
  src : Nat
  dst : Nat
  body : Body
deriving DecidableEq, Repr

/-- what a handler returns: the new node state, the `network.send` calls in order, the
    state-machine applications `(index, command, result)` and the futures resolved
    `(future, index, result)` -/
structure HR where
  node : Node
  sends : List (Nat × Body) := []
  apps : List (Nat × Cmd × Res) := []
  ress : List (Nat × Nat × Res) := []
deriving Repr

/-! ### `Log` -/

/-- `Log.get` (1-based) -/
def getE (l : List Entry) (idx : Nat) : Option Entry := if idx = 0 then none else l[idx - 1]?

/-- `Log.last_term` -/
def lastTerm (l : List Entry) : Nat := match l.getLast? with | some e => e.term | none => 0

/-- term of the entry at `idx`, 0 when absent (`prev_log_term` computation) -/
def termAt (l : List Entry) (idx : Nat) : Nat := match getE l idx with | some e => e.term | none => 0

/-! ### `KVStateMachine` -/

def kvGet (d : List (Nat × Nat)) (k : Nat) : Option Nat := (d.find? (fun p => p.1 == k)).map (·.2)
def kvDel (d : List (Nat × Nat)) (k : Nat) : List (Nat × Nat) := d.filter (fun p => p.1 != k)
def kvSet (d : List (Nat × Nat)) (k v : Nat) : List (Nat × Nat) := (k, v) :: kvDel d k
def optRes : Option Nat → Res | some v => .val v | none => .none

def kvApply (d : List (Nat × Nat)) (c : Cmd) : List (Nat × Nat) × Res :=
  if c.op = 0 then (kvSet d c.key c.val, .val c.val)
  else if c.op = 1 then (d, optRes (kvGet d c.key))
  else if c.op = 2 then (kvDel d c.key, optRes (kvGet d c.key))
  else if kvGet d c.key = c.exp then (kvSet d c.key c.val, .bool true)
  else (d, .bool false)

/-! ### helpers of `RaftNode` -/

def quorum (n : Nat) : Nat := n / 2 + 1

def insertVote (l : List Nat) (v : Nat) : List Nat := if v ∈ l then l else v :: l

def popPending (p : List (Nat × Nat)) (idx : Nat) : List (Nat × Nat) := p.filter (fun q => q.1 != idx)
def setPending (p : List (Nat × Nat)) (idx f : Nat) : List (Nat × Nat) := popPending p idx ++ [(idx, f)]
def getPending (p : List (Nat × Nat)) (idx : Nat) : Option Nat := (p.find? (fun q => q.1 == idx)).map (·.2)

/-- `_step_down` -/
def stepDown (v : Variant) (x : Node) (t : Nat) : Node :=
  { x with term := t, role := .follower,
           votedFor := if v.keepVote && !decide (t > x.term) then x.votedFor else none }

/-- one iteration of the loop in `_apply_committed` for the entry at 1-based `idx` -/
def applyOne (r : HR) (idx : Nat) (e : Entry) : HR :=
  let x := r.node
  if idx > x.lastApplied then
    let kr := kvApply x.kv e.cmd
    let x' := { x with kv := kr.1, lastApplied := idx, applied := (idx, e.cmd) :: x.applied,
                       pending := popPending x.pending idx }
    match getPending x.pending idx with
    | some f => { r with node := x', apps := r.apps ++ [(idx, e.cmd, kr.2)], ress := r.ress ++ [(f, idx, kr.2)] }
    | none => { r with node := x', apps := r.apps ++ [(idx, e.cmd, kr.2)] }
  else r

/-- `_apply_committed(entries)` where `entries` start at 1-based index `idx` -/
def applyFrom (r : HR) (idx : Nat) : List Entry → HR
  | [] => r
  | e :: es => applyFrom (applyOne r idx e) (idx + 1) es

/-- `Log.advance_commit(new)` followed by `_apply_committed` of what it returned -/
def advanceCommit (r : HR) (new : Nat) : HR :=
  let x := r.node
  if new ≤ x.commit then r
  else
    let old := x.commit
    let c := min new x.log.length
    applyFrom { r with node := { x with commit := c } } (old + 1) ((x.log.take c).drop old)

/-- `Log.truncate_from(idx)` (+ D4: discard the pending futures it invalidates) -/
def truncateFrom (v : Variant) (x : Node) (idx : Nat) : Node :=
  if idx < 1 ∨ idx > x.log.length then x
  else
    { x with log := x.log.take (idx - 1),
             commit := if x.commit ≥ idx then idx - 1 else x.commit,
             pending := if v.dropPending then x.pending.filter (fun q => q.1 < idx) else x.pending }

/-- the entry loop of `_handle_append_entries`; `idx` is the index carried by the first entry -/
def appendLoop (v : Variant) (x : Node) (idx : Nat) : List Entry → Node
  | [] => x
  | e :: es =>
    match getE x.log idx with
    | some ex =>
      if ex.term ≠ e.term then
        let y := truncateFrom v x idx
        appendLoop v { y with log := y.log ++ [e] } (idx + 1) es
      else appendLoop v x (idx + 1) es
    | none => appendLoop v { x with log := x.log ++ [e] } (idx + 1) es

/-- the AppendEntries payload the leader builds for peer `p` -/
def aeFor (x : Node) (me p : Nat) : Body :=
  let prev := x.nextIndex.getD p 1 - 1
  .ae x.term me prev (if prev > 0 then termAt x.log prev else 0) (x.log.drop prev) x.commit

def peers (n me : Nat) : List Nat := (List.range n).filter (fun j => j != me)

/-- `_send_append_entries` -/
def sendAEs (n : Nat) (x : Node) (me : Nat) : List (Nat × Body) := (peers n me).map (fun p => (p, aeFor x me p))

/-- the state changes of `_become_leader` -/
def leaderInit (n : Nat) (x : Node) : Node :=
  { x with role := .leader, nextIndex := List.replicate n (x.log.length + 1), matchIndex := List.replicate n 0 }

/-- `_become_leader` -/
def becomeLeader (n : Nat) (x : Node) (me : Nat) (pre : List (Nat × Body)) : HR :=
  { node := leaderInit n x, sends := pre ++ sendAEs n (leaderInit n x) me }

/-- the state changes of `_start_election` -/
def startElection (x : Node) (me : Nat) : Node :=
  { x with role := .candidate, term := x.term + 1, votedFor := some me, votes := [me] }

/-- the RequestVote messages of `_start_election` -/
def rvsFor (n : Nat) (x : Node) (me : Nat) : List (Nat × Body) :=
  (peers n me).map (fun p => (p, Body.rv x.term me x.log.length (lastTerm x.log)))

/-- `_handle_election_timeout` / `_start_election` -/
def handleTimeout (n : Nat) (x : Node) (me : Nat) : HR :=
  if x.role = .leader then { node := x }
  else if (startElection x me).votes.length ≥ quorum n then
    becomeLeader n (startElection x me) me (rvsFor n (startElection x me) me)
  else { node := startElection x me, sends := rvsFor n (startElection x me) me }

def upToDate (x : Node) (lastIdx lastTm : Nat) : Bool :=
  decide (lastTm > lastTerm x.log) || (lastTm == lastTerm x.log && decide (lastIdx ≥ x.log.length))

/-- the grant condition of `_handle_request_vote` (evaluated after a possible step-down) -/
def rvGrant (x : Node) (term cand lastIdx lastTm : Nat) : Bool :=
  decide (term ≥ x.term) && (x.votedFor == none || x.votedFor == some cand) && upToDate x lastIdx lastTm

/-- `_handle_request_vote` once `term > current_term` has been dealt with -/
def rvCore (x : Node) (me src term cand lastIdx lastTm : Nat) : HR :=
  if rvGrant x term cand lastIdx lastTm then
    { node := { x with votedFor := some cand, term := term }, sends := [(src, .vr term true me)] }
  else { node := x, sends := [(src, .vr x.term false me)] }

/-- `_handle_request_vote` -/
def handleRV (v : Variant) (x : Node) (me src term cand lastIdx lastTm : Nat) : HR :=
  rvCore (if term > x.term then stepDown v x term else x) me src term cand lastIdx lastTm

/-- `_votes_received_set.add(voter)` when granted -/
def addVote (x : Node) (granted : Bool) (frm : Nat) : Node :=
  { x with votes := if granted then insertVote x.votes frm else x.votes }

/-- the quorum test at the end of `_handle_vote_response` -/
def vrCount (n : Nat) (x : Node) (me : Nat) : HR :=
  if x.votes.length ≥ quorum n then becomeLeader n x me [] else { node := x }

/-- `_handle_vote_response` -/
def handleVR (v : Variant) (n : Nat) (x : Node) (me term : Nat) (granted : Bool) (frm : Nat) : HR :=
  if term > x.term then { node := stepDown v x term }
  else if x.role ≠ .candidate ∨ term ≠ x.term then { node := x }
  else vrCount n (addVote x granted frm) me

/-- `_handle_heartbeat_tick` -/
def handleHB (n : Nat) (x : Node) (me : Nat) : HR :=
  if x.role ≠ .leader then { node := x } else { node := x, sends := sendAEs n x me }

/-- the log consistency check of `_handle_append_entries` fails -/
def aeBad (x : Node) (prevIdx prevTerm : Nat) : Bool :=
  decide (prevIdx > 0) && (match getE x.log prevIdx with | none => true | some e => decide (e.term ≠ prevTerm))

/-- commit-index update of `_handle_append_entries` -/
def aeCommit (x : Node) (leaderCommit : Nat) : HR :=
  if leaderCommit > x.commit then advanceCommit { node := x } (min leaderCommit x.log.length) else { node := x }

/-- `_handle_append_entries` after the consistency check passed -/
def aeAccept (v : Variant) (x : Node) (me src prevIdx : Nat) (entries : List Entry) (leaderCommit : Nat) : HR :=
  let r := aeCommit (appendLoop v x (prevIdx + 1) entries) leaderCommit
  { r with sends := [(src, .ar r.node.term true me (if v.matchSent then prevIdx + entries.length else r.node.log.length))] }

/-- `_handle_append_entries` -/
def handleAE (v : Variant) (x : Node) (me src term prevIdx prevTerm : Nat)
    (entries : List Entry) (leaderCommit : Nat) : HR :=
  if term < x.term then { node := x, sends := [(src, .ar x.term false me 0)] }
  else if aeBad (stepDown v x term) prevIdx prevTerm then
    { node := stepDown v x term, sends := [(src, .ar term false me 0)] }
  else aeAccept v (stepDown v x term) me src prevIdx entries leaderCommit

/-- number of nodes (self included) known to hold index `N` -/
def countMatch (n : Nat) (x : Node) (me N : Nat) : Nat :=
  1 + ((peers n me).filter (fun j => decide (x.matchIndex.getD j 0 ≥ N))).length

/-- the search of `_try_advance_commit`: highest `N ≤ k`, `N > commit`, of the current term, on a quorum -/
def findCommit (n : Nat) (x : Node) (me : Nat) : Nat → Option Nat
  | 0 => none
  | k + 1 =>
    if k + 1 ≤ x.commit then none
    else if termAt x.log (k + 1) = x.term ∧ (getE x.log (k + 1)).isSome ∧ countMatch n x me (k + 1) ≥ quorum n
    then some (k + 1)
    else findCommit n x me k

/-- `_try_advance_commit` -/
def tryAdvance (n : Nat) (x : Node) (me : Nat) : HR :=
  match findCommit n x me x.log.length with
  | some N => advanceCommit { node := x } N
  | none => { node := x }

/-- `_handle_append_entries_response` -/
def handleAR (v : Variant) (n : Nat) (x : Node) (me term : Nat) (success : Bool) (frm matchIdx : Nat) : HR :=
  if term > x.term then { node := stepDown v x term }
  else if v.staleAck ∧ term < x.term then { node := x }
  else if x.role ≠ .leader then { node := x }
  else if success then
    tryAdvance n { x with nextIndex := x.nextIndex.set frm (matchIdx + 1),
                          matchIndex := x.matchIndex.set frm matchIdx } me
  else
    let x1 := { x with nextIndex := x.nextIndex.set frm (max 1 (x.nextIndex.getD frm 1 - 1)) }
    if frm < n ∧ frm ≠ me then { node := x1, sends := [(frm, aeFor x1 me frm)] } else { node := x1 }

/-- `submit` (futures queued on a non-leader are never resolved and are not modelled) -/
def handleSubmit (x : Node) (fid : Nat) (c : Cmd) : HR :=
  if x.role ≠ .leader then { node := x }
  else { node := { x with log := x.log ++ [⟨x.term, c⟩], pending := setPending x.pending (x.log.length + 1) fid } }

/-- `RaftNode.handle_event` for a network message -/
def handleMsg (v : Variant) (n : Nat) (x : Node) (e : Env) : HR :=
  match e.body with
  | .rv t c li lt => handleRV v x e.dst e.src t c li lt
  | .vr t g f => handleVR v n x e.dst t g f
  | .ae t _ pi pt es lc => handleAE v x e.dst e.src t pi pt es lc
  | .ar t s f mi => handleAR v n x e.dst t s f mi

/-! ### the cluster -/

@[noinline] def upd {β} (f : Nat → β) (i : Nat) (x : β) : Nat → β := fun j => if j = i then x else f j
@[simp] theorem upd_same {β} (f : Nat → β) (i : Nat) (x : β) : upd f i x i = x := by simp [upd]
theorem upd_other {β} (f : Nat → β) (i j : Nat) (x : β) (h : j ≠ i) : upd f i x j = f j := by
  simp [upd, h]

inductive Act
  | deliver (m : Nat)
  | timeout (i : Nat)
  | heartbeat (i : Nat)
  | submit (i f : Nat) (c : Cmd)
  | drop (m : Nat)
  | crash (i : Nat)
  | restart (i : Nat)
deriving DecidableEq, Repr

structure St where
  n : Nat
  nodes : Nat → Node
  crashed : List Nat := []      -- one occurrence per open crash window (`_crash_depth`)
  msgs : List Env := []         -- newest first
  nextId : Nat := 0

/-- what one step shows to an observer -/
structure StepOut where
  target : Option Nat := none
  sent : List Env := []
  apps : List (Nat × Cmd × Res) := []
  ress : List (Nat × Nat × Res) := []

def initNode (n : Nat) : Node := { nextIndex := List.replicate n 1, matchIndex := List.replicate n 0 }
def init (n : Nat) : St := { n := n, nodes := fun _ => initNode n }

/-- number the sends of node `i` from `k` on -/
def mkEnvs (i k : Nat) : List (Nat × Body) → List Env
  | [] => []
  | (d, b) :: r => ⟨k, i, d, b⟩ :: mkEnvs i (k + 1) r

def applyHR (s : St) (i : Nat) (r : HR) : St × StepOut :=
  let envs := mkEnvs i s.nextId r.sends
  ({ s with nodes := upd s.nodes i r.node, msgs := envs.reverse ++ s.msgs, nextId := s.nextId + r.sends.length },
   { target := some i, sent := envs, apps := r.apps, ress := r.ress })

def alive (s : St) (i : Nat) : Bool := decide (i < s.n) && !s.crashed.contains i

def findMsg (s : St) (m : Nat) : Option Env := s.msgs.find? (fun e => e.id == m)

/-- `_find_peer(source)` succeeds and the destination is up -/
def canDeliver (s : St) (e : Env) : Bool := alive s e.dst && decide (e.src < s.n) && decide (e.src ≠ e.dst)

def step (v : Variant) (s : St) : Act → St × StepOut
  | .deliver m =>
    match findMsg s m with
    | some e =>
      if canDeliver s e then
        applyHR s e.dst (handleMsg v s.n (s.nodes e.dst) e)
      else (s, { target := some e.dst })
    | none => (s, {})
  | .timeout i => if alive s i then applyHR s i (handleTimeout s.n (s.nodes i) i) else (s, { target := some i })
  | .heartbeat i => if alive s i then applyHR s i (handleHB s.n (s.nodes i) i) else (s, { target := some i })
  | .submit i f c => if decide (i < s.n) then applyHR s i (handleSubmit (s.nodes i) f c) else (s, { target := some i })
  | .drop m => ({ s with msgs := s.msgs.filter (fun e => e.id != m) }, {})
  | .crash i => ({ s with crashed := i :: s.crashed }, { target := some i })
  | .restart i => ({ s with crashed := s.crashed.erase i }, { target := some i })

def run (v : Variant) (s : St) : List Act → St
  | [] => s
  | a :: as => run v (step v s a).1 as

/-- every state visited, the start included -/
def trace (v : Variant) (s : St) : List Act → List St
  | [] => [s]
  | a :: as => s :: trace v (step v s a).1 as

end HappyModel.C11
