import HappyModel.C11.Spec
/-! What an observer sees of a model run: the `Spec.Frame`s. -/
namespace HappyModel.C11
open Spec

def viewOf (x : Node) : NodeView :=
  { role := x.role, term := x.term, votedFor := x.votedFor,
    log := x.log.map (fun e => (e.term, e.cmd.id)), commit := x.commit, lastApplied := x.lastApplied }

def viewsOf (s : St) : List NodeView := (List.range s.n).map (fun i => viewOf (s.nodes i))

def submitOf : Act → Option (Nat × Nat × Nat)
  | .submit i f c => some (i, f, c.id)
  | _ => none

def tgt (o : StepOut) : Nat := o.target.getD 0

/-- the frame observed after `step v s a = (s', o)` -/
def frameOf (s' : St) (o : StepOut) (a : Act) : Frame :=
  { views := viewsOf s',
    apps := o.apps.map (fun p => (tgt o, p.1, p.2.1.id)),
    ress := o.ress.map (fun p => (tgt o, p.1, p.2.1)),
    submit := submitOf a }

/-- the frames of a run: the initial one, then one per action -/
def framesFrom (v : Variant) (s : St) : List Act → List Frame
  | [] => []
  | a :: as => frameOf (step v s a).1 (step v s a).2 a :: framesFrom v (step v s a).1 as

def frames (v : Variant) (n : Nat) (as : List Act) : List Frame :=
  { views := viewsOf (init n) } :: framesFrom v (init n) as

end HappyModel.C11
