import HappyModel.Proto
import HappyModel.C09.Bulkhead
import HappyModel.C09.Preempt
import HappyModel.C09.PreemptCb
import HappyModel.C09.ThreadPool
/-! Line-protocol driver functions for the C09 extension (Bulkhead, ThreadPool, PreemptibleResource);
the other side is `hv/props/c09_extra.py`.  `HappyModel.C09.Driver.handle` dispatches to them. -/
namespace HappyModel.C09.Extra
open HappyModel.Proto

def showIds (l : List Nat) : String :=
  if l.isEmpty then "-" else ",".intercalate (l.map toString)

def parseIds (s : String) : List Nat :=
  if s == "-" then [] else (s.splitOn ",").map natD

def kv (key : String) (tok : String) : Option String :=
  if tok.startsWith (key ++ "=") then some ((tok.drop (key.length + 1)).toString) else none

def findKv (key : String) (ts : List String) : Option String := ts.findSome? (kv key)

/-! ### Bulkhead -/
section BulkheadDrv
open HappyModel.C09.Bulkhead

/-- engine layer: which deliveries the bulkhead's outputs make due, and when -/
structure BPend where
  starts : List (Nat × Nat) := []          -- (tag, t): forwarded at `t`, the target must see it at `t`
  running : List Nat := []
  dones : List (Nat × Nat) := []           -- (tag, t): service ended at `t`, the response is due at `t`
  tmos : List (Nat × Nat × Nat) := []      -- (tag, bulkhead id, due time)

def bcnt (s : St) : String :=
  s!"a={s.active} q={s.queue.length} p={permits s} T={s.total} A={s.accepted} R={s.rejected} X={s.timedOut} Q={s.queued} pc={s.peakConc} pq={s.peakQueue}"

def runBulkhead (max maxQ wait : Nat) (body : List String) : List String :=
  let rec go (s : St) (p : BPend) : List String → List String
    | [] => []
    | l :: ls =>
      match toks l with
      | ["req", t, rid] =>
        let r := step s (.request (natD rid) (natD t))
        match r.2 with
        | .admitted _ =>
          s!"req {t} {rid} res=admitted fwd={rid} {bcnt r.1}" :: go r.1 { p with starts := p.starts ++ [(natD rid, natD t)] } ls
        | .queued bid =>
          s!"req {t} {rid} res=queued fwd=- {bcnt r.1}"
            :: go r.1 (if wait = 0 then p else { p with tmos := p.tmos ++ [(natD rid, bid, natD t + wait)] }) ls
        | _ => s!"req {t} {rid} res=rejected fwd=- {bcnt r.1}" :: go r.1 p ls
      | ["start", t, rid] =>
        if p.starts.contains (natD rid, natD t) then
          s!"start {t} {rid} {bcnt s}"
            :: go s { p with starts := p.starts.filter (· != (natD rid, natD t)), running := p.running ++ [natD rid] } ls
        else s!"start {t} {rid} !unexpected" :: go s p ls
      | ["done", t, rid] =>
        if p.running.contains (natD rid) then
          s!"done {t} {rid} {bcnt s}"
            :: go s { p with running := p.running.filter (· != natD rid), dones := p.dones ++ [(natD rid, natD t)] } ls
        else s!"done {t} {rid} !unexpected" :: go s p ls
      | ["resp", t, rid] =>
        match p.dones.contains (natD rid, natD t), s.inflight.find? (·.2 == natD rid) with
        | true, some e =>
          let r := step s (.response e.1 (natD t))
          let p1 := { p with dones := p.dones.filter (· != (natD rid, natD t)) }
          match r.2 with
          | .completed (some f) =>
            s!"resp {t} {rid} fwd={f.1} {bcnt r.1}" :: go r.1 { p1 with starts := p1.starts ++ [(f.1, natD t)] } ls
          | .completed none => s!"resp {t} {rid} fwd=- {bcnt r.1}" :: go r.1 p1 ls
          | _ => s!"resp {t} {rid} !unknown" :: go r.1 p1 ls
        | _, _ => s!"resp {t} {rid} !unexpected" :: go s p ls
      | ["tmo", t, rid] =>
        match p.tmos.find? (fun e => e.1 == natD rid && e.2.2 == natD t) with
        | some e =>
          let r := step s (.timeout e.2.1 (natD t))
          let name := if r.2 == .timedOut then "timedout" else "noop"
          s!"tmo {t} {rid} res={name} fwd=- {bcnt r.1}" :: go r.1 { p with tmos := p.tmos.filter (·.1 != natD rid) } ls
        | none => s!"tmo {t} {rid} !unexpected" :: go s p ls
      | ["fin", t] =>
        s!"fin {t} fwd={showIds (p.starts.map (·.1))} run={showIds p.running} unresp={showIds (p.dones.map (·.1))} waiting={showIds (s.queue.map (·.rid))} tmos={showIds (p.tmos.map (·.1))} {bcnt s}"
          :: go s p ls
      | _ => s!"bad-line {l}" :: go s p ls
  go { max := max, maxQ := maxQ, wait := wait } {} body

def parseBObs (ts : List String) : Option Obs :=
  let num := fun (k : String) => ((findKv k ts).map natD).getD 0
  let lst := fun (k : String) => ((findKv k ts).map parseIds).getD []
  let res : Option ORes := match findKv "res" ts with
    | none => some .none
    | some "admitted" => some .admitted | some "queued" => some .queued | some "rejected" => some .rejected
    | some "timedout" => some .timedOut | some "noop" => some .noop
    | some _ => none
  let kind : Option (Nat × Kind) := match ts with
    | "req" :: t :: rid :: _ => some (natD t, .req (natD rid))
    | "start" :: t :: rid :: _ => some (natD t, .start (natD rid))
    | "done" :: t :: rid :: _ => some (natD t, .done (natD rid))
    | "resp" :: t :: rid :: _ => some (natD t, .resp (natD rid))
    | "tmo" :: t :: rid :: _ => some (natD t, .tmo (natD rid))
    | "fin" :: t :: _ => some (natD t, .fin)
    | _ => none
  match kind, res with
  | some (t, k), some r =>
    some { t := t, k := k, res := r, fwd := if k == .fin then [] else lst "fwd", a := num "a", q := num "q", p := num "p",
           sT := num "T", sA := num "A", sR := num "R", sX := num "X", sQ := num "Q", pc := num "pc", pq := num "pq",
           lostFwd := if k == .fin then lst "fwd" else [], unresp := if k == .fin then lst "unresp" else [] }
  | _, _ => none

def judgeBulkhead (max maxQ wait : Nat) (body : List String) : List String :=
  let parsed := body.map (fun l => parseBObs (toks l))
  if parsed.any Option.isNone then ["viol bulkhead/malformed-judge-input"]
  else match judge max maxQ wait {} (parsed.filterMap id) with
    | none => ["ok"]
    | some sig => [s!"viol {sig}"]

end BulkheadDrv

/-! ### PreemptibleResource -/
section PreemptDrv
open HappyModel.C09.Preempt

def presName : Preempt.Res → String
  | .granted => "granted" | .queued => "queued" | .err => "err:ValueError" | .released => "released" | .noop => "noop"

def presOf : String → Option Preempt.Res
  | "granted" => some .granted | "queued" => some .queued | "err:ValueError" => some .err
  | "released" => some .released | "noop" => some .noop | _ => none

def sortIds (l : List Nat) : List Nat := l.mergeSort (· ≤ ·)

def runPreempt (cap : Int) (wakeFix : Bool) (body : List String) : List String :=
  let rec go (s : Preempt.St) (gone : List Nat) : List String → List String
    | [] => []
    | l :: ls =>
      let tail := fun (r : Preempt.St × Preempt.Out) (gone : List Nat) =>
        s!"{presName r.2.res} pre={showIds r.2.evicted} woke={showIds (sortIds r.2.woke)} pset={showIds (sortIds gone)} av={r.1.avail} s={r.1.acquisitions},{r.1.releases},{r.1.preemptions},{r.1.contentions}"
      match toks l with
      | ["acq", id, amt, prio, pre] =>
        if natD id ≠ s.nextId then s!"acq {id} !id-out-of-sequence" :: go s gone ls
        else
          let r := Preempt.step s (.acquire (intD amt) (intD prio) (pre == "1"))
          let gone' := gone ++ r.2.evicted
          s!"acq {id} {amt} {prio} {pre} {tail r gone'}" :: go r.1 gone' ls
      | ["rel", id] =>
        let r := Preempt.step s (.release (natD id))
        s!"rel {id} {tail r gone}" :: go r.1 gone ls
      | _ => s!"bad-line {l}" :: go s gone ls
  go (Preempt.St.init cap wakeFix) [] body

def parsePObs (ts : List String) : Option Preempt.Obs :=
  let lst := fun (k : String) => ((findKv k ts).map parseIds).getD []
  let stats := ((findKv "s" ts).map (fun x => (x.splitOn ",").map natD)).getD []
  let mk := fun (k : Preempt.Kind) (r : String) =>
    (presOf r).map fun r => ({ k := k, res := r, evicted := lst "pre", woke := lst "woke", pset := lst "pset",
                               avail := ((findKv "av" ts).map intD).getD 0,
                               sAcq := stats.getD 0 0, sRel := stats.getD 1 0, sPre := stats.getD 2 0, sCon := stats.getD 3 0 } : Preempt.Obs)
  match ts with
  | "acq" :: id :: amt :: prio :: pre :: r :: _ => mk (.acq (natD id) (intD amt) (intD prio) (pre == "1")) r
  | "rel" :: id :: r :: _ => mk (.rel (natD id)) r
  | _ => none

def judgePreempt (cap : Int) (body : List String) : List String :=
  let parsed := body.map (fun l => parsePObs (toks l))
  if parsed.any Option.isNone then ["viol preempt/malformed-judge-input"]
  else match Preempt.judge cap {} (parsed.filterMap id) with
    | none => ["ok"]
    | some sig => [s!"viol {sig}"]

end PreemptDrv


/-! ### PreemptibleResource with re-entrant `on_preempt` callbacks -/
section PreemptCbDrv
open HappyModel.C09.Preempt HappyModel.C09.PreemptCb

/-- `r<id>` | `q` | `a<amt>:<prio>:<pre>:<cb>` -/
def actOf (t : String) : Option Act :=
  if t == "q" then some .query
  else if t.startsWith "r" then some (.rel (natD ((t.drop 1).toString)))
  else if t.startsWith "a" then
    match ((t.drop 1).toString).splitOn ":" with
    | [amt, prio, pre, cb] => some (.acq (intD amt) (intD prio) (pre == "1") (natD cb))
    | _ => none
  else none

def showEv (cbobs : Bool) (e : Ev) : String :=
  let pfx := match e.ctx with
    | some v => s!"cb {v} "
    | none => ""
  let head := match e.tag, e.o.k with
    | .query, _ => "q obs"
    | .ev _ first amt prio, _ => s!"ev {if first then 1 else 0} {amt} {prio} fired"
    | .call, .acq id amt prio pre => s!"acq {id} {amt} {prio} {if pre then 1 else 0} {presName e.o.res}"
    | .call, .rel id => s!"rel {id} {presName e.o.res}"
  let cnt := if e.ctx.isNone || cbobs then
      s!" pset={showIds e.o.pset} av={e.o.avail} s={e.o.sAcq},{e.o.sRel},{e.o.sPre},{e.o.sCon}"
    else ""
  s!"{pfx}{head} pre={showIds e.o.evicted} woke={showIds e.o.woke}{cnt}"

def cbFuel : Nat := 20000

def runPreemptCb (cap : Int) (cbobs : Bool) (body : List String) : List String :=
  let progLines := body.filter (fun l => (toks l).head? == some "prog")
  let progs : Progs := progLines.map (fun l => ((toks l).drop 1).filterMap actOf)
  let ops : List (Option Act) := (body.filter (fun l => (toks l).head? != some "prog")).map fun l =>
    match toks l with
    | ["acq", amt, prio, pre, cb] => some (.acq (intD amt) (intD prio) (pre == "1") (natD cb))
    | ["rel", id] => some (.rel (natD id))
    | _ => none
  if ops.any Option.isNone then ["bad-line"]
  else ((drain progs cbFuel (M.init cap (ops.filterMap id))).2).map (showEv cbobs)

def parseCObs (ts : List String) : Option CObs :=
  let ctx : Option Nat := match ts with
    | "cb" :: v :: _ => some (natD v)
    | _ => none
  let ts' := if ctx.isSome then ts.drop 2 else ts
  let cnt := (findKv "av" ts').isSome
  let lst := fun (k : String) => ((findKv k ts').map parseIds).getD []
  let stats := ((findKv "s" ts').map (fun x => (x.splitOn ",").map natD)).getD []
  let bare : Preempt.Obs :=
    { k := .rel 0, res := .noop, evicted := lst "pre", woke := lst "woke", pset := lst "pset",
      avail := ((findKv "av" ts').map intD).getD 0,
      sAcq := stats.getD 0 0, sRel := stats.getD 1 0, sPre := stats.getD 2 0, sCon := stats.getD 3 0 }
  if ctx.isNone && !cnt then none
  else match ts' with
    | "q" :: _ => some { tag := .query, cnt := cnt, o := bare }
    | "ev" :: first :: amt :: prio :: _ =>
      ctx.map fun v => { tag := .ev v (first == "1") (intD amt) (intD prio), cnt := cnt, o := bare }
    | _ => (parsePObs ts').map fun o => { tag := .call, cnt := cnt, o := o }

def judgePreemptCb (cap : Int) (body : List String) : List String :=
  let parsed := body.map (fun l => parseCObs (toks l))
  if parsed.any Option.isNone then ["viol preempt/malformed-judge-input"]
  else match PreemptCb.judge cap {} (parsed.filterMap id) with
    | none => ["ok"]
    | some sig => [s!"viol {sig}"]

end PreemptCbDrv

/-! ### ThreadPool -/
section TPoolDrv
open HappyModel.C09.TPool

def tcnt (s : TPool.St) : String :=
  s!"aw={s.active} iw={s.n - s.active} q={s.queue.length} acc={s.accepted} drop={s.dropped} done={s.completed} rej={s.rejected} cap={if s.active < s.n then 1 else 0}"

def pollName : TPool.Res → String
  | .polled => "polled" | .idle => "idle" | _ => "!bad"

def showItem : Option Nat → String
  | some t => toString t | none => "-"

def qcapOf (s : String) : Option Nat := if s == "-1" then none else some (natD s)

/-- `pts`: the processing time of each started task comes with its `work` line (`pt=`): it is an input -/
def runTPool (n : Nat) (qcap : Option Nat) (body : List String) : List String :=
  let rec go (s : TPool.St) (due : List (Nat × Nat)) : List String → List String
    | [] => []
    | l :: ls =>
      match toks l with
      | ["submit", t, tid] =>
        let r := TPool.step s (.submit (natD tid))
        (match r.2 with
         | .accepted nt => s!"submit {t} {tid} res=accepted n={if nt then 1 else 0} {tcnt r.1}"
         | _ => s!"submit {t} {tid} res=dropped n=0 {tcnt r.1}") :: go r.1 due ls
      | ["notify", t] =>
        let r := TPool.step s .notify
        s!"notify {t} res={pollName r.2} {tcnt r.1}" :: go r.1 due ls
      | ["disp", t] =>
        let r := TPool.step s .disp
        s!"disp {t} res={pollName r.2} {tcnt r.1}" :: go r.1 due ls
      | ["poll", t] =>
        let r := TPool.step s .poll
        (match r.2 with
         | .item i => s!"poll {t} res=item item={showItem i} {tcnt r.1}"
         | _ => s!"poll {t} !unexpected") :: go r.1 due ls
      | ["deliver", t] =>
        let r := TPool.step s .deliver
        (match r.2 with
         | .item i => s!"deliver {t} res=item item={showItem i} {tcnt r.1}"
         | .bad => s!"deliver {t} !unexpected"
         | x => s!"deliver {t} res={pollName x} {tcnt r.1}") :: go r.1 due ls
      | ["work", t, tid, pt] =>
        let r := TPool.step s (.work (natD tid))
        (match r.2 with
         | .started => s!"work {t} {tid} {pt} res=started {tcnt r.1}"
         | .rejected => s!"work {t} {tid} {pt} res=rejected {tcnt r.1}"
         | _ => s!"work {t} {tid} {pt} !unexpected") :: go r.1 ((natD tid, natD t + natD pt) :: due) ls
      | ["finish", t, tid] =>
        if !due.contains (natD tid, natD t) then s!"finish {t} {tid} !unexpected-time" :: go s due ls
        else
          let r := TPool.step s (.finish (natD tid))
          (if r.2 == .bad then s!"finish {t} {tid} !unexpected" else s!"finish {t} {tid} {tcnt r.1}") :: go r.1 due ls
      | ["fin", t] => s!"fin {t} pend={s.pend.length} run={showIds s.running} {tcnt s}" :: go s due ls
      | _ => s!"bad-line {l}" :: go s due ls
  go { n := n, qcap := qcap } [] body

def parseTObs (ts : List String) : Option TPool.Obs :=
  let num := fun (k : String) => ((findKv k ts).map natD).getD 0
  let item : Option Nat := match findKv "item" ts with
    | some "-" => none | some x => some (natD x) | none => none
  let res : Option TPool.ORes := match findKv "res" ts with
    | none => some .none
    | some "accepted" => some .accepted | some "dropped" => some .dropped | some "polled" => some .polled
    | some "idle" => some .idle | some "item" => some .item | some "started" => some .started
    | some "rejected" => some .rejected | some _ => none
  let kind : Option (Nat × TPool.Kind × Nat) := match ts with
    | "submit" :: t :: tid :: _ => some (natD t, .submit (natD tid), 0)
    | "notify" :: t :: _ => some (natD t, .notify, 0)
    | "poll" :: t :: _ => some (natD t, .poll, 0)
    | "deliver" :: t :: _ => some (natD t, .deliver, 0)
    | "work" :: t :: tid :: pt :: _ => some (natD t, .work (natD tid), natD pt)
    | "finish" :: t :: tid :: _ => some (natD t, .finish (natD tid), 0)
    | "disp" :: t :: _ => some (natD t, .disp, 0)
    | "fin" :: t :: _ => some (natD t, .fin, 0)
    | _ => none
  match kind, res with
  | some (t, k, pt), some r =>
    some { t := t, k := k, res := r, item := item, pt := pt, aw := num "aw", iw := num "iw", q := num "q", acc := num "acc",
           drop := num "drop", done := num "done", rej := num "rej", cap := num "cap" == 1 }
  | _, _ => none

def judgeTPool (n : Nat) (qcap : Option Nat) (body : List String) : List String :=
  let parsed := body.map (fun l => parseTObs (toks l))
  if parsed.any Option.isNone then ["viol tpool/malformed-judge-input"]
  else match TPool.judge n qcap {} (parsed.filterMap id) with
    | none => ["ok"]
    | some sig => [s!"viol {sig}"]

end TPoolDrv

/-- the modes of the extension; `none` = not one of ours -/
def handle? (hdr : List String) (body : List String) : Option (List String) :=
  match hdr with
  | ["bulkhead", mx, mq, w] => some (runBulkhead (natD mx) (natD mq) (natD w) body)
  | ["judge-bulkhead", mx, mq, w] => some (judgeBulkhead (natD mx) (natD mq) (natD w) body)
  | ["tpool", n, qc] => some (runTPool (natD n) (qcapOf qc) body)
  | ["judge-tpool", n, qc] => some (judgeTPool (natD n) (qcapOf qc) body)
  | ["preempt", cap, fix] => some (runPreempt (intD cap) (fix == "1") body)
  | ["judge-preempt", cap] => some (judgePreempt (intD cap) body)
  | ["preemptcb", cap, cbobs] => some (runPreemptCb (intD cap) (cbobs == "1") body)
  | ["judge-preemptcb", cap] => some (judgePreemptCb (intD cap) body)
  | _ => none

end HappyModel.C09.Extra
