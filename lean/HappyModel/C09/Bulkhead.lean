/-!
Model of `happysimulator/components/resilience/bulkhead.py` (`Bulkhead.handle_event`) as a transition
system whose actions are the three kinds of deliveries the entity handles:

    request rid t    a fresh request (`rid` is an opaque tag of the caller, carried along):
                     forwarded if `active < max_concurrent`, else queued if the wait queue has room,
                     else rejected
    response bid t   `_bh_response` for the forwarded request `bid`: unknown ids are ignored; a known one
                     returns its permit and `_try_process_queued` admits the oldest waiting request that
                     has not waited longer than `max_wait_time` (older, expired ones are counted as timed out)
    timeout bid t    `_bh_timeout` for the queued request `bid`: removed and counted if still waiting,
                     otherwise nothing

Request ids are allocated by the bulkhead itself (`_next_request_id`), once when a request is queued and
once more when it is forwarded, exactly as in the code.  `wait = 0` encodes `max_wait_time = None`.
Times are integer nanoseconds.

The last three fields are ghost ledgers used by the theorems only: the ids of all requests ever queued,
of those admitted from the queue, and of those timed out, each in the order of the event.
-/
namespace HappyModel.C09.Bulkhead

structure Entry where
  bid : Nat
  rid : Nat
  enq : Nat
deriving Repr, DecidableEq

structure St where
  max : Nat
  maxQ : Nat
  wait : Nat := 0
  active : Nat := 0                       -- `_active_count`
  queue : List Entry := []                -- `_wait_queue`, FIFO
  inflight : List (Nat × Nat) := []       -- `_in_flight`: (bulkhead id, caller tag)
  nextId : Nat := 0
  total : Nat := 0
  accepted : Nat := 0
  rejected : Nat := 0
  timedOut : Nat := 0
  queued : Nat := 0
  peakConc : Nat := 0
  peakQueue : Nat := 0
  everQ : List Nat := []
  admittedQ : List Nat := []
  expired : List Nat := []
deriving Repr, DecidableEq

inductive Op
  | request (rid t : Nat) | response (bid t : Nat) | timeout (bid t : Nat)
deriving Repr, DecidableEq

inductive Res
  | admitted (bid : Nat)
  | queued (bid : Nat)
  | rejected
  | completed (fwd : Option (Nat × Nat))   -- the (caller tag, new bulkhead id) of the waiting request it admitted
  | unknown                                -- response for an id that is not in flight
  | timedOut
  | noop
deriving Repr, DecidableEq

/-- `available_permits` -/
def permits (s : St) : Nat := s.max - s.active

/-- `_forward_request` -/
def forward (s : St) (rid : Nat) : St :=
  { s with nextId := s.nextId + 1, active := s.active + 1, accepted := s.accepted + 1,
           peakConc := if s.peakConc < s.active + 1 then s.active + 1 else s.peakConc,
           inflight := s.inflight ++ [(s.nextId + 1, rid)] }

/-- `_enqueue_request` -/
def enqueue (s : St) (rid t : Nat) : St :=
  { s with nextId := s.nextId + 1, queued := s.queued + 1,
           queue := s.queue ++ [⟨s.nextId + 1, rid, t⟩],
           peakQueue := if s.peakQueue < s.queue.length + 1 then s.queue.length + 1 else s.peakQueue,
           everQ := s.everQ ++ [s.nextId + 1] }

/-- has this entry waited longer than `max_wait_time` at time `t`? (`wait_time > max_wait_time`) -/
def isExpired (wait t : Nat) (e : Entry) : Bool := wait != 0 && decide (e.enq + wait < t)

/-- the expired entries at the front of the queue that `_try_process_queued` skips -/
def skipped (wait t : Nat) : List Entry → List Entry
  | [] => []
  | e :: es => if isExpired wait t e then e :: skipped wait t es else []

/-- what is left of the queue after skipping: starts with the first entry that has not expired -/
def remaining (wait t : Nat) : List Entry → List Entry
  | [] => []
  | e :: es => if isExpired wait t e then remaining wait t es else e :: es

/-- `_try_process_queued` -/
def tryProcess (s : St) (t : Nat) : St × Option (Nat × Nat) :=
  if s.queue.isEmpty then (s, none)
  else if s.max ≤ s.active then (s, none)
  else
    let sk := skipped s.wait t s.queue
    let s1 := { s with timedOut := s.timedOut + sk.length, expired := s.expired ++ sk.map Entry.bid }
    match remaining s.wait t s.queue with
    | [] => ({ s1 with queue := [] }, none)
    | e :: es =>
      (forward { s1 with queue := es, admittedQ := s1.admittedQ ++ [e.bid] } e.rid, some (e.rid, s.nextId + 1))

def step (s : St) : Op → St × Res
  | .request rid t =>
    let s := { s with total := s.total + 1 }
    if s.active < s.max then (forward s rid, .admitted (s.nextId + 1))
    else if s.queue.length < s.maxQ then (enqueue s rid t, .queued (s.nextId + 1))
    else ({ s with rejected := s.rejected + 1 }, .rejected)
  | .response bid t =>
    if !(s.inflight.any (·.1 == bid)) then (s, .unknown)
    else
      let r := tryProcess { s with inflight := s.inflight.eraseP (·.1 == bid), active := s.active - 1 } t
      (r.1, .completed r.2)
  | .timeout bid _ =>
    if s.queue.any (·.bid == bid) then
      ({ s with queue := s.queue.filter (·.bid != bid), timedOut := s.timedOut + 1, expired := s.expired ++ [bid] }, .timedOut)
    else (s, .noop)

def run (s : St) : List Op → St
  | [] => s
  | o :: os => run (step s o).1 os

/-! ### Spec: a judge over observed bulkhead transcripts

The judge keeps its own books from what was *reported* (results of deliveries, which request the target
saw starting and finishing) and compares them with the public counters reported on the same line. -/

inductive Kind
  | req (rid : Nat) | start (rid : Nat) | done (rid : Nat) | resp (rid : Nat) | tmo (rid : Nat) | fin
deriving Repr, DecidableEq

inductive ORes | admitted | queued | rejected | timedOut | noop | none
deriving Repr, DecidableEq

structure Obs where
  t : Nat
  k : Kind
  res : ORes := .none
  fwd : List Nat := []        -- caller tags of the requests this delivery forwarded to the target
  a : Nat := 0                -- active_count
  q : Nat := 0                -- queue_depth
  p : Nat := 0                -- available_permits
  sT : Nat := 0               -- stats.total_requests
  sA : Nat := 0               -- stats.accepted_requests
  sR : Nat := 0               -- stats.rejected_requests
  sX : Nat := 0               -- stats.timed_out_requests
  sQ : Nat := 0               -- stats.queued_requests
  pc : Nat := 0               -- stats.peak_concurrent
  pq : Nat := 0               -- stats.peak_queue_depth
  lostFwd : List Nat := []    -- `fin`: forwarded requests that never reached the target
  unresp : List Nat := []     -- `fin`: finished requests whose response never reached the bulkhead
deriving Repr

structure Book where
  toStart : List (Nat × Nat) := []    -- (tag, clock value of the admission): forwarded, not yet seen by the target
  running : List Nat := []
  toResp : List (Nat × Nat) := []     -- (tag, clock value of the end of service)
  waiting : List (Nat × Nat) := []    -- (tag, clock value of the enqueue), in queueing order
  timedOut : List Nat := []
  admitted : List Nat := []           -- every tag ever admitted
  nReq : Nat := 0
  nRej : Nat := 0
  nQueued : Nat := 0
  peakA : Nat := 0
  peakQ : Nat := 0
deriving Repr

def Book.active (b : Book) : Nat := b.toStart.length + b.running.length + b.toResp.length

/-- let in the reported requests from the waiting list, oldest first -/
def Book.admitAll (b : Book) (t : Nat) : List Nat → Except String Book
  | [] => .ok b
  | x :: xs =>
    if b.timedOut.contains x then .error "bulkhead/timeout/admitted-after-timeout"
    else if b.admitted.contains x then .error "bulkhead/admission/twice"
    else match b.waiting with
      | [] => .error "bulkhead/admission/not-waiting"
      | h :: rest =>
        if h.1 ≠ x then .error "bulkhead/fifo/out-of-order"
        else Book.admitAll { b with waiting := rest, toStart := b.toStart ++ [(x, t)], admitted := b.admitted ++ [x] } t xs

/-- the first `n` waiting requests are reported expired: each must have waited longer than the limit -/
def Book.expire (wait t : Nat) (b : Book) : Nat → Except String Book
  | 0 => .ok b
  | n + 1 =>
    match b.waiting with
    | [] => .error "bulkhead/timeout/counted-without-waiter"
    | h :: rest =>
      if wait = 0 ∨ t ≤ h.2 + wait then .error "bulkhead/timeout/early"
      else Book.expire wait t { b with waiting := rest, timedOut := b.timedOut ++ [h.1] } n

def Book.apply (max maxQ wait : Nat) (b : Book) (o : Obs) : Except String Book :=
  match o.k, o.res with
  | .req rid, .admitted =>
    if o.fwd ≠ [rid] then .error "bulkhead/admission/forwarded-other-request"
    else if b.admitted.contains rid then .error "bulkhead/admission/twice"
    else .ok { b with nReq := b.nReq + 1, toStart := b.toStart ++ [(rid, o.t)], admitted := b.admitted ++ [rid] }
  | .req rid, .queued =>
    if o.fwd ≠ [] then .error "bulkhead/admission/forwarded-other-request"
    else .ok { b with nReq := b.nReq + 1, nQueued := b.nQueued + 1, waiting := b.waiting ++ [(rid, o.t)] }
  | .req _, .rejected =>
    if o.fwd ≠ [] then .error "bulkhead/admission/forwarded-other-request"
    else if b.active < max ∨ b.waiting.length < maxQ then .error "bulkhead/reject/although-room"
    else .ok { b with nReq := b.nReq + 1, nRej := b.nRej + 1 }
  | .start rid, _ =>
    match b.toStart.find? (·.1 == rid) with
    | none =>
      if b.admitted.contains rid then .error "bulkhead/admission/started-twice" else .error "bulkhead/admission/started-without-admission"
    | some e =>
      if e.2 ≠ o.t then .error "bulkhead/admission/late-start"
      else .ok { b with toStart := b.toStart.filter (·.1 != rid), running := b.running ++ [rid] }
  | .done rid, _ =>
    if !b.running.contains rid then .error "bulkhead/done/not-running"
    else .ok { b with running := b.running.filter (· != rid), toResp := b.toResp ++ [(rid, o.t)] }
  | .resp rid, _ =>
    match b.toResp.find? (·.1 == rid) with
    | none =>
      -- the permit of a request that has not finished must not be returned
      if (b.toStart.find? (·.1 == rid)).isSome ∨ b.running.contains rid then
        .error "bulkhead/release/permit-returned-before-completion"
      -- a response for a request that is not outstanding must change nothing
      else if o.fwd ≠ [] then .error "bulkhead/release/phantom-admission"
      else if o.a < b.active then .error "bulkhead/release/double-decrement"
      else .ok b
    | some e =>
      if e.2 ≠ o.t then .error "bulkhead/release/late-response"
      else
        let b1 := { b with toResp := b.toResp.filter (·.1 != rid) }
        match b1.expire wait o.t (o.sX - b1.timedOut.length) with
        | .error e => .error e
        | .ok b2 => b2.admitAll o.t o.fwd
  | .tmo rid, .timedOut =>
    if o.fwd ≠ [] then .error "bulkhead/release/phantom-admission"
    else match b.waiting.find? (·.1 == rid) with
      | none =>
        if b.admitted.contains rid then .error "bulkhead/timeout/fired-after-admission" else .error "bulkhead/timeout/not-waiting"
      | some e =>
        if wait = 0 ∨ o.t < e.2 + wait then .error "bulkhead/timeout/early"
        else .ok { b with waiting := b.waiting.filter (·.1 != rid), timedOut := b.timedOut ++ [rid] }
  | .tmo rid, .noop =>
    if o.fwd ≠ [] then .error "bulkhead/release/phantom-admission"
    else if (b.waiting.find? (·.1 == rid)).isSome then .error "bulkhead/timeout/ignored"
    else .ok b
  | .fin, _ =>
    if o.lostFwd ≠ [] ∨ b.toStart ≠ [] then .error "bulkhead/request/lost"
    else if o.unresp ≠ [] ∨ b.toResp ≠ [] then .error "bulkhead/release/permit-not-returned"
    else if wait ≠ 0 ∧ b.waiting ≠ [] then .error "bulkhead/timeout/waited-past-limit"
    else .ok b
  | _, _ => .error "bulkhead/unknown-observation"

def Book.check (max maxQ : Nat) (b : Book) (o : Obs) : Option String :=
  if max < b.active ∨ max < o.a then some "bulkhead/active/exceeds-limit"
  else if o.a ≠ b.active then some "bulkhead/active/count-mismatch"
  else if max < o.p then some "bulkhead/release/above-capacity"
  else if o.a + o.p ≠ max then some "bulkhead/conservation/active-plus-permits"
  else if o.q ≠ b.waiting.length then some "bulkhead/queue/count-mismatch"
  else if maxQ < b.waiting.length then some "bulkhead/queue/exceeds-bound"
  else if b.waiting ≠ [] ∧ b.active < max then some "bulkhead/head/grantable-but-blocked"
  else if o.sT ≠ b.nReq then some "bulkhead/stats/total-mismatch"
  else if o.sA ≠ b.admitted.length then some "bulkhead/stats/accepted-mismatch"
  else if o.sR ≠ b.nRej then some "bulkhead/stats/rejected-mismatch"
  else if o.sX ≠ b.timedOut.length then some "bulkhead/stats/timed-out-mismatch"
  else if o.sQ ≠ b.nQueued then some "bulkhead/stats/queued-mismatch"
  else if o.sT ≠ o.sA + o.sR + o.sX + o.q then some "bulkhead/conservation/requests-lost"
  else if o.pc ≠ b.peakA ∨ o.pq ≠ b.peakQ then some "bulkhead/stats/peak-mismatch"
  else none

def Book.peaks (b : Book) : Book :=
  { b with peakA := if b.peakA < b.active then b.active else b.peakA,
           peakQ := if b.peakQ < b.waiting.length then b.waiting.length else b.peakQ }

def judge (max maxQ wait : Nat) : Book → List Obs → Option String
  | _, [] => none
  | b, o :: os =>
    match b.apply max maxQ wait o with
    | .error e => some e
    | .ok b' =>
      let b'' := b'.peaks
      match b''.check max maxQ o with
      | some e => some e
      | none => judge max maxQ wait b'' os

end HappyModel.C09.Bulkhead
