import HappyModel.C09.Resource
/-!
Models of `happysimulator/components/sync/{mutex,semaphore,rwlock,barrier}.py` as operation-level
state machines.  An `id` names one blocking call (one `acquire()` generator).  `woke` lists the
calls whose wake-up callback ran during the operation, in order.

Blocking itself (how a woken process gets to run again) is the engine layer, see `Pend` below: the
models describe the repaired primitives, which park a blocked caller on a `SimFuture` that the
wake-up callback resolves (fixes/C09-sync-spin-wait.diff); the unrepaired ones re-yield `0.0` for
ever at one clock value.
-/
namespace HappyModel.C09.Sync

inductive Res
  | granted | queued | refused | released | passed
  | errValue      -- ValueError
  | errRuntime    -- RuntimeError
  | ok
deriving Repr, DecidableEq

structure Out where
  res : Res
  woke : List Nat := []
deriving Repr, DecidableEq

/-! ### Mutex -/
namespace Mutex

structure St where
  locked : Bool := false
  waiters : List Nat := []
deriving Repr, DecidableEq

inductive Op
  | tryAcquire (id : Nat)
  | acquire (id : Nat)
  | release
deriving Repr, DecidableEq

def step (s : St) : Op → St × Out
  | .tryAcquire _ => if s.locked then (s, ⟨.refused, []⟩) else ({ s with locked := true }, ⟨.granted, []⟩)
  | .acquire id =>
    if s.locked then ({ s with waiters := s.waiters ++ [id] }, ⟨.queued, []⟩)
    else ({ s with locked := true }, ⟨.granted, []⟩)
  | .release =>
    if !s.locked then (s, ⟨.errRuntime, []⟩)
    else match s.waiters with
      | [] => ({ s with locked := false }, ⟨.released, []⟩)
      | w :: ws => ({ s with waiters := ws }, ⟨.released, [w]⟩)     -- direct hand-off, stays locked

def run (s : St) : List Op → St
  | [] => s
  | o :: os => run (step s o).1 os

def trace (s : St) : List Op → List (Op × Out)
  | [] => []
  | o :: os => (o, (step s o).2) :: trace (step s o).1 os

end Mutex

/-! ### Semaphore -/
namespace Sem

structure St where
  cap : Int
  count : Int
  waiters : List (Nat × Int) := []
deriving Repr, DecidableEq

def St.init (cap : Int) : St := ⟨cap, cap, []⟩

inductive Op
  | tryAcquire (id : Nat) (n : Int)
  | acquire (id : Nat) (n : Int)
  | release (n : Int)
deriving Repr, DecidableEq

/-- `_wake_waiters` is the same strict-FIFO loop as in `Resource` -/
abbrev wakeN := Res.wakeN
abbrev amtSum := Res.amtSum

def step (s : St) : Op → St × Out
  | .tryAcquire _ n =>
    if n < 1 then (s, ⟨.errValue, []⟩)
    else if n ≤ s.count then ({ s with count := s.count - n }, ⟨.granted, []⟩)
    else (s, ⟨.refused, []⟩)                    -- no `n > capacity` check in `try_acquire`
  | .acquire id n =>
    if n < 1 then (s, ⟨.errValue, []⟩)
    else if s.cap < n then (s, ⟨.errValue, []⟩)
    else if n ≤ s.count then ({ s with count := s.count - n }, ⟨.granted, []⟩)
    else ({ s with waiters := s.waiters ++ [(id, n)] }, ⟨.queued, []⟩)
  | .release n =>
    if n < 1 then (s, ⟨.errValue, []⟩)
    else if s.cap < s.count + n then (s, ⟨.errValue, []⟩)
    else
      let c := s.count + n
      let k := wakeN c s.waiters
      let woken := s.waiters.take k
      ({ s with count := c - amtSum woken, waiters := s.waiters.drop k }, ⟨.released, woken.map (·.1)⟩)

def run (s : St) : List Op → St
  | [] => s
  | o :: os => run (step s o).1 os

end Sem

/-! ### RWLock (writer preference, optional `max_readers`; `maxR = 0` encodes `None`) -/
namespace RW

structure St where
  maxR : Nat := 0
  readers : Nat := 0
  writer : Bool := false
  waiters : List (Nat × Bool) := []        -- (call id, isWriter)
deriving Repr, DecidableEq

inductive Op
  | tryRead (id : Nat) | tryWrite (id : Nat)
  | acquireRead (id : Nat) | acquireWrite (id : Nat)
  | releaseRead | releaseWrite
deriving Repr, DecidableEq

def atMax (s : St) : Bool := s.maxR != 0 && s.readers ≥ s.maxR

def canRead (s : St) : Bool := !s.writer && !(s.waiters.any (·.2)) && !atMax s
def canWrite (s : St) : Bool := !s.writer && s.readers == 0

/-- the reader branch of `_wake_waiters`: pop readers from the head until a writer or the cap -/
def wakeReaders (maxR : Nat) : Nat → List (Nat × Bool) → Nat × List Nat × List (Nat × Bool)
  | r, [] => (r, [], [])
  | r, w :: ws =>
    if w.2 then (r, [], w :: ws)
    else if maxR != 0 && r ≥ maxR then (r, [], w :: ws)
    else
      let x := wakeReaders maxR (r + 1) ws
      (x.1, w.1 :: x.2.1, x.2.2)

/-- reader branch of `_wake_waiters` applied to a state -/
def wakeR (s : St) : St × List Nat :=
  ({ s with readers := (wakeReaders s.maxR s.readers s.waiters).1,
            waiters := (wakeReaders s.maxR s.readers s.waiters).2.2 },
   (wakeReaders s.maxR s.readers s.waiters).2.1)

def wake (s : St) : St × List Nat :=
  if s.writer then (s, [])
  else match s.waiters with
    | [] => (s, [])
    | w :: ws =>
      if w.2 then
        if s.readers == 0 then ({ s with writer := true, waiters := ws }, [w.1]) else (s, [])
      else wakeR s

def step (s : St) : Op → St × Out
  | .tryRead _ => if canRead s then ({ s with readers := s.readers + 1 }, ⟨.granted, []⟩) else (s, ⟨.refused, []⟩)
  | .tryWrite _ => if canWrite s then ({ s with writer := true }, ⟨.granted, []⟩) else (s, ⟨.refused, []⟩)
  | .acquireRead id =>
    if canRead s then ({ s with readers := s.readers + 1 }, ⟨.granted, []⟩)
    else ({ s with waiters := s.waiters ++ [(id, false)] }, ⟨.queued, []⟩)
  | .acquireWrite id =>
    if canWrite s then ({ s with writer := true }, ⟨.granted, []⟩)
    else ({ s with waiters := s.waiters ++ [(id, true)] }, ⟨.queued, []⟩)
  | .releaseRead =>
    if s.readers < 1 then (s, ⟨.errRuntime, []⟩)
    else ((wake { s with readers := s.readers - 1 }).1, ⟨.released, (wake { s with readers := s.readers - 1 }).2⟩)
  | .releaseWrite =>
    if !s.writer then (s, ⟨.errRuntime, []⟩)
    else ((wake { s with writer := false }).1, ⟨.released, (wake { s with writer := false }).2⟩)

def run (s : St) : List Op → St
  | [] => s
  | o :: os => run (step s o).1 os

def trace (s : St) : List Op → List (Op × Out)
  | [] => []
  | o :: os => (o, (step s o).2) :: trace (step s o).1 os

end RW

/-! ### Barrier -/
namespace Barrier

structure St where
  parties : Nat
  waiters : List Nat := []
  generation : Nat := 0
  broken : Bool := false
deriving Repr, DecidableEq

inductive Op
  | wait (id : Nat)
  | reset
  | abort
deriving Repr, DecidableEq

/-- `wait` result: `passed` (last party, returns 0 at once) or `queued`; `idx` = arrival index -/
def step (s : St) : Op → St × Out × Nat
  | .wait id =>
    if s.broken then (s, ⟨.errRuntime, []⟩, 0)
    else if s.waiters.length + 1 ≥ s.parties then
      ({ s with waiters := [], generation := s.generation + 1 }, ⟨.passed, s.waiters⟩, 0)
    else
      ({ s with waiters := s.waiters ++ [id] }, ⟨.queued, []⟩, s.parties - (s.waiters.length + 1))
  | .reset => ({ s with waiters := [], broken := false, generation := s.generation + 1 }, ⟨.ok, s.waiters⟩, 0)
  | .abort => ({ s with waiters := [], broken := true }, ⟨.ok, s.waiters⟩, 0)

def run (s : St) : List Op → St
  | [] => s
  | o :: os => run (step s o).1 os

end Barrier

/-! ### Condition (on top of the Mutex model)

`cond.wait()` runs in three segments: (1) `cwait`: enqueue on the condition and release the mutex,
(2) `reacq`: after a notify, try to take the mutex again (at once, or queue on the mutex),
(3) the process continues once it holds the mutex. -/
namespace Cond

structure St where
  m : Mutex.St := {}
  cw : List Nat := []
deriving Repr, DecidableEq

inductive Op
  | mutex (o : Mutex.Op)
  | cwait (id : Nat)
  | notify (n : Nat)
  | reacq (id : Nat)
deriving Repr, DecidableEq

def step (s : St) : Op → St × Out
  | .mutex o => ({ s with m := (Mutex.step s.m o).1 }, (Mutex.step s.m o).2)
  | .cwait id =>
    if !s.m.locked then (s, ⟨.errRuntime, []⟩)
    else ({ m := (Mutex.step s.m .release).1, cw := s.cw ++ [id] }, ⟨.queued, (Mutex.step s.m .release).2.woke⟩)
  | .notify n => ({ s with cw := s.cw.drop n }, ⟨.ok, s.cw.take n⟩)
  | .reacq id => ({ s with m := (Mutex.step s.m (.acquire id)).1 }, (Mutex.step s.m (.acquire id)).2)

end Cond

/-! ### Engine layer shared by the sync primitives

A call whose wake-up ran (or that succeeded at once) makes its process resumable at that clock
value; the process is then seen finishing its `acquire()` exactly once, at the same clock value,
having consumed no further deliveries (`spins = 0`). -/

abbrev Pend := List (Nat × Nat)     -- (call id, clock value at which it became resumable)

inductive GotRes | ok | late | unexpected
deriving Repr, DecidableEq

def Pend.add (p : Pend) (t : Nat) (l : List Nat) : Pend := p ++ l.map (fun i => (i, t))

def Pend.got (p : Pend) (t : Nat) (id : Nat) : Pend × GotRes :=
  match p.find? (·.1 == id) with
  | none => (p, .unexpected)
  | some q => (p.filter (·.1 != id), if q.2 = t then .ok else .late)

end HappyModel.C09.Sync
