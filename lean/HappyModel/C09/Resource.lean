/-!
Model of `happysimulator/components/resource.py` (`Resource`, `Grant`) as an operation-level
state machine.  One `Op` is one call made by some process:

    acquire id amount     `resource.acquire(amount)`  — `id` names this call / its future / its grant
    tryAcquire id amount  `resource.try_acquire(amount)`
    release id            `grant.release()` of the grant obtained by call `id`
    setCapacity c         `resource.set_capacity(c)` (the `ReduceCapacity` fault, or any caller)

Amounts are integers (`Int`, so that the malformed stream can carry zero and negative amounts).
`held` is the set of live `Grant` objects (not ghost: `release` needs the amount of the grant).
The code's behaviours mirrored on purpose:
* `acquire` grants immediately whenever `available >= amount`, *also when other acquirers are
  queued* (a small request may overtake a queued large one);
* `_wake_waiters` is strict FIFO: it stops at the first queued request that does not fit;
* `Grant.release` is idempotent; it marks the grant released *before* `_do_release` may raise;
* `set_capacity` moves `available` by the same amount as the capacity (grants stay with their
  holders): after a reduction below the held amount `available` is negative — the resource is
  over-committed — until enough grants come back; waiters are woken (FIFO) on an increase only;
  a queued request larger than a reduced capacity stays queued.
-/
namespace HappyModel.C09.Res

structure St where
  cap : Int
  avail : Int
  waiters : List (Nat × Int)     -- FIFO, head first: (call id, amount)
  held : List (Nat × Int)        -- live grants: (call id, amount)
deriving Repr, DecidableEq

def St.init (cap : Int) : St := ⟨cap, cap, [], []⟩

inductive Op
  | acquire (id : Nat) (amount : Int)
  | tryAcquire (id : Nat) (amount : Int)
  | release (id : Nat)
  | setCapacity (c : Int)
deriving Repr, DecidableEq

inductive Res
  | granted      -- acquire / try_acquire succeeded immediately
  | queued       -- acquire had to wait
  | refused      -- try_acquire returned None
  | err          -- ValueError
  | released     -- grant returned
  | noop         -- release of a grant that is not live (already released / never granted)
  | resized      -- set_capacity accepted
deriving Repr, DecidableEq

structure Out where
  res : Res
  woke : List Nat := []          -- call ids whose futures were resolved by this operation, in order
deriving Repr, DecidableEq

def amtSum (l : List (Nat × Int)) : Int := (l.map (·.2)).sum

/-- `_wake_waiters`: how many queued requests, from the head, fit cumulatively -/
def wakeN (avail : Int) : List (Nat × Int) → Nat
  | [] => 0
  | w :: ws => if w.2 ≤ avail then wakeN (avail - w.2) ws + 1 else 0

def findHeld (id : Nat) : List (Nat × Int) → Option (Nat × Int)
  | [] => none
  | g :: gs => if g.1 = id then some g else findHeld id gs

def eraseHeld (id : Nat) : List (Nat × Int) → List (Nat × Int)
  | [] => []
  | g :: gs => if g.1 = id then gs else g :: eraseHeld id gs

/-- amount validation shared by `acquire` and `try_acquire` -/
def badAmount (s : St) (amount : Int) : Bool := amount ≤ 0 || s.cap < amount

def release (s : St) (id : Nat) : St × Out :=
  match findHeld id s.held with
  | none => (s, ⟨.noop, []⟩)
  | some g =>
    let held' := eraseHeld id s.held
    if s.cap < s.avail + g.2 then
      -- `_do_release` raises; the Grant is already marked released
      ({ s with held := held' }, ⟨.err, []⟩)
    else
      let a := s.avail + g.2
      let n := wakeN a s.waiters
      let woken := s.waiters.take n
      ({ s with avail := a - amtSum woken, waiters := s.waiters.drop n, held := held' ++ woken },
       ⟨.released, woken.map (·.1)⟩)

/-- `set_capacity`: `available` moves with the capacity; `_wake_waiters` only after an increase -/
def setCapacity (s : St) (c : Int) : St × Out :=
  if c ≤ 0 then (s, ⟨.err, []⟩)
  else
    let a := s.avail + (c - s.cap)
    if s.cap < c then
      let n := wakeN a s.waiters
      let woken := s.waiters.take n
      ({ cap := c, avail := a - amtSum woken, waiters := s.waiters.drop n, held := s.held ++ woken },
       ⟨.resized, woken.map (·.1)⟩)
    else ({ s with cap := c, avail := a }, ⟨.resized, []⟩)

def step (s : St) : Op → St × Out
  | .acquire id amount =>
    if badAmount s amount then (s, ⟨.err, []⟩)
    else if amount ≤ s.avail then
      ({ s with avail := s.avail - amount, held := s.held ++ [(id, amount)] }, ⟨.granted, []⟩)
    else ({ s with waiters := s.waiters ++ [(id, amount)] }, ⟨.queued, []⟩)
  | .tryAcquire id amount =>
    if badAmount s amount then (s, ⟨.err, []⟩)
    else if amount ≤ s.avail then
      ({ s with avail := s.avail - amount, held := s.held ++ [(id, amount)] }, ⟨.granted, []⟩)
    else (s, ⟨.refused, []⟩)
  | .release id => release s id
  | .setCapacity c => setCapacity s c

/-- final state after an operation list -/
def run (s : St) : List Op → St
  | [] => s
  | o :: os => run (step s o).1 os

/-- the observable trace: every operation with its result -/
def trace (s : St) : List Op → List (Op × Out)
  | [] => []
  | o :: os => (o, (step s o).2) :: trace (step s o).1 os

/-! ### Engine layer: processes resume when their future is resolved

Inside a simulation an `acquire` whose future is resolved (immediately, or by a later release)
leads to exactly one resumption of the acquiring process, at the clock value at which the future
was resolved.  Events carry the clock value the implementation reported. -/

inductive EEv
  | op (t : Nat) (o : Op)
  | got (t : Nat) (id : Nat)       -- the process that made call `id` resumed with its grant
deriving Repr

structure ESt where
  core : St
  pend : List (Nat × Nat × Int) := []      -- (call id, resolve time, amount): resolved, not yet resumed

inductive GotRes
  | ok (amount : Int)
  | late (amount : Int)          -- resumed at a later clock value than the resolving operation
  | unexpected                   -- resumed although its future is not resolved
deriving Repr, DecidableEq

def findPend (id : Nat) : List (Nat × Nat × Int) → Option (Nat × Nat × Int)
  | [] => none
  | p :: ps => if p.1 = id then some p else findPend id ps

def amountOf (id : Nat) (l : List (Nat × Int)) : Int :=
  match findHeld id l with
  | some g => g.2
  | none => 0

def estep (e : ESt) : EEv → ESt × (Out ⊕ GotRes)
  | .op t o =>
    let r := step e.core o
    let newly : List (Nat × Nat × Int) :=
      match o, r.2.res with
      | .acquire id amount, .granted => [(id, t, amount)]
      | _, _ => r.2.woke.map fun i => (i, t, amountOf i r.1.held)
    (⟨r.1, e.pend ++ newly⟩, .inl r.2)
  | .got t id =>
    match findPend id e.pend with
    | none => (e, .inr .unexpected)
    | some p =>
      let e' : ESt := ⟨e.core, e.pend.filter (fun q => q.1 != id)⟩
      if p.2.1 = t then (e', .inr (.ok p.2.2)) else (e', .inr (.late p.2.2))

end HappyModel.C09.Res
