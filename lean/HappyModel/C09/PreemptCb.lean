import HappyModel.C09.Preempt
/-!
`PreemptibleResource` with **re-entrant `on_preempt` callbacks**
(`happysimulator/components/industrial/preemptible_resource.py`: `acquire`, `_try_preempt`,
`PreemptibleGrant._do_preempt`, `release`, `_do_release`, `_wake_waiters`).

Every acquire may carry a *callback program* (an index into the program table `P` of the case): a short list of
actions that the grant's `on_preempt` callback performs **on the same resource** when the grant is evicted:

    rel id                     `release()` of grant `id` (its own, another live one, a released / preempted one,
                               one not yet given, an unknown one)
    acq amt prio pre cb        a nested `acquire` (which may preempt again, and whose grant carries program `cb`)
    query                      read the public counters

The callback runs *inside* `_try_preempt`, between two evictions of the same preemption round, so the model is a
small-step machine with an explicit stack (a defunctionalised call stack — no mutual recursion, every invariant is
a statement about one `tick`):

    prog owner acts            the rest of a running callback program (`owner = some v`: the callback of victim
                               `v`), or of the top-level operation list (`owner = none`, the bottom frame)
    loop amt prio cb snap evs  an `acquire` call inside `_try_preempt`: the snapshot of the holders taken when the
                               loop started (`candidates`; taken at the first eviction, nothing happens between
                               the start of the call and that moment) and the victims evicted so far

One `tick` performs one atomic piece of the real code and emits at most one observation:

  * the next action of the top program (`rel`, `query`, an `acquire` that is refused, fits at once, or may not
    preempt: the whole call; an `acquire` that has to preempt: push a `loop` frame);
  * one turn of the `_try_preempt` loop: if the amount fits or no candidate of the snapshot is still live, the
    call finishes (`_grant_immediate` or enq, then `_wake_waiters` if somebody was evicted) and reports; otherwise
    the next victim — lowest priority first, earliest grant first among equals, **skipping snapshot members that
    were released or preempted meanwhile by a callback** — loses its capacity (flags set, removed from the
    holders, amount returned, `preemptions += 1`) and *then* its callback starts (`ev` observation, `prog` frame).

This is the repaired order (fixes/C09-preempt-callback-reentrancy.diff).  The code at the pinned commit fires the
callback *before* it returns the amount and walks its snapshot without looking at `released`, so a callback that
releases another holder makes `_try_preempt` raise `ValueError` (`list.remove`) with the victim's amount lost, a
callback that releases or preempts another candidate has that amount returned twice, and every observation made
inside a callback sees `held + available = capacity - victim.amount`.

Call ids number the acquire calls **in the order they return** (a nested call returns before the call whose
callback made it), so that ids grow with the arrival order in the waiter queue; without callbacks this is the
order of the calls.  The fuel bounds the number of ticks of the whole run (programs may refer to each other
cyclically); when it runs out the run — and its transcript — simply stops.
-/
namespace HappyModel.C09.PreemptCb
open HappyModel.C09.Preempt

inductive Act
  | rel (id : Nat)
  | acq (amt prio : Int) (pre : Bool) (cb : Nat)
  | query
deriving Repr, DecidableEq

abbrev Progs := List (List Act)

inductive Frame
  | prog (owner : Option Nat) (acts : List Act)
  | loop (amt prio : Int) (cb : Nat) (snap : List G) (evs : List Nat)
deriving Repr, DecidableEq

structure M where
  s : St
  cbs : List (Nat × Nat) := []      -- (grant id, program index)
  gone : List Nat := []             -- ids of the grants whose `preempted` flag is set
  retLog : List Nat := []           -- ghost: ids of the grants whose amount went back to `available`
  stack : List Frame := []
deriving Repr, DecidableEq

def M.init (cap : Int) (ops : List Act) : M := { s := St.init cap, stack := [.prog none ops] }

/-- what one tick reports -/
inductive Tag
  | call                                            -- an `acq` / `rel` call returned (`o.k`, `o.res`)
  | query
  | ev (v : Nat) (first : Bool) (amt prio : Int)    -- `on_preempt` of `v` fired, inside an acquire (amt, prio);
                                                    -- `first`: it is the first victim of that call
deriving Repr, DecidableEq

structure Ev where
  ctx : Option Nat          -- the callback the observation was made in (`none`: top level)
  tag : Tag
  o : Obs                   -- kind / result / evicted / woke and the public counters at that moment
deriving Repr

def progOf (P : Progs) (cbs : List (Nat × Nat)) (id : Nat) : List Act :=
  match cbs.find? (·.1 == id) with
  | some e => P.getD e.2 []
  | none => []

def bumpId (s : St) : St := { s with nextId := s.nextId + 1 }

def enq (s : St) (g : G) : St :=
  { s with contentions := s.contentions + 1, waiters := insWaiter g s.waiters }

def giveBack (s : St) (g : G) : St :=
  { s with active := s.active.erase g, avail := s.avail + g.amt, releases := s.releases + 1 }

/-- the accounting of one eviction: `_active_grants` loses the victim, its amount is available again -/
def evict1 (s : St) (v : G) : St :=
  { s with active := s.active.erase v, avail := s.avail + v.amt, preemptions := s.preemptions + 1 }

def obsAt (m : M) (k : Kind) (res : Res) (evicted woke : List Nat) : Obs :=
  { k := k, res := res, evicted := evicted, woke := sortedIds woke, pset := sortedIds m.gone, avail := m.s.avail,
    sAcq := m.s.acquisitions, sRel := m.s.releases, sPre := m.s.preemptions, sCon := m.s.contentions }

/-- one action of a program (or one top-level call) issued from the callback `ctx` -/
def doAct (m : M) (ctx : Option Nat) : Act → M × Option Ev
  | .query => (m, some ⟨ctx, .query, obsAt m (.rel 0) .noop [] []⟩)
  | .rel id =>
    match m.s.active.find? (·.id == id) with
    | none => (m, some ⟨ctx, .call, obsAt m (.rel id) .noop [] []⟩)
    | some g =>
      let w := wake (giveBack m.s g)
      let m1 := { m with s := w.1, retLog := m.retLog ++ [g.id] }
      (m1, some ⟨ctx, .call, obsAt m1 (.rel id) .released [] w.2⟩)
  | .acq amt prio pre cb =>
    if amt ≤ 0 ∨ m.s.cap < amt then
      let m1 := { m with s := bumpId m.s }
      (m1, some ⟨ctx, .call, obsAt m1 (.acq m.s.nextId amt prio pre) .err [] []⟩)
    else if amt ≤ m.s.avail then
      let m1 := { m with s := grantNow (bumpId m.s) ⟨m.s.nextId, amt, prio⟩, cbs := m.cbs ++ [(m.s.nextId, cb)] }
      (m1, some ⟨ctx, .call, obsAt m1 (.acq m.s.nextId amt prio pre) .granted [] []⟩)
    else if pre then
      ({ m with stack := .loop amt prio cb [] [] :: m.stack }, none)
    else
      let m1 := { m with s := enq (bumpId m.s) ⟨m.s.nextId, amt, prio⟩, cbs := m.cbs ++ [(m.s.nextId, cb)] }
      (m1, some ⟨ctx, .call, obsAt m1 (.acq m.s.nextId amt prio pre) .queued [] []⟩)

/-- the callback in which the call of the top `loop` frame was made: the owner of the frame below it -/
def ctxOf : List Frame → Option Nat
  | .prog o _ :: _ => o
  | _ => none

/-- the end of an acquire call that went through `_try_preempt` (stack already popped to `rest`) -/
def finish (m : M) (rest : List Frame) (amt prio : Int) (cb : Nat) (evs : List Nat) : M × Option Ev :=
  let id := m.s.nextId
  let g : G := ⟨id, amt, prio⟩
  if amt ≤ m.s.avail then
    let s2 := grantNow (bumpId m.s) g
    let w := if evs ≠ [] then wake s2 else (s2, [])
    let m1 := { m with s := w.1, cbs := m.cbs ++ [(id, cb)], stack := rest }
    (m1, some ⟨ctxOf rest, .call, obsAt m1 (.acq id amt prio true) .granted evs w.2⟩)
  else
    let s2 := enq (bumpId m.s) g
    let w := if evs ≠ [] then wake s2 else (s2, [])
    let m1 := { m with s := w.1, cbs := m.cbs ++ [(id, cb)], stack := rest }
    (m1, some ⟨ctxOf rest, .call, obsAt m1 (.acq id amt prio true) .queued evs w.2⟩)

def tick (P : Progs) (m : M) : M × Option Ev :=
  match m.stack with
  | [] => (m, none)
  | .prog _ [] :: rest => ({ m with stack := rest }, none)
  | .prog o (a :: as) :: rest => doAct { m with stack := .prog o as :: rest } o a
  | .loop amt prio cb snap evs :: rest =>
    if amt ≤ m.s.avail then finish m rest amt prio cb evs
    else
      let snap' := if evs = [] then m.s.active else snap
      match victim prio (snap'.filter (fun x => m.s.active.contains x)) with
      | none => finish m rest amt prio cb evs
      | some v =>
        let m1 := { m with s := evict1 m.s v, gone := m.gone ++ [v.id], retLog := m.retLog ++ [v.id],
                           stack := .prog (some v.id) (progOf P m.cbs v.id) :: .loop amt prio cb snap' (evs ++ [v.id]) :: rest }
        (m1, some ⟨some v.id, .ev v.id (evs = []) amt prio, obsAt m1 (.rel 0) .noop [] []⟩)

/-- run until the stack is empty or the fuel is used up; the observations in order -/
def drain (P : Progs) : Nat → M → M × List Ev
  | 0, m => (m, [])
  | n + 1, m =>
    if m.stack = [] then (m, [])
    else
      let r := drain P n (tick P m).1
      (r.1, match (tick P m).2 with | some e => e :: r.2 | none => r.2)

/-- the state after `n` ticks -/
def iter (P : Progs) : Nat → M → M
  | 0, m => m
  | n + 1, m => iter P n (tick P m).1

/-! ### Spec: the judge over observed transcripts

The books of `Preempt.Book` plus the stack of acquire calls that are inside `_try_preempt` (learnt from the `ev`
observations: the callback of a victim fired).  `acq` / `rel` observations are judged by `Preempt.Book.apply`
(evictions are booked when the callback fires, so the `evicted` list of the returning call is only compared with
what was seen).  Counters (`held + available = capacity`, `available ≤ capacity`, flags, statistics) are judged
after every observation that carries them — also those made inside callbacks; the head-of-line clause only
when no acquire call is in the middle of a preemption. -/

structure Call where
  amt : Int
  prio : Int
  snap : List G
  evs : List Nat
deriving Repr, DecidableEq

structure JB where
  b : Book := {}
  calls : List Call := []
deriving Repr

structure CObs where
  tag : Tag
  cnt : Bool                 -- the line carries the public counters
  o : Obs
deriving Repr

def JB.apply (cap : Int) (j : JB) (c : CObs) : Except String JB :=
  match c.tag with
  | .query => if c.o.woke ≠ [] then .error "preempt/grant/outside-call" else .ok j
  | .ev v first amt prio =>
    if c.o.woke ≠ [] then .error "preempt/grant/outside-call"
    else match j.b.held.find? (·.id == v) with
    | none => .error "preempt/preempt/victim-not-holding"
    | some g =>
      if g.prio ≤ prio then .error "preempt/order/preempted-equal-or-higher-priority"
      else if amt ≤ cap - heldSum j.b then .error "preempt/preempt/more-than-needed"
      else
        let top : Option (Call × List Call) :=
          if first then some ({ amt := amt, prio := prio, snap := j.b.held, evs := [] }, j.calls)
          else match j.calls with
            | cl :: cs => some (cl, cs)
            | [] => none
        match top with
        | none => .error "preempt/callback/outside-preemption"
        | some (cl, rest) =>
          if cl.amt ≠ amt ∨ cl.prio ≠ prio then .error "preempt/callback/mismatch"
          else if victim prio (cl.snap.filter (fun x => j.b.held.contains x)) ≠ some g then
            .error "preempt/order/wrong-victim"
          else .ok { b := { j.b with held := j.b.held.erase g, gone := j.b.gone ++ [v] },
                     calls := { cl with evs := cl.evs ++ [v] } :: rest }
  | .call =>
    match c.o.k with
    | .rel _ =>
      if c.o.evicted ≠ [] then .error "preempt/preempt/on-release"
      else match j.b.apply cap c.o with
        | .ok b => .ok { j with b := b }
        | .error e => .error e
    | .acq _ amt prio pre =>
      if c.o.evicted = [] then
        match j.b.apply cap c.o with
        | .ok b => .ok { j with b := b }
        | .error e => .error e
      else match j.calls with
        | [] => .error "preempt/callback/mismatch"
        | cl :: rest =>
          if cl.evs ≠ c.o.evicted ∨ cl.amt ≠ amt ∨ cl.prio ≠ prio then .error "preempt/callback/mismatch"
          else if !pre then .error "preempt/preempt/without-permission"
          else match j.b.apply cap { c.o with evicted := [] } with
            | .ok b => .ok { b := b, calls := rest }
            | .error e => .error e

/-- `Book.check` without the head-of-line clause (in the middle of a preemption the giveBack capacity is not yet
    handed out) -/
def checkMid (cap : Int) (b : Book) (o : Obs) : Option String :=
  if cap < heldSum b then some "preempt/held/exceeds-capacity"
  else if cap < o.avail then some "preempt/release/above-capacity"
  else if o.avail < 0 then some "preempt/held/exceeds-capacity"
  else if o.avail + heldSum b ≠ cap then some "preempt/conservation/held-plus-available"
  else if sortedIds o.pset ≠ sortedIds b.gone then some "preempt/preempt/flag-mismatch"
  else if o.sAcq ≠ b.granted.length then some "preempt/stats/acquisitions-mismatch"
  else if o.sRel ≠ b.nRel then some "preempt/stats/releases-mismatch"
  else if o.sPre ≠ b.gone.length then some "preempt/stats/preemptions-mismatch"
  else if o.sCon ≠ b.nCon then some "preempt/stats/contentions-mismatch"
  else none

def JB.check (cap : Int) (j : JB) (c : CObs) : Option String :=
  if !c.cnt then none
  else if j.calls = [] then j.b.check cap c.o
  else checkMid cap j.b c.o

def judge (cap : Int) : JB → List CObs → Option String
  | _, [] => none
  | j, c :: cs =>
    match j.apply cap c with
    | .error e => some e
    | .ok j' =>
      match j'.check cap c with
      | some e => some e
      | none => judge cap j' cs

end HappyModel.C09.PreemptCb
