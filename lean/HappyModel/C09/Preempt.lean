/-!
Model of `happysimulator/components/industrial/preemptible_resource.py`
(`PreemptibleResource.acquire`, `PreemptibleGrant.release`).

    acquire amt prio preempt   the call gets the next call id (`nextId`, the harness numbers its acquire
                               calls the same way).  Malformed amounts raise.  If the amount fits it is
                               granted at once (also past queued waiters, like `Resource`).  Otherwise, with
                               `preempt`, live grants of strictly lower priority (larger value) are evicted,
                               lowest priority first, earliest grant first among equals, until the amount
                               fits or no candidate is left; then the call is granted or queued.
    release id                 `PreemptibleGrant.release()`: a no-op unless the grant is live (not released,
                               not preempted); returns the amount and wakes waiters strictly from the head
                               of the priority queue (priority, then arrival).

The code sorts the candidates once (`sorted(..., key=-priority)`, stable) and walks down the list; the
model picks the next victim from the remaining live grants each time (selection instead of sorting: the same
sequence).

`wakeAfterPreempt = false` is the code as it is: `acquire` does not call `_wake_waiters` after a
preemption, so capacity freed beyond what the requester takes (or freed although the requester still does
not fit) stays unused while the head waiter would fit.  `wakeAfterPreempt = true` is the repaired code
(fixes/C09-extra-preempt-wake-after-preempt.diff).
-/
namespace HappyModel.C09.Preempt

structure G where
  id : Nat
  amt : Int
  prio : Int
deriving Repr, DecidableEq

structure St where
  cap : Int
  wakeAfterPreempt : Bool := true
  avail : Int
  active : List G := []        -- `_active_grants`: the live grants in grant order
  waiters : List G := []       -- `_waiters` in pop order: priority, then arrival
  nextId : Nat := 0
  acquisitions : Nat := 0
  releases : Nat := 0
  preemptions : Nat := 0
  contentions : Nat := 0
  grantLog : List Nat := []    -- ghost: ids granted so far, in grant order
deriving Repr, DecidableEq

def St.init (cap : Int) (wake : Bool := true) : St := { cap := cap, avail := cap, wakeAfterPreempt := wake }

inductive Op
  | acquire (amt prio : Int) (preempt : Bool)
  | release (id : Nat)
deriving Repr, DecidableEq

inductive Res | granted | queued | err | released | noop
deriving Repr, DecidableEq

structure Out where
  res : Res
  evicted : List Nat := []     -- ids of the grants this call preempted, in eviction order
  woke : List Nat := []        -- ids of the waiters this call granted, in wake order
deriving Repr, DecidableEq

def amtSum : List G → Int
  | [] => 0
  | g :: gs => g.amt + amtSum gs

/-- insert into the waiter queue behind everything of the same or higher priority -/
def insWaiter (w : G) : List G → List G
  | [] => [w]
  | h :: t => if h.prio ≤ w.prio then h :: insWaiter w t else w :: h :: t

/-- the next grant to evict for a requester of priority `p`: strictly lower priority (larger value),
    the lowest first, the earliest grant among equals -/
def victim (p : Int) : List G → Option G
  | [] => none
  | g :: gs =>
    match victim p gs with
    | none => if p < g.prio then some g else none
    | some v => if p < g.prio ∧ v.prio ≤ g.prio then some g else some v

/-- `_try_preempt`; the fuel is the number of live grants -/
def preemptLoop (needed p : Int) : Nat → St → St × List Nat
  | 0, s => (s, [])
  | n + 1, s =>
    if needed ≤ s.avail then (s, [])
    else match victim p s.active with
      | none => (s, [])
      | some v =>
        let r := preemptLoop needed p n
          { s with active := s.active.erase v, avail := s.avail + v.amt, preemptions := s.preemptions + 1 }
        (r.1, v.id :: r.2)

/-- the waiters `_wake_waiters` grants: strictly from the head while the head fits -/
def wokenOf (avail : Int) : List G → List G
  | [] => []
  | w :: ws => if w.amt ≤ avail then w :: wokenOf (avail - w.amt) ws else []

def restOf (avail : Int) : List G → List G
  | [] => []
  | w :: ws => if w.amt ≤ avail then restOf (avail - w.amt) ws else w :: ws

/-- `_wake_waiters` -/
def wake (s : St) : St × List Nat :=
  let wk := wokenOf s.avail s.waiters
  ({ s with waiters := restOf s.avail s.waiters, avail := s.avail - amtSum wk, active := s.active ++ wk,
            acquisitions := s.acquisitions + wk.length, grantLog := s.grantLog ++ wk.map G.id },
   wk.map G.id)

/-- `_grant_immediate` for the calling acquirer -/
def grantNow (s : St) (g : G) : St :=
  { s with avail := s.avail - g.amt, acquisitions := s.acquisitions + 1, active := s.active ++ [g],
           grantLog := s.grantLog ++ [g.id] }

def step (s : St) : Op → St × Out
  | .acquire amt prio preempt =>
    let id := s.nextId
    let s := { s with nextId := s.nextId + 1 }
    if amt ≤ 0 ∨ s.cap < amt then (s, { res := .err })
    else if amt ≤ s.avail then (grantNow s ⟨id, amt, prio⟩, { res := .granted })
    else
      let r := if preempt then preemptLoop amt prio s.active.length s else (s, [])
      if preempt ∧ amt ≤ r.1.avail then
        let s2 := grantNow r.1 ⟨id, amt, prio⟩
        if s.wakeAfterPreempt ∧ r.2 ≠ [] then
          let w := wake s2
          (w.1, { res := .granted, evicted := r.2, woke := w.2 })
        else (s2, { res := .granted, evicted := r.2 })
      else
        let s2 := { r.1 with contentions := r.1.contentions + 1, waiters := insWaiter ⟨id, amt, prio⟩ r.1.waiters }
        if s.wakeAfterPreempt ∧ r.2 ≠ [] then
          let w := wake s2
          (w.1, { res := .queued, evicted := r.2, woke := w.2 })
        else (s2, { res := .queued, evicted := r.2 })
  | .release id =>
    match s.active.find? (·.id == id) with
    | none => (s, { res := .noop })
    | some g =>
      let w := wake { s with active := s.active.erase g, avail := s.avail + g.amt, releases := s.releases + 1 }
      (w.1, { res := .released, woke := w.2 })

def run (s : St) : List Op → St
  | [] => s
  | o :: os => run (step s o).1 os

/-! ### Spec: a judge over observed transcripts

The judge keeps its own books from the reported results (granted / queued / which grants were preempted /
which waiters were granted) and compares them with the public `available` and `stats`. -/

inductive Kind
  | acq (id : Nat) (amt prio : Int) (preempt : Bool)
  | rel (id : Nat)
deriving Repr, DecidableEq

structure Obs where
  k : Kind
  res : Res
  evicted : List Nat := []      -- in the order the `on_preempt` callbacks fired
  woke : List Nat := []         -- the waiters whose futures became resolved (a set: ascending ids)
  pset : List Nat := []         -- ids of all grant objects whose public `preempted` flag is set
  avail : Int := 0
  sAcq : Nat := 0
  sRel : Nat := 0
  sPre : Nat := 0
  sCon : Nat := 0
deriving Repr

structure Book where
  held : List G := []           -- live grants in grant order
  waiting : List G := []        -- blocked acquirers in arrival order
  granted : List Nat := []      -- ids granted so far
  gone : List Nat := []         -- ids preempted so far
  nRel : Nat := 0
  nCon : Nat := 0
deriving Repr

def heldSum (b : Book) : Int := amtSum b.held

/-- the waiter that has to be served next: smallest priority value, earliest arrival among equals -/
def headOf : List G → Option G
  | [] => none
  | w :: ws =>
    match headOf ws with
    | none => some w
    | some h => if h.prio < w.prio then some h else some w

/-- evict the reported victims in the reported order -/
def Book.evict (cap : Int) (b : Book) (amt prio : Int) : List Nat → Except String Book
  | [] => .ok b
  | v :: vs =>
    match b.held.find? (·.id == v) with
    | none => .error "preempt/preempt/victim-not-holding"
    | some g =>
      if g.prio ≤ prio then .error "preempt/order/preempted-equal-or-higher-priority"
      else if amt ≤ cap - heldSum b then .error "preempt/preempt/more-than-needed"
      else if victim prio b.held ≠ some g then .error "preempt/order/wrong-victim"
      else Book.evict cap { b with held := b.held.erase g, gone := b.gone ++ [v] } amt prio vs

/-- grant waiters strictly from the head (priority, arrival) until the reported set is used up;
    fuel = number of waiters -/
def Book.wakeSet (cap : Int) : Nat → Book → List Nat → Except String Book
  | _, b, [] => .ok b
  | 0, _, _ :: _ => .error "preempt/grant/not-waiting"
  | n + 1, b, woke =>
    match headOf b.waiting with
    | none => .error "preempt/grant/not-waiting"
    | some h =>
      if !woke.contains h.id then
        (if woke.any (fun i => b.granted.contains i) then .error "preempt/grant/twice"
         else if woke.any (fun i => !(b.waiting.any (·.id == i))) then .error "preempt/grant/not-waiting"
         else .error "preempt/order/out-of-order")
      else if b.granted.contains h.id then .error "preempt/grant/twice"
      else if cap - heldSum b < h.amt then .error "preempt/held/exceeds-capacity"
      else Book.wakeSet cap n { b with waiting := b.waiting.erase h, held := b.held ++ [h], granted := b.granted ++ [h.id] }
                        (woke.filter (· != h.id))

def Book.apply (cap : Int) (b : Book) (o : Obs) : Except String Book :=
  match o.k, o.res with
  | .acq id amt prio pre, .granted =>
    if amt ≤ 0 ∨ cap < amt then .error "preempt/acquire/accepted-bad-amount"
    else if b.granted.contains id then .error "preempt/grant/twice"
    else if o.evicted ≠ [] ∧ !pre then .error "preempt/preempt/without-permission"
    else match b.evict cap amt prio o.evicted with
      | .error e => .error e
      | .ok b1 =>
        let b2 := { b1 with held := b1.held ++ [(⟨id, amt, prio⟩ : G)], granted := b1.granted ++ [id] }
        b2.wakeSet cap b2.waiting.length o.woke
  | .acq id amt prio pre, .queued =>
    if amt ≤ 0 ∨ cap < amt then .error "preempt/acquire/accepted-bad-amount"
    else if o.evicted ≠ [] ∧ !pre then .error "preempt/preempt/without-permission"
    else match b.evict cap amt prio o.evicted with
      | .error e => .error e
      | .ok b1 =>
        let b2 := { b1 with waiting := b1.waiting ++ [(⟨id, amt, prio⟩ : G)], nCon := b1.nCon + 1 }
        b2.wakeSet cap b2.waiting.length o.woke
  | .acq _ amt _ _, .err =>
    if 0 < amt ∧ amt ≤ cap then .error "preempt/acquire/rejected-valid-amount"
    else if o.evicted ≠ [] ∨ o.woke ≠ [] then .error "preempt/acquire/error-with-effect"
    else .ok b
  | .rel id, .released =>
    match b.held.find? (·.id == id) with
    | none => .error "preempt/release/returned-twice"
    | some g =>
      let b1 := { b with held := b.held.erase g, nRel := b.nRel + 1 }
      if o.evicted ≠ [] then .error "preempt/preempt/on-release"
      else b1.wakeSet cap b1.waiting.length o.woke
  | .rel id, .noop =>
    if (b.held.find? (·.id == id)).isSome then .error "preempt/release/ignored-live-grant"
    else if o.evicted ≠ [] ∨ o.woke ≠ [] then .error "preempt/release/noop-with-effect"
    else .ok b
  | _, _ => .error "preempt/unknown-observation"

def sortedIds (l : List Nat) : List Nat := l.mergeSort (· ≤ ·)

def Book.check (cap : Int) (b : Book) (o : Obs) : Option String :=
  if cap < heldSum b then some "preempt/held/exceeds-capacity"
  else if cap < o.avail then some "preempt/release/above-capacity"
  else if o.avail < 0 then some "preempt/held/exceeds-capacity"
  else if o.avail + heldSum b ≠ cap then some "preempt/conservation/held-plus-available"
  else if (match headOf b.waiting with | some h => decide (h.amt ≤ cap - heldSum b) | none => false) then
    some "preempt/head/grantable-but-blocked"
  else if sortedIds o.pset ≠ sortedIds b.gone then some "preempt/preempt/flag-mismatch"
  else if o.sAcq ≠ b.granted.length then some "preempt/stats/acquisitions-mismatch"
  else if o.sRel ≠ b.nRel then some "preempt/stats/releases-mismatch"
  else if o.sPre ≠ b.gone.length then some "preempt/stats/preemptions-mismatch"
  else if o.sCon ≠ b.nCon then some "preempt/stats/contentions-mismatch"
  else none

def judge (cap : Int) : Book → List Obs → Option String
  | _, [] => none
  | b, o :: os =>
    match b.apply cap o with
    | .error e => some e
    | .ok b' =>
      match b'.check cap o with
      | some e => some e
      | none => judge cap b' os

end HappyModel.C09.Preempt
