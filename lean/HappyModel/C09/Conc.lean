/-!
Model and Spec of the non-blocking concurrency limiters of
`happysimulator/components/server/concurrency.py`: `FixedConcurrency` (kind 0),
`DynamicConcurrency` (kind 1, limit adjustable within [minL, maxL]; `maxL = 0` encodes `None`) and
`WeightedConcurrency` (kind 2).  `release` clamps at zero (a release without an acquire is silently
absorbed); a `DynamicConcurrency` whose limit was lowered keeps its running requests ("they continue
processing but no new requests are admitted").
-/
namespace HappyModel.C09.Conc

structure St where
  kind : Nat
  limit : Int
  minL : Int := 1
  maxL : Int := 0
  active : Int := 0
deriving Repr, DecidableEq

inductive Op
  | acquire (w : Int) | release (w : Int) | setLimit (n : Int)
deriving Repr, DecidableEq

inductive Res | granted | refused | err | released | ok
deriving Repr, DecidableEq

def clampLimit (s : St) (n : Int) : Int :=
  let c := max s.minL n
  if s.maxL ≠ 0 then min s.maxL c else c

def step (s : St) : Op → St × Res
  | .acquire w =>
    if s.kind = 2 then
      if w < 1 then (s, .err)
      else if s.limit < s.active + w then (s, .refused)
      else ({ s with active := s.active + w }, .granted)
    else if s.limit ≤ s.active then (s, .refused)
    else ({ s with active := s.active + 1 }, .granted)
  | .release w =>
    if s.kind = 2 then
      if w < 1 then (s, .err) else ({ s with active := max 0 (s.active - w) }, .released)
    else ({ s with active := max 0 (s.active - 1) }, .released)
  | .setLimit n => if s.kind = 1 then ({ s with limit := clampLimit s n }, .ok) else (s, .err)

def available (s : St) : Int := if s.kind = 1 then max 0 (s.limit - s.active) else s.limit - s.active

def run (s : St) : List Op → St
  | [] => s
  | o :: os => run (step s o).1 os

/-! ### Spec over observations -/
structure Obs where
  op : Op
  res : Res
  act : Int
  av : Int
  lim : Int
deriving Repr

structure Book where
  out : Int := 0        -- outstanding weight according to the reported grants and releases
  limit : Int
deriving Repr

def weightOf (kind : Nat) (w : Int) : Int := if kind = 2 then w else 1

def Book.apply (s0 : St) (b : Book) (o : Obs) : Except String Book :=
  match o.op, o.res with
  | .acquire w, .granted =>
    if s0.kind = 2 ∧ w < 1 then .error "limiter/acquire/accepted-bad-weight"
    else if b.limit < b.out + weightOf s0.kind w then .error "limiter/acquire/over-limit"
    else .ok { b with out := b.out + weightOf s0.kind w }
  | .acquire w, .refused =>
    if s0.kind = 2 ∧ w < 1 then .error "limiter/acquire/accepted-bad-weight"
    else if b.out + weightOf s0.kind w ≤ b.limit then .error "limiter/acquire/refused-although-free"
    else .ok b
  | .acquire w, .err => if s0.kind = 2 ∧ w < 1 then .ok b else .error "limiter/acquire/rejected-valid-weight"
  | .release w, .released =>
    if s0.kind = 2 ∧ w < 1 then .error "limiter/release/accepted-bad-weight"
    else .ok { b with out := max 0 (b.out - weightOf s0.kind w) }
  | .release w, .err => if s0.kind = 2 ∧ w < 1 then .ok b else .error "limiter/release/rejected-valid-weight"
  | .setLimit n, .ok =>
    if s0.kind ≠ 1 then .error "limiter/set-limit/unsupported"
    else .ok { b with limit := clampLimit { s0 with limit := b.limit } n }
  | _, _ => .error "limiter/unknown-observation"

def Book.check (s0 : St) (grantedNow : Bool) (b : Book) (o : Obs) : Option String :=
  if o.lim ≠ b.limit then some "limiter/limit/mismatch"
  else if o.act ≠ b.out then some "limiter/active/count-mismatch"
  else if grantedNow ∧ b.limit < b.out then some "limiter/active/exceeds-limit"
  else if s0.kind ≠ 1 ∧ b.limit < b.out then some "limiter/active/exceeds-limit"
  else if s0.kind ≠ 1 ∧ b.out + o.av ≠ b.limit then some "limiter/conservation/active-plus-available"
  else if s0.kind = 1 ∧ o.av ≠ max 0 (b.limit - b.out) then some "limiter/available/mismatch"
  else if o.av < 0 ∨ b.limit < o.av then some "limiter/available/out-of-range"
  else none

def judge (s0 : St) : Book → List Obs → Option String
  | _, [] => none
  | b, o :: os =>
    match b.apply s0 o with
    | .error e => some e
    | .ok b' => match b'.check s0 (o.res == .granted) o with
      | some e => some e
      | none => judge s0 b' os

end HappyModel.C09.Conc
