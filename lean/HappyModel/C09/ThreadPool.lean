/-!
Model of `happysimulator/components/server/thread_pool.py` (`ThreadPool`) together with the machinery it
is built on: `queued_resource.py` (`QueuedResource`), `queue.py` (`Queue` with a `FIFOQueue` policy) and
`queue_driver.py` (`QueueDriver`).  One transition per *delivery*:

    submit tid      a task event reaches the pool: `Queue._handle_enqueue` (accept or drop; a notify to the
                    driver if the queue was empty)
    notify          `QueueDriver._handle_notify`
    poll            `Queue._handle_poll`: pop the oldest task (or answer with an empty delivery)
    deliver         `QueueDriver._handle_delivery`: retarget the payload to the worker and schedule the
                    driver's `QUEUE_DISPATCHED` note right behind it
    work tid        the payload reaches the worker adapter: first segment of `handle_queued_event`
                    (take a worker slot, or — "this shouldn't happen" — count the task as rejected)
    finish tid      second segment: release the slot, count the completion; the completion hook polls
    disp            `QueueDriver._handle_dispatched`

The events the pool's parts send to each other are all stamped with the current instant; the engine
delivers same-instant events in creation order, so they form one FIFO (`pend`).  `submit` and `finish`
deliveries (external events, timed continuations) may be interleaved anywhere.  An internal delivery that is
not the head of `pend` is not a behaviour of the engine; `step` answers `.bad` and changes nothing.
`qcap = none` is an unbounded queue.
-/
namespace HappyModel.C09.TPool

inductive Ev
  | notify | poll | deliver (item : Option Nat) | work (tid : Nat) | disp
deriving Repr, DecidableEq

structure St where
  n : Nat                          -- num_workers
  qcap : Option Nat := none
  queue : List Nat := []           -- the FIFO policy's deque
  busy : Bool := false             -- driver: a poll → deliver → dispatch round trip is in flight
  recheck : Bool := false
  active : Nat := 0                -- `_worker_pool.active`
  running : List Nat := []         -- tasks in service
  pend : List Ev := []             -- internal events not yet delivered, in creation order
  accepted : Nat := 0
  dropped : Nat := 0
  completed : Nat := 0
  rejected : Nat := 0
  started : List Nat := []         -- ghost: tasks in the order their service started
  acceptedL : List Nat := []       -- ghost: tasks in the order they were accepted
deriving Repr, DecidableEq

inductive Op
  | submit (tid : Nat) | notify | poll | deliver | work (tid : Nat) | finish (tid : Nat) | disp
deriving Repr, DecidableEq

inductive Res
  | accepted (notified : Bool) | dropped
  | polled | idle                  -- did the driver send a poll?
  | item (tid : Option Nat)        -- what the queue delivered / what the driver forwarded
  | started | rejected
  | bad
deriving Repr, DecidableEq

/-- `QueueDriver._poll_if_ready` -/
def pollIfReady (s : St) : St × Res :=
  if s.busy then ({ s with recheck := true }, .idle)
  else if s.n ≤ s.active then (s, .idle)
  else ({ s with busy := true, recheck := false, pend := s.pend ++ [.poll] }, .polled)

def full (s : St) : Bool :=
  match s.qcap with
  | none => false
  | some c => decide (c ≤ s.queue.length)

def step (s : St) : Op → St × Res
  | .submit tid =>
    if full s then ({ s with dropped := s.dropped + 1 }, .dropped)
    else
      ({ s with queue := s.queue ++ [tid], accepted := s.accepted + 1, acceptedL := s.acceptedL ++ [tid],
                pend := if s.queue.isEmpty then s.pend ++ [.notify] else s.pend },
       .accepted s.queue.isEmpty)
  | .notify =>
    match s.pend with
    | .notify :: rest => pollIfReady { s with pend := rest }
    | _ => (s, .bad)
  | .poll =>
    match s.pend with
    | .poll :: rest =>
      (match s.queue with
       | [] => ({ s with pend := rest ++ [.deliver none] }, .item none)
       | t :: q => ({ s with queue := q, pend := rest ++ [.deliver (some t)] }, .item (some t)))
    | _ => (s, .bad)
  | .deliver =>
    match s.pend with
    | .deliver none :: rest =>
      let s1 := { s with pend := rest, busy := false }
      if s.recheck then pollIfReady s1 else (s1, .idle)
    | .deliver (some t) :: rest => ({ s with pend := rest ++ [.work t, .disp] }, .item (some t))
    | _ => (s, .bad)
  | .work tid =>
    match s.pend with
    | .work t :: rest =>
      if t ≠ tid then (s, .bad)
      else if s.active < s.n then
        ({ s with pend := rest, active := s.active + 1, running := s.running ++ [tid], started := s.started ++ [tid] }, .started)
      else
        -- the generator returns at once; its completion hook polls
        let r := pollIfReady { s with pend := rest, rejected := s.rejected + 1 }
        (r.1, .rejected)
    | _ => (s, .bad)
  | .finish tid =>
    if !s.running.contains tid then (s, .bad)
    else pollIfReady { s with running := s.running.erase tid, active := s.active - 1, completed := s.completed + 1 }
  | .disp =>
    match s.pend with
    | .disp :: rest => pollIfReady { s with pend := rest, busy := false }
    | _ => (s, .bad)

def run (s : St) : List Op → St
  | [] => s
  | o :: os => run (step s o).1 os

/-- tasks that left the queue and have not reached a worker yet -/
def transit : List Ev → List Nat
  | [] => []
  | .deliver (some t) :: es => t :: transit es
  | .work t :: es => t :: transit es
  | _ :: es => transit es

def inTransit (l : List Ev) : Nat := (transit l).length

/-! ### Spec: a judge over observed thread-pool transcripts -/

inductive Kind
  | submit (tid : Nat) | notify | poll | deliver | work (tid : Nat) | finish (tid : Nat) | disp | fin
deriving Repr, DecidableEq

inductive ORes | accepted | dropped | polled | idle | item | started | rejected | none
deriving Repr, DecidableEq

structure Obs where
  t : Nat
  k : Kind
  res : ORes := .none
  item : Option Nat := none     -- poll / deliver: the task handed on
  pt : Nat := 0                 -- work: the task's processing time (ns)
  aw : Nat := 0                 -- active_workers
  iw : Nat := 0                 -- idle_workers
  q : Nat := 0                  -- queued_tasks
  acc : Nat := 0                -- stats_accepted
  drop : Nat := 0               -- stats_dropped
  done : Nat := 0               -- stats.tasks_completed
  rej : Nat := 0                -- stats.tasks_rejected
  cap : Bool := false           -- has_capacity()
deriving Repr

structure Book where
  inQueue : List Nat := []
  transit : List Nat := []              -- left the queue, not yet at a worker
  running : List (Nat × Nat) := []      -- (task, clock value at which its service must end)
  startedL : List Nat := []
  acceptedL : List Nat := []
  nDrop : Nat := 0
  nDone : Nat := 0
deriving Repr

def Book.apply (qcap : Option Nat) (b : Book) (o : Obs) : Except String Book :=
  match o.k, o.res with
  | .submit tid, .accepted =>
    if b.acceptedL.contains tid then .error "tpool/task/accepted-twice"
    else .ok { b with inQueue := b.inQueue ++ [tid], acceptedL := b.acceptedL ++ [tid] }
  | .submit _, .dropped =>
    (match qcap with
     | none => .error "tpool/task/dropped-although-room"
     | some c => if b.inQueue.length < c then .error "tpool/task/dropped-although-room" else .ok { b with nDrop := b.nDrop + 1 })
  | .notify, _ => .ok b
  | .disp, _ => .ok b
  | .poll, .item =>
    (match o.item, b.inQueue with
     | none, [] => .ok b
     | none, _ :: _ => .error "tpool/queue/poll-missed-task"
     | some _, [] => .error "tpool/task/delivered-from-empty-queue"
     | some t, h :: rest =>
       if t ≠ h then .error "tpool/fifo/out-of-order"
       else .ok { b with inQueue := rest, transit := b.transit ++ [t] })
  | .deliver, .item =>
    (match o.item with
     | some t => if b.transit.contains t then .ok b else .error "tpool/task/forwarded-without-poll"
     | none => .error "tpool/unknown-observation")
  | .deliver, _ => .ok b
  | .work tid, .started =>
    if b.startedL.contains tid then .error "tpool/task/started-twice"
    else if !b.transit.contains tid then .error "tpool/task/started-without-dispatch"
    else if (b.acceptedL.drop b.startedL.length).head? ≠ some tid then .error "tpool/fifo/out-of-order"
    else .ok { b with transit := b.transit.erase tid, running := b.running ++ [(tid, o.t + o.pt)], startedL := b.startedL ++ [tid] }
  | .work _, .rejected => .error "tpool/task/lost"
  | .finish tid, _ =>
    (match b.running.find? (·.1 == tid) with
     | none => .error "tpool/task/finished-without-start"
     | some e =>
       if e.2 ≠ o.t then .error "tpool/task/service-time"
       else .ok { b with running := b.running.filter (·.1 != tid), nDone := b.nDone + 1 })
  | .fin, _ =>
    if b.transit ≠ [] then .error "tpool/task/lost"
    else if b.running ≠ [] then .error "tpool/task/never-finished"
    else .ok b
  | _, _ => .error "tpool/unknown-observation"

/-- `settled`: the observation is the last one of its instant — every event the pool's parts sent to each
    other at this instant has been delivered, nothing is on its way inside the pool -/
def Book.check (n : Nat) (settled : Bool) (b : Book) (o : Obs) : Option String :=
  if n < b.running.length ∨ n < o.aw then some "tpool/active/exceeds-workers"
  else if o.aw ≠ b.running.length then some "tpool/active/count-mismatch"
  else if o.aw + o.iw ≠ n then some "tpool/conservation/active-plus-idle"
  else if o.cap ≠ decide (o.aw < n) then some "tpool/capacity/flag-mismatch"
  else if o.q ≠ b.inQueue.length then some "tpool/queue/count-mismatch"
  else if o.acc ≠ b.acceptedL.length then some "tpool/stats/accepted-mismatch"
  else if o.drop ≠ b.nDrop then some "tpool/stats/dropped-mismatch"
  else if o.done ≠ b.nDone then some "tpool/stats/completed-mismatch"
  else if o.rej ≠ 0 then some "tpool/task/lost"
  else if o.acc ≠ o.q + b.transit.length + o.aw + o.done then some "tpool/conservation/accepted"
  else if settled ∧ o.acc ≠ o.q + o.aw + o.done then some "tpool/task/lost"
  else if settled ∧ b.inQueue ≠ [] ∧ b.running.length < n then some "tpool/head/grantable-but-blocked"
  else none

def isSettled (o : Obs) : List Obs → Bool
  | [] => true
  | o' :: _ => o'.k == .fin || o'.t != o.t

def judge (n : Nat) (qcap : Option Nat) : Book → List Obs → Option String
  | _, [] => none
  | b, o :: os =>
    match b.apply qcap o with
    | .error e => some e
    | .ok b' =>
      match b'.check n (o.k == .fin || isSettled o os) o with
      | some e => some e
      | none => judge n qcap b' os

end HappyModel.C09.TPool
