/-!
Model of `happysimulator/components/client/connection_pool.py` (`ConnectionPool`) as a transition
system whose actions are the generator segments of `acquire()` / the warm-up process, the calls of
`release()`, the deliveries of `_pool_idle_timeout` events and the abandonment of an acquirer:

    acq id        first segment of `acquire()`: take an idle connection, or start creating one
                  (`total < max`), or join the waiter queue
    made id       the set-up latency of call `id` is over: the connection exists and is activated
    poll id       a queued call looks whether `release` handed it a connection (poll-based wait); the
                  first waiter also helps itself to capacity that came back without a release (an idle
                  connection parked by warm-up, a slot returned by an abandoned set-up)
    timeout id    a queued call gives up (`TimeoutError`)
    rel c         `release(connection c)`: direct hand-off to the first waiter, else back to idle
    abandon id    the process inside `acquire()` is dropped / closed (`GeneratorExit`): a set-up in flight
                  gives its reserved slot back, a queued call leaves the queue, a connection already handed
                  over is released again
    idleCheck c e `_pool_idle_timeout` for connection `c`, armed when it went idle at instant `e`: closes it
                  when it is still in that idle session and the pool is above `min_connections`
    warm          the warm-up process tests `total < min` (first delivery and after every connection)
    wmade         a warm-up set-up is over: the connection is parked in the idle list

`reserve = true` is the repaired code (fixes/C09-pool-reserve-slot.diff): the slot is counted in
`total` when the set-up *starts*.  `reserve = false` is the unrepaired code: `total` is counted only
after the latency, so every acquirer arriving during a set-up passes the `total < max` test.
`now` is the clock of the step being executed (set by `stepAt`); only the idle stamps read it.
`close_all` is not modelled.
-/
namespace HappyModel.C09.Pool

structure St where
  max : Nat
  reserve : Bool := true
  total : Nat := 0                    -- `_total_connections`
  creating : Nat := 0                 -- set-ups in flight (acquirers and warm-up)
  idle : List Nat := []               -- FIFO, `popleft`
  active : List Nat := []
  waiters : List Nat := []            -- call ids, FIFO
  handed : List (Nat × Nat) := []     -- (call id, connection) handed off, not yet noticed by its poll
  nextConn : Nat := 0
  min : Nat := 0                      -- `_min_connections`
  now : Nat := 0
  creators : List Nat := []           -- call ids whose set-up is in flight
  wflight : Nat := 0                  -- warm-up set-ups in flight
  stamp : List (Nat × Nat) := []      -- (connection, `last_used_at`) of the latest idle session
  closed : List Nat := []             -- (ghost) connections closed by the idle timeout
deriving Repr, DecidableEq

inductive Op
  | acq (id : Nat) | made (id : Nat) | poll (id : Nat) | timeout (id : Nat) | rel (c : Nat)
  | abandon (id : Nat) | idleCheck (c e : Nat) | warm | wmade
deriving Repr, DecidableEq

inductive Res
  | idle (c : Nat)        -- got an idle connection at once
  | creating | waiting
  | conn (c : Nat)        -- set-up finished
  | got (c : Nat)         -- poll found a handed-off connection
  | wait                  -- poll found nothing
  | timedOut
  | handoff (w : Nat)     -- release handed the connection to waiter `w`
  | toIdle
  | unknown               -- release of a connection that is not active
  | bad                   -- the schedule names a segment the model state does not allow
  | rolledBack            -- abandon: the reserved slot is given back
  | dequeued              -- abandon: the call left the waiter queue
  | nothing               -- abandon of a call that is not inside `acquire()`
  | closed | kept | stale -- idle-timeout check
  | done                  -- warm-up: `total >= min`
deriving Repr, DecidableEq

/-- `last_used_at` of the idle session of connection `c` -/
def stampOf (st : List (Nat × Nat)) (c : Nat) : Option Nat := (st.find? (·.1 == c)).map (·.2)

def setStamp (st : List (Nat × Nat)) (c t : Nat) : List (Nat × Nat) := (c, t) :: st.filter (·.1 != c)

/-- `release(c)` of an active connection: hand-off or back to idle -/
def giveBack (s : St) (c : Nat) : St × Res :=
  match s.waiters with
  | w :: ws => ({ s with waiters := ws, handed := s.handed ++ [(w, c)] }, .handoff w)   -- stays active
  | [] => ({ s with active := s.active.erase c, idle := s.idle ++ [c], stamp := setStamp s.stamp c s.now }, .toIdle)

/-- start a set-up for call `id`: the slot is reserved at once -/
def startCreate (s : St) (id : Nat) : St :=
  { s with creating := s.creating + 1, creators := s.creators ++ [id],
           total := if s.reserve then s.total + 1 else s.total }

def step (s : St) : Op → St × Res
  | .acq id =>
    match s.idle with
    | c :: rest => ({ s with idle := rest, active := s.active ++ [c] }, .idle c)
    | [] =>
      if s.total < s.max then (startCreate s id, .creating)
      else ({ s with waiters := s.waiters ++ [id] }, .waiting)
  | .made id =>
    if !s.creators.contains id then (s, .bad)
    else
      ({ s with creating := s.creating - 1, creators := s.creators.erase id, nextConn := s.nextConn + 1,
                total := if s.reserve then s.total else s.total + 1,
                active := s.active ++ [s.nextConn + 1] }, .conn (s.nextConn + 1))
  | .poll id =>
    match s.handed.find? (·.1 == id) with
    | some h => ({ s with handed := s.handed.filter (·.1 != id) }, .got h.2)
    | none =>
      if s.waiters.head? != some id then (s, .wait)
      else match s.idle with
        | c :: rest => ({ s with waiters := s.waiters.tail, idle := rest, active := s.active ++ [c] }, .idle c)
        | [] =>
          if s.total < s.max then (startCreate { s with waiters := s.waiters.tail } id, .creating)
          else (s, .wait)
  | .timeout id =>
    if (s.handed.find? (·.1 == id)).isSome then (s, .bad)
    else ({ s with waiters := s.waiters.filter (· != id) }, .timedOut)
  | .rel c =>
    if !s.active.contains c then (s, .unknown) else giveBack s c
  | .abandon id =>
    if s.creators.contains id then
      ({ s with creating := s.creating - 1, creators := s.creators.erase id,
                total := if s.reserve then s.total - 1 else s.total }, .rolledBack)
    else match s.handed.find? (·.1 == id) with
      | some h =>
        -- `release()` ignores a connection that is not active (a caller released it twice)
        if !s.active.contains h.2 then ({ s with handed := s.handed.filter (·.1 != id) }, .nothing)
        else giveBack { s with handed := s.handed.filter (·.1 != id) } h.2
      | none =>
        if s.waiters.contains id then ({ s with waiters := s.waiters.filter (· != id) }, .dequeued)
        else (s, .nothing)
  | .idleCheck c e =>
    if s.idle.contains c && stampOf s.stamp c == some e then
      if s.min < s.total then ({ s with idle := s.idle.erase c, total := s.total - 1, closed := s.closed ++ [c] }, .closed)
      else (s, .kept)
    else (s, .stale)
  | .warm =>
    if s.total < s.min then
      ({ s with creating := s.creating + 1, wflight := s.wflight + 1,
                total := if s.reserve then s.total + 1 else s.total }, .creating)
    else (s, .done)
  | .wmade =>
    if s.wflight = 0 then (s, .bad)
    else
      ({ s with creating := s.creating - 1, wflight := s.wflight - 1, nextConn := s.nextConn + 1,
                total := if s.reserve then s.total else s.total + 1,
                idle := s.idle ++ [s.nextConn + 1], stamp := setStamp s.stamp (s.nextConn + 1) s.now },
       .conn (s.nextConn + 1))

/-- one step at clock value `t` -/
def stepAt (s : St) (t : Nat) (o : Op) : St × Res := step { s with now := t } o

def run (s : St) : List Op → St
  | [] => s
  | o :: os => run (step s o).1 os

/-- timed run (what the driver executes) -/
def runAt (s : St) : List (Nat × Op) → St
  | [] => s
  | (t, o) :: os => runAt (stepAt s t o).1 os

/-! ### Spec: a judge over observed pool transcripts -/

structure Obs where
  t : Nat
  op : Op
  res : Res
  a : Nat      -- active_connections
  i : Nat      -- idle_connections
  n : Nat      -- total_connections
  p : Nat      -- pending_requests
deriving Repr

structure Book where
  active : List Nat := []
  idle : List Nat := []
  made : Nat := 0                    -- live connections: reported created and not reported closed
  inflight : Nat := 0                -- set-ups reported started and not finished
  blocked : List Nat := []
  handed : List (Nat × Nat) := []
  since : List (Nat × Nat) := []     -- (call id, clock value of its `acq`)
  creators : List Nat := []          -- calls reported creating
  wflight : Nat := 0                 -- warm-up set-ups reported started and not finished
  stamp : List (Nat × Nat) := []     -- (connection, instant it was last reported going idle)
  closed : List Nat := []            -- connections reported closed
  /-- capacity came back without a release (abandoned set-up, warm-up connection, idle close) and the
  first blocked call has not polled since: it helps itself at its next poll, not earlier (when it does,
  the call behind it becomes the first one and has its own next poll to come) -/
  slack : Bool := false
deriving Repr

/-- judge-side parameters -/
structure Params where
  max : Nat
  timeoutNs : Nat
  min : Nat := 0
  idleNs : Nat := 0
deriving Repr

/-- is there capacity the first blocked call could take? -/
def Book.free (max : Nat) (b : Book) : Bool := !b.idle.isEmpty || decide (b.made + b.inflight < max)

/-- `release(c)` observed (directly or through an abandoned hand-off) -/
def Book.giveBack (b : Book) (t c : Nat) (r : Res) : Except String Book :=
  match r with
  | .handoff w =>
    match b.blocked with
    | [] => .error "pool/grant/not-waiting"
    | h :: rest =>
      if h ≠ w then .error "pool/fifo/out-of-order"
      else .ok { b with blocked := rest, handed := b.handed ++ [(w, c)] }
  | .toIdle =>
    if !b.blocked.isEmpty then .error "pool/head/grantable-but-blocked"
    else .ok { b with active := b.active.filter (· != c), idle := b.idle ++ [c], stamp := setStamp b.stamp c t }
  | _ => .error "pool/unknown-observation"

def Book.apply (pr : Params) (b : Book) (o : Obs) : Except String Book :=
  match o.op, o.res with
  | .acq _, .idle c =>
    if b.active.contains c then .error "pool/connection/double-grant"
    else if !b.idle.contains c then .error "pool/connection/not-idle"
    else .ok { b with idle := b.idle.filter (· != c), active := b.active ++ [c] }
  | .acq id, .creating =>
    if !b.idle.isEmpty then .error "pool/acquire/created-although-idle"
    else .ok { b with inflight := b.inflight + 1, creators := b.creators ++ [id] }
  | .acq id, .waiting =>
    .ok { b with blocked := b.blocked ++ [id], since := (id, o.t) :: b.since,
                 slack := b.slack && !b.blocked.isEmpty }
  | .made id, .conn c =>
    if b.inflight = 0 || !b.creators.contains id then .error "pool/create/without-start"
    else if b.closed.contains c then .error "pool/connection/reused-after-close"
    else if b.active.contains c ∨ b.idle.contains c then .error "pool/connection/double-grant"
    else .ok { b with inflight := b.inflight - 1, creators := b.creators.erase id, made := b.made + 1,
                      active := b.active ++ [c] }
  | .poll id, .got c =>
    if !b.handed.contains (id, c) then .error "pool/grant/without-handoff"
    else .ok { b with handed := b.handed.filter (· != (id, c)) }
  | .poll id, .wait =>
    if (b.handed.find? (·.1 == id)).isSome then .error "pool/grant/handoff-ignored"
    else if b.blocked.head? == some id then
      if b.free pr.max then .error "pool/head/grantable-but-blocked" else .ok { b with slack := false }
    else .ok b
  | .poll id, .idle c =>
    -- the first blocked call takes a connection that was parked in the idle list
    if b.blocked.head? != some id then .error "pool/fifo/out-of-order"
    else if b.active.contains c then .error "pool/connection/double-grant"
    else if !b.idle.contains c then .error "pool/connection/not-idle"
    else .ok { b with blocked := b.blocked.tail, idle := b.idle.filter (· != c), active := b.active ++ [c], slack := true }
  | .poll id, .creating =>
    -- the first blocked call opens a connection in a slot that came back
    if b.blocked.head? != some id then .error "pool/fifo/out-of-order"
    else if !b.idle.isEmpty then .error "pool/acquire/created-although-idle"
    else .ok { b with blocked := b.blocked.tail, inflight := b.inflight + 1, creators := b.creators ++ [id], slack := true }
  | .timeout id, .timedOut =>
    if (b.handed.find? (·.1 == id)).isSome then .error "pool/timeout/connection-leaked"
    else match b.since.find? (·.1 == id) with
      | none => .error "pool/timeout/not-waiting"
      | some st =>
        if o.t < st.2 + pr.timeoutNs then .error "pool/timeout/early"
        else if b.blocked.head? == some id && b.free pr.max then .error "pool/timeout/although-grantable"
        else .ok { b with blocked := b.blocked.filter (· != id) }
  | .rel c, .handoff w =>
    if !b.active.contains c then .error "pool/release/unknown-connection-accepted"
    else b.giveBack o.t c (.handoff w)
  | .rel c, .toIdle =>
    if !b.active.contains c then .error "pool/release/unknown-connection-accepted"
    else b.giveBack o.t c .toIdle
  | .rel c, .unknown =>
    if b.active.contains c then .error "pool/release/ignored-live-connection" else .ok b
  | .abandon id, r =>
    if b.creators.contains id then
      -- the set-up dies with its caller: the slot it reserved must come back
      if r != .rolledBack then .error "pool/abandon/slot-leaked"
      else .ok { b with inflight := b.inflight - 1, creators := b.creators.erase id, slack := true }
    else match b.handed.find? (·.1 == id) with
      | some h =>
        -- a connection already handed to the dead caller must go on to the next waiter / the idle list
        if !b.active.contains h.2 then
          -- its holder released the connection a second time meanwhile: nothing is left to pass on
          if r != .nothing then .error "pool/unknown-observation"
          else .ok { b with handed := b.handed.filter (·.1 != id) }
        else match r with
        | .handoff w => { b with handed := b.handed.filter (·.1 != id) }.giveBack o.t h.2 (.handoff w)
        | .toIdle => { b with handed := b.handed.filter (·.1 != id) }.giveBack o.t h.2 .toIdle
        | _ => .error "pool/abandon/connection-leaked"
      | none =>
        if b.blocked.contains id then
          if r != .dequeued then .error "pool/abandon/waiter-left-in-queue"
          else .ok { b with blocked := b.blocked.filter (· != id) }
        else if r != .nothing then .error "pool/unknown-observation"
        else .ok b
  | .idleCheck c e, .closed =>
    if b.active.contains c then .error "pool/close/connection-in-use"
    else if !b.idle.contains c then .error "pool/close/not-idle"
    else if stampOf b.stamp c != some e then .error "pool/close/stale-session"
    else if o.t < e + pr.idleNs then .error "pool/close/early"
    else if b.made + b.inflight ≤ pr.min then .error "pool/close/below-min"
    else .ok { b with idle := b.idle.filter (· != c), made := b.made - 1, closed := b.closed ++ [c], slack := true }
  | .idleCheck _ _, .kept => .ok b
  | .idleCheck _ _, .stale => .ok b
  | .warm, .creating => .ok { b with inflight := b.inflight + 1, wflight := b.wflight + 1 }
  | .warm, .done => .ok b
  | .wmade, .conn c =>
    if b.wflight = 0 || b.inflight = 0 then .error "pool/create/without-start"
    else if b.closed.contains c then .error "pool/connection/reused-after-close"
    else if b.active.contains c ∨ b.idle.contains c then .error "pool/connection/double-grant"
    else .ok { b with inflight := b.inflight - 1, wflight := b.wflight - 1, made := b.made + 1,
                      idle := b.idle ++ [c], stamp := setStamp b.stamp c o.t, slack := true }
  | _, _ => .error "pool/unknown-observation"

def Book.check (max : Nat) (b : Book) (o : Obs) : Option String :=
  if max < b.active.length then some "pool/active/exceeds-max"
  else if max < b.made + b.inflight then some "pool/total/exceeds-max"
  else if o.a ≠ b.active.length then some "pool/active/count-mismatch"
  else if o.i ≠ b.idle.length then some "pool/idle/count-mismatch"
  -- what `total_connections` shows while a set-up is in flight is not fixed by the property
  else if o.n ≠ b.made + b.inflight ∧ o.n ≠ b.made then some "pool/total/count-mismatch"
  else if o.p ≠ b.blocked.length then some "pool/pending/count-mismatch"
  else if b.active.length + b.idle.length ≠ b.made then some "pool/conservation/active-plus-idle"
  else if !b.blocked.isEmpty ∧ b.free max ∧ !b.slack then some "pool/head/grantable-but-blocked"
  else none

def judge (pr : Params) : Book → List Obs → Option String
  | _, [] => none
  | b, o :: os =>
    match b.apply pr o with
    | .error e => some e
    | .ok b' => match b'.check pr.max o with
      | some e => some e
      | none => judge pr b' os

end HappyModel.C09.Pool
