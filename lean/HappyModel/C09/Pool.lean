/-!
Model of `happysimulator/components/client/connection_pool.py` (`ConnectionPool.acquire/release`)
as a transition system whose actions are the generator segments of `acquire()` and the calls of
`release()`:

    acq id      first segment of `acquire()`: take an idle connection, or start creating one
                (`total < max`), or join the waiter queue
    made id     the set-up latency of call `id` is over: the connection exists and is activated
    poll id     a queued call looks whether `release` handed it a connection (poll-based wait)
    timeout id  a queued call gives up (`TimeoutError`)
    rel c       `release(connection c)`: direct hand-off to the first waiter, else back to idle

`reserve = true` is the repaired code (fixes/C09-pool-reserve-slot.diff): the slot is counted in
`total` when the set-up *starts*.  `reserve = false` is the unrepaired code: `total` is counted only
after the latency, so every acquirer arriving during a set-up passes the `total < max` test.
Idle-timeout closing and warm-up are not modelled.
-/
namespace HappyModel.C09.Pool

structure St where
  max : Nat
  reserve : Bool := true
  total : Nat := 0                    -- `_total_connections`
  creating : Nat := 0                 -- set-ups in flight
  idle : List Nat := []               -- FIFO, `popleft`
  active : List Nat := []
  waiters : List Nat := []            -- call ids, FIFO
  handed : List (Nat × Nat) := []     -- (call id, connection) handed off, not yet noticed by its poll
  nextConn : Nat := 0
deriving Repr, DecidableEq

inductive Op
  | acq (id : Nat) | made (id : Nat) | poll (id : Nat) | timeout (id : Nat) | rel (c : Nat)
deriving Repr, DecidableEq

inductive Res
  | idle (c : Nat)        -- got an idle connection at once
  | creating | waiting
  | conn (c : Nat)        -- set-up finished
  | got (c : Nat)         -- poll found a handed-off connection
  | wait                  -- poll found nothing
  | timedOut
  | handoff (w : Nat)     -- release handed the connection to waiter `w`
  | toIdle
  | unknown               -- release of a connection that is not active
  | bad                   -- the schedule names a segment the model state does not allow
deriving Repr, DecidableEq

def step (s : St) : Op → St × Res
  | .acq id =>
    match s.idle with
    | c :: rest => ({ s with idle := rest, active := s.active ++ [c] }, .idle c)
    | [] =>
      if s.total < s.max then
        ({ s with creating := s.creating + 1, total := if s.reserve then s.total + 1 else s.total }, .creating)
      else ({ s with waiters := s.waiters ++ [id] }, .waiting)
  | .made _ =>
    if s.creating = 0 then (s, .bad)
    else
      ({ s with creating := s.creating - 1, nextConn := s.nextConn + 1,
                total := if s.reserve then s.total else s.total + 1,
                active := s.active ++ [s.nextConn + 1] }, .conn (s.nextConn + 1))
  | .poll id =>
    match s.handed.find? (·.1 == id) with
    | some h => ({ s with handed := s.handed.filter (·.1 != id) }, .got h.2)
    | none => (s, .wait)
  | .timeout id =>
    if (s.handed.find? (·.1 == id)).isSome then (s, .bad)
    else ({ s with waiters := s.waiters.filter (· != id) }, .timedOut)
  | .rel c =>
    if !s.active.contains c then (s, .unknown)
    else match s.waiters with
      | w :: ws => ({ s with waiters := ws, handed := s.handed ++ [(w, c)] }, .handoff w)   -- stays active
      | [] => ({ s with active := s.active.erase c, idle := s.idle ++ [c] }, .toIdle)

def run (s : St) : List Op → St
  | [] => s
  | o :: os => run (step s o).1 os

/-! ### Spec: a judge over observed pool transcripts -/

structure Obs where
  t : Nat
  op : Op
  res : Res
  a : Nat      -- active_connections
  i : Nat      -- idle_connections
  n : Nat      -- total_connections
  p : Nat      -- pending_requests
deriving Repr

structure Book where
  active : List Nat := []
  idle : List Nat := []
  made : Nat := 0                    -- connections reported created
  inflight : Nat := 0                -- set-ups reported started and not finished
  blocked : List Nat := []
  handed : List (Nat × Nat) := []
  since : List (Nat × Nat) := []     -- (call id, clock value of its `acq`)
deriving Repr

def Book.apply (timeoutNs : Nat) (b : Book) (o : Obs) : Except String Book :=
  match o.op, o.res with
  | .acq id, .idle c =>
    if b.active.contains c then .error "pool/connection/double-grant"
    else if !b.idle.contains c then .error "pool/connection/not-idle"
    else .ok { b with idle := b.idle.filter (· != c), active := b.active ++ [c] }
  | .acq _, .creating =>
    if !b.idle.isEmpty then .error "pool/acquire/created-although-idle" else .ok { b with inflight := b.inflight + 1 }
  | .acq id, .waiting => .ok { b with blocked := b.blocked ++ [id], since := (id, o.t) :: b.since }
  | .made _, .conn c =>
    if b.inflight = 0 then .error "pool/create/without-start"
    else if b.active.contains c ∨ b.idle.contains c then .error "pool/connection/double-grant"
    else .ok { b with inflight := b.inflight - 1, made := b.made + 1, active := b.active ++ [c] }
  | .poll id, .got c =>
    if !b.handed.contains (id, c) then .error "pool/grant/without-handoff"
    else .ok { b with handed := b.handed.filter (· != (id, c)) }
  | .poll id, .wait =>
    if (b.handed.find? (·.1 == id)).isSome then .error "pool/grant/handoff-ignored" else .ok b
  | .timeout id, .timedOut =>
    if (b.handed.find? (·.1 == id)).isSome then .error "pool/timeout/connection-leaked"
    else match b.since.find? (·.1 == id) with
      | none => .error "pool/timeout/not-waiting"
      | some st =>
        if o.t < st.2 + timeoutNs then .error "pool/timeout/early"
        else .ok { b with blocked := b.blocked.filter (· != id) }
  | .rel c, .handoff w =>
    if !b.active.contains c then .error "pool/release/unknown-connection-accepted"
    else match b.blocked with
      | [] => .error "pool/grant/not-waiting"
      | h :: rest =>
        if h ≠ w then .error "pool/fifo/out-of-order"
        else .ok { b with blocked := rest, handed := b.handed ++ [(w, c)] }
  | .rel c, .toIdle =>
    if !b.active.contains c then .error "pool/release/unknown-connection-accepted"
    else if !b.blocked.isEmpty then .error "pool/head/grantable-but-blocked"
    else .ok { b with active := b.active.filter (· != c), idle := b.idle ++ [c] }
  | .rel c, .unknown =>
    if b.active.contains c then .error "pool/release/ignored-live-connection" else .ok b
  | _, _ => .error "pool/unknown-observation"

def Book.check (max : Nat) (b : Book) (o : Obs) : Option String :=
  if max < b.active.length then some "pool/active/exceeds-max"
  else if max < b.made + b.inflight then some "pool/total/exceeds-max"
  else if o.a ≠ b.active.length then some "pool/active/count-mismatch"
  else if o.i ≠ b.idle.length then some "pool/idle/count-mismatch"
  -- what `total_connections` shows while a set-up is in flight is not fixed by the property
  else if o.n ≠ b.made + b.inflight ∧ o.n ≠ b.made then some "pool/total/count-mismatch"
  else if o.p ≠ b.blocked.length then some "pool/pending/count-mismatch"
  else if b.active.length + b.idle.length ≠ b.made then some "pool/conservation/active-plus-idle"
  else if !b.blocked.isEmpty ∧ (!b.idle.isEmpty ∨ b.made + b.inflight < max) then some "pool/head/grantable-but-blocked"
  else none

def judge (max timeoutNs : Nat) : Book → List Obs → Option String
  | _, [] => none
  | b, o :: os =>
    match b.apply timeoutNs o with
    | .error e => some e
    | .ok b' => match b'.check max o with
      | some e => some e
      | none => judge max timeoutNs b' os

end HappyModel.C09.Pool
