import HappyModel.C09.Sync
/-!
C09 specification predicates for Mutex / Semaphore / RWLock / Barrier, decidable, over observed
values only (call results, wake lists, the public counters, which process resumed when).  Each judge
keeps its own books — outstanding holders/permits and the arrival-ordered list of blocked callers —
from what was *reported*, and checks after every observation:

* exclusion / limit: holders ≤ 1 (mutex); 0 ≤ outstanding ≤ capacity and outstanding + available =
  capacity (semaphore); at most one writer, a writer excludes all readers, readers ≤ max_readers
  (rwlock); fewer than `parties` waiting (barrier);
* FIFO: the callers woken by an operation are a prefix of the blocked list;
* "as soon as capacity allows": after every operation the head of the blocked list is not grantable;
* at most once / silent waiting / progress: a process resumes only after its wake-up, at the same
  clock value, having consumed no deliveries while blocked; no process is re-delivered for ever at
  one clock value.
-/
namespace HappyModel.C09.Sync

inductive SKind
  | acq (id : Nat) (n : Int) (mode : Nat)    -- mode 0: plain / read, 1: write
  | try_ (id : Nat) (n : Int) (mode : Nat)
  | rel (n : Int) (mode : Nat)
  | ctl (which : Nat)                         -- barrier: 0 reset, 1 abort
  | got (id : Nat) (spins : Nat)
  | hang (id : Nat)
  | fin
deriving Repr, DecidableEq

structure Obs where
  t : Nat := 0
  k : SKind
  res : Res := .ok
  woke : List Nat := []
  c1 : Int := 0
  c2 : Int := 0
  c3 : Int := 0
deriving Repr

/-- process-level observations, identical for every primitive -/
def procObs (pfx : String) (resolved : Pend) (o : Obs) : Option (Except String Pend) :=
  match o.k with
  | .got id spins =>
    some <| match resolved.find? (·.1 == id) with
      | none => .error (pfx ++ "/grant/resumed-without-grant")
      | some p =>
        if p.2 ≠ o.t then .error (pfx ++ "/wait/resumed-late")
        else if spins ≠ 0 then .error (pfx ++ "/wait/not-silent")
        else .ok (resolved.filter (·.1 != id))
  | .hang _ => some (.error (pfx ++ "/wait/clock-stuck"))
  | .fin => some (if !resolved.isEmpty then .error (pfx ++ "/grant/never-resumed") else .ok resolved)
  | _ => none

/-- `woke` must be a prefix of the blocked ids -/
def wokeCheck (pfx : String) (blocked : List Nat) (woke : List Nat) : Option String :=
  if blocked.take woke.length = woke then none
  else if woke.all blocked.contains then some (pfx ++ "/fifo/out-of-order")
  else some (pfx ++ "/grant/not-waiting")

/-! ### Mutex -/
structure MBook where
  holders : Nat := 0
  blocked : List Nat := []
  resolved : Pend := []
deriving Repr

def MBook.apply (engine : Bool) (b : MBook) (o : Obs) : Except String MBook :=
  match procObs "mutex" b.resolved o with
  | some (.error e) => .error e
  | some (.ok r) => .ok { b with resolved := r }
  | none =>
  let res' := fun (l : List Nat) => if engine then b.resolved.add o.t l else b.resolved
  match o.k with
  | .acq id _ _ =>
    match o.res with
    | .granted => if b.holders ≠ 0 then .error "mutex/acquire/granted-while-held"
                  else .ok { b with holders := 1, resolved := res' [id] }
    | .queued => if b.holders = 0 then .error "mutex/acquire/queued-while-free"
                 else .ok { b with blocked := b.blocked ++ [id] }
    | _ => .error "mutex/acquire/unknown-result"
  | .try_ _ _ _ =>
    match o.res with
    | .granted => if b.holders ≠ 0 then .error "mutex/acquire/granted-while-held" else .ok { b with holders := 1 }
    | .refused => if b.holders = 0 then .error "mutex/try-acquire/refused-although-free" else .ok b
    | _ => .error "mutex/acquire/unknown-result"
  | .rel _ _ =>
    match o.res with
    | .released =>
      if b.holders = 0 then .error "mutex/release/accepted-when-not-held"
      else match wokeCheck "mutex" b.blocked o.woke with
        | some e => .error e
        | none => .ok { holders := b.holders - 1 + o.woke.length, blocked := b.blocked.drop o.woke.length,
                        resolved := res' o.woke }
    | .errRuntime => if b.holders ≠ 0 then .error "mutex/release/rejected-while-held" else .ok b
    | _ => .error "mutex/release/unknown-result"
  | _ => .error "mutex/unknown-observation"

def MBook.check (b : MBook) (o : Obs) : Option String :=
  if 1 < b.holders then some "mutex/holders/exceeds-one"
  else if o.c1 ≠ (if b.holders = 1 then 1 else 0) then some "mutex/locked/flag-mismatch"
  else if o.c2 ≠ b.blocked.length then some "mutex/waiters/count-mismatch"
  else if !b.blocked.isEmpty ∧ b.holders = 0 then some "mutex/head/grantable-but-blocked"
  else none

def judgeMutex (engine : Bool) : MBook → List Obs → Option String
  | _, [] => none
  | b, o :: os =>
    match b.apply engine o with
    | .error e => some e
    | .ok b' => match b'.check o with
      | some e => some e
      | none => judgeMutex engine b' os

/-! ### Semaphore -/
structure SBook where
  out : Int := 0
  blocked : List (Nat × Int) := []
  resolved : Pend := []
deriving Repr

def SBook.apply (cap : Int) (engine : Bool) (b : SBook) (o : Obs) : Except String SBook :=
  match procObs "semaphore" b.resolved o with
  | some (.error e) => .error e
  | some (.ok r) => .ok { b with resolved := r }
  | none =>
  let res' := fun (l : List Nat) => if engine then b.resolved.add o.t l else b.resolved
  match o.k with
  | .acq id n _ =>
    match o.res with
    | .errValue => if 1 ≤ n ∧ n ≤ cap then .error "semaphore/acquire/rejected-valid-count" else .ok b
    | .granted => if n < 1 ∨ cap < n then .error "semaphore/acquire/accepted-bad-count"
                  else .ok { b with out := b.out + n, resolved := res' [id] }
    | .queued => if n < 1 ∨ cap < n then .error "semaphore/acquire/accepted-bad-count"
                 else .ok { b with blocked := b.blocked ++ [(id, n)] }
    | _ => .error "semaphore/acquire/unknown-result"
  | .try_ _ n _ =>
    match o.res with
    | .errValue => if 1 ≤ n then .error "semaphore/acquire/rejected-valid-count" else .ok b
    | .granted => if n < 1 then .error "semaphore/acquire/accepted-bad-count" else .ok { b with out := b.out + n }
    | .refused => if n < 1 then .error "semaphore/acquire/accepted-bad-count"
                  else if n ≤ cap - b.out then .error "semaphore/try-acquire/refused-although-free" else .ok b
    | _ => .error "semaphore/acquire/unknown-result"
  | .rel n _ =>
    match o.res with
    | .errValue => if 1 ≤ n ∧ n ≤ b.out then .error "semaphore/release/rejected-valid" else .ok b
    | .released =>
      if n < 1 then .error "semaphore/release/accepted-bad-count"
      else if b.out < n then .error "semaphore/release/exceeds-capacity"
      else match wokeCheck "semaphore" (b.blocked.map (·.1)) o.woke with
        | some e => .error e
        | none =>
          let woken := b.blocked.take o.woke.length
          .ok { out := b.out - n + Sem.amtSum woken, blocked := b.blocked.drop o.woke.length, resolved := res' o.woke }
    | _ => .error "semaphore/release/unknown-result"
  | _ => .error "semaphore/unknown-observation"

def SBook.check (cap : Int) (b : SBook) (o : Obs) : Option String :=
  if b.out < 0 ∨ cap < b.out then some "semaphore/held/exceeds-capacity"
  else if b.out + o.c1 ≠ cap then some "semaphore/conservation/held-plus-available"
  else if o.c2 ≠ b.blocked.length then some "semaphore/waiters/count-mismatch"
  else match b.blocked with
    | [] => none
    | w :: _ => if w.2 ≤ cap - b.out then some "semaphore/head/grantable-but-blocked" else none

def judgeSem (cap : Int) (engine : Bool) : SBook → List Obs → Option String
  | _, [] => none
  | b, o :: os =>
    match b.apply cap engine o with
    | .error e => some e
    | .ok b' => match b'.check cap o with
      | some e => some e
      | none => judgeSem cap engine b' os

/-! ### RWLock -/
structure RBook where
  r : Nat := 0
  w : Nat := 0
  blocked : List (Nat × Bool) := []
  resolved : Pend := []
deriving Repr

def rAtMax (maxR : Nat) (b : RBook) : Bool := maxR != 0 && b.r ≥ maxR
def readBlocked (maxR : Nat) (b : RBook) : Bool := b.w ≠ 0 || b.blocked.any (·.2) || rAtMax maxR b
def writeBlocked (b : RBook) : Bool := b.w ≠ 0 || b.r ≠ 0

/-- hand the lock to the woken callers one by one, checking exclusion at each hand-over -/
def grantWoken (maxR : Nat) : RBook → List (Nat × Bool) → Except String RBook
  | b, [] => .ok b
  | b, (_, true) :: rest =>
    if b.w ≠ 0 ∨ b.r ≠ 0 then .error "rwlock/write/granted-while-held"
    else grantWoken maxR { b with w := 1 } rest
  | b, (_, false) :: rest =>
    if b.w ≠ 0 then .error "rwlock/read/granted-while-writer"
    else if rAtMax maxR b then .error "rwlock/readers/exceeds-max"
    else grantWoken maxR { b with r := b.r + 1 } rest

def RBook.apply (maxR : Nat) (engine : Bool) (b : RBook) (o : Obs) : Except String RBook :=
  match procObs "rwlock" b.resolved o with
  | some (.error e) => .error e
  | some (.ok r) => .ok { b with resolved := r }
  | none =>
  let res' := fun (l : List Nat) => if engine then b.resolved.add o.t l else b.resolved
  let isTry := match o.k with | .try_ _ _ _ => true | _ => false
  match o.k with
  | .acq id _ mode | .try_ id _ mode =>
    let blockedNow := if mode = 1 then writeBlocked b else readBlocked maxR b
    match o.res with
    | .granted =>
      if mode = 1 then
        (if writeBlocked b then .error "rwlock/write/granted-while-held"
         else .ok { b with w := 1, resolved := if isTry then b.resolved else res' [id] })
      else
        (if b.w ≠ 0 then .error "rwlock/read/granted-while-writer"
         else if rAtMax maxR b then .error "rwlock/readers/exceeds-max"
         else .ok { b with r := b.r + 1, resolved := if isTry then b.resolved else res' [id] })
    | .queued =>
      if isTry then .error "rwlock/acquire/unknown-result"
      else if !blockedNow then .error "rwlock/acquire/queued-although-free"
      else .ok { b with blocked := b.blocked ++ [(id, decide (mode = 1))] }
    | .refused =>
      if !isTry then .error "rwlock/acquire/unknown-result"
      else if !blockedNow then .error "rwlock/try-acquire/refused-although-free"
      else .ok b
    | _ => .error "rwlock/acquire/unknown-result"
  | .rel _ mode =>
    match o.res with
    | .errRuntime =>
      if mode = 1 then (if b.w ≠ 0 then .error "rwlock/release/rejected-while-held" else .ok b)
      else (if b.r ≠ 0 then .error "rwlock/release/rejected-while-held" else .ok b)
    | .released =>
      if (mode = 1 ∧ b.w = 0) ∨ (mode ≠ 1 ∧ b.r = 0) then .error "rwlock/release/accepted-when-not-held"
      else match wokeCheck "rwlock" (b.blocked.map (·.1)) o.woke with
        | some e => .error e
        | none =>
          let b1 : RBook := if mode = 1 then { b with w := 0 } else { b with r := b.r - 1 }
          let woken := b.blocked.take o.woke.length
          match grantWoken maxR { b1 with blocked := b.blocked.drop o.woke.length } woken with
          | .error e => .error e
          | .ok b2 => .ok { b2 with resolved := res' o.woke }
    | _ => .error "rwlock/release/unknown-result"
  | _ => .error "rwlock/unknown-observation"

def RBook.check (maxR : Nat) (b : RBook) (o : Obs) : Option String :=
  if 1 < b.w then some "rwlock/exclusion/two-writers"
  else if b.w = 1 ∧ b.r ≠ 0 then some "rwlock/exclusion/writer-with-readers"
  else if maxR ≠ 0 ∧ maxR < b.r then some "rwlock/readers/exceeds-max"
  else if o.c1 ≠ b.r then some "rwlock/readers/count-mismatch"
  else if o.c3 ≠ b.w then some "rwlock/write-locked/flag-mismatch"
  else if o.c2 ≠ b.blocked.length then some "rwlock/waiters/count-mismatch"
  else match b.blocked with
    | [] => none
    | (_, true) :: _ => if b.w = 0 ∧ b.r = 0 then some "rwlock/head/grantable-but-blocked" else none
    | (_, false) :: _ => if b.w = 0 ∧ !rAtMax maxR b then some "rwlock/head/grantable-but-blocked" else none

def judgeRW (maxR : Nat) (engine : Bool) : RBook → List Obs → Option String
  | _, [] => none
  | b, o :: os =>
    match b.apply maxR engine o with
    | .error e => some e
    | .ok b' => match b'.check maxR o with
      | some e => some e
      | none => judgeRW maxR engine b' os

/-! ### Condition + Mutex

Observation kinds reuse `SKind`: `acq _ _ 2` = `cwait`, `acq _ _ 3` = `reacq`, `ctl n` = `notify n`. -/
structure CBook where
  m : MBook := {}
  cblocked : List Nat := []
deriving Repr

def CBook.apply (engine : Bool) (b : CBook) (o : Obs) : Except String CBook :=
  let res' := fun (l : List Nat) => if engine then b.m.resolved.add o.t l else b.m.resolved
  match o.k with
  | .acq id _ 2 =>
    match o.res with
    | .errRuntime => if b.m.holders ≠ 0 then .error "condition/wait/rejected-while-locked" else .ok b
    | .queued =>
      if b.m.holders = 0 then .error "condition/wait/without-lock"
      else match wokeCheck "mutex" b.m.blocked o.woke with
        | some e => .error e
        | none => .ok { m := { holders := b.m.holders - 1 + o.woke.length, blocked := b.m.blocked.drop o.woke.length,
                               resolved := res' o.woke },
                        cblocked := b.cblocked ++ [id] }
    | _ => .error "condition/wait/unknown-result"
  | .ctl n =>
    if o.woke ≠ b.cblocked.take n then .error "condition/notify/wrong-waiters"
    else .ok { m := { b.m with resolved := res' o.woke }, cblocked := b.cblocked.drop n }
  | .acq id n 3 =>
    -- the notified process runs again: this is its one resumption; then it is an ordinary acquire
    let spins := n.toNat
    let r : Except String Pend :=
      if !engine then .ok b.m.resolved else
      match b.m.resolved.find? (·.1 == id) with
      | none => .error "condition/wait/resumed-without-notify"
      | some p =>
        if p.2 ≠ o.t then .error "condition/wait/resumed-late"
        else if spins ≠ 0 then .error "condition/wait/not-silent"
        else .ok (b.m.resolved.filter (·.1 != id))
    match r with
    | .error e => .error e
    | .ok r =>
      match ({ b.m with resolved := r } : MBook).apply engine { o with k := .acq id 1 0 } with
      | .error e => .error e
      | .ok m' => .ok { b with m := m' }
  | _ =>
    match b.m.apply engine o with
    | .error e => .error e
    | .ok m' => .ok { b with m := m' }

def CBook.check (b : CBook) (o : Obs) : Option String :=
  match b.m.check o with
  | some e => some e
  | none => if o.c3 ≠ b.cblocked.length then some "condition/waiters/count-mismatch" else none

def judgeCond (engine : Bool) : CBook → List Obs → Option String
  | _, [] => none
  | b, o :: os =>
    match b.apply engine o with
    | .error e => some e
    | .ok b' => match b'.check o with
      | some e => some e
      | none => judgeCond engine b' os

/-! ### Barrier -/
structure BBook where
  blocked : List Nat := []
  broken : Bool := false
  resolved : Pend := []
deriving Repr

def BBook.apply (parties : Nat) (engine : Bool) (b : BBook) (o : Obs) : Except String BBook :=
  match procObs "barrier" b.resolved o with
  | some (.error e) => .error e
  | some (.ok r) => .ok { b with resolved := r }
  | none =>
  let res' := fun (l : List Nat) => if engine then b.resolved.add o.t l else b.resolved
  match o.k with
  | .acq id _ _ =>
    match o.res with
    | .queued =>
      if b.blocked.length + 1 ≥ parties then .error "barrier/wait/blocked-although-complete"
      else .ok { b with blocked := b.blocked ++ [id] }
    | .passed =>
      if b.blocked.length + 1 < parties then .error "barrier/release/too-early"
      else if o.woke ≠ b.blocked then .error "barrier/release/not-all-waiters-in-order"
      else .ok { b with blocked := [], resolved := res' (o.woke ++ [id]) }
    | .errRuntime => if b.broken then .ok b else .error "barrier/wait/rejected-unbroken"
    | _ => .error "barrier/wait/unknown-result"
  | .ctl which =>
    if o.woke ≠ b.blocked then .error "barrier/release/not-all-waiters-in-order"
    else .ok { b with blocked := [], broken := which = 1, resolved := res' o.woke }
  | _ => .error "barrier/unknown-observation"

def BBook.check (parties : Nat) (b : BBook) (o : Obs) : Option String :=
  if o.c1 ≠ b.blocked.length then some "barrier/waiting/count-mismatch"
  else if b.blocked.length ≥ parties then some "barrier/waiting/reaches-parties"
  else none

def judgeBarrier (parties : Nat) (engine : Bool) : BBook → List Obs → Option String
  | _, [] => none
  | b, o :: os =>
    match b.apply parties engine o with
    | .error e => some e
    | .ok b' => match b'.check parties o with
      | some e => some e
      | none => judgeBarrier parties engine b' os

end HappyModel.C09.Sync
