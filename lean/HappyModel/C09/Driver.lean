import HappyModel.Proto
import HappyModel.C09.Spec
import HappyModel.C09.SyncSpec
import HappyModel.C09.Pool
import HappyModel.C09.Conc
import HappyModel.C09.ExtraDriver
/-! Line-protocol driver for C09 (the other side is `hv/props/c09.py`). -/
namespace HappyModel.C09.Driver
open HappyModel.Proto

def showIds (l : List Nat) : String :=
  if l.isEmpty then "-" else ",".intercalate (l.map toString)

def parseIds (s : String) : List Nat :=
  if s == "-" then [] else (s.splitOn ",").map natD

/-- `key=value` token → value -/
def kv (key : String) (tok : String) : Option String :=
  if tok.startsWith (key ++ "=") then some ((tok.drop (key.length + 1)).toString) else none

def findKv (key : String) (ts : List String) : Option String := ts.findSome? (kv key)

/-! ### Resource -/
section Res
open HappyModel.C09.Res

def resName : Res → String
  | .granted => "granted" | .queued => "queued" | .refused => "refused"
  | .err => "err:ValueError" | .released => "released" | .noop => "noop" | .resized => "resized"

def resOfName : String → Option Res
  | "granted" => some .granted | "queued" => some .queued | "refused" => some .refused
  | "err:ValueError" => some .err | "released" => some .released | "noop" => some .noop
  | "resized" => some .resized
  | _ => none

def tail (s : St) (out : Out) : String :=
  s!"{resName out.res} woke={showIds out.woke} a={s.avail} w={s.waiters.length} c={s.cap}"

/-- run the engine-layer model over the body lines, echoing each with the model's result -/
def runRes (cap : Int) (body : List String) : List String :=
  let rec go (e : ESt) : List String → List String
    | [] => []
    | l :: ls =>
      match toks l with
      | ["acq", t, id, a] =>
        match estep e (.op (natD t) (.acquire (natD id) (intD a))) with
        | (e', .inl out) => s!"acq {t} {id} {a} {tail e'.core out}" :: go e' ls
        | (e', _) => "bad" :: go e' ls
      | ["try", t, id, a] =>
        match estep e (.op (natD t) (.tryAcquire (natD id) (intD a))) with
        | (e', .inl out) => s!"try {t} {id} {a} {tail e'.core out}" :: go e' ls
        | (e', _) => "bad" :: go e' ls
      | ["rel", t, id] =>
        match estep e (.op (natD t) (.release (natD id))) with
        | (e', .inl out) => s!"rel {t} {id} {tail e'.core out}" :: go e' ls
        | (e', _) => "bad" :: go e' ls
      | ["cap", t, c] =>
        match estep e (.op (natD t) (.setCapacity (intD c))) with
        | (e', .inl out) => s!"cap {t} {c} {tail e'.core out}" :: go e' ls
        | (e', _) => "bad" :: go e' ls
      | ["got", t, id] =>
        match estep e (.got (natD t) (natD id)) with
        | (e', .inr (.ok a)) => s!"got {t} {id} s=0 amt={a}" :: go e' ls
        | (e', .inr (.late _)) => s!"got {t} {id} !late" :: go e' ls
        | (e', _) => s!"got {t} {id} !unexpected" :: go e' ls
      | ["hang", t, id] => s!"hang {t} {id} !model-never-spins" :: go e ls
      | ["fin", t] =>
        s!"fin {t} blocked={showIds (e.core.waiters.map (·.1))} parked={showIds (e.pend.map (·.1))} a={e.core.avail} w={e.core.waiters.length} c={e.core.cap}" :: go e ls
      | _ => s!"bad-line {l}" :: go e ls
  go ⟨St.init cap, []⟩ body

def parseObs (ts : List String) : Option Obs :=
  let woke := (findKv "woke" ts).map parseIds |>.getD []
  let avail := (findKv "a" ts).map intD |>.getD 0
  let nwait := (findKv "w" ts).map natD |>.getD 0
  let capv := (findKv "c" ts).bind int?
  match ts with
  | "acq" :: t :: id :: a :: r :: _ =>
    (resOfName r).map fun r => ⟨natD t, .acq (natD id) (intD a), r, woke, avail, nwait, capv⟩
  | "try" :: t :: id :: a :: r :: _ =>
    (resOfName r).map fun r => ⟨natD t, .try_ (natD id) (intD a), r, woke, avail, nwait, capv⟩
  | "rel" :: t :: id :: r :: _ =>
    (resOfName r).map fun r => ⟨natD t, .rel (natD id), r, woke, avail, nwait, capv⟩
  | "cap" :: t :: c :: r :: _ =>
    (resOfName r).map fun r => ⟨natD t, .setcap (intD c), r, woke, avail, nwait, capv⟩
  | "got" :: t :: id :: _ =>
    let spins := (findKv "s" ts).map natD |>.getD 0
    some ⟨natD t, .got (natD id) spins, .granted, [], avail, nwait, none⟩
  | "hang" :: t :: id :: _ => some ⟨natD t, .hang (natD id), .noop, [], avail, nwait, none⟩
  | "fin" :: t :: _ => some ⟨natD t, .fin, .noop, [], avail, nwait, capv⟩
  | _ => none

/-- `got` / `hang` lines carry no counters: judge them with the counters of the previous line -/
def fillCounters : Int → Nat → List Obs → List Obs
  | _, _, [] => []
  | a, w, o :: os =>
    match o.k with
    | .got _ _ | .hang _ => { o with avail := a, nwait := w } :: fillCounters a w os
    | _ => o :: fillCounters o.avail o.nwait os

def judgeRes (cap : Int) (engine : Bool) (body : List String) : List String :=
  let parsed := body.map (fun l => parseObs (toks l))
  if parsed.any Option.isNone then ["viol resource/malformed-judge-input"]
  else
    let obs := fillCounters cap 0 (parsed.filterMap id)
    match judge cap engine {} obs with
    | none => ["ok"]
    | some sig => [s!"viol {sig}"]

end Res

/-! ### sync primitives -/
section SyncDrv
open HappyModel.C09.Sync

def sresName : Sync.Res → String
  | .granted => "granted" | .queued => "queued" | .refused => "refused" | .released => "released"
  | .passed => "passed" | .errValue => "err:ValueError" | .errRuntime => "err:RuntimeError" | .ok => "ok"

def sresOfName : String → Option Sync.Res
  | "granted" => some .granted | "queued" => some .queued | "refused" => some .refused
  | "released" => some .released | "passed" => some .passed | "err:ValueError" => some .errValue
  | "err:RuntimeError" => some .errRuntime | "ok" => some .ok
  | _ => none

def b01 (b : Bool) : Nat := if b then 1 else 0

def gotLine (t id : String) (r : GotRes) (extra : String) : String :=
  match r with
  | .ok => s!"got {t} {id} s=0{extra}"
  | .late => s!"got {t} {id} !late"
  | .unexpected => s!"got {t} {id} !unexpected"

/-- which ids become resumable: an immediate grant (blocking calls only) and the woken ones -/
def newly (blocking : Bool) (id : Nat) (out : Sync.Out) : List Nat :=
  (if blocking && (out.res == .granted || out.res == .passed) then [id] else []) ++ out.woke

def runMutex (body : List String) : List String :=
  let cnt := fun (s : Mutex.St) => s!"l={b01 s.locked} w={s.waiters.length}"
  let rec go (s : Mutex.St) (p : Pend) : List String → List String
    | [] => []
    | l :: ls =>
      let line := fun (pre : String) (blocking : Bool) (id : Nat) (t : String) (r : Mutex.St × Sync.Out) =>
        s!"{pre} {sresName r.2.res} woke={showIds r.2.woke} {cnt r.1}"
          :: go r.1 (p.add (natD t) (if blocking then newly true id r.2 else r.2.woke)) ls
      match toks l with
      | ["acq", t, id] => line s!"acq {t} {id}" true (natD id) t (Mutex.step s (.acquire (natD id)))
      | ["try", t, id] => line s!"try {t} {id}" false (natD id) t (Mutex.step s (.tryAcquire (natD id)))
      | ["rel", t] => line s!"rel {t}" false 0 t (Mutex.step s .release)
      | ["got", t, id] => let r := p.got (natD t) (natD id); gotLine t id r.2 "" :: go s r.1 ls
      | ["hang", t, id] => s!"hang {t} {id} !model-never-spins" :: go s p ls
      | ["fin", t] => s!"fin {t} blocked={showIds s.waiters} parked={showIds (p.map (·.1))} {cnt s}" :: go s p ls
      | _ => s!"bad-line {l}" :: go s p ls
  go {} [] body

def runSem (cap : Int) (body : List String) : List String :=
  let cnt := fun (s : Sem.St) => s!"a={s.count} w={s.waiters.length}"
  let rec go (s : Sem.St) (p : Pend) : List String → List String
    | [] => []
    | l :: ls =>
      let line := fun (pre : String) (blocking : Bool) (id : Nat) (t : String) (r : Sem.St × Sync.Out) =>
        s!"{pre} {sresName r.2.res} woke={showIds r.2.woke} {cnt r.1}"
          :: go r.1 (p.add (natD t) (if blocking then newly true id r.2 else r.2.woke)) ls
      match toks l with
      | ["acq", t, id, n] => line s!"acq {t} {id} {n}" true (natD id) t (Sem.step s (.acquire (natD id) (intD n)))
      | ["try", t, id, n] => line s!"try {t} {id} {n}" false (natD id) t (Sem.step s (.tryAcquire (natD id) (intD n)))
      | ["rel", t, n] => line s!"rel {t} {n}" false 0 t (Sem.step s (.release (intD n)))
      | ["got", t, id] => let r := p.got (natD t) (natD id); gotLine t id r.2 "" :: go s r.1 ls
      | ["hang", t, id] => s!"hang {t} {id} !model-never-spins" :: go s p ls
      | ["fin", t] => s!"fin {t} blocked={showIds (s.waiters.map (·.1))} parked={showIds (p.map (·.1))} {cnt s}" :: go s p ls
      | _ => s!"bad-line {l}" :: go s p ls
  go (Sem.St.init cap) [] body

def runRW (maxR : Nat) (body : List String) : List String :=
  let cnt := fun (s : RW.St) => s!"r={s.readers} w={s.waiters.length} x={b01 s.writer}"
  let rec go (s : RW.St) (p : Pend) : List String → List String
    | [] => []
    | l :: ls =>
      let line := fun (pre : String) (blocking : Bool) (id : Nat) (t : String) (r : RW.St × Sync.Out) =>
        s!"{pre} {sresName r.2.res} woke={showIds r.2.woke} {cnt r.1}"
          :: go r.1 (p.add (natD t) (if blocking then newly true id r.2 else r.2.woke)) ls
      match toks l with
      | ["acqr", t, id] => line s!"acqr {t} {id}" true (natD id) t (RW.step s (.acquireRead (natD id)))
      | ["acqw", t, id] => line s!"acqw {t} {id}" true (natD id) t (RW.step s (.acquireWrite (natD id)))
      | ["tryr", t, id] => line s!"tryr {t} {id}" false (natD id) t (RW.step s (.tryRead (natD id)))
      | ["tryw", t, id] => line s!"tryw {t} {id}" false (natD id) t (RW.step s (.tryWrite (natD id)))
      | ["relr", t] => line s!"relr {t}" false 0 t (RW.step s .releaseRead)
      | ["relw", t] => line s!"relw {t}" false 0 t (RW.step s .releaseWrite)
      | ["got", t, id] => let r := p.got (natD t) (natD id); gotLine t id r.2 "" :: go s r.1 ls
      | ["hang", t, id] => s!"hang {t} {id} !model-never-spins" :: go s p ls
      | ["fin", t] => s!"fin {t} blocked={showIds (s.waiters.map (·.1))} parked={showIds (p.map (·.1))} {cnt s}" :: go s p ls
      | _ => s!"bad-line {l}" :: go s p ls
  go { maxR := maxR } [] body

def runBarrier (parties : Nat) (body : List String) : List String :=
  let cnt := fun (s : Barrier.St) => s!"n={s.waiters.length} g={s.generation} b={b01 s.broken}"
  let rec go (s : Barrier.St) (p : Pend) (idx : List (Nat × Nat)) : List String → List String
    | [] => []
    | l :: ls =>
      match toks l with
      | ["wait", t, id] =>
        let r := Barrier.step s (.wait (natD id))
        s!"wait {t} {id} {sresName r.2.1.res} woke={showIds r.2.1.woke} {cnt r.1}"
          :: go r.1 (p.add (natD t) (newly true (natD id) r.2.1)) ((natD id, r.2.2) :: idx) ls
      | ["reset", t] =>
        let r := Barrier.step s .reset
        s!"reset {t} {sresName r.2.1.res} woke={showIds r.2.1.woke} {cnt r.1}" :: go r.1 (p.add (natD t) r.2.1.woke) idx ls
      | ["abort", t] =>
        let r := Barrier.step s .abort
        s!"abort {t} {sresName r.2.1.res} woke={showIds r.2.1.woke} {cnt r.1}" :: go r.1 (p.add (natD t) r.2.1.woke) idx ls
      | ["got", t, id] =>
        let r := p.got (natD t) (natD id)
        let i := ((idx.find? (·.1 == natD id)).map (·.2)).getD 0
        gotLine t id r.2 s!" idx={i}" :: go s r.1 idx ls
      | ["hang", t, id] => s!"hang {t} {id} !model-never-spins" :: go s p idx ls
      | ["fin", t] => s!"fin {t} blocked={showIds s.waiters} parked={showIds (p.map (·.1))} {cnt s}" :: go s p idx ls
      | _ => s!"bad-line {l}" :: go s p idx ls
  go { parties := parties } [] [] body

def runCond (body : List String) : List String :=
  let cnt := fun (s : Cond.St) => s!"l={b01 s.m.locked} w={s.m.waiters.length} c={s.cw.length}"
  let rec go (s : Cond.St) (p : Pend) : List String → List String
    | [] => []
    | l :: ls =>
      let line := fun (pre : String) (t : String) (r : Cond.St × Sync.Out) (res : List Nat) =>
        s!"{pre} {sresName r.2.res} woke={showIds r.2.woke} {cnt r.1}" :: go r.1 (p.add (natD t) res) ls
      match toks l with
      | ["acq", t, id] =>
        let r := Cond.step s (.mutex (.acquire (natD id))); line s!"acq {t} {id}" t r (newly true (natD id) r.2)
      | ["try", t, id] =>
        let r := Cond.step s (.mutex (.tryAcquire (natD id))); line s!"try {t} {id}" t r r.2.woke
      | ["rel", t] => let r := Cond.step s (.mutex .release); line s!"rel {t}" t r r.2.woke
      | ["cwait", t, id] => let r := Cond.step s (.cwait (natD id)); line s!"cwait {t} {id}" t r r.2.woke
      | ["notify", t, n] => let r := Cond.step s (.notify (natD n)); line s!"notify {t} {n}" t r r.2.woke
      | ["reacq", t, id] =>
        let g := p.got (natD t) (natD id)
        match g.2 with
        | .ok =>
          let r := Cond.step s (.reacq (natD id))
          s!"reacq {t} {id} {sresName r.2.res} woke={showIds r.2.woke} {cnt r.1} s=0"
            :: go r.1 (g.1.add (natD t) (newly true (natD id) r.2)) ls
        | .late => s!"reacq {t} {id} !late" :: go s g.1 ls
        | .unexpected => s!"reacq {t} {id} !unexpected" :: go s g.1 ls
      | ["got", t, id] => let r := p.got (natD t) (natD id); gotLine t id r.2 "" :: go s r.1 ls
      | ["hang", t, id] => s!"hang {t} {id} !model-never-spins" :: go s p ls
      | ["fin", t] => s!"fin {t} blocked={showIds s.m.waiters} cblocked={showIds s.cw} parked={showIds (p.map (·.1))} {cnt s}" :: go s p ls
      | _ => s!"bad-line {l}" :: go s p ls
  go {} [] body

/-- parse one transcript line of any sync primitive into an observation -/
def parseSObs (sem : Bool) (ts : List String) : Option Sync.Obs :=
  let woke := (findKv "woke" ts).map parseIds |>.getD []
  let num := fun (k : String) => (findKv k ts).map intD
  -- counters: c1 = l | a | r | n ; c2 = w | g ; c3 = x | b
  let c1 := ((num "l").orElse fun _ => (num "a").orElse fun _ => (num "r").orElse fun _ => num "n").getD 0
  let c2 := ((num "w").orElse fun _ => num "g").getD 0
  let c3 := ((num "x").orElse fun _ => (num "b").orElse fun _ => num "c").getD 0
  let mk := fun (t : String) (k : SKind) (r : String) =>
    (sresOfName r).map fun r => (⟨natD t, k, r, woke, c1, c2, c3⟩ : Sync.Obs)
  match ts with
  | "got" :: t :: id :: _ =>
    some ⟨natD t, .got (natD id) ((findKv "s" ts).map natD |>.getD 0), .ok, [], c1, c2, c3⟩
  | "hang" :: t :: id :: _ => some ⟨natD t, .hang (natD id), .ok, [], c1, c2, c3⟩
  | "fin" :: t :: _ => some ⟨natD t, .fin, .ok, [], c1, c2, c3⟩
  | "cwait" :: t :: id :: r :: _ => mk t (.acq (natD id) 1 2) r
  | "notify" :: t :: n :: r :: _ => mk t (.ctl (natD n)) r
  | "reacq" :: t :: id :: r :: _ => mk t (.acq (natD id) ((findKv "s" ts).map intD |>.getD 0) 3) r
  | "acq" :: t :: id :: rest =>
    if sem then (match rest with | n :: r :: _ => mk t (.acq (natD id) (intD n) 0) r | _ => none)
    else (match rest with | r :: _ => mk t (.acq (natD id) 1 0) r | _ => none)
  | "try" :: t :: id :: rest =>
    if sem then (match rest with | n :: r :: _ => mk t (.try_ (natD id) (intD n) 0) r | _ => none)
    else (match rest with | r :: _ => mk t (.try_ (natD id) 1 0) r | _ => none)
  | "rel" :: t :: rest =>
    if sem then (match rest with | n :: r :: _ => mk t (.rel (intD n) 0) r | _ => none)
    else (match rest with | r :: _ => mk t (.rel 1 0) r | _ => none)
  | "acqr" :: t :: id :: r :: _ => mk t (.acq (natD id) 1 0) r
  | "acqw" :: t :: id :: r :: _ => mk t (.acq (natD id) 1 1) r
  | "tryr" :: t :: id :: r :: _ => mk t (.try_ (natD id) 1 0) r
  | "tryw" :: t :: id :: r :: _ => mk t (.try_ (natD id) 1 1) r
  | "relr" :: t :: r :: _ => mk t (.rel 1 0) r
  | "relw" :: t :: r :: _ => mk t (.rel 1 1) r
  | "wait" :: t :: id :: r :: _ => mk t (.acq (natD id) 1 0) r
  | "reset" :: t :: r :: _ => mk t (.ctl 0) r
  | "abort" :: t :: r :: _ => mk t (.ctl 1) r
  | _ => none

/-- `got` / `hang` lines carry no counters: judge them with the counters of the previous line -/
def fillS : Int → Int → Int → List Sync.Obs → List Sync.Obs
  | _, _, _, [] => []
  | a, b, c, o :: os =>
    match o.k with
    | .got _ _ | .hang _ => { o with c1 := a, c2 := b, c3 := c } :: fillS a b c os
    | _ => o :: fillS o.c1 o.c2 o.c3 os

def judgeSync (sem : Bool) (c10 : Int) (body : List String) (j : List Sync.Obs → Option String) : List String :=
  let parsed := body.map (fun l => parseSObs sem (toks l))
  if parsed.any Option.isNone then ["viol sync/malformed-judge-input"]
  else match j (fillS c10 0 0 (parsed.filterMap id)) with
    | none => ["ok"]
    | some sig => [s!"viol {sig}"]

end SyncDrv

/-! ### connection pool -/
section PoolDrv
open HappyModel.C09.Pool

def presName : Pool.Res → String
  | .idle c => s!"res=idle c={c}" | .creating => "res=creating" | .waiting => "res=waiting"
  | .conn c => s!"res=conn c={c}" | .got c => s!"res=got c={c}" | .wait => "res=wait"
  | .timedOut => "res=timeout" | .handoff w => s!"res=handoff c={w}" | .toIdle => "res=idle-return"
  | .unknown => "res=unknown" | .bad => "res=!bad-segment"
  | .rolledBack => "res=rollback" | .dequeued => "res=dequeued" | .nothing => "res=none"
  | .closed => "res=closed" | .kept => "res=kept" | .stale => "res=stale" | .done => "res=done"

def presOf (name : String) (c : Nat) : Option Pool.Res :=
  match name with
  | "idle" => some (.idle c) | "creating" => some .creating | "waiting" => some .waiting
  | "conn" => some (.conn c) | "got" => some (.got c) | "wait" => some .wait
  | "timeout" => some .timedOut | "handoff" => some (.handoff c) | "idle-return" => some .toIdle
  | "unknown" => some .unknown
  | "rollback" => some .rolledBack | "dequeued" => some .dequeued | "none" => some .nothing
  | "closed" => some .closed | "kept" => some .kept | "stale" => some .stale | "done" => some .done
  | _ => none

def parsePoolOp (ts : List String) : Option (Nat × Pool.Op) :=
  match ts with
  | "acq" :: t :: id :: _ => some (natD t, .acq (natD id))
  | "made" :: t :: id :: _ => some (natD t, .made (natD id))
  | "poll" :: t :: id :: _ => some (natD t, .poll (natD id))
  | "timeout" :: t :: id :: _ => some (natD t, .timeout (natD id))
  | "rel" :: t :: c :: _ => some (natD t, .rel (natD c))
  | "abandon" :: t :: id :: _ => some (natD t, .abandon (natD id))
  | "idle" :: t :: c :: e :: _ => some (natD t, .idleCheck (natD c) (natD e))
  | "warm" :: t :: _ => some (natD t, .warm)
  | "wmade" :: t :: _ => some (natD t, .wmade)
  | _ => none

/-- number of leading tokens of a transcript line that name the call -/
def poolCallToks : Pool.Op → Nat
  | .idleCheck _ _ => 4
  | _ => 3

def runPool (max : Nat) (reserve : Bool) (min : Nat) (body : List String) : List String :=
  let rec go (s : Pool.St) : List String → List String
    | [] => []
    | l :: ls =>
      match parsePoolOp (toks l) with
      | some (t, o) =>
        let r := Pool.stepAt s t o
        s!"{joinSp ((toks l).take (poolCallToks o))} {presName r.2} a={r.1.active.length} i={r.1.idle.length} n={r.1.total} p={r.1.waiters.length}"
          :: go r.1 ls
      | none =>
        match toks l with
        | ["fin", t] => s!"fin {t} blocked={showIds s.waiters} a={s.active.length} i={s.idle.length} n={s.total} p={s.waiters.length}" :: go s ls
        | _ => s!"bad-line {l}" :: go s ls
  go { max := max, reserve := reserve, min := min } body

def parsePoolObs (ts : List String) : Option Pool.Obs :=
  let num := fun (k : String) => ((findKv k ts).map natD).getD 0
  match parsePoolOp ts, findKv "res" ts with
  | some (t, o), some r => (presOf r (num "c")).map fun r => ⟨t, o, r, num "a", num "i", num "n", num "p"⟩
  | _, _ => none

def judgePool (pr : Pool.Params) (body : List String) : List String :=
  let lines := body.filter (fun l => !(l.startsWith "fin"))
  let parsed := lines.map (fun l => parsePoolObs (toks l))
  if parsed.any Option.isNone then ["viol pool/malformed-judge-input"]
  else match Pool.judge pr {} (parsed.filterMap id) with
    | none => ["ok"]
    | some sig => [s!"viol {sig}"]

end PoolDrv

/-! ### concurrency limiters -/
section ConcDrv
open HappyModel.C09.Conc

def cresName : Conc.Res → String
  | .granted => "granted" | .refused => "refused" | .err => "err:ValueError" | .released => "released" | .ok => "ok"

def cresOf : String → Option Conc.Res
  | "granted" => some .granted | "refused" => some .refused | "err:ValueError" => some .err
  | "released" => some .released | "ok" => some .ok | _ => none

def parseConcOp (ts : List String) : Option Conc.Op :=
  match ts with
  | "acq" :: _ :: w :: _ => some (.acquire (intD w))
  | "rel" :: _ :: w :: _ => some (.release (intD w))
  | "setlimit" :: _ :: n :: _ => some (.setLimit (intD n))
  | _ => none

def concInit (kind limit minL maxL : String) : Conc.St :=
  { kind := natD kind, limit := intD limit, minL := intD minL, maxL := intD maxL }

def runConc (s0 : Conc.St) (body : List String) : List String :=
  let rec go (s : Conc.St) : List String → List String
    | [] => []
    | l :: ls =>
      match parseConcOp (toks l) with
      | some o =>
        let r := Conc.step s o
        s!"{joinSp ((toks l).take 3)} {cresName r.2} act={r.1.active} av={Conc.available r.1} lim={r.1.limit}" :: go r.1 ls
      | none => s!"bad-line {l}" :: go s ls
  go s0 body

def judgeConc (s0 : Conc.St) (body : List String) : List String :=
  let parse := fun (l : String) =>
    let ts := toks l
    let num := fun (k : String) => ((findKv k ts).map intD).getD 0
    match parseConcOp ts, ts.drop 3 with
    | some o, r :: _ => (cresOf r).map fun r => (⟨o, r, num "act", num "av", num "lim"⟩ : Conc.Obs)
    | _, _ => none
  let parsed := body.map parse
  if parsed.any Option.isNone then ["viol limiter/malformed-judge-input"]
  else match Conc.judge s0 { limit := s0.limit } (parsed.filterMap id) with
    | none => ["ok"]
    | some sig => [s!"viol {sig}"]

end ConcDrv

def handle (hdr : List String) (body : List String) : List String :=
  match hdr with
  | ["res", cap] => runRes (intD cap) body
  | ["judge-res", cap, mode] => judgeRes (intD cap) (mode == "engine") body
  | ["pool", max, reserve] => runPool (natD max) (reserve == "1") 0 body
  | ["pool", max, reserve, min] => runPool (natD max) (reserve == "1") (natD min) body
  | ["judge-pool", max, tmo] => judgePool { max := natD max, timeoutNs := natD tmo } body
  | ["judge-pool", max, tmo, min, idle] => judgePool { max := natD max, timeoutNs := natD tmo, min := natD min, idleNs := natD idle } body
  | ["conc", k, l, mn, mx] => runConc (concInit k l mn mx) body
  | ["judge-conc", k, l, mn, mx] => judgeConc (concInit k l mn mx) body
  | ["cond"] => runCond body
  | ["judge-cond", mode] => judgeSync false 0 body (Sync.judgeCond (mode == "engine") {})
  | ["mutex"] => runMutex body
  | ["sem", cap] => runSem (intD cap) body
  | ["rw", maxR] => runRW (natD maxR) body
  | ["barrier", n] => runBarrier (natD n) body
  | ["judge-mutex", mode] => judgeSync false 0 body (Sync.judgeMutex (mode == "engine") {})
  | ["judge-sem", cap, mode] => judgeSync true (intD cap) body (Sync.judgeSem (intD cap) (mode == "engine") {})
  | ["judge-rw", maxR, mode] => judgeSync false 0 body (Sync.judgeRW (natD maxR) (mode == "engine") {})
  | ["judge-barrier", n, mode] => judgeSync false 0 body (Sync.judgeBarrier (natD n) (mode == "engine") {})
  | _ => (Extra.handle? hdr body).getD ["bad-mode"]

end HappyModel.C09.Driver
