import HappyModel.C09.Resource
/-!
C09 specification predicates for `Resource`, decidable, over *observed* values only.

Property text: "… never has more outstanding holders or amount than its limit, held plus available
always equals capacity, and a release never pushes it above capacity. Blocked acquirers are granted
in arrival order as soon as capacity allows, each at most once, and waiting consumes no simulated
activity, so the clock advances to the release and every waiter whose predecessor releases is
eventually served."

The judge keeps its own books from what an implementation *reported* (results of calls, which
futures became resolved, the public counters `available` / `waiters`, which process resumed at
which clock value) and never looks at a model state:

The capacity is not fixed: `set_capacity` (the `ReduceCapacity` fault) may lower it below the amount
currently held.  The judge follows the capacity from the observed `set_capacity` calls and restates
the bounds for a varying limit: `held + available = capacity` exactly, at every observation
(`available` is negative while over-committed); a release never raises; nothing is granted — neither
immediately nor by a wake-up — while the held amount exceeds the capacity; waiters are woken FIFO
when the capacity grows; the head of the line never waits while it fits.

* `held`     grants reported and not yet reported released,
* `blocked`  acquirers reported queued and not yet reported woken, in arrival order,
* `resolved` futures reported resolved whose process has not yet been seen resuming (engine runs).
-/
namespace HappyModel.C09.Res

inductive OKind
  | acq (id : Nat) (amount : Int)
  | try_ (id : Nat) (amount : Int)
  | rel (id : Nat)
  | setcap (c : Int)               -- `set_capacity(c)`
  | got (id : Nat) (spins : Nat)   -- process of call `id` resumed; `spins` = deliveries it consumed while blocked
  | hang (id : Nat)                -- watchdog: the process of call `id` was resumed again and again at one clock value
  | fin                            -- the run went quiescent
deriving Repr, DecidableEq

structure Obs where
  t : Nat := 0
  k : OKind
  res : Res := .noop
  woke : List Nat := []
  avail : Int := 0
  nwait : Nat := 0
  capv : Option Int := none        -- the public `capacity` property, when the transcript carries it
deriving Repr

structure Book where
  held : List (Nat × Int) := []
  blocked : List (Nat × Int) := []
  resolved : List (Nat × Nat) := []
deriving Repr

/-- did this observation hand out capacity (an immediate grant or a wake-up)? -/
def Obs.grants (o : Obs) : Bool :=
  match o.k with
  | .acq _ _ | .try_ _ _ => o.res == .granted
  | .rel _ | .setcap _ => !o.woke.isEmpty
  | _ => false

/-- The public counters agree with the books, for the capacity `cap` in force *after* the
    observation.  The capacity may have been lowered below the amount held (`set_capacity`): the
    resource is then over-committed, `available` is negative by exactly the excess, and that state
    may persist — but nothing may be *granted* while it lasts, so an observation that handed out
    capacity must leave `held ≤ capacity`.  Without `set_capacity` this is the plain bound. -/
def checkCounters (cap : Int) (b : Book) (o : Obs) : Option String :=
  if o.grants && decide (cap < amtSum b.held) then some "resource/held/exceeds-capacity"
  else if cap < o.avail then some "resource/available/out-of-range"
  else if amtSum b.held + o.avail ≠ cap then some "resource/conservation/held-plus-available"
  else if o.nwait ≠ b.blocked.length then some "resource/waiters/count-mismatch"
  else if o.capv.isSome ∧ o.capv ≠ some cap then some "resource/capacity/not-the-value-set"
  else match b.blocked with
    | [] => none
    | w :: _ => if w.2 ≤ cap - amtSum b.held then some "resource/head/grantable-but-blocked" else none

/-- the capacity in force after an observation -/
def capAfter (cap : Int) (o : Obs) : Int :=
  match o.k, o.res with
  | .setcap c, .resized => c
  | _, _ => cap

def validAmount (cap amount : Int) : Bool := 0 < amount && amount ≤ cap

/-- one observation: `Except.error signature` or the updated books -/
def Book.apply (cap : Int) (engine : Bool) (b : Book) (o : Obs) : Except String Book :=
  match o.k with
  | .acq id amount =>
    match o.res with
    | .err => if validAmount cap amount then .error "resource/acquire/rejected-valid-amount" else .ok b
    | .granted =>
      if !validAmount cap amount then .error "resource/acquire/accepted-bad-amount"
      else if !o.woke.isEmpty then .error "resource/acquire/woke-someone"
      else .ok { b with held := b.held ++ [(id, amount)],
                        resolved := if engine then b.resolved ++ [(id, o.t)] else b.resolved }
    | .queued =>
      if !validAmount cap amount then .error "resource/acquire/accepted-bad-amount"
      else if !o.woke.isEmpty then .error "resource/acquire/woke-someone"
      else .ok { b with blocked := b.blocked ++ [(id, amount)] }
    | _ => .error "resource/acquire/unknown-result"
  | .try_ id amount =>
    match o.res with
    | .err => if validAmount cap amount then .error "resource/acquire/rejected-valid-amount" else .ok b
    | .granted =>
      if !validAmount cap amount then .error "resource/acquire/accepted-bad-amount"
      else if !o.woke.isEmpty then .error "resource/acquire/woke-someone"
      else .ok { b with held := b.held ++ [(id, amount)] }
    | .refused =>
      if !validAmount cap amount then .error "resource/acquire/accepted-bad-amount"
      else if !o.woke.isEmpty then .error "resource/acquire/woke-someone"
      else if amount ≤ cap - amtSum b.held then .error "resource/try-acquire/refused-although-free"
      else .ok b
    | _ => .error "resource/acquire/unknown-result"
  | .rel id =>
    match o.res with
    | .noop =>
      if (findHeld id b.held).isSome then .error "resource/release/ignored-live-grant"
      else if !o.woke.isEmpty then .error "resource/release/noop-woke-someone"
      else .ok b
    | .released =>
      if (findHeld id b.held).isNone then .error "resource/release/double-release-counted"
      else
        let n := o.woke.length
        let woken := b.blocked.take n
        if woken.map (·.1) ≠ o.woke then
          (if o.woke.all (fun i => (b.blocked.map (·.1)).contains i)
           then .error "resource/fifo/out-of-order" else .error "resource/grant/not-waiting")
        else .ok { held := eraseHeld id b.held ++ woken, blocked := b.blocked.drop n,
                   resolved := if engine then b.resolved ++ o.woke.map (fun i => (i, o.t)) else b.resolved }
    | _ => .error "resource/release/raised"
  | .setcap c =>
    match o.res with
    | .err =>
      if 0 < c then .error "resource/set-capacity/rejected-valid-value"
      else if !o.woke.isEmpty then .error "resource/set-capacity/rejected-but-woke-someone"
      else .ok b
    | .resized =>
      if c ≤ 0 then .error "resource/set-capacity/accepted-bad-value"
      else
        let n := o.woke.length
        let woken := b.blocked.take n
        if woken.map (·.1) ≠ o.woke then
          (if o.woke.all (fun i => (b.blocked.map (·.1)).contains i)
           then .error "resource/fifo/out-of-order" else .error "resource/grant/not-waiting")
        else .ok { held := b.held ++ woken, blocked := b.blocked.drop n,
                   resolved := if engine then b.resolved ++ o.woke.map (fun i => (i, o.t)) else b.resolved }
    | _ => .error "resource/set-capacity/unknown-result"
  | .got id spins =>
    match b.resolved.find? (·.1 == id) with
    | none => .error "resource/grant/resumed-without-grant"
    | some p =>
      if p.2 ≠ o.t then .error "resource/wait/resumed-late"
      else if spins ≠ 0 then .error "resource/wait/not-silent"
      else .ok { b with resolved := b.resolved.filter (·.1 != id) }
  | .hang _ => .error "resource/wait/clock-stuck"
  | .fin =>
    if !b.resolved.isEmpty then .error "resource/grant/never-resumed" else .ok b

/-- the Spec predicate: `none` = the observed trace satisfies the property -/
def judge (cap : Int) (engine : Bool) : Book → List Obs → Option String
  | _, [] => none
  | b, o :: os =>
    match b.apply cap engine o with
    | .error sig => some sig
    | .ok b' =>
      match checkCounters (capAfter cap o) b' o with
      | some sig => some sig
      | none => judge (capAfter cap o) engine b' os

/-- what the *model* reports for an operation, as an observation -/
def obsOf (o : Op) (out : Out) (s' : St) : Obs :=
  { t := 0
    k := match o with
      | .acquire id a => .acq id a
      | .tryAcquire id a => .try_ id a
      | .release id => .rel id
      | .setCapacity c => .setcap c
    res := out.res, woke := out.woke, avail := s'.avail, nwait := s'.waiters.length, capv := some s'.cap }

/-- the model's observable trace -/
def obsTrace (s : St) : List Op → List Obs
  | [] => []
  | o :: os => obsOf o (step s o).2 (step s o).1 :: obsTrace (step s o).1 os

end HappyModel.C09.Res
