/-!
# C07 — a self-perpetuating schedule timer (`ShiftedServer._schedule_next_shift`)

`ShiftedServer` keeps one `_ShiftChange` event in flight: when it is delivered the server applies the
capacity of the shift that starts at this boundary and schedules the event for the *next* boundary of
its `ShiftSchedule`.  Boundaries are float seconds; the event is stamped `Instant.from_seconds(b)`,
i.e. `int(b * 1e9)` nanoseconds, and the clock is read back as `now.to_seconds()` = `ns / 1e9`.

Floats do not enter the model.  The glue (`hv/props/c07.py`) computes for every boundary `b`

* `ns`    — `int(b * 1e9)`, the instant the event for `b` is stamped with;
* `lossy` — `ns / 1e9 < b` in float arithmetic: the instant reads back strictly *before* the
  boundary it stands for (2.05 s ↦ 2 049 999 999 ns ↦ 2.049999999 s; 1.001 s, 1.003 s, …).

Two timers are modelled:

* `old`  (the code before `fix: ShiftedServer does not re-arm a shift change at the same instant
  forever`): "the next boundary strictly after the clock reading".  At a lossy boundary the reading is
  still before the boundary, so the same boundary is found again and the event is re-armed at the
  current instant (`old_rearms_same_instant`, `old_spins`): unboundedly many deliveries at one
  instant.
* `new` (the code that exists): the event carries the boundary it stands for; the next one is the
  next boundary in schedule order (`chain`).  Every boundary is handled once, in order, never before
  the clock (`HappyProofs/C07/Rearm.lean`).
-/
namespace HappyModel.C07.Rearm

structure Boundary where
  ns : Nat
  lossy : Bool
deriving Repr, DecidableEq

/-- shifts in *index space*: the shift covers the boundaries `lo ≤ j < hi` of the sorted, de-duplicated
    boundary list (every shift start and end is a boundary) -/
structure Shift where
  lo : Nat
  hi : Nat
  cap : Nat
deriving Repr, DecidableEq

/-- `ShiftSchedule.capacity_at` at the `j`-th boundary: first shift (in start order) covering it -/
def capAt (shifts : List Shift) (dflt : Nat) (j : Nat) : Nat :=
  match shifts.find? (fun s => decide (s.lo ≤ j) && decide (j < s.hi)) with
  | some s => s.cap
  | none => dflt

-- ------------------------------------------------------------------------- old timer
/-- does boundary `b` lie "strictly after the clock reading" at clock `now`? -/
def afterReading (now : Nat) (b : Boundary) : Bool :=
  decide (now < b.ns) || (b.ns == now && b.lossy)

/-- old: `next_transition_after(now.to_seconds())` -/
def nextOld (bs : List Boundary) (now : Nat) : Option Boundary := bs.find? (afterReading now)

/-- old: the instants at which the self-perpetuating event is delivered, starting with a delivery at `now` -/
def chainOld (bs : List Boundary) : Nat → Nat → List Nat
  | 0, _ => []
  | fuel + 1, now =>
    now :: (match nextOld bs now with
      | none => []
      | some b => chainOld bs fuel b.ns)

-- ------------------------------------------------------------------------- the timer that exists
/-- the first boundary the timer is armed for: the first one after the (exact) arrival instant `t0` of
    the first job (`t0` is generated away from every boundary, so float and integer order agree) -/
def firstIdx (bs : List Boundary) (t0 : Nat) : Nat := (bs.takeWhile (fun b => decide (b.ns ≤ t0))).length

/-- deliveries `(instant, boundary index)` of the `_ShiftChange` event: the event for boundary `i` was
    scheduled at clock `now`, is stamped `max ns now`, and schedules the event for boundary `i + 1` -/
def chain (bs : List Boundary) : Nat → Nat → Nat → List (Nat × Nat)
  | 0, _, _ => []
  | fuel + 1, i, now =>
    match bs[i]? with
    | none => []
    | some b => (max b.ns now, i) :: chain bs fuel (i + 1) (max b.ns now)

/-- what the harness observes: `(instant, capacity in force after the change)` for deliveries up to `endT` -/
def observed (bs : List Boundary) (shifts : List Shift) (dflt t0 endT : Nat) : List (Nat × Nat) :=
  ((chain bs bs.length (firstIdx bs t0) t0).filter (fun p => decide (p.1 ≤ endT))).map
    (fun p => (p.1, capAt shifts dflt p.2))

end HappyModel.C07.Rearm
