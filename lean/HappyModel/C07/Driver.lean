import HappyModel.Proto
import HappyModel.C07.Spec
/-! Line-protocol driver for C07 (other side: `hv/props/c07.py`).

* `begin model <family>` — C07 has no per-component model: the model side states what the theorems
  (`HappyProofs/C07/Props.lean`) predict for *every* scenario summary, so any deviation of the
  implementation's summary is a disagreement.
* `begin judge <family> <bound>` + trace lines (`p clock time emitter`, `d clock n`, `w n`) —
  evaluates `judge` (the executable form of `Holds`, see `judge_none_iff_holds`). -/
namespace HappyModel.C07.Driver
open HappyModel.Proto HappyModel.C07

def parseLine (ts : List String) : Option Line :=
  match ts with
  | ["p", c, t, e] => match nat? c, nat? t with
    | some c, some t => some (.push ⟨c, t, e⟩)
    | _, _ => none
  | ["d", c, n] => match nat? c, nat? n with
    | some c, some n => some (.deliv c n)
    | _, _ => none
  | ["w", n] => (nat? n).map .discarded
  | _ => none

def expectation : List String := ["past 0", "timetravel 0", "spin 0"]

def judgeBlock (family : String) (bound : Nat) (body : List String) : List String :=
  let parsed := body.map (fun l => parseLine (toks l))
  if parsed.any Option.isNone then ["viol trace/malformed"]
  else match judge family bound (parsed.filterMap id) with
    | none => ["ok"]
    | some sig => [s!"viol {sig}"]

def handle (hdr : List String) (body : List String) : List String :=
  match hdr with
  | ["model", _family] => expectation
  | ["judge", family, bound] => match nat? bound with
    | some b => judgeBlock family b body
    | none => ["bad-bound"]
  | _ => ["bad-mode"]

end HappyModel.C07.Driver
