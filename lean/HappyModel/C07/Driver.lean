import HappyModel.Proto
import HappyModel.C07.Spec
import HappyModel.C07.Rearm
import HappyModel.C07.Timers
/-! Line-protocol driver for C07 (other side: `hv/props/c07.py`).

* `begin model <family>` — C07 has no per-component model: the model side states what the theorems
  (`HappyProofs/C07/Props.lean`) predict for *every* scenario summary, so any deviation of the
  implementation's summary is a disagreement.
* `begin rearm <default capacity> <t0 ns> <end ns>` + lines `b <ns> <lossy 0|1>` (boundaries in schedule order)
  and `s <lo> <hi> <cap>` (shifts over boundary indices) — the `_ShiftChange` deliveries of the modelled
  `ShiftedServer` timer (`Rearm.observed`): `past 0`, `timetravel 0`, `spin 0`, then `sc <ns> <capacity>` lines.
* `begin tick <interval ns> <t0 ns> <end ns>` — the periodic daemon (`Timers.ticksUntil`): `past 0`, `timetravel 0`,
  `spin 0`, then one `tk <ns>` line per tick delivery up to the end (compared with JobScheduler's `_scheduler_tick`).
* `begin manualtick <end ns>` + lines `m <ns>` — manual ticks of a component whose interval is 0 = disabled
  (`Timers.manualTicks`; compared with CRDTStore's `GossipTick`): one `tk <ns>` line per delivery.
* `begin judge <family> <bound>` + trace lines (`p clock time emitter`, `d clock n`, `w n`) —
  evaluates `judge` (the executable form of `Holds`, see `judge_none_iff_holds`). -/
namespace HappyModel.C07.Driver
open HappyModel.Proto HappyModel.C07

def parseLine (ts : List String) : Option Line :=
  match ts with
  | ["p", c, t, e] => match nat? c, nat? t with
    | some c, some t => some (.push ⟨c, t, e⟩)
    | _, _ => none
  | ["d", c, n] => match nat? c, nat? n with
    | some c, some n => some (.deliv c n)
    | _, _ => none
  | ["w", n] => (nat? n).map .discarded
  | _ => none

def expectation : List String := ["past 0", "timetravel 0", "spin 0"]

def judgeBlock (family : String) (bound : Nat) (body : List String) : List String :=
  let parsed := body.map (fun l => parseLine (toks l))
  if parsed.any Option.isNone then ["viol trace/malformed"]
  else match judge family bound (parsed.filterMap id) with
    | none => ["ok"]
    | some sig => [s!"viol {sig}"]

def parseBoundary (ts : List String) : Option Rearm.Boundary :=
  match ts with
  | ["b", ns, l] => match nat? ns, nat? l with
    | some ns, some l => some ⟨ns, l != 0⟩
    | _, _ => none
  | _ => none

def parseShift (ts : List String) : Option Rearm.Shift :=
  match ts with
  | ["s", lo, hi, c] => match nat? lo, nat? hi, nat? c with
    | some lo, some hi, some c => some ⟨lo, hi, c⟩
    | _, _, _ => none
  | _ => none

def rearmBlock (dflt t0 endT : Nat) (body : List String) : List String :=
  let bs := body.filterMap (fun l => parseBoundary (toks l))
  let ss := body.filterMap (fun l => parseShift (toks l))
  expectation ++ (Rearm.observed bs ss dflt t0 endT).map (fun p => s!"sc {p.1} {p.2}")

def manualBlock (endT : Nat) (body : List String) : List String :=
  let ms := body.filterMap (fun l => match toks l with
    | ["m", t] => nat? t
    | _ => none)
  expectation ++ (Timers.manualTicks ms endT).map (fun t => s!"tk {t}")

def handle (hdr : List String) (body : List String) : List String :=
  match hdr with
  | ["tick", iv, t0, endT] => match nat? iv, nat? t0, nat? endT with
    | some i, some t, some e => expectation ++ (Timers.ticksUntil i t e).map (fun t => s!"tk {t}")
    | _, _, _ => ["bad-args"]
  | ["manualtick", endT] => match nat? endT with
    | some e => manualBlock e body
    | none => ["bad-args"]
  | ["rearm", dflt, t0, endT] => match nat? dflt, nat? t0, nat? endT with
    | some d, some t, some e => rearmBlock d t e body
    | _, _, _ => ["bad-args"]
  | ["model", _family] => expectation
  | ["judge", family, bound] => match nat? bound with
    | some b => judgeBlock family b body
    | none => ["bad-bound"]
  | _ => ["bad-mode"]

end HappyModel.C07.Driver
