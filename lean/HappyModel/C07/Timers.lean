/-!
# C07 — three timer idioms of the component library that produced real defects

Floats do not enter: an interval in float seconds crosses as `ivNs = Duration.from_seconds(interval)`
= `int(interval * 1e9)` nanoseconds, computed by the glue.

## 1. the periodic daemon: `next = now + interval`  (JobScheduler `_scheduler_tick`, Inductor poll,
OutboxRelay poll, IdempotencyStore cleanup, EventLog retention, StreamProcessor watermark)

Each delivery re-arms the same event at `now + ivNs` (`tickChain`).  An interval that is positive as
a float but converts to 0 ns (`1e-10`) re-arms at the same instant forever; the constructors now reject
it (`mkPeriodic`: the "at least one nanosecond" guard).

## 2. "interval 0 = disabled", manual tick  (CRDTStore `GossipTick`, LeaderNode `AntiEntropy`)

A tick event made by hand (tests, examples) must run one round and schedule nothing when the interval
is 0 (`rearmNew`); the pre-fix handlers re-armed at `now + 0` (`rearmOld`).

## 3. events built inside a loop of yields and handed over at the end  (ConnectionPool.warmup,
AsyncServer generator I/O, OutboxRelay relay latency)

Connection `k` (0-based) of a warm-up is ready at `c * (k+1)`; its idle-timeout event is stamped
`c * (k+1) + idle`.  Old: all events are returned when the last connection is ready (`c * n`);
new: each is handed to the engine when it is built.
-/
namespace HappyModel.C07.Timers

-- ------------------------------------------------------------------ 1. periodic daemon
/-- delivery instants of the self-re-arming tick, starting with a delivery at `now` -/
def tickChain (ivNs : Nat) : Nat → Nat → List Nat
  | 0, _ => []
  | f + 1, now => now :: tickChain ivNs f (now + ivNs)

/-- the constructor guard: an interval below one nanosecond is rejected (`ValueError`) -/
def mkPeriodic (ivNs : Nat) : Option Nat := if ivNs = 0 then none else some ivNs

/-- what the harness observes: tick deliveries up to `endT`, the first one at `t0` -/
def ticksUntil (ivNs t0 endT : Nat) : List Nat :=
  match mkPeriodic ivNs with
  | none => []
  | some iv => (tickChain iv ((endT - t0) / iv + 1) t0).filter (fun t => decide (t ≤ endT))

-- ------------------------------------------------------------------ 2. interval 0 = disabled
def rearmNew (ivNs now : Nat) : List Nat := if ivNs = 0 then [] else [now + ivNs]
def rearmOld (ivNs now : Nat) : List Nat := [now + ivNs]

/-- deliveries that follow one tick delivered at `now` (the handler re-arms with `rearm`) -/
def roundChain (rearm : Nat → Nat → List Nat) (ivNs : Nat) : Nat → Nat → List Nat
  | 0, _ => []
  | f + 1, now => now :: (match rearm ivNs now with
      | [] => []
      | t :: _ => roundChain rearm ivNs f t)

/-- tick deliveries caused by manual ticks at the instants `manual` with gossip disabled (interval 0) -/
def manualTicks (manual : List Nat) (endT : Nat) : List Nat :=
  (manual.flatMap (fun t => roundChain rearmNew 0 (endT + 1) t)).filter (fun t => decide (t ≤ endT))

-- ------------------------------------------------------------------ 3. events held across yields
/-- `(instant at which the event reaches the engine, instant it is stamped with)` -/
def warmupOld (c idle n : Nat) : List (Nat × Nat) := (List.range n).map (fun k => (c * n, c * (k + 1) + idle))
def warmupNew (c idle n : Nat) : List (Nat × Nat) := (List.range n).map (fun k => (c * (k + 1), c * (k + 1) + idle))

end HappyModel.C07.Timers
