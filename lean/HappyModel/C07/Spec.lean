/-!
# C07 — Spec predicate over a monitored run

"For every component in the library and every workload, each event a component emits carries a
timestamp no earlier than the instant at which it is emitted, so the engine never has to discard it,
and a finite workload never causes an unbounded number of deliveries at a single simulated instant:
simulated time always advances or the run ends."

The observation is the trace written by the run monitor (`hv/scenarios/monitor.py`), which wraps
`EventHeap.push` / `EventHeap.pop` of one `Simulation` from outside:

* `push clock time emitter` — an event with timestamp `time` was pushed while the clock read `clock`;
* `deliv clock n` — `n` consecutive deliveries happened at clock value `clock` (the monitor writes one
  line per maximal run; adjacent lines with the same clock are summed here, not trusted to be merged);
* `discarded n` — the engine reported `n` "Time travel detected" discards.

The predicate is decidable and independent of any model: `Holds bound tr`.  "Unbounded" is made
observable by the bound in the block header (the watchdog aborts a run that exceeds it, so an
aborted run shows a count above the bound).
-/
namespace HappyModel.C07

structure Push where
  clock : Nat
  time : Nat
  emitter : String
deriving Repr, DecidableEq

inductive Line
  | push (p : Push)
  | deliv (clock n : Nat)
  | discarded (n : Nat)
deriving Repr, DecidableEq

def pushes : List Line → List Push
  | [] => []
  | .push p :: r => p :: pushes r
  | _ :: r => pushes r

def delivs : List Line → List (Nat × Nat)
  | [] => []
  | .deliv c n :: r => (c, n) :: delivs r
  | _ :: r => delivs r

def discards : List Line → Nat
  | [] => 0
  | .discarded n :: r => n + discards r
  | _ :: r => discards r

/-- sum adjacent runs with the same clock value -/
def merge : List (Nat × Nat) → List (Nat × Nat)
  | [] => []
  | (c, n) :: r =>
    match merge r with
    | (c', n') :: r' => if c = c' then (c, n + n') :: r' else (c, n) :: (c', n') :: r'
    | [] => [(c, n)]

/-- deliveries per clock value -/
def perClock (tr : List Line) : List (Nat × Nat) := merge (delivs tr)

/-- the clock values of the delivery runs never decrease (C01 `clock_monotone`; checked, so that
    "per clock value" is what `perClock` computes) -/
def clocksMonotone : List (Nat × Nat) → Bool
  | [] => true
  | [_] => true
  | a :: b :: r => decide (a.1 ≤ b.1) && clocksMonotone (b :: r)

/-- **the property**, on one monitored run -/
def Holds (bound : Nat) (tr : List Line) : Prop :=
  (∀ p ∈ pushes tr, p.clock ≤ p.time) ∧          -- no emission into the past
  discards tr = 0 ∧                               -- so the engine never discards
  (∀ cn ∈ perClock tr, cn.2 ≤ bound) ∧           -- no more than `bound` deliveries at one instant
  clocksMonotone (delivs tr) = true

instance (bound : Nat) (tr : List Line) : Decidable (Holds bound tr) := by
  unfold Holds; exact inferInstance

/-- executable judge: first violated clause as a signature (`none` = holds) -/
def judge (family : String) (bound : Nat) (tr : List Line) : Option String :=
  match (pushes tr).find? (fun p => decide (p.time < p.clock)) with
  | some p => some s!"emit/past/{p.emitter} clock={p.clock} time={p.time}"
  | none =>
    if !clocksMonotone (delivs tr) then some "trace/clock-backwards"
    else match (perClock tr).find? (fun cn => decide (bound < cn.2)) with
      | some cn => some s!"spin/{family} clock={cn.1} deliveries={cn.2} bound={bound}"
      | none =>
        if discards tr ≠ 0 then some s!"engine/discarded/{family} n={discards tr}" else none

end HappyModel.C07
