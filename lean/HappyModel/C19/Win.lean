import HappyModel.Proto
import HappyModel.C19.WinModel
import HappyModel.C19.WinSpec
/-!
C19 extension family `Win` — line protocol for the stream-processor window model and its Spec.

`win <kind> <size> <slide> <gap> <lateness> <policy> <side> <interval>`: body = the schedule, one action per
line (`<t> p <id> <key> <et> <val>`, `<t> wa <w>`, `<t> wx <w>`, `<t> wb`, `<t> lv <id>`, `<t> fin`); answer =
every action line followed by ` => <observables>`, each `wb` followed by its `<t> em <key> <start> <end> <count>
<sum> <ids…>` lines (sorted).  `judge-win <same header>`: body = such a transcript as observed on the
implementation; answer `ok` or `viol <signature>`.
-/
namespace HappyModel.C19.Win
open HappyModel.Proto

def parseCfg (ts : List String) : Option Cfg :=
  match ts with
  | [k, size, slide, gap, late, pol, side, iv] =>
    some { kind := natD k, size := natD size, slide := natD slide, gap := natD gap, late := natD late,
           policy := natD pol, side := natD side != 0, interval := natD iv }
  | _ => none

def parseLine (ts : List String) : Option Line :=
  match ts with
  | [t, "p", id, key, et, val] => some ⟨natD t, .proc { id := natD id, key := natD key, et := natD et, val := natD val }⟩
  | [t, "wa", w] => some ⟨natD t, .wmA false (natD w)⟩
  | [t, "wx", w] => some ⟨natD t, .wmA true (natD w)⟩
  | [t, "wb"] => some ⟨natD t, .wmB⟩
  | [t, "lv", id] => some ⟨natD t, .lateRecv (natD id)⟩
  | [t, "fin"] => some ⟨natD t, .fin⟩
  | _ => none

def showAct : Act → String
  | .proc r => s!"p {r.id} {r.key} {r.et} {r.val}"
  | .wmA ext w => (if ext then "wx " else "wa ") ++ toString w
  | .wmB => "wb"
  | .lateRecv id => s!"lv {id}"
  | .fin => "fin"

def showStats (st : Stats) : String :=
  "| " ++ showNats [st.ep, st.we, st.le, st.ld, st.lu, st.ls, st.aw, st.wm]

def statusName (n : Nat) : String :=
  match n with
  | 0 => "ok"
  | 1 => "lateD"
  | 2 => "lateS"
  | 3 => "lateU"
  | _ => "late?"

def emLe (a b : Em) : Bool :=
  a.key < b.key || (a.key == b.key && (a.s < b.s || (a.s == b.s && a.e ≤ b.e)))

def insertEm (x : Em) : List Em → List Em
  | [] => [x]
  | a :: l => if emLe x a then x :: a :: l else a :: insertEm x l

def sortEms : List Em → List Em
  | [] => []
  | a :: l => insertEm a (sortEms l)

def showEm (t : Nat) (em : Em) : String :=
  joinSp ([toString t, "em"] ++ ([em.key, em.s, em.e, em.cnt, em.sum] ++ sortNat em.ids).map toString)

def showOut (ln : Line) : Out → List String
  | .proc status st => [s!"{ln.t} {showAct ln.act} => {statusName status} {showStats st}"]
  | .wm stray st => [s!"{ln.t} {showAct ln.act} => {if stray then "wm-stray" else "wm"} {showStats st}"]
  | .emits n ems st => s!"{ln.t} {showAct ln.act} => n {n} {showStats st}" :: (sortEms ems).map (showEm ln.t)
  | .late known r =>
    [s!"{ln.t} {showAct ln.act} => " ++ (if known then s!"late {r.key} {r.et} {r.val}" else "late-unknown")]
  | .fin st fly => [s!"{ln.t} {showAct ln.act} => {showStats st} | fly {fly}"]

def parseStats (ts : List String) : Option Stats :=
  match ts with
  | [a, b, c, d, e, f, g, h] =>
    some { ep := natD a, we := natD b, le := natD c, ld := natD d, lu := natD e, ls := natD f, aw := natD g, wm := natD h }
  | _ => none

def statusOf (s : String) : Nat :=
  if s == "ok" then 0 else if s == "lateD" then 1 else if s == "lateS" then 2 else if s == "lateU" then 3 else 9

def parseOut (ln : Line) (ts : List String) : Option Out :=
  match ln.act, ts with
  | .proc _, status :: "|" :: rest => (parseStats rest).map (Out.proc (statusOf status))
  | .wmA _ _, "wm" :: "|" :: rest => (parseStats rest).map (Out.wm false)
  | .wmB, "n" :: n :: "|" :: rest => (parseStats rest).map (Out.emits (natD n) [])
  | .lateRecv id, ["late", key, et, val] => some (.late true { id := id, key := natD key, et := natD et, val := natD val })
  | .fin, "|" :: rest =>
    match rest.splitAt 8 with
    | (st, ["|", "fly", n]) => (parseStats st).map (fun s => Out.fin s (natD n))
    | _ => none
  | _, _ => none

def parseEm (ts : List String) : Option Em :=
  match ts with
  | _ :: "em" :: key :: s :: e :: cnt :: sum :: ids =>
    if (cnt.toInt?.getD (-1)) < 0 || (sum.toInt?.getD (-1)) < 0 then none
    else some { key := natD key, s := natD s, e := natD e, cnt := natD cnt, sum := natD sum, ids := nats ids }
  | _ => none

def attachEm (em : Em) : List (Line × Out) → Option (List (Line × Out))
  | (ln, .emits n ems st) :: rest => some ((ln, .emits n (ems ++ [em]) st) :: rest)
  | _ => none

/-- transcript lines → observations (latest first while parsing) -/
def parseTranscript : List String → List (Line × Out) → Option (List (Line × Out))
  | [], acc => some acc.reverse
  | l :: rest, acc =>
    let ts := toks l
    match ts.span (· != "=>") with
    | (lhs, "=>" :: rhs) =>
      match parseLine lhs with
      | none => none
      | some ln =>
        match parseOut ln rhs with
        | none => none
        | some out => parseTranscript rest ((ln, out) :: acc)
    | _ =>
      match parseEm ts with
      | none => none
      | some em =>
        match attachEm em acc with
        | none => none
        | some acc' => parseTranscript rest acc'

def runLines (cfg : Cfg) : St → List Line → List String
  | _, [] => []
  | s, ln :: rest => showOut ln (step cfg s ln).2 ++ runLines cfg (step cfg s ln).1 rest

/-- driver hook: `none` = not one of this family's block modes -/
def handle? (hdr : List String) (body : List String) : Option (List String) :=
  match hdr with
  | "win" :: cfgT =>
    match parseCfg cfgT with
    | none => some ["bad-cfg"]
    | some cfg =>
      let lines := body.filterMap fun l => parseLine (toks l)
      if lines.length != body.length then some ["bad-line"]
      else some (runLines cfg {} lines)
  | "judge-win" :: cfgT =>
    match parseCfg cfgT with
    | none => some ["viol win/malformed-judge-input"]
    | some cfg =>
      if body.any (fun l => (toks l).contains "stray-em") then some ["viol win/emit/unexpected-result"]
      else
        match parseTranscript body [] with
        | none => some ["viol win/malformed-observation"]
        | some obs =>
          match judgeFull cfg {} obs with
          | none => some ["ok"]
          | some sig => some [s!"viol {sig}"]
  | _ => none

end HappyModel.C19.Win
