import HappyModel.C19.WinModel
/-!
Spec for the stream-processor windows: a judge over an *observed* transcript (the actions the engine ran and
what the public API / the harness sinks showed after each), with bookkeeping of its own that never looks at
a model state.

Bookkeeping.  Every accepted record (on time, or late under UPDATE) *owes* one appearance to every window
that contains its event time: `specWindows` lists them from the definition (tumbling: the size-aligned
window; sliding: every multiple of the slide `s ≤ et < s + size`).  An obligation is `done` once a
WindowResult for that window was seen after the record arrived.

Core clauses (`coreChecks`; proved of the model for tumbling and sliding windows):
* late classification: a record is late exactly when `et + lateness < watermark`; the reported outcome is
  the policy's; the six counters equal the judge's own counts after every action, `late = dropped + updated +
  side_output`; the watermark only moves at a Watermark event and then to `max(current, incoming)`;
* a firing delivers as many results as the processor returned, all for distinct windows, none before the
  watermark reached the window's end;
* a WindowResult carries exactly the records owed to that window so far (ids, count, sum) and at least one
  of them was not shown before (no second emission without a new record);
* after a firing no closed window with an unshown record is left (never silently dropped);
* a side-output LateEvent is received only for a record classified late/side, once, with its data.

Extra clauses (`extraChecks`; executed on every transcript, not proved): `active_windows` equals the number
of windows with an unshown record; the session clauses (an emitted session consists of pending records of
its key, spans `[min et, max et + gap]`, every member but the last has a successor within the gap, no pending
record of the key lies within the gap of the span, after a firing every pending record is either still open
or has a pending successor within the gap).  Progress clause (`progressChecks`, a fact about the engine's
schedule, judged on the real run only): at the end of the run the daemon fired within one interval.
-/
namespace HappyModel.C19.Win

/-- the windows containing event time `et`, from the definition -/
def specWindows (cfg : Cfg) (et : Nat) : List (Nat × Nat) :=
  if cfg.kind = 0 then [(et / cfg.size * cfg.size, et / cfg.size * cfg.size + cfg.size)]
  else ((List.range (et / cfg.slide + 1)).filter fun j => decide (et < j * cfg.slide + cfg.size)).map
    fun j => (j * cfg.slide, j * cfg.slide + cfg.size)

structure Obl where
  id : Nat
  key : Nat
  val : Nat
  s : Nat
  e : Nat
  done : Bool
deriving Repr, DecidableEq

structure JSt where
  obl : List Obl := []
  pend : List Rec := []         -- sessions: accepted records not yet seen in a result
  wm : Nat := 0
  fly : List Rec := []
  ep : Nat := 0
  we : Nat := 0
  le : Nat := 0
  ld : Nat := 0
  lu : Nat := 0
  ls : Nat := 0
  started : Option Nat := none  -- when the watermark daemon should have started
  lastWb : Option Nat := none
deriving Repr

def mkObl (r : Rec) (se : Nat × Nat) : Obl :=
  { id := r.id, key := r.key, val := r.val, s := se.1, e := se.2, done := false }

def oblFor (k s e : Nat) (o : Obl) : Bool := o.key == k && o.s == s && o.e == e

def emIdent (em : Em) : Nat × Nat × Nat := (em.key, em.s, em.e)

def insertNat (k : Nat) : List Nat → List Nat
  | [] => [k]
  | a :: l => if k ≤ a then k :: a :: l else a :: insertNat k l

def sortNat : List Nat → List Nat
  | [] => []
  | a :: l => insertNat a (sortNat l)

/-- first failing check -/
def firstFail : List (Bool × String) → Option String
  | [] => none
  | (ok, sig) :: rest => if ok then firstFail rest else some sig

def countersOk (j : JSt) (st : Stats) : Bool :=
  st.ep == j.ep && st.we == j.we && st.le == j.le && st.ld == j.ld && st.lu == j.lu && st.ls == j.ls

def statChecks (j : JSt) (st : Stats) : List (Bool × String) :=
  [(countersOk j st, "win/stats/counters-do-not-add-up"),
   (st.le == st.ld + st.lu + st.ls, "win/stats/late-kinds-do-not-sum"),
   (st.wm == j.wm, "win/watermark/not-max-of-incoming-and-current")]

/-! ### a Process -/

def lateExp (cfg : Cfg) (j : JSt) (r : Rec) : Bool := decide (r.et + cfg.late < j.wm)

def expStatus (cfg : Cfg) (j : JSt) (r : Rec) : Nat := if lateExp cfg j r then min cfg.policy 2 + 1 else 0

def accepted (cfg : Cfg) (j : JSt) (r : Rec) : Bool := !lateExp cfg j r || decide (2 ≤ cfg.policy)

def afterProc (cfg : Cfg) (t : Nat) (j : JSt) (r : Rec) : JSt :=
  let late := lateExp cfg j r
  let st := expStatus cfg j r
  { j with
    ep := j.ep + 1
    le := if late then j.le + 1 else j.le
    ld := if st = 1 then j.ld + 1 else j.ld
    ls := if st = 2 then j.ls + 1 else j.ls
    lu := if st = 3 then j.lu + 1 else j.lu
    fly := if st = 2 && cfg.side then j.fly ++ [r] else j.fly
    obl := if accepted cfg j r && !(cfg.kind == 2) then j.obl ++ (specWindows cfg r.et).map (mkObl r) else j.obl
    pend := if accepted cfg j r && cfg.kind == 2 then j.pend ++ [r] else j.pend
    started := if accepted cfg j r && j.started.isNone then some t else j.started }

/-! ### a firing (second segment of a Watermark event) -/

def emOk (j : JSt) (em : Em) : List (Bool × String) :=
  let os := j.obl.filter (oblFor em.key em.s em.e)
  [(decide (em.e ≤ j.wm), "win/emit/window-emitted-before-watermark"),
   (sortNat em.ids == sortNat (os.map (·.id)), "win/emit/records-not-those-assigned"),
   (os.any (fun o => !o.done), "win/emit/window-emitted-twice"),
   (em.cnt == os.length && em.sum == (os.map (·.val)).sum, "win/emit/aggregate-wrong")]

def closureOk (j : JSt) (ems : List Em) : Bool :=
  j.obl.all fun o => o.done || decide (j.wm < o.e) || ems.any fun em => oblFor em.key em.s em.e o

def markDone (wm : Nat) (o : Obl) : Obl := if o.e ≤ wm then { o with done := true } else o

def distinctIdents : List Em → Bool
  | [] => true
  | em :: rest => !(rest.any fun x => emIdent x == emIdent em) && distinctIdents rest

def fixedChecks (j : JSt) (n : Nat) (ems : List Em) : List (Bool × String) :=
  [(n == ems.length, "win/emit/result-not-delivered"),
   (distinctIdents ems, "win/emit/window-emitted-twice")] ++
  ems.flatMap (emOk j) ++
  [(closureOk j ems, "win/emit/closed-window-not-emitted")]

/-! sessions (extra) -/

def hasSucc (gap : Nat) (l : List Rec) (r : Rec) : Bool :=
  l.any fun r' => r'.key == r.key && decide (r.et < r'.et) && decide (r'.et ≤ r.et + gap)

def minEt : List Rec → Nat
  | [] => 0
  | r :: l => l.foldl (fun m x => min m x.et) r.et

def maxEt (l : List Rec) : Nat := l.foldl (fun m x => max m x.et) 0

/-- one emitted session against the pending records; returns the pending records left -/
def sessEm (cfg : Cfg) (j : JSt) (pend : List Rec) (em : Em) : List (Bool × String) × List Rec :=
  let members := pend.filter fun r => r.key == em.key && em.ids.contains r.id
  let rest := pend.filter fun r => !(r.key == em.key && em.ids.contains r.id)
  ([(decide (em.e ≤ j.wm), "win/emit/window-emitted-before-watermark"),
    (!members.isEmpty && sortNat em.ids == sortNat (members.map (·.id)), "win/session/records-not-pending-records-of-the-key"),
    (em.cnt == members.length && em.sum == sumVals members, "win/emit/aggregate-wrong"),
    (em.s == minEt members && em.e == maxEt members + cfg.gap, "win/session/bounds-do-not-span-the-records"),
    (members.all (fun m => m.et + cfg.gap == em.e || hasSucc cfg.gap members m), "win/session/records-further-apart-than-the-gap-merged"),
    (rest.all (fun r => !(r.key == em.key) || decide (r.et + cfg.gap < em.s) || decide (em.e < r.et)),
      "win/session/record-within-gap-left-out")], rest)

def sessEms (cfg : Cfg) (j : JSt) : List Rec → List Em → List (Bool × String) × List Rec
  | pend, [] => ([], pend)
  | pend, em :: rest =>
    ((sessEm cfg j pend em).1 ++ (sessEms cfg j (sessEm cfg j pend em).2 rest).1,
     (sessEms cfg j (sessEm cfg j pend em).2 rest).2)

def sessClosure (cfg : Cfg) (j : JSt) (pend : List Rec) : Bool :=
  pend.all fun r => decide (j.wm < r.et + cfg.gap) || hasSucc cfg.gap pend r

def afterFire (cfg : Cfg) (t : Nat) (j : JSt) (ems : List Em) : JSt :=
  { j with
    obl := j.obl.map (markDone j.wm)
    pend := if cfg.kind == 2 then (sessEms cfg j j.pend ems).2 else j.pend
    we := j.we + ems.length
    lastWb := some t }

/-! ### active windows (extra) -/

def dedupIdents : List (Nat × Nat × Nat) → List (Nat × Nat × Nat)
  | [] => []
  | x :: l => if (dedupIdents l).contains x then dedupIdents l else x :: dedupIdents l

def activeExp (cfg : Cfg) (j : JSt) : Nat :=
  if cfg.kind == 2 then
    (dedupIdents ((j.pend.filter fun r => !hasSucc cfg.gap j.pend r).map fun r => (r.key, r.et, 0))).length
  else (dedupIdents ((j.obl.filter fun o => !o.done).map fun o => (o.key, o.s, o.e))).length

def awCheck (cfg : Cfg) (j : JSt) (st : Stats) : List (Bool × String) :=
  [(st.aw == activeExp cfg j,
    if cfg.kind == 2 then "win/session/active-sessions-are-not-the-gap-groups" else "win/stats/active-windows-wrong")]

/-! ### one observed line -/

/-- state after the line (computed from the action and, for a firing, the results seen) -/
def after (cfg : Cfg) (j : JSt) (ln : Line) (out : Out) : JSt :=
  match ln.act, out with
  | .proc r, _ => afterProc cfg ln.t j r
  | .wmA _ w, _ => { j with wm := max j.wm w }
  | .wmB, .emits _ ems _ => afterFire cfg ln.t j ems
  | .lateRecv id, _ => { j with fly := j.fly.filter fun x => !(x.id == id) }
  | _, _ => j

def coreChecks (cfg : Cfg) (j : JSt) (ln : Line) (out : Out) : List (Bool × String) :=
  match ln.act, out with
  | .proc r, .proc status st =>
    (status == expStatus cfg j r, "win/late/misclassified") :: statChecks (after cfg j ln out) st
  | .wmA _ _, .wm _ st => statChecks (after cfg j ln out) st
  | .wmB, .emits n ems st =>
    (if cfg.kind == 2 then [(n == ems.length, "win/emit/result-not-delivered")] else fixedChecks j n ems) ++
    statChecks (after cfg j ln out) st
  | .lateRecv id, .late known r =>
    [(known && j.fly.any (fun x => x == r && x.id == id), "win/late/side-output-unexpected")]
  | .fin, .fin st fly =>
    (fly == j.fly.length && j.fly.isEmpty, "win/late/side-output-not-delivered") :: statChecks j st
  | _, _ => [(false, "win/malformed-observation")]

def extraChecks (cfg : Cfg) (j : JSt) (ln : Line) (out : Out) : List (Bool × String) :=
  match ln.act, out with
  | .proc _, .proc _ st => awCheck cfg (after cfg j ln out) st
  | .wmA _ _, .wm _ st => awCheck cfg (after cfg j ln out) st
  | .wmB, .emits _ ems st =>
    (if cfg.kind == 2 then
      (sessEms cfg j j.pend ems).1 ++
      [(sessClosure cfg j (sessEms cfg j j.pend ems).2, "win/emit/closed-window-not-emitted")]
     else []) ++ awCheck cfg (after cfg j ln out) st
  | .fin, .fin st _ => awCheck cfg j st
  | _, _ => []

/-- progress (engine fairness, judged on the real run only): once a record has started the watermark
daemon, the last firing is at most one interval before the end of the run -/
def progressChecks (cfg : Cfg) (j : JSt) (ln : Line) (out : Out) : List (Bool × String) :=
  match ln.act, out with
  | .fin, .fin _ _ =>
    [(match j.started with
      | none => true
      | some t0 => decide (ln.t < (match j.lastWb with | some tb => max tb t0 | none => t0) + cfg.interval + 1),
      "win/watermark/daemon-stalled")]
  | _, _ => []

/-- judge a transcript with the given checks: first violated clause, or `none` -/
def judgeWith (checks : Cfg → JSt → Line → Out → List (Bool × String)) (cfg : Cfg) :
    JSt → List (Line × Out) → Option String
  | _, [] => none
  | j, (ln, out) :: rest =>
    match firstFail (checks cfg j ln out) with
    | some sig => some sig
    | none => judgeWith checks cfg (after cfg j ln out) rest

def judgeCore := judgeWith coreChecks

/-- core and extra clauses: everything that is a statement about the processor alone -/
def judgeSafety := judgeWith fun cfg j ln out => coreChecks cfg j ln out ++ extraChecks cfg j ln out

def judgeFull := judgeWith fun cfg j ln out =>
  coreChecks cfg j ln out ++ extraChecks cfg j ln out ++ progressChecks cfg j ln out

end HappyModel.C19.Win
