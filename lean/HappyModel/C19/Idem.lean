import HappyModel.Proto
import HappyModel.C19.IdemModel
import HappyModel.C19.IdemSpec
/-!
C19 extension family `idem` — line protocol.

    begin idem <ttl_ns> <max_entries> <interval_ns> <horizon_ns> <variant>     (variant: repaired | current)
    <t> req <rid> <key|-> | <t> recv <rid> | <t> done <rid> | <t> resp <key|-> | <t> sweep      (the schedule)
    end
  → the model's transcript (same lines as the implementation's, see hv/props/c19_idem.py) and the `open` line.

    begin judge-idem <ttl_ns> <max_entries> <interval_ns> <horizon_ns> <variant>
    <implementation transcript>
    end
  → `ok` or `viol <signature>`.
-/
namespace HappyModel.C19.Idem
open HappyModel.Proto

def showKey : Option Key → String
  | none => "-"
  | some k => toString k

def parseKey (s : String) : Option Key := if s == "-" then none else some (natD s)

def showCtr (c : Ctr) : String :=
  showNats [c.total, c.hits, c.misses, c.expired, c.stored, c.csize, c.nfl]

def showAct : Act → String
  | .req rid k => s!"req {rid} {showKey k}"
  | .recv rid => s!"recv {rid}"
  | .done rid => s!"done {rid}"
  | .resp k => s!"resp {showKey k}"
  | .sweep => "sweep"

def showOut : Out → String
  | .fwd st cl c => s!"fwd {st} {showKey cl} | {showCtr c}"
  | .sup c => s!"sup | {showCtr c}"
  | .got k st => s!"got {showKey k} {st}"
  | .fin k => s!"fin {showKey k}"
  | .ok c => s!"ok | {showCtr c}"
  | .swept cl c => s!"swept {showKey cl} | {showCtr c}"
  | .bad => "bad"

def showObs (o : Obs) : String := s!"{o.t} {showAct o.act} => {showOut o.out}"

def parseAct : List String → Option (Nat × Act)
  | [t, "req", rid, k] => some (natD t, .req (natD rid) (parseKey k))
  | [t, "recv", rid] => some (natD t, .recv (natD rid))
  | [t, "done", rid] => some (natD t, .done (natD rid))
  | [t, "resp", k] => some (natD t, .resp (parseKey k))
  | [t, "sweep"] => some (natD t, .sweep)
  | _ => none

def parseCtr : List String → Option Ctr
  | [a, b, c, d, e, f, g] => some ⟨natD a, natD b, natD c, natD d, natD e, natD f, natD g⟩
  | _ => none

def parseOut (ts : List String) : Option Out :=
  match ts with
  | ["fwd", st, cl, "|", a, b, c, d, e, f, g] => (parseCtr [a, b, c, d, e, f, g]).map (.fwd (natD st) (parseKey cl))
  | ["sup", "|", a, b, c, d, e, f, g] => (parseCtr [a, b, c, d, e, f, g]).map .sup
  | ["got", k, st] => some (.got (parseKey k) (natD st))
  | ["fin", k] => some (.fin (parseKey k))
  | ["ok", "|", a, b, c, d, e, f, g] => (parseCtr [a, b, c, d, e, f, g]).map .ok
  | ["swept", cl, "|", a, b, c, d, e, f, g] => (parseCtr [a, b, c, d, e, f, g]).map (.swept (parseKey cl))
  | _ => none

def parseObs (line : String) : Option Obs :=
  let ts := toks line
  let a := ts.takeWhile (· != "=>")
  let b := (ts.dropWhile (· != "=>")).drop 1
  match parseAct a, parseOut b with
  | some (t, act), some out => some ⟨t, act, out⟩
  | _, _ => none

def parseCfg (ttl mx iv variant : String) : Cfg :=
  { ttl := natD ttl, maxE := natD mx, interval := natD iv, legacy := variant == "current" }

def openLine (horizon : Nat) (s : St) : String :=
  joinSp (["open"] ++ (s.sent.map fun e => toString e.1) ++ [";"] ++ s.fins.map showKey ++ [";"]
          ++ (s.pend.filter fun t => t ≤ horizon).map toString)

def handle? (hdr : List String) (body : List String) : Option (List String) :=
  match hdr with
  | ["idem", ttl, mx, iv, hz, variant] =>
    let cfg := parseCfg ttl mx iv variant
    let sched := body.filterMap fun l => parseAct (toks l)
    if sched.length != body.length then some ["bad-schedule"]
    else some ((run cfg {} sched).map showObs ++ [openLine (natD hz) (finalSt cfg {} sched)])
  | ["judge-idem", ttl, mx, iv, hz, variant] =>
    let cfg := parseCfg ttl mx iv variant
    let lines := body.filter fun l => (toks l).head? != some "open"
    let obs := lines.filterMap parseObs
    if obs.length != lines.length then some ["viol idem/transcript/malformed"]
    else
      match judgeIdem cfg [] obs with
      | some sig => some [s!"viol {sig}"]
      | none =>
        match judgeEnd (natD hz) obs.reverse with
        | some sig => some [s!"viol {sig}"]
        | none => some ["ok"]
  | _ => none

end HappyModel.C19.Idem
