import HappyModel.C19.MQ
/-!
C19 specification predicates for the message queue, decidable, over an *observed* trace
(`List ORec`: time, action, visible result, public counters after the action).  They never look at
a model state; the same functions judge traces of the real implementation (through the driver)
and appear in the theorems of `HappyProofs/C19/Props.lean` applied to `MQ.run`.

Property text: "every published message stays accounted for (pending, in flight, acknowledged or
dead-lettered) and is never lost; every delivery and every requested redelivery reaches a
subscribed consumer at the delivery instant, first deliveries follow publish order, the redelivery
limit moves a message to the dead-letter queue, and nothing is delivered again after it was
acknowledged."

Each clause returns `none` (holds) or `some signature`.
-/
namespace HappyModel.C19

/-! ### clause 1 — accounted: pending + in flight + acknowledged + dead-lettered = published -/

def Ctr.accounted (c : Ctr) : Bool := c.P + c.F + c.A + c.D == c.pub

def jAccounted : List ORec → Option String
  | [] => none
  | r :: rs =>
    if r.ctr.accounted then jAccounted rs else some "mq/accounted/counters-do-not-add-up"

/-! ### clause 2 — first deliveries (attempt number 1) follow publish order

`lb` = 1 + the largest id whose first delivery has started.  The clause is about consumers that
reject what they received: a `reject(requeue=True)` of a message that was never delivered moves it
behind later messages by the API's own definition, so the clause stops judging after such a call
(`misuse`). -/

structure OrdSt where
  lb : Nat := 0
  seen : List Nat := []
  misuse : Bool := false
deriving Repr

def OrdSt.step (j : OrdSt) (r : ORec) : OrdSt :=
  match r.out with
  | .disp _ k _ n => { j with lb := if n = 1 then max j.lb (k + 1) else j.lb, seen := k :: j.seen }
  | _ =>
    match r.act with
    | .rej k true => { j with misuse := j.misuse || !j.seen.contains k }
    | _ => j

def OrdSt.bad (j : OrdSt) (r : ORec) : Bool :=
  match r.out with
  | .disp _ k _ n => n == 1 && !j.misuse && decide (k < j.lb)
  | _ => false

def jOrder (j : OrdSt) : List ORec → Option String
  | [] => none
  | r :: rs =>
    if j.bad r then some "mq/order/first-delivery-out-of-publish-order" else jOrder (j.step r) rs

/-! ### clause 3 — the redelivery limit moves a message to the dead-letter queue

`seen.count k` = deliveries of `k` started so far (= `delivery_count`).  A reject that takes effect
(rejected counter +1) requeues only when asked to and below the limit, otherwise the dead-letter
queue grows by one; a timeout (`schedule_redelivery`) hands back a redelivery event only below the
limit, and at the limit dead-letters; a dead-lettered message is never delivered again; the
dead-letter queue changes in no other way. -/

structure LimSt where
  seen : List Nat := []
  dead : List Nat := []
  D : Nat := 0
  rej : Nat := 0
  F : Nat := 0
deriving Repr

def LimSt.next (_j : LimSt) (r : ORec) (seen dead : List Nat) : LimSt :=
  { seen := seen, dead := dead, D := r.ctr.D, rej := r.ctr.rej, F := r.ctr.F }

def LimSt.check (maxRe : Nat) (j : LimSt) (r : ORec) : Except String LimSt :=
  match r.out with
  | .disp _ k _ _ =>
    if j.dead.contains k then .error "mq/dlq/delivered-after-dead-letter"
    else if r.ctr.D != j.D then .error "mq/dlq/changed-without-reject"
    else .ok (j.next r (k :: j.seen) j.dead)
  | .tmoEv =>
    match r.act with
    | .tmo k =>
      if decide (j.seen.count k < maxRe) && r.ctr.D == j.D then .ok (j.next r j.seen j.dead)
      else .error "mq/limit/requeued-at-limit"
    | _ => .error "mq/malformed-trace"
  | _ =>
    match r.act with
    | .rej k rq =>
      if r.ctr.rej == j.rej + 1 then
        if rq && decide (j.seen.count k < maxRe) then
          (if r.ctr.D == j.D then .ok (j.next r j.seen j.dead)
           else .error "mq/limit/dead-lettered-below-limit")
        else
          (if r.ctr.D == j.D + 1 then .ok (j.next r j.seen (k :: j.dead))
           else .error "mq/limit/not-dead-lettered-at-limit")
      else if r.ctr.D == j.D then .ok (j.next r j.seen j.dead)
      else .error "mq/dlq/changed-without-reject"
    | .tmo k =>
      if r.ctr.D == j.D + 1 then
        (if decide (maxRe ≤ j.seen.count k) then .ok (j.next r j.seen (k :: j.dead))
         else .error "mq/limit/dead-lettered-below-limit")
      else if r.ctr.D == j.D then
        (if decide (r.ctr.F < j.F) then .error "mq/limit/timeout-lost-message"
         else .ok (j.next r j.seen j.dead))
      else .error "mq/dlq/changed-without-reject"
    | _ =>
      if r.ctr.D == j.D then .ok (j.next r j.seen j.dead)
      else .error "mq/dlq/changed-without-reject"

def jLimit (maxRe : Nat) (j : LimSt) : List ORec → Option String
  | [] => none
  | r :: rs =>
    match j.check maxRe r with
    | .error e => some e
    | .ok j' => jLimit maxRe j' rs

/-! ### clause 4 — nothing is delivered again after it was acknowledged

An acknowledgement takes effect when the acknowledged counter moves; it moves by one, only on an
`ack`, at most once per message; after that no delivery of that message starts. -/

structure AckSt where
  acked : List Nat := []
  A : Nat := 0
deriving Repr

def AckSt.check (j : AckSt) (r : ORec) : Except String AckSt :=
  match r.out with
  | .disp _ k _ _ =>
    if j.acked.contains k then .error "mq/ack/delivered-after-ack"
    else if r.ctr.A != j.A then .error "mq/ack/counter-changed-without-ack"
    else .ok j
  | _ =>
    match r.act with
    | .ack k =>
      if r.ctr.A == j.A + 1 then
        (if j.acked.contains k then .error "mq/ack/acknowledged-twice"
         else .ok { acked := k :: j.acked, A := r.ctr.A })
      else if r.ctr.A == j.A then .ok j
      else .error "mq/ack/counter-changed-without-ack"
    | _ => if r.ctr.A == j.A then .ok j else .error "mq/ack/counter-changed-without-ack"

def jAck (j : AckSt) : List ORec → Option String
  | [] => none
  | r :: rs =>
    match j.check r with
    | .error e => some e
    | .ok j' => jAck j' rs

/-! ### clause 4b — an acknowledgement is final at every point of the message's life cycle

Clause 4 takes the queue's own acknowledged counter as the witness that an acknowledgement "took
effect".  The property text speaks about the consumer's act: once `acknowledge(k)` was *called* for a
published message — while it is in flight, back in the pending queue after a visibility timeout, after
a reject/requeue, or already dead-lettered — no delivery of `k` starts any more (`jAckFinal`).  And the
message stays accounted for: the call on a message that is still the queue's responsibility (published,
not acknowledged before, not dead-lettered — all three read off earlier records) moves the
acknowledged counter by exactly one; on any other id it moves nothing (`jAckTakes`).  The same is asked of
`reject(k)`: the rejected counter moves by one exactly when the queue still owes `k` (what the reject then does
— requeue or dead-letter — is clause 3). -/

structure FinSt where
  pubd : List Nat := []     -- ids handed out by publish
  acked : List Nat := []    -- published ids on which `acknowledge` has been called
deriving Repr

def FinSt.check (j : FinSt) (r : ORec) : Except String FinSt :=
  match r.out with
  | .pubOk k => .ok { j with pubd := k :: j.pubd }
  | .disp _ k _ _ =>
    if j.acked.contains k then .error "mq/ack/delivered-after-ack" else .ok j
  | _ =>
    match r.act with
    | .ack k => if j.pubd.contains k then .ok { j with acked := k :: j.acked } else .ok j
    | _ => .ok j

def jAckFinal (j : FinSt) : List ORec → Option String
  | [] => none
  | r :: rs =>
    match j.check r with
    | .error e => some e
    | .ok j' => jAckFinal j' rs

structure TakeSt where
  pubd : List Nat := []
  acked : List Nat := []
  dead : List Nat := []     -- ids whose reject / timeout grew the dead-letter queue
  A : Nat := 0
  D : Nat := 0
  R : Nat := 0              -- rejected counter
deriving Repr

/-- is `k` still the queue's responsibility, as far as the records so far tell? -/
def TakeSt.owes (j : TakeSt) (k : Nat) : Bool :=
  j.pubd.contains k && !j.acked.contains k && !j.dead.contains k

def TakeSt.check (j : TakeSt) (r : ORec) : Except String TakeSt :=
  match r.out with
  | .pubOk k => .ok { j with pubd := k :: j.pubd, A := r.ctr.A, D := r.ctr.D, R := r.ctr.rej }
  | _ =>
    match r.act with
    | .ack k =>
      if j.owes k then
        (if r.ctr.A == j.A + 1 then
           .ok { j with acked := k :: j.acked, A := r.ctr.A, D := r.ctr.D, R := r.ctr.rej }
         else .error "mq/ack/ack-of-accounted-message-ignored")
      else if r.ctr.A == j.A then .ok { j with D := r.ctr.D, R := r.ctr.rej }
      else .error "mq/ack/counted-for-unaccounted-message"
    | .rej k _ =>
      -- the same for a reject: on a message the queue owes it is counted, on any other id it is not
      if r.ctr.rej == (if j.owes k then j.R + 1 else j.R) then
        .ok { j with dead := if r.ctr.D == j.D + 1 then k :: j.dead else j.dead,
                     A := r.ctr.A, D := r.ctr.D, R := r.ctr.rej }
      else if j.owes k then .error "mq/reject/reject-of-accounted-message-ignored"
      else .error "mq/reject/counted-for-unaccounted-message"
    | .tmo k =>
      .ok { j with dead := if r.ctr.D == j.D + 1 then k :: j.dead else j.dead,
                   A := r.ctr.A, D := r.ctr.D, R := r.ctr.rej }
    | _ => .ok { j with A := r.ctr.A, D := r.ctr.D, R := r.ctr.rej }

def jAckTakes (j : TakeSt) : List ORec → Option String
  | [] => none
  | r :: rs =>
    match j.check r with
    | .error e => some e
    | .ok j' => jAckTakes j' rs

/-! ### clause 4c — a requested redelivery is never lost: no message stuck in flight without a timer

`schedule_redelivery(k)` (the visibility timeout of `k` has passed) on a message that *is* in flight — a delivery of `k`
started and no acknowledge / reject / effective timeout of `k` followed — must do something unless a redelivery timer for
`k` is still pending (a redelivery event was handed out for `k` and has not fired yet): hand out a redelivery event (the
message is back in the pending queue) or, at the limit, dead-letter it.  A queue that answers "nothing to do" leaves the
message in flight for ever: never redelivered, never dead-lettered.  And when a redelivery timer fires for a message the
queue still owes while a consumer is subscribed, a delivery starts (otherwise — no consumer — the message stays pending
and the next poll or timeout cycle picks it up; that it is not lost is clause 1).  All of this is read off the trace:
in flight, timer pending, subscribed consumers, owed (clause 4b). -/

structure RedSt where
  tk : TakeSt := {}
  subs : List Nat := []
  infl : List Nat := []     -- ids with a started delivery and no ack / reject / effective timeout since
  armed : List Nat := []    -- ids with a redelivery event handed out that has not fired yet
deriving Repr

/-- the embedded clause-4b bookkeeping (who is owed, the dead-letter count) after the record -/
def RedSt.tkNext (j : RedSt) (r : ORec) : TakeSt :=
  match j.tk.check r with
  | .ok t => t
  | .error _ => j.tk

def subsAfter (subs : List Nat) : Act → List Nat
  | .sub c => insertNew subs c
  | .unsub c => subs.erase c
  | _ => subs

def armedAfterFire (armed : List Nat) : Act → List Nat
  | .redeliv k => armed.filter (· != k)
  | _ => armed

/-- a delivery of `k` starts -/
def RedSt.onDisp (j : RedSt) (r : ORec) (k : Nat) : RedSt :=
  ⟨j.tkNext r, subsAfter j.subs r.act, k :: j.infl, armedAfterFire j.armed r.act⟩

/-- did this `schedule_redelivery` do something: a redelivery event came back, or the dead-letter queue grew -/
def RedSt.tmoEff (j : RedSt) (r : ORec) : Bool := r.out == .tmoEv || r.ctr.D == j.tk.D + 1

/-- any other record -/
def RedSt.onOther (j : RedSt) (r : ORec) : Except String RedSt :=
  match r.act with
  | .redeliv k =>
    if j.tk.owes k && !j.subs.isEmpty then .error "mq/redelivery/timer-fired-consumer-subscribed-not-delivered"
    else .ok ⟨j.tkNext r, subsAfter j.subs r.act, j.infl, j.armed.filter (· != k)⟩
  | .tmo k =>
    if j.infl.contains k && !j.armed.contains k && !j.tmoEff r then
      .error "mq/redelivery/timeout-of-in-flight-message-refused"
    else .ok ⟨j.tkNext r, subsAfter j.subs r.act, if j.tmoEff r then j.infl.filter (· != k) else j.infl,
              if r.out == .tmoEv then k :: j.armed else j.armed⟩
  | .ack k => .ok ⟨j.tkNext r, subsAfter j.subs r.act, j.infl.filter (· != k), j.armed⟩
  | .rej k _ => .ok ⟨j.tkNext r, subsAfter j.subs r.act, j.infl.filter (· != k), j.armed⟩
  | _ => .ok ⟨j.tkNext r, subsAfter j.subs r.act, j.infl, j.armed⟩

def RedSt.check (j : RedSt) (r : ORec) : Except String RedSt :=
  match r.out with
  | .disp _ k _ _ => .ok (j.onDisp r k)
  | _ => j.onOther r

def jRedeliv (j : RedSt) : List ORec → Option String
  | [] => none
  | r :: rs =>
    match j.check r with
    | .error e => some e
    | .ok j' => jRedeliv j' rs

/-! ### clause 5 — every delivery reaches a subscribed consumer at the delivery instant

A delivery that starts at `t0` (poll or redelivery event) picks a consumer subscribed at that
moment; the delivery event is never stamped in the past; the consumer it was addressed to receives
it exactly once, at `t0 + latency`; when the run has ended nothing is still on its way. -/

structure Tk where
  d : Nat
  k : Nat
  c : Nat
  t0 : Nat
deriving Repr, DecidableEq

structure ReachSt where
  subs : List Nat := []
  tks : List Tk := []
deriving Repr

def ReachSt.check (lat : Nat) (j : ReachSt) (r : ORec) : Except String ReachSt :=
  match r.out with
  | .disp d k c _ =>
    if j.subs.contains c then .ok { j with tks := j.tks ++ [⟨d, k, c, r.t⟩] }
    else .error "mq/delivery/consumer-not-subscribed"
  | .emit _ _ _ stamp =>
    if decide (stamp < r.t) then .error "mq/delivery/stamped-in-the-past" else .ok j
  | .recv k c _ =>
    match r.act with
    | .recv d =>
      match j.tks.find? (fun x => x.d == d) with
      | none => .error "mq/delivery/unknown-or-duplicate"
      | some x =>
        if x.k == k && x.c == c && r.t == x.t0 + lat then
          .ok { j with tks := j.tks.filter (fun y => y.d != d) }
        else .error "mq/delivery/wrong-consumer-or-instant"
    | _ => .error "mq/malformed-trace"
  | _ =>
    match r.act with
    | .sub c => .ok { j with subs := insertNew j.subs c }
    | .unsub c => .ok { j with subs := j.subs.erase c }
    | _ => .ok j

def jReach (lat : Nat) (j : ReachSt) : List ORec → Option String
  | [] => if j.tks.isEmpty then none else some "mq/delivery/never-reached-consumer"
  | r :: rs =>
    match j.check lat r with
    | .error e => some e
    | .ok j' => jReach lat j' rs

/-- all clauses; the first violated one is reported -/
def judgeMQ (cfg : Cfg) (tr : List ORec) : Option String :=
  (jAccounted tr).or <| (jReach cfg.lat {} tr).or <| (jAckFinal {} tr).or <| (jAck {} tr).or <|
    (jAckTakes {} tr).or <| (jRedeliv {} tr).or <| (jLimit cfg.maxRe {} tr).or (jOrder {} tr)

end HappyModel.C19
