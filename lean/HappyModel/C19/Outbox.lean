import HappyModel.Proto
/-!
C19 extension family `Outbox` — `components/microservice/outbox_relay.py`.

`OutboxRelay` keeps a list of entries (`write()` appends one with the next entry id) and a
self-scheduling poll loop: a poll event `_outbox_poll::<name>` runs `_handle_poll`, a generator that
collects the first `batch_size` unrelayed entries *up front* and then, entry by entry, marks the entry
relayed, hands a relay event stamped `now` to the engine and (when `relay_latency > 0`) yields the
latency; when the batch is done it creates the next poll event.  Any non-poll event creates a poll
event when `_poll_scheduled` is false; `prime_poll()` always creates one.

Model: a transition system whose actions are the generator segments the engine ran (taken from the
real run): `write`, `prime`, `nudge`, `poll p` (a poll event fires: first segment of a new generator),
`resume p` (a suspended generator continues), `recv` (the engine delivers the oldest relay event to
the downstream), `fin`.  Suspended generators are kept with the rest of their batch.

Two variants (`Cfg.legacy`):
* `legacy = true`  — the pinned tree: `_handle_poll` clears `_poll_scheduled` when it starts, any
  number of cycles may be suspended at once, each with its own (stale) batch;
* `legacy = false` — the tree after `fixes/C19-outbox-double-relay.diff`: a poll event that fires while
  a cycle is in progress is skipped, `_poll_scheduled` stays set until the running cycle has finished.

Spec (`judge`): over the observed transcript only — see `jev`.
-/
namespace HappyModel.C19.Outbox
open HappyModel.Proto

structure Cfg where
  batch : Nat
  interval : Nat      -- ns
  lat : Nat           -- ns; 0 = no yields, the whole batch is relayed in one segment
  legacy : Bool
deriving Repr, DecidableEq

/-- what one segment shows to an observer -/
inductive Ev
  | wrote (k : Nat)            -- write() returned entry id k
  | sched (p stamp : Nat)      -- a poll event (ticket p) was created with this stamp
  | nosched                    -- the handler returned no poll event
  | start                      -- a poll event was handed to `_handle_poll`
  | emit (k stamp : Nat)       -- a relay event for entry k with this stamp was handed to the engine
  | done                       -- the `_handle_poll` generator finished
  | got (k stamp : Nat)        -- the downstream received the relay event of entry k (stamp)
  | ghost                      -- model only: `recv` with nothing deliverable at this instant
  | bad                        -- model only: `resume` of a generator that is not suspended
  | fin                        -- end of the run
deriving Repr, DecidableEq

/-- the public counters after a segment: entries_written, entries_relayed, pending_count,
total_entries, poll_cycles -/
structure Ctr where
  w : Nat
  r : Nat
  p : Nat
  t : Nat
  c : Nat
deriving Repr, DecidableEq

structure Line where
  t : Nat
  evs : List Ev
  ctr : Ctr
deriving Repr, DecidableEq

/-! ### the relay -/

/-- a suspended `_handle_poll` generator: the poll event's ticket and the rest of its batch -/
structure Poll where
  ticket : Nat
  rest : List Nat
deriving Repr, DecidableEq

structure St where
  flags : List Bool := []          -- `_entries[i].relayed`; entry id = i + 1
  scheduled : Bool := false        -- `_poll_scheduled`
  running : Bool := false          -- `_poll_in_progress` (repaired tree only)
  polls : List Poll := []          -- suspended generators
  ticket : Nat := 0                -- poll events created so far
  written : Nat := 0               -- `_entries_written`
  relayedCnt : Nat := 0            -- `_entries_relayed`
  cycles : Nat := 0                -- `_poll_cycles`
  flight : List (Nat × Nat) := []  -- relay events in the engine's heap (entry id, stamp), oldest first
deriving Repr, DecidableEq

/-- ids of the unrelayed entries, in list order; `base` = id of the first flag -/
def pendingFrom (base : Nat) : List Bool → List Nat
  | [] => []
  | f :: fs => if f then pendingFrom (base + 1) fs else base :: pendingFrom (base + 1) fs

/-- `entry.relayed = True` for the entry with id `k` -/
def markFrom (base : Nat) : List Bool → Nat → List Bool
  | [], _ => []
  | f :: fs, k => if k = base then true :: fs else f :: markFrom (base + 1) fs k

def ctrOf (s : St) : Ctr :=
  ⟨s.written, s.relayedCnt, (pendingFrom 1 s.flags).length, s.flags.length, s.cycles⟩

/-- `_schedule_poll()` -/
def schedPoll (cfg : Cfg) (t : Nat) (s : St) : St × Ev :=
  ({ s with scheduled := true, ticket := s.ticket + 1 }, .sched s.ticket (t + cfg.interval))

/-- one iteration of the relay loop: mark, count, hand the event (stamped now) to the engine -/
def relayOne (t : Nat) (s : St) (k : Nat) : St :=
  { s with flags := markFrom 1 s.flags k, relayedCnt := s.relayedCnt + 1, flight := s.flight ++ [(k, t)] }

def relayAll (t : Nat) : St → List Nat → St × List Ev
  | s, [] => (s, [])
  | s, k :: ks => ((relayAll t (relayOne t s k) ks).1, .emit k t :: (relayAll t (relayOne t s k) ks).2)

/-- the cycle is over (repaired tree: `_poll_in_progress = False; _poll_scheduled = False`) -/
def endCycle (cfg : Cfg) (s : St) : St :=
  if cfg.legacy then s else { s with running := false, scheduled := false }

/-- reschedule `if pending_count > 0 or entries_written > 0` -/
def resched (cfg : Cfg) (t : Nat) (s : St) : St × List Ev :=
  if 0 < (pendingFrom 1 s.flags).length ∨ 0 < s.written then
    ((schedPoll cfg t s).1, [.done, (schedPoll cfg t s).2])
  else (s, [.done, .nosched])

/-- the end of `_handle_poll` -/
def finish (cfg : Cfg) (t : Nat) (s : St) : St × List Ev := resched cfg t (endCycle cfg s)

/-- run generator `p` (rest of its batch `rest`) until its next yield or its end -/
def advance (cfg : Cfg) (t : Nat) (s : St) (p : Nat) (rest : List Nat) : St × List Ev :=
  if cfg.lat = 0 then
    ((finish cfg t (relayAll t s rest).1).1, (relayAll t s rest).2 ++ (finish cfg t (relayAll t s rest).1).2)
  else
    match rest with
    | k :: ks => ({ relayOne t s k with polls := (relayOne t s k).polls ++ [⟨p, ks⟩] }, [.emit k t])
    | [] => finish cfg t s

/-- a poll event fires -/
def pollStart (cfg : Cfg) (t : Nat) (s : St) (p : Nat) : St × List Ev :=
  if cfg.legacy then
    let s1 : St := { s with scheduled := false, cycles := s.cycles + 1 }
    ((advance cfg t s1 p ((pendingFrom 1 s1.flags).take cfg.batch)).1,
      .start :: (advance cfg t s1 p ((pendingFrom 1 s1.flags).take cfg.batch)).2)
  else if s.running then (s, [.start, .done, .nosched])
  else
    let s1 : St := { s with running := true, cycles := s.cycles + 1 }
    ((advance cfg t s1 p ((pendingFrom 1 s1.flags).take cfg.batch)).1,
      .start :: (advance cfg t s1 p ((pendingFrom 1 s1.flags).take cfg.batch)).2)

/-- take the suspended generator with ticket `p` out of the list -/
def takePoll (p : Nat) : List Poll → Option (List Nat × List Poll)
  | [] => none
  | q :: qs =>
    if q.ticket = p then some (q.rest, qs)
    else match takePoll p qs with
      | none => none
      | some r => some (r.1, q :: r.2)

inductive Act
  | write | prime | nudge
  | poll (p : Nat)
  | resume (p : Nat)
  | recv | fin
deriving Repr, DecidableEq

structure Seg where
  t : Nat
  a : Act
deriving Repr, DecidableEq

def step (cfg : Cfg) (s : St) (g : Seg) : St × List Ev :=
  match g.a with
  | .write =>
    ({ s with flags := s.flags ++ [false], written := s.written + 1 }, [.wrote (s.flags.length + 1)])
  | .prime => ((schedPoll cfg g.t s).1, [(schedPoll cfg g.t s).2])
  | .nudge => if s.scheduled then (s, [.nosched]) else ((schedPoll cfg g.t s).1, [(schedPoll cfg g.t s).2])
  | .poll p => pollStart cfg g.t s p
  | .resume p =>
    match takePoll p s.polls with
    | none => (s, [.bad])
    | some r => advance cfg g.t { s with polls := r.2 } p r.1
  | .recv =>
    match s.flight with
    | (k, st) :: rest => if st = g.t then ({ s with flight := rest }, [.got k st]) else (s, [.ghost])
    | [] => (s, [.ghost])
  | .fin => (s, [.fin])

/-- the transcript of a run -/
def run (cfg : Cfg) : St → List Seg → List Line
  | _, [] => []
  | s, g :: gs => ⟨g.t, (step cfg s g).2, ctrOf (step cfg s g).1⟩ :: run cfg (step cfg s g).1 gs

/-- the state after a run -/
def runSt (cfg : Cfg) : St → List Seg → St
  | s, [] => s
  | s, g :: gs => runSt cfg (step cfg s g).1 gs

/-! ### Spec: judge of an observed transcript

Reads only what an observer sees: ids returned by `write()`, relay events handed to the engine
(`emit`), relay events received by the downstream (`got`), begin / end of poll cycles, the public
counters after every segment.

* `outbox/relay/entry-relayed-twice` — a relay event for an entry that already has one;
* `outbox/relay/out-of-order` — a relay event for an entry older than one already relayed;
* `outbox/relay/unwritten-entry-relayed` — a relay event for an id `write()` has not returned yet;
* `outbox/relay/stamped-in-the-past` — a relay event stamped before the instant it is handed over,
  or received at another instant than its stamp;
* `outbox/relay/unsent-event-received` — the downstream received a relay event nobody sent;
* `outbox/counters/do-not-add-up` — after a segment, not (entries_written = total_entries = number of
  writes, entries_relayed = number of relay events, entries_written = entries_relayed + pending_count);
* `outbox/relay/entry-never-relayed` — at a quiescent end (a poll cycle that started with no other
  cycle in flight after the last write, such that fewer than `batch_size` relay events were sent until
  no cycle was in flight any more; no cycle in flight and no relay event undelivered at the end)
  some written entry has no relay event.
-/

structure JSt where
  writes : Nat := 0                 -- write() calls seen; ids are 1..writes
  sent : List Nat := []             -- entry ids of the relay events sent, oldest first
  hi : Nat := 0                     -- largest entry id sent
  flight : List (Nat × Nat) := []   -- sent, not yet received
  opn : Nat := 0                    -- poll cycles in flight
  busyEmits : Nat := 0              -- relay events sent since the current busy period began
  dirty : Bool := false             -- a write happened since the current busy period began
  clean : Bool := false             -- a draining busy period has ended after the last write
deriving Repr, DecidableEq

def eraseFirst (x : Nat × Nat) : List (Nat × Nat) → List (Nat × Nat)
  | [] => []
  | y :: ys => if y = x then ys else y :: eraseFirst x ys

def jev (batch t : Nat) (j : JSt) : Ev → Except String JSt
  | .wrote k =>
    if k = j.writes + 1 then .ok { j with writes := j.writes + 1, dirty := true, clean := false }
    else .error "outbox/write/entry-id-not-sequential"
  | .emit k stamp =>
    if stamp < t then .error "outbox/relay/stamped-in-the-past"
    else if k ∈ j.sent then .error "outbox/relay/entry-relayed-twice"
    else if k = 0 ∨ j.writes < k then .error "outbox/relay/unwritten-entry-relayed"
    else if k < j.hi then .error "outbox/relay/out-of-order"
    else .ok { j with sent := j.sent ++ [k], hi := k, flight := j.flight ++ [(k, stamp)],
                      busyEmits := j.busyEmits + 1 }
  | .got k stamp =>
    if stamp ≠ t then .error "outbox/relay/stamped-in-the-past"
    else if (k, stamp) ∈ j.flight then .ok { j with flight := eraseFirst (k, stamp) j.flight }
    else .error "outbox/relay/unsent-event-received"
  | .start =>
    if j.opn = 0 then .ok { j with opn := 1, busyEmits := 0, dirty := false }
    else .ok { j with opn := j.opn + 1 }
  | .done =>
    if j.opn = 0 then .ok j
    else if j.opn = 1 then
      .ok { j with opn := 0, clean := j.clean || (!j.dirty && decide (j.busyEmits < batch)) }
    else .ok { j with opn := j.opn - 1 }
  | .fin =>
    if j.clean && j.opn == 0 && j.flight.isEmpty then
      if (List.range' 1 j.writes).all (fun k => decide (k ∈ j.sent)) then .ok j
      else .error "outbox/relay/entry-never-relayed"
    else .ok j
  | _ => .ok j

def jevs (batch t : Nat) : JSt → List Ev → Except String JSt
  | j, [] => .ok j
  | j, e :: es =>
    match jev batch t j e with
    | .error x => .error x
    | .ok j' => jevs batch t j' es

def checkCtr (j : JSt) (c : Ctr) : Bool :=
  c.w == j.writes && c.t == j.writes && c.r == j.sent.length && c.w == c.r + c.p

def judgeFrom (batch : Nat) : JSt → List Line → Except String JSt
  | j, [] => .ok j
  | j, l :: ls =>
    match jevs batch l.t j l.evs with
    | .error x => .error x
    | .ok j' => if checkCtr j' l.ctr then judgeFrom batch j' ls else .error "outbox/counters/do-not-add-up"

def judge (batch : Nat) (ls : List Line) : Option String :=
  match judgeFrom batch {} ls with
  | .ok _ => none
  | .error x => some x

/-- entry ids of the relay events of a transcript, in order -/
def evEmits : List Ev → List Nat
  | [] => []
  | .emit k _ :: es => k :: evEmits es
  | _ :: es => evEmits es

def emitIds : List Line → List Nat
  | [] => []
  | l :: ls => evEmits l.evs ++ emitIds ls

/-- entry ids of the relay events received by the downstream, in order -/
def evGots : List Ev → List Nat
  | [] => []
  | .got k _ :: es => k :: evGots es
  | _ :: es => evGots es

def gotIds : List Line → List Nat
  | [] => []
  | l :: ls => evGots l.evs ++ gotIds ls

/-! ### line protocol

`outbox <batch> <interval ns> <latency ns> <repaired|current>` — body: `<t> <action>` schedule lines;
`judge-outbox <batch>` — body: transcript lines `<t> <action> => <observations> | <W> <R> <P> <T> <C>`. -/

def parseSeg (ts : List String) : Option Seg :=
  match ts with
  | [t, "write"] => some ⟨natD t, .write⟩
  | [t, "prime"] => some ⟨natD t, .prime⟩
  | [t, "nudge"] => some ⟨natD t, .nudge⟩
  | [t, "poll", p] => some ⟨natD t, .poll (natD p)⟩
  | [t, "resume", p] => some ⟨natD t, .resume (natD p)⟩
  | [t, "recv"] => some ⟨natD t, .recv⟩
  | [t, "fin"] => some ⟨natD t, .fin⟩
  | _ => none

def showAct : Act → String
  | .write => "write" | .prime => "prime" | .nudge => "nudge"
  | .poll p => s!"poll {p}" | .resume p => s!"resume {p}" | .recv => "recv" | .fin => "fin"

def showEv : Ev → String
  | .wrote k => s!"id {k}"
  | .sched p st => s!"poll {p} {st}"
  | .nosched => "none"
  | .start => "start"
  | .emit k st => s!"emit {k} {st}"
  | .done => "done"
  | .got k st => s!"got {k} {st}"
  | .ghost => "ghost"
  | .bad => "bad"
  | .fin => "fin"

def showCtr (c : Ctr) : String := s!"{c.w} {c.r} {c.p} {c.t} {c.c}"

def parseEvs : List String → Option (List Ev)
  | [] => some []
  | "id" :: k :: r => (parseEvs r).map (Ev.wrote (natD k) :: ·)
  | "poll" :: p :: st :: r => (parseEvs r).map (Ev.sched (natD p) (natD st) :: ·)
  | "none" :: r => (parseEvs r).map (Ev.nosched :: ·)
  | "start" :: r => (parseEvs r).map (Ev.start :: ·)
  | "emit" :: k :: st :: r => (parseEvs r).map (Ev.emit (natD k) (natD st) :: ·)
  | "done" :: r => (parseEvs r).map (Ev.done :: ·)
  | "got" :: k :: st :: r => (parseEvs r).map (Ev.got (natD k) (natD st) :: ·)
  | "ghost" :: r => (parseEvs r).map (Ev.ghost :: ·)
  | "bad" :: r => (parseEvs r).map (Ev.bad :: ·)
  | "fin" :: r => (parseEvs r).map (Ev.fin :: ·)
  | _ => none

/-- `<t> <action…> => <observations…> | W R P T C` -/
def parseLine (l : String) : Option Line :=
  let ts := toks l
  let lhs := ts.takeWhile (· != "=>")
  let rhs := (ts.dropWhile (· != "=>")).drop 1
  let obs := rhs.takeWhile (· != "|")
  let ctr := (rhs.dropWhile (· != "|")).drop 1
  match lhs, parseEvs obs, ctr with
  | t :: _, some evs, [w, r, p, tt, c] => some ⟨natD t, evs, ⟨natD w, natD r, natD p, natD tt, natD c⟩⟩
  | _, _, _ => none

def handle? (hdr : List String) (body : List String) : Option (List String) :=
  match hdr with
  | ["outbox", b, iv, lat, v] =>
    let cfg : Cfg := ⟨natD b, natD iv, natD lat, v == "current"⟩
    let segs := body.filterMap fun l => parseSeg (toks l)
    if segs.length != body.length then some ["bad-schedule"]
    else
      let lines := run cfg {} segs
      some ((segs.zip lines).map fun (g, l) =>
        s!"{g.t} {showAct g.a} => {joinSp (l.evs.map showEv)} | {showCtr l.ctr}")
  | ["judge-outbox", b] =>
    let ls := body.filterMap parseLine
    if ls.length != body.length then some ["viol outbox/malformed-trace"]
    else match judge (natD b) ls with
      | none => some ["ok"]
      | some sig => some [s!"viol {sig}"]
  | _ => none

end HappyModel.C19.Outbox
