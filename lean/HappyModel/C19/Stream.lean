import HappyModel.C19.Assign
import HappyModel.C19.MQ
/-!
Models of `streaming/event_log.py` (`EventLog`), `streaming/consumer_group.py` (`ConsumerGroup`)
and `messaging/topic.py` (`Topic`) as transition systems over the generator segments the engine
runs (the schedule comes from the real run, as for the message queue).

EventLog / ConsumerGroup actions (`SAct`):

    append key h      second segment of `Append` (after the append latency): `_do_append`;
                      `h` is the sharding hash of `key` — a parameter (the harness ships md5(key) mod 840)
    read pid off max  second segment of `Read`: `_do_read`
    retention         a `RetentionCheck` event: `_apply_retention`
    joinA c / joinB c first / second segment of `Join` (second = after the rebalance delay: `_rebalance`)
    leaveA c / leaveB c
    commit c offs     `Commit`
    poll c max        second segment of `Poll`

`SCfg.legacyCommit = true` is the code before `fixes/C19-commit-moves-backwards.diff`
(`Commit` overwrites instead of taking the maximum).
-/
namespace HappyModel.C19

structure SRec where
  off : Nat
  key : Nat
  ts : Nat
deriving Repr, DecidableEq

inductive Retention
  | none | size (n : Nat) | age (ns : Nat)
deriving Repr, DecidableEq

inductive Strategy
  | range | rr | sticky
deriving Repr, DecidableEq

structure SCfg where
  n : Nat
  ret : Retention := .none
  strat : Strategy := .range
  legacyCommit : Bool := false
deriving Repr

structure Stream where
  parts : List (List SRec) := []          -- one list per partition, oldest first
  hw : List Nat := []                     -- high watermark per partition
  members : List Nat := []                -- keys of `_consumers`
  asg : Assignment := []                  -- `_assignments`
  prev : Assignment := []                 -- `StickyAssignment._previous`
  committed : List ((Nat × Nat) × Nat) := []   -- (consumer, partition) ↦ committed offset
  gen : Nat := 0
deriving Repr

def Stream.init (n : Nat) : Stream :=
  { parts := List.replicate n [], hw := List.replicate n 0 }

inductive SAct
  | append (key h : Nat) | read (pid off max : Nat) | retention
  | joinA (c : Nat) | joinB (c : Nat) | leaveA (c : Nat) | leaveB (c : Nat)
  | commit (c : Nat) (offs : List (Nat × Nat)) | poll (c max : Nat)
deriving Repr, DecidableEq

inductive SOut
  | appended (pid off : Nat)
  | records (rs : List (Nat × Nat))            -- (partition, offset) of every returned record
  | total (n : Nat) (kept : List (List Nat))   -- after a retention sweep: `total_records` and, per partition (index =
                                              --   partition id), the offsets of `partitions[p].records`
  | unit
  | rebalanced (gen : Nat) (asg : Assignment) (mine : List Nat)
  | committed (cs : List (Nat × Nat))          -- (partition, committed offset) for c's assigned partitions
deriving Repr, DecidableEq

def Stream.hwOf (s : Stream) (p : Nat) : Nat := s.hw.getD p 0
def Stream.part (s : Stream) (p : Nat) : List SRec := s.parts.getD p []

def Stream.committedOf (s : Stream) (c p : Nat) : Nat := (s.committed.lookup (c, p)).getD 0

def setCommitted (l : List ((Nat × Nat) × Nat)) (c p v : Nat) : List ((Nat × Nat) × Nat) :=
  ((c, p), v) :: l.filter (fun e => e.1 != (c, p))

/-- `_do_append`: offset = high watermark, then high watermark + 1 -/
def Stream.append (cfg : SCfg) (s : Stream) (t key h : Nat) : Stream × SOut :=
  let p := h % cfg.n
  ({ s with parts := s.parts.set p (s.part p ++ [⟨s.hwOf p, key, t⟩]), hw := s.hw.set p (s.hwOf p + 1) },
   .appended p (s.hwOf p))

/-- `_do_read`: records with offset ≥ off, at most max (the loop appends before it tests the bound,
    so `max = 0` still returns one record) -/
def Stream.readPart (cfg : SCfg) (s : Stream) (p off max : Nat) : List (Nat × Nat) :=
  if p < cfg.n then
    (((s.part p).filter (fun r => decide (off ≤ r.off))).take (if max = 0 then 1 else max)).map
      (fun r => (p, r.off))
  else []

def retainPart (ret : Retention) (t : Nat) (l : List SRec) : List SRec :=
  match ret with
  | .none => l
  | .size n => l.drop (l.length - n)
  | .age ns => l.filter (fun r => decide (t - r.ts < ns))

def Stream.retention (cfg : SCfg) (s : Stream) (t : Nat) : Stream :=
  { s with parts := s.parts.map (retainPart cfg.ret t) }

def Stream.total (s : Stream) : Nat := (s.parts.map List.length).sum

/-- what an observer sees in `log.partitions[p].records`: the retained offsets of every partition -/
def Stream.kept (s : Stream) : List (List Nat) := s.parts.map (fun l => l.map (·.off))

def assignWith (st : Strategy) (prev : Assignment) (parts cons : List Nat) : Assignment :=
  match st with
  | .range => rangeAssign parts cons
  | .rr => rrAssign parts cons
  | .sticky => stickyAssign prev parts cons

/-- `_rebalance` -/
def Stream.rebalance (cfg : SCfg) (s : Stream) : Stream :=
  { s with gen := s.gen + 1,
           asg := assignWith cfg.strat s.prev (List.range cfg.n) s.members,
           prev := if cfg.strat = .sticky then assignWith cfg.strat s.prev (List.range cfg.n) s.members
                   else s.prev }

def Stream.mine (s : Stream) (c : Nat) : List Nat := (s.asg.lookup c).getD []

def Stream.commitOne (cfg : SCfg) (s : Stream) (c : Nat) (po : Nat × Nat) : Stream :=
  let v := if cfg.legacyCommit then po.2 else max (s.committedOf c po.1) po.2
  { s with committed := setCommitted s.committed c po.1 v }

def Stream.commit (cfg : SCfg) (s : Stream) (c : Nat) : List (Nat × Nat) → Stream
  | [] => s
  | po :: rest => Stream.commit cfg (s.commitOne cfg c po) c rest

/-- what `consumer_lag` lets an observer compute: committed offset of every assigned partition -/
def Stream.observeCommitted (s : Stream) (c : Nat) : List (Nat × Nat) :=
  (s.mine c).map (fun p => (p, s.committedOf c p))

/-- the `Poll` loop over the assigned partitions -/
def Stream.pollGo (cfg : SCfg) (s : Stream) (c max : Nat) : List Nat → List (Nat × Nat) → List (Nat × Nat)
  | [], acc => acc
  | p :: ps, acc =>
    if max ≤ acc.length then acc
    else Stream.pollGo cfg s c max ps (acc ++ s.readPart cfg p (s.committedOf c p) (max - acc.length))

def Stream.step (cfg : SCfg) (s : Stream) (t : Nat) : SAct → Stream × SOut
  | .append key h => s.append cfg t key h
  | .read p off max => (s, .records (s.readPart cfg p off max))
  | .retention => (s.retention cfg t, .total (s.retention cfg t).total (s.retention cfg t).kept)
  | .joinA c => ({ s with members := insertNew s.members c }, .unit)
  | .joinB c => (s.rebalance cfg, .rebalanced (s.rebalance cfg).gen (s.rebalance cfg).asg ((s.rebalance cfg).mine c))
  | .leaveA c => ({ s with members := s.members.erase c, asg := s.asg.filter (fun e => e.1 != c) }, .unit)
  | .leaveB _ => (s.rebalance cfg, .rebalanced (s.rebalance cfg).gen (s.rebalance cfg).asg [])
  | .commit c offs => (s.commit cfg c offs, .committed ((s.commit cfg c offs).observeCommitted c))
  | .poll c max => (s, .records (Stream.pollGo cfg s c max (s.mine c) []))

structure SRecd where
  t : Nat
  act : SAct
  out : SOut
deriving Repr

def Stream.run (cfg : SCfg) (s : Stream) : List (Nat × SAct) → List SRecd
  | [] => []
  | (t, a) :: rest => ⟨t, a, (s.step cfg t a).2⟩ :: Stream.run cfg (s.step cfg t a).1 rest

def Stream.exec (cfg : SCfg) (s : Stream) : List (Nat × SAct) → Stream
  | [] => s
  | (t, a) :: rest => Stream.exec cfg (s.step cfg t a).1 rest

/-! ### Topic -/

structure Topic where
  subs : List (Nat × Bool) := []              -- `_subscriptions` in insertion order: subscriber, active
  inprog : List (Nat × Nat × List Nat) := []  -- publishes whose generator is suspended: id ↦ (start time, snapshot)
  heap : List (Nat × Nat × Nat) := []         -- delivery events in the engine's heap: (publish, target, stamp)
  npub : Nat := 0
deriving Repr

inductive TAct
  | sub (c : Nat) | unsub (c : Nat) | pubA | pubEnd (m : Nat) | recv (m c : Nat)
deriving Repr, DecidableEq

inductive TOut
  | unit | started (m : Nat) (targets : List Nat) | events (targets : List Nat) (stamp : Nat)
  | got | bad
deriving Repr, DecidableEq

def Topic.active (s : Topic) : List Nat := (s.subs.filter (·.2)).map (·.1)

def setActive (c : Nat) (b : Bool) (l : List (Nat × Bool)) : List (Nat × Bool) :=
  l.map (fun e => if e.1 = c then (c, b) else e)

/-- `legacy = true`: events stamped with the `now` captured when `publish` started (`t0`) -/
def Topic.step (legacy : Bool) (s : Topic) (t : Nat) : TAct → Topic × TOut
  | .sub c =>
    if (s.subs.map (·.1)).contains c then ({ s with subs := setActive c true s.subs }, .unit)
    else ({ s with subs := s.subs ++ [(c, true)] }, .unit)
  | .unsub c => ({ s with subs := setActive c false s.subs }, .unit)
  | .pubA =>
    -- with no active subscriber the generator returns at once with no events
    if s.active = [] then ({ s with npub := s.npub + 1 }, .started s.npub [])
    else ({ s with npub := s.npub + 1, inprog := s.inprog ++ [(s.npub, t, s.active)] }, .started s.npub s.active)
  | .pubEnd m =>
    match s.inprog.lookup m with
    | none => (s, .bad)
    | some (t0, tg) =>
      -- the engine discards events stamped before its current time
      if legacy = true ∧ t0 < t then
        ({ s with inprog := s.inprog.filter (fun e => e.1 != m) }, .events tg t0)
      else
        ({ s with inprog := s.inprog.filter (fun e => e.1 != m),
                  heap := s.heap ++ tg.map (fun c => (m, c, t)) }, .events tg t)
  | .recv m c =>
    if s.heap.contains (m, c, t) then ({ s with heap := s.heap.erase (m, c, t) }, .got)
    else (s, .bad)

structure TRecd where
  t : Nat
  act : TAct
  out : TOut
deriving Repr

def Topic.run (legacy : Bool) (s : Topic) : List (Nat × TAct) → List TRecd
  | [] => []
  | (t, a) :: rest => ⟨t, a, (s.step legacy t a).2⟩ :: Topic.run legacy (s.step legacy t a).1 rest

def Topic.exec (legacy : Bool) (s : Topic) : List (Nat × TAct) → Topic
  | [] => s
  | (t, a) :: rest => Topic.exec legacy (s.step legacy t a).1 rest

end HappyModel.C19
