import HappyModel.C19.IdemModel
/-!
Spec of the idempotency store over an *observed* transcript (what ran when, what it reported):
nothing here looks at a model state.  `hist` is the list of lines seen so far, latest first.

What the history alone says (by the documentation of the class):
* a key is *in flight* from the line that forwarded it to the line that handled its completion;
* a completed key is *remembered* from its completion line on; a completion that finds `max_entries`
  remembered keys forgets the oldest; a sweep forgets exactly the entries whose age reached `ttl`;
* a request whose key is in flight or remembered must be suppressed, any other request (fresh key,
  forgotten key, no key) must be forwarded, stamped with the current instant;
* the target receives exactly the forwarded events, each once, unaltered, at their stamp;
* total_requests = cache_hits + cache_misses + key-less requests, each counter equals the number of
  lines of its kind, cache_size = entries_stored − entries_expired = number of remembered keys ≤
  max_entries, in_flight_count = number of keys in flight;
* sweeps happen only when scheduled, at least `cleanup_interval` apart, a cleanup is pending whenever
  a key is in flight or remembered (the chain does not die while there is something to expire).
-/
namespace HappyModel.C19.Idem

def live (cfg : Cfg) : List Obs → List (Key × Nat)
  | [] => []
  | o :: rest =>
    match o.act, o.out with
    | .resp (some k), .ok _ => remember cfg (live cfg rest) k o.t
    | .sweep, .swept _ _ => keep cfg o.t (live cfg rest)
    | _, _ => live cfg rest

def flying : List Obs → List Key
  | [] => []
  | o :: rest =>
    match o.act, o.out with
    | .req _ (some k), .fwd _ _ _ => flying rest ++ [k]
    | .resp (some k), .ok _ => (flying rest).erase k
    | _, _ => flying rest

/-- forwarded events not yet received by the target: (rid, key, stamp) -/
def awaiting : List Obs → List (Nat × Option Key × Nat)
  | [] => []
  | o :: rest =>
    match o.act, o.out with
    | .req rid k, .fwd st _ _ => awaiting rest ++ [(rid, k, st)]
    | .recv rid, .got _ _ => dropRid rid (awaiting rest)
    | _, _ => awaiting rest

def working : List Obs → List (Nat × Option Key)
  | [] => []
  | o :: rest =>
    match o.act, o.out with
    | .recv rid, .got k _ => working rest ++ [(rid, k)]
    | .done rid, .fin _ => dropRid rid (working rest)
    | _, _ => working rest

/-- completions the target reported whose `_is_response` event the store has not handled yet -/
def finished : List Obs → List (Option Key)
  | [] => []
  | o :: rest =>
    match o.act, o.out with
    | .done _, .fin k => finished rest ++ [k]
    | .resp k, .ok _ => (finished rest).erase k
    | _, _ => finished rest

/-- cleanup events the store returned that have not fired yet -/
def pendingCl : List Obs → List Nat
  | [] => []
  | o :: rest =>
    match o.act, o.out with
    | .req _ _, .fwd _ cl _ => pendingCl rest ++ cl.toList
    | .sweep, .swept cl _ => (pendingCl rest).erase o.t ++ cl.toList
    | _, _ => pendingCl rest

def lastSweep : List Obs → Option Nat
  | [] => none
  | o :: rest =>
    match o.act, o.out with
    | .sweep, .swept _ _ => some o.t
    | _, _ => lastSweep rest

def isReq (o : Obs) : Bool := match o.act with | .req _ _ => true | _ => false
def isKeyless (o : Obs) : Bool := match o.act with | .req _ none => true | _ => false
def isSup (o : Obs) : Bool := match o.act, o.out with | .req _ _, .sup _ => true | _, _ => false
def isMiss (o : Obs) : Bool := match o.act, o.out with | .req _ (some _), .fwd _ _ _ => true | _, _ => false
def isStore (o : Obs) : Bool := match o.act, o.out with | .resp (some _), .ok _ => true | _, _ => false

def nReq (h : List Obs) : Nat := h.countP isReq
def nKeyless (h : List Obs) : Nat := h.countP isKeyless
def nSup (h : List Obs) : Nat := h.countP isSup
def nMiss (h : List Obs) : Nat := h.countP isMiss
def nStored (h : List Obs) : Nat := h.countP isStore

/-- the key is in flight or remembered: a second delivery is forbidden -/
def remembered (cfg : Cfg) (h : List Obs) (k : Key) : Bool := hasKey (live cfg h) k || (flying h).contains k

def chk (ok : Bool) (sig : String) (rest : Option String) : Option String := if ok then rest else some sig

/-- the counters reported after the lines `h` (latest first) -/
def ctrCheck (cfg : Cfg) (h : List Obs) (sweep : Bool) (c : Ctr) : Option String :=
  chk (c.total == c.hits + c.misses + nKeyless h) "idem/counters/do-not-add-up" <|
  chk (c.total == nReq h) "idem/counters/total-requests-wrong" <|
  chk (c.hits == nSup h && c.misses == nMiss h) "idem/counters/hit-miss-wrong" <|
  chk (c.stored == nStored h) "idem/counters/entries-stored-wrong" <|
  chk (c.csize + c.expired == c.stored) "idem/counters/cache-size-not-stored-minus-expired" <|
  chk (decide (c.csize ≤ cfg.maxE)) "idem/cache/over-capacity" <|
  chk (!sweep || decide (c.csize ≤ (live cfg h).length)) "idem/cleanup/expired-entry-kept" <|
  chk (!sweep || decide ((live cfg h).length ≤ c.csize)) "idem/cleanup/live-entry-expired" <|
  chk (c.csize == (live cfg h).length) "idem/cache/size-wrong" <|
  chk (c.nfl == (flying h).length) "idem/counters/in-flight-count-wrong" none

def clTimeOk (cfg : Cfg) (t : Nat) : Option Nat → Bool
  | none => true
  | some x => x == t + cfg.interval

/-- something to expire ⇒ a sweep is coming -/
def chainOk (cfg : Cfg) (h : List Obs) : Bool :=
  ((live cfg h).isEmpty && (flying h).isEmpty) || !(pendingCl h).isEmpty

def spaced (cfg : Cfg) (h : List Obs) (t : Nat) : Bool :=
  match lastSweep h with
  | none => true
  | some s => decide (s + cfg.interval ≤ t)

def fwdCheck (cfg : Cfg) (hist : List Obs) (o : Obs) (st : Nat) (cl : Option Nat) (c : Ctr) : Option String :=
  chk (st == o.t) "idem/forward/stale-stamp" <|
  chk (clTimeOk cfg o.t cl) "idem/cleanup/wrong-time" <|
  chk (chainOk cfg (o :: hist)) "idem/cleanup/never-scheduled" <|
  ctrCheck cfg (o :: hist) false c

/-- one observed line against the lines before it -/
def judgeOne (cfg : Cfg) (hist : List Obs) (o : Obs) : Option String :=
  match o.act, o.out with
  | .req _ none, .fwd st cl c => fwdCheck cfg hist o st cl c
  | .req _ none, .sup _ => some "idem/forward/keyless-suppressed"
  | .req _ (some k), .fwd st cl c =>
    if remembered cfg hist k then some "idem/forward/duplicate-forwarded" else fwdCheck cfg hist o st cl c
  | .req _ (some k), .sup c =>
    if remembered cfg hist k then ctrCheck cfg (o :: hist) false c else some "idem/forward/fresh-key-suppressed"
  | .recv rid, .got k st =>
    match findRid rid (awaiting hist) with
    | none => some "idem/target/unforwarded-event-received"
    | some (_, k', st') =>
      chk (k' == k && st' == st) "idem/target/event-altered" <|
      chk (st == o.t) "idem/target/delivered-off-instant" none
  | .done rid, .fin k =>
    match findRid rid (working hist) with
    | none => some "idem/target/finished-unreceived"
    | some (_, k') => chk (k' == k) "idem/target/event-altered" none
  | .resp k, .ok c =>
    chk ((finished hist).contains k) "idem/response/without-completion" <|
    chk (chainOk cfg (o :: hist)) "idem/cleanup/chain-died-with-entries" <|
    ctrCheck cfg (o :: hist) false c
  | .sweep, .swept cl c =>
    chk ((pendingCl hist).contains o.t) "idem/cleanup/unscheduled-sweep" <|
    chk (spaced cfg hist o.t) "idem/cleanup/sweeps-closer-than-interval" <|
    chk (clTimeOk cfg o.t cl) "idem/cleanup/wrong-time" <|
    chk (chainOk cfg (o :: hist)) "idem/cleanup/chain-died-with-entries" <|
    ctrCheck cfg (o :: hist) true c
  | _, _ => some "idem/transcript/malformed"

/-- judge a whole observed run; `hist` = lines seen so far, latest first -/
def judgeIdem (cfg : Cfg) (hist : List Obs) : List Obs → Option String
  | [] => none
  | o :: rest =>
    match judgeOne cfg hist o with
    | some sig => some sig
    | none => judgeIdem cfg (o :: hist) rest

/-- at the end of a run that went on past every scheduled delivery: nothing forwarded is still
    undelivered, no completion went unnoticed, no due sweep is missing -/
def judgeEnd (horizon : Nat) (h : List Obs) : Option String :=
  chk (awaiting h).isEmpty "idem/target/forwarded-event-never-received" <|
  chk (finished h).isEmpty "idem/response/completion-event-lost" <|
  chk ((pendingCl h).all fun t => decide (horizon < t)) "idem/cleanup/sweep-never-ran" none

end HappyModel.C19.Idem
