import HappyModel.Proto
import HappyModel.C19.Spec
import HappyModel.C19.StreamSpec
import HappyModel.C19.ReadSpec
import HappyModel.C19.Win
import HappyModel.C19.Outbox
import HappyModel.C19.Idem
/-! Line-protocol driver for C19 (the other side is `hv/props/c19.py`).

Message-queue line format (both directions):

    <t> <action…> => <result…> | P F A D pub del red rej dl
-/
namespace HappyModel.C19.Driver
open HappyModel.Proto HappyModel.C19

def parseAct (ts : List String) : Option Act :=
  match ts with
  | ["pub"] => some .pub
  | ["poll"] => some .poll
  | ["redeliv", k] => some (.redeliv (natD k))
  | ["fire", d] => some (.fire (natD d))
  | ["recv", d] => some (.recv (natD d))
  | ["ack", k] => some (.ack (natD k))
  | ["rej", k, rq] => some (.rej (natD k) (rq == "1"))
  | ["tmo", k] => some (.tmo (natD k))
  | ["sub", c] => some (.sub (natD c))
  | ["unsub", c] => some (.unsub (natD c))
  | _ => none

def showAct : Act → String
  | .pub => "pub"
  | .poll => "poll"
  | .redeliv k => s!"redeliv {k}"
  | .fire d => s!"fire {d}"
  | .recv d => s!"recv {d}"
  | .ack k => s!"ack {k}"
  | .rej k rq => s!"rej {k} {showBool rq}"
  | .tmo k => s!"tmo {k}"
  | .sub c => s!"sub {c}"
  | .unsub c => s!"unsub {c}"

def parseOut (ts : List String) : Option Out :=
  match ts with
  | ["ok", k] => some (.pubOk (natD k))
  | ["full"] => some .pubFull
  | ["idle"] => some .idle
  | ["none"] => some .none
  | ["disp", d, k, c, n] => some (.disp (natD d) (natD k) (natD c) (natD n))
  | ["emit", k, c, n, st] => some (.emit (natD k) (natD c) (natD n) (natD st))
  | ["got", k, c, n] => some (.recv (natD k) (natD c) (natD n))
  | ["bad"] => some .bad
  | ["-"] => some .unit
  | ["ev"] => some .tmoEv
  | ["noev"] => some .tmoNone
  | _ => none

def showOut : Out → String
  | .pubOk k => s!"ok {k}"
  | .pubFull => "full"
  | .idle => "idle"
  | .none => "none"
  | .disp d k c n => s!"disp {d} {k} {c} {n}"
  | .emit k c n st => s!"emit {k} {c} {n} {st}"
  | .recv k c n => s!"got {k} {c} {n}"
  | .bad => "bad"
  | .unit => "-"
  | .tmoEv => "ev"
  | .tmoNone => "noev"

def showCtr (c : Ctr) : String :=
  showNats [c.P, c.F, c.A, c.D, c.pub, c.del, c.red, c.rej, c.dl]

def parseCtr (ts : List String) : Option Ctr :=
  match nats ts with
  | [p, f, a, d, pb, de, re, rj, dl] => some ⟨p, f, a, d, pb, de, re, rj, dl⟩
  | _ => none

def showRec (r : ORec) : String :=
  s!"{r.t} {showAct r.act} => {showOut r.out} | {showCtr r.ctr}"

def splitAt? (sep : String) (ts : List String) : Option (List String × List String) :=
  match ts.span (· != sep) with
  | (a, _ :: b) => some (a, b)
  | _ => none

/-- `<t> <act…>` (schedule line; anything from `=>` on is ignored) -/
def parseSched (line : String) : Option (Nat × Act) :=
  let ts := toks line
  let head := (ts.span (· != "=>")).1
  match head with
  | t :: rest => (parseAct rest).map fun a => (natD t, a)
  | [] => none

def parseRec (line : String) : Option ORec :=
  match splitAt? "=>" (toks line) with
  | some (t :: a, rest) =>
    match splitAt? "|" rest with
    | some (o, c) =>
      match parseAct a, parseOut o, parseCtr c with
      | some a, some o, some c => some ⟨natD t, a, o, c⟩
      | _, _, _ => none
    | none => none
  | _ => none

def parseCfg (ts : List String) : Cfg :=
  match ts with
  | [lat, mx, cap, leg] =>
    { lat := natD lat, maxRe := natD mx, cap := (if cap == "-" then none else some (natD cap)),
      legacy := leg == "current" }
  | _ => { lat := 0, maxRe := 0 }

def isRecLine (l : String) : Bool := (toks l).contains "=>"

def finalLines (s : MQ) : List String :=
  (List.range s.npub).map (fun k => s!"final {k} {s.finalState k}") ++
  [s!"dlq {showNats s.dlq}", s!"open {showNats (s.tix.map (·.d))}"]

def runMQ (cfg : Cfg) (body : List String) : List String :=
  let sched := (body.filter isSchedLine).filterMap parseSched
  (MQ.run cfg {} sched).map showRec ++ finalLines (MQ.exec cfg {} sched)
where isSchedLine (l : String) : Bool := match toks l with
  | t :: _ => (nat? t).isSome
  | [] => false

def judgeMQBlock (cfg : Cfg) (body : List String) : List String :=
  let lines := body.filter isRecLine
  let recs := lines.filterMap parseRec
  if recs.length != lines.length then ["viol mq/malformed-trace"] else
  match judgeMQ cfg recs with
  | none => ["ok"]
  | some sig => [s!"viol {sig}"]

/-! ### assignment strategies, event log, consumer group, topic -/

def splitOnChar (c : Char) (s : String) : List String := (s.split (· == c)).toList.map (·.toString)

/-- `c:p,p,p` -/
def parseEntry (tok : String) : Option (Nat × List Nat) :=
  match splitOnChar ':' tok with
  | [c, ps] => some (natD c, (splitOnChar ',' ps).filter (fun x => !x.isEmpty) |>.map natD)
  | _ => none

def showEntry (e : Nat × List Nat) : String :=
  s!"{e.1}:{",".intercalate (e.2.map toString)}"

def showAsg (a : Assignment) : String := joinSp (a.map showEntry)

def parsePairs (ts : List String) : List (Nat × Nat) :=
  ts.filterMap fun tok => match splitOnChar ':' tok with
    | [a, b] => some (natD a, natD b)
    | _ => none

def showPairs (l : List (Nat × Nat)) : String := joinSp (l.map fun e => s!"{e.1}:{e.2}")

/-- `call <parts…> ; <cons…>` -/
def parseCall (ts : List String) : Option (List Nat × List Nat) :=
  match ts with
  | "call" :: rest =>
    match splitAt? ";" rest with
    | some (ps, cs) => some (nats ps, nats cs)
    | none => none
  | _ => none

def parseStrategy (s : String) : Strategy :=
  if s == "rr" then .rr else if s == "sticky" then .sticky else .range

/-- sequences of calls separated by `new` lines; each sequence runs on a fresh strategy object -/
def runAssign (st : Strategy) (body : List String) : List String :=
  let rec go (prev : Assignment) : List String → List String
    | [] => []
    | l :: ls =>
      match toks l with
      | ["new"] => "new" :: go [] ls
      | ts =>
        match parseCall ts with
        | some (ps, cs) =>
          let a := assignWith st prev ps cs
          s!"a {showAsg a}" :: go (if st == .sticky then a else prev) ls
        | none => "bad-line" :: go prev ls
  go [] body

def judgeAssign (body : List String) : List String :=
  let rec go : List String → List String
    | a :: b :: rest =>
      match toks a, toks b with
      | ["new"], _ => go (b :: rest)
      | ta, "a" :: es =>
        match parseCall ta with
        | some call =>
          if callOk call (es.filterMap parseEntry) then go rest
          else [s!"viol group/assignment/not-a-partition {a}"]
        | none => ["viol group/malformed-judge-input"]
      | _, _ => ["viol group/malformed-judge-input"]
    | [l] => if toks l == ["new"] then ["ok"] else ["viol group/malformed-judge-input"]
    | [] => ["ok"]
  go body

/-- offsets of one partition: `-` (none) or `3,4,5` -/
def parseOffs (tok : String) : List Nat :=
  if tok == "-" then [] else (splitOnChar ',' tok).filter (fun x => !x.isEmpty) |>.map natD

def parseRetention (rk ra : String) : Retention :=
  if rk == "size" then .size (natD ra) else if rk == "age" then .age (natD ra) else .none

def showOffs (l : List Nat) : String :=
  if l.isEmpty then "-" else ",".intercalate (l.map toString)

def parseSAct (ts : List String) : Option SAct :=
  match ts with
  | ["append", k, h] => some (.append (natD k) (natD h))
  | ["read", p, o, m] => some (.read (natD p) (natD o) (natD m))
  | ["retention"] => some .retention
  | ["joinA", c] => some (.joinA (natD c))
  | ["joinB", c] => some (.joinB (natD c))
  | ["leaveA", c] => some (.leaveA (natD c))
  | ["leaveB", c] => some (.leaveB (natD c))
  | "commit" :: c :: offs => some (.commit (natD c) (parsePairs offs))
  | ["poll", c, m] => some (.poll (natD c) (natD m))
  | _ => none

def parseSOut (ts : List String) : Option SOut :=
  match ts with
  | ["app", p, o] => some (.appended (natD p) (natD o))
  | "recs" :: rs => some (.records (parsePairs rs))
  | "total" :: n :: kept => some (.total (natD n) (kept.map parseOffs))
  | ["-"] => some .unit
  | "reb" :: g :: rest =>
    match splitAt? ";" rest with
    | some (es, mine) => some (.rebalanced (natD g) (es.filterMap parseEntry) (nats mine))
    | none => none
  | "com" :: cs => some (.committed (parsePairs cs))
  | _ => none

def showSAct : SAct → String
  | .append k h => s!"append {k} {h}"
  | .read p o m => s!"read {p} {o} {m}"
  | .retention => "retention"
  | .joinA c => s!"joinA {c}"
  | .joinB c => s!"joinB {c}"
  | .leaveA c => s!"leaveA {c}"
  | .leaveB c => s!"leaveB {c}"
  | .commit c offs => s!"commit {c} {showPairs offs}"
  | .poll c m => s!"poll {c} {m}"

def showSOut : SOut → String
  | .appended p o => s!"app {p} {o}"
  | .records rs => s!"recs {showPairs rs}"
  | .total n kept => s!"total {n} {joinSp (kept.map showOffs)}"
  | .unit => "-"
  | .rebalanced g a mine => s!"reb {g} {showAsg a} ; {showNats mine}"
  | .committed cs => s!"com {showPairs cs}"

def normSp (s : String) : String := joinSp (toks s)

def showSRecd (r : SRecd) : String := normSp s!"{r.t} {showSAct r.act} => {showSOut r.out}"

def parseSSched (line : String) : Option (Nat × SAct) :=
  match (toks line).span (· != "=>") with
  | (t :: rest, _) => (parseSAct rest).map fun a => (natD t, a)
  | _ => none

def parseSRecd (line : String) : Option SRecd :=
  match splitAt? "=>" (toks line) with
  | some (t :: a, o) =>
    match parseSAct a, parseSOut o with
    | some a, some o => some ⟨natD t, a, o⟩
    | _, _ => none
  | _ => none

def parseSCfg (ts : List String) : SCfg :=
  match ts with
  | [n, rk, ra, st, v] =>
    { n := natD n,
      ret := parseRetention rk ra,
      strat := parseStrategy st, legacyCommit := v == "current" }
  | _ => { n := 1 }

def runStream (cfg : SCfg) (body : List String) : List String :=
  (Stream.run cfg (Stream.init cfg.n) (body.filterMap parseSSched)).map showSRecd

def judgeStreamBlock (n : Nat) (ret : Retention) (body : List String) : List String :=
  let recs := body.filterMap parseSRecd
  if recs.length != body.length then ["viol stream/malformed-trace"] else
  match judgeStreamAll n ret recs with
  | none => ["ok"]
  | some sig => [s!"viol {sig}"]

def parseTAct (ts : List String) : Option TAct :=
  match ts with
  | ["sub", c] => some (.sub (natD c))
  | ["unsub", c] => some (.unsub (natD c))
  | ["pubA"] => some .pubA
  | ["pubEnd", m] => some (.pubEnd (natD m))
  | ["recv", m, c] => some (.recv (natD m) (natD c))
  | _ => none

def parseTOut (ts : List String) : Option TOut :=
  match ts with
  | ["-"] => some .unit
  | "started" :: m :: tg => some (.started (natD m) (nats tg))
  | "events" :: st :: tg => some (.events (nats tg) (natD st))
  | ["got"] => some .got
  | ["bad"] => some .bad
  | _ => none

def showTAct : TAct → String
  | .sub c => s!"sub {c}"
  | .unsub c => s!"unsub {c}"
  | .pubA => "pubA"
  | .pubEnd m => s!"pubEnd {m}"
  | .recv m c => s!"recv {m} {c}"

def showTOut : TOut → String
  | .unit => "-"
  | .started m tg => s!"started {m} {showNats tg}"
  | .events tg st => s!"events {st} {showNats tg}"
  | .got => "got"
  | .bad => "bad"

def parseTSched (line : String) : Option (Nat × TAct) :=
  match (toks line).span (· != "=>") with
  | (t :: rest, _) => (parseTAct rest).map fun a => (natD t, a)
  | _ => none

def parseTRecd (line : String) : Option TRecd :=
  match splitAt? "=>" (toks line) with
  | some (t :: a, o) =>
    match parseTAct a, parseTOut o with
    | some a, some o => some ⟨natD t, a, o⟩
    | _, _ => none
  | _ => none

def runTopic (legacy : Bool) (body : List String) : List String :=
  let sched := body.filterMap parseTSched
  (Topic.run legacy {} sched).map (fun r => normSp s!"{r.t} {showTAct r.act} => {showTOut r.out}") ++
    [normSp s!"open {showNats (sortNat ((Topic.exec legacy {} sched).heap.map (·.1)))}"]

def judgeTopicBlock (body : List String) : List String :=
  let recs := body.filterMap parseTRecd
  if recs.length != body.length then ["viol topic/malformed-trace"] else
  match jTopic {} recs with
  | none => ["ok"]
  | some sig => [s!"viol {sig}"]

def handle (hdr : List String) (body : List String) : List String :=
  match hdr with
  | "mq" :: cfg => runMQ (parseCfg cfg) body
  | "judge-mq" :: cfg => judgeMQBlock (parseCfg cfg) body
  | ["assign", st] => runAssign (parseStrategy st) body
  | ["judge-assign"] => judgeAssign body
  | "stream" :: cfg => runStream (parseSCfg cfg) body
  | ["judge-stream", n, rk, ra] => judgeStreamBlock (natD n) (parseRetention rk ra) body
  | ["topic", v] => runTopic (v == "current") body
  | ["judge-topic"] => judgeTopicBlock body
  | _ =>
    -- families kept in their own files: stream-processor windows, outbox relay, idempotency store
    match Win.handle? hdr body with
    | some out => out
    | none =>
      match Outbox.handle? hdr body with
      | some out => out
      | none =>
        match Idem.handle? hdr body with
        | some out => out
        | none => ["bad-mode"]

end HappyModel.C19.Driver
