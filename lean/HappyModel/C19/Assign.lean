/-!
# C19 — consumer-group partition assignment strategies (model + decidable spec)

Model of `RangeAssignment`, `RoundRobinAssignment`, `StickyAssignment`
(`happysimulator/components/streaming/consumer_group.py`, `assign(partitions, consumers)`).

Consumers and partitions are `Nat`.  A Python `dict[str, list[int]]` is an association list whose
entries appear in sorted-consumer order (the insertion order of the Python dict, which is built as
`{name: [] for name in sorted_consumers}`).  The model mirrors the Python for inputs where
`cons` and `parts` have no duplicates (the group passes `sorted(dict keys)` and `list(range(n))`).
-/
namespace HappyModel.C19

abbrev Assignment := List (Nat × List Nat)

/-! ### sorting (insertion sort, ascending) -/

def insertNat (x : Nat) : List Nat → List Nat
  | [] => [x]
  | y :: ys => if x ≤ y then x :: y :: ys else y :: insertNat x ys

/-- Python `sorted(l)` on ints -/
def sortNat : List Nat → List Nat
  | [] => []
  | x :: xs => insertNat x (sortNat xs)

/-! ### range -/

/-- the loop `for i, name in enumerate(sorted_consumers)`; the third list is
    `sorted_parts[idx:]`, so `sorted_parts[idx : idx + count]` is `take count` of it -/
def rangeGo (base rem : Nat) : Nat → List Nat → List Nat → Assignment
  | _, [], _ => []
  | i, c :: cs, ps =>
    (c, ps.take (base + if i < rem then 1 else 0)) ::
      rangeGo base rem (i + 1) cs (ps.drop (base + if i < rem then 1 else 0))

def rangeAssign (parts cons : List Nat) : Assignment :=
  if cons = [] then [] else
  rangeGo ((sortNat parts).length / (sortNat cons).length)
    ((sortNat parts).length % (sortNat cons).length) 0 (sortNat cons) (sortNat parts)

/-! ### round robin -/

/-- `result[sorted_consumers[j]].append(p)` -/
def addAt : Nat → Nat → Assignment → Assignment
  | _, _, [] => []
  | 0, p, e :: rest => (e.1, e.2 ++ [p]) :: rest
  | j + 1, p, e :: rest => e :: addAt j p rest

/-- the loop `for i, pid in enumerate(sorted_parts)`, `c = len(sorted_consumers)` -/
def rrGo (c : Nat) : Nat → List Nat → Assignment → Assignment
  | _, [], a => a
  | i, p :: ps, a => rrGo c (i + 1) ps (addAt (i % c) p a)

def emptyAssign (scons : List Nat) : Assignment := scons.map fun c => (c, [])

def rrAssign (parts cons : List Nat) : Assignment :=
  if cons = [] then [] else
  rrGo (sortNat cons).length 0 (sortNat parts) (emptyAssign (sortNat cons))

/-! ### sticky -/

/-- `[p for p in previous[name] if p in all_parts]`, or `[]` when `name not in previous` -/
def keepFor (prev : Assignment) (parts : List Nat) (c : Nat) : List Nat :=
  match prev.lookup c with
  | some l => l.filter fun p => parts.contains p
  | none => []

def keepAll (prev : Assignment) (parts scons : List Nat) : Assignment :=
  scons.map fun c => (c, keepFor prev parts c)

/-- `target = min(sorted_consumers, key=lambda n: len(result[n])); result[target].append(p)`:
    the FIRST entry whose length is ≤ the length of every later entry (and, because we only
    get past an entry when it is not such, < every earlier one) -/
def addMin (p : Nat) : Assignment → Assignment
  | [] => []
  | e :: rest =>
    if rest.all (fun e' => e.2.length ≤ e'.2.length) then (e.1, e.2 ++ [p]) :: rest
    else e :: addMin p rest

/-- the loop `for pid in unassigned` -/
def distribute : List Nat → Assignment → Assignment
  | [], a => a
  | p :: ps, a => distribute ps (addMin p a)

def sortEach (a : Assignment) : Assignment := a.map fun e => (e.1, sortNat e.2)

/-- `sorted(all_parts - assigned)` -/
def unassigned (parts : List Nat) (kept : Assignment) : List Nat :=
  sortNat (parts.filter fun p => !(kept.flatMap (·.2)).contains p)

/-- one call of `StickyAssignment.assign` with `_previous = prev`; the result is also the next
    `_previous` (`{}` when `cons` is empty) -/
def stickyAssign (prev : Assignment) (parts cons : List Nat) : Assignment :=
  if cons = [] then [] else
  sortEach (distribute (unassigned parts (keepAll prev parts (sortNat cons)))
    (keepAll prev parts (sortNat cons)))

/-- a sequence of `assign(parts, cons)` calls on one `StickyAssignment` object whose `_previous`
    is `prev`; returns every call's result -/
def stickyRun : Assignment → List (List Nat × List Nat) → List Assignment
  | _, [] => []
  | prev, call :: rest =>
    stickyAssign prev call.1 call.2 :: stickyRun (stickyAssign prev call.1 call.2) rest

/-! ### specification (over an observed assignment; independent of the model above) -/

/-- every consumer has exactly one entry (keys = sorted cons), every partition of `parts` occurs
    exactly once in the concatenation of all lists, and nothing else occurs -/
def isPartition (parts cons : List Nat) (a : Assignment) : Bool :=
  (a.map (·.1) == sortNat cons) &&
  parts.all (fun p => (a.flatMap (·.2)).count p == 1) &&
  (a.flatMap (·.2)).all (fun p => parts.contains p)

/-- what is required of one observed call: `{}` for an empty group, a partition otherwise -/
def callOk (call : List Nat × List Nat) (a : Assignment) : Bool :=
  if call.2.isEmpty then a.isEmpty else isPartition call.1 call.2 a

/-- `callOk` for every call of a sequence, results matched positionally -/
def runOk : List (List Nat × List Nat) → List Assignment → Bool
  | [], [] => true
  | c :: cs, a :: as => callOk c a && runOk cs as
  | _, _ => false

end HappyModel.C19
