import HappyModel.C19.Stream
/-!
C19 specification predicates for the event log, the consumer group and the topic — decidable,
over *observed* traces (`List SRecd`, `List TRecd`), independent of the model states.

Property text: "Topic: every published message reaches every subscriber active at publish time
exactly once.  Event log and consumer group: offsets within a partition are gap-free and
increasing, a key always maps to the same partition, after every rebalance each partition belongs
to exactly one member, and committed offsets never move backwards."
-/
namespace HappyModel.C19

def nextOf (l : List (Nat × Nat)) (p : Nat) : Nat := (l.lookup p).getD 0
def setNext (l : List (Nat × Nat)) (p v : Nat) : List (Nat × Nat) := (p, v) :: l.filter (fun e => e.1 != p)

/-- records of one partition come with offsets increasing by exactly one -/
def consecutive : List (Nat × Nat) → Bool
  | a :: b :: rest => (a.1 != b.1 || b.2 == a.2 + 1) && consecutive (b :: rest)
  | _ => true

/-! ### offsets within a partition are gap-free and increasing

The n-th append to a partition gets offset n (0, 1, 2, …); whatever a read or a poll returns from
one partition are appended records with offsets increasing by exactly one; a read returns its own
partition only and nothing below the requested offset. -/

def jOffsets (n : Nat) (next : List (Nat × Nat)) : List SRecd → Option String
  | [] => none
  | r :: rs =>
    match r.out with
    | .appended p off =>
      if decide (p < n) && off == nextOf next p then jOffsets n (setNext next p (off + 1)) rs
      else some "log/offsets/not-gap-free"
    | .records recs =>
      if !consecutive recs then some "log/read/offsets-not-increasing-by-one"
      else if !recs.all (fun po => decide (po.2 < nextOf next po.1)) then some "log/read/offset-never-appended"
      else
        match r.act with
        | .read p off _ =>
          if recs.all (fun po => po.1 == p && decide (off ≤ po.2)) then jOffsets n next rs
          else some "log/read/wrong-records"
        | _ => jOffsets n next rs
    | _ => jOffsets n next rs

/-! ### a key always maps to the same partition -/

def jKeys (kp : List (Nat × Nat)) : List SRecd → Option String
  | [] => none
  | r :: rs =>
    match r.act, r.out with
    | .append key _, .appended p _ =>
      match kp.lookup key with
      | some p' => if p' == p then jKeys kp rs else some "log/key/partition-changed"
      | none => jKeys ((key, p) :: kp) rs
    | _, _ => jKeys kp rs

/-! ### after every rebalance each partition belongs to exactly one member

`members` is tracked from the first segments of Join / Leave (that is when the code changes
`_consumers`); every rebalance result must be a partition of `0 … n-1` over the current members
(`callOk` from `Assign.lean`: `{}` for an empty group). -/

def jRebalance (n : Nat) (members : List Nat) : List SRecd → Option String
  | [] => none
  | r :: rs =>
    match r.out with
    | .rebalanced _ asg _ =>
      if callOk (List.range n, members) asg then jRebalance n members rs
      else some "group/assignment/not-a-partition"
    | _ =>
      match r.act with
      | .joinA c => jRebalance n (insertNew members c) rs
      | .leaveA c => jRebalance n (members.erase c) rs
      | _ => jRebalance n members rs

/-! ### committed offsets never move backwards -/

def lastOf (l : List ((Nat × Nat) × Nat)) (c p : Nat) : Nat := (l.lookup (c, p)).getD 0

def commitOk (last : List ((Nat × Nat) × Nat)) (c : Nat) (cs : List (Nat × Nat)) : Bool :=
  cs.all (fun pv => decide (lastOf last c pv.1 ≤ pv.2))

def noteCommitted (last : List ((Nat × Nat) × Nat)) (c : Nat) : List (Nat × Nat) → List ((Nat × Nat) × Nat)
  | [] => last
  | pv :: rest => noteCommitted (setCommitted last c pv.1 pv.2) c rest

def jCommit (last : List ((Nat × Nat) × Nat)) : List SRecd → Option String
  | [] => none
  | r :: rs =>
    match r.act, r.out with
    | .commit c _, .committed cs =>
      if commitOk last c cs then jCommit (noteCommitted last c cs) rs
      else some "group/commit/moved-backwards"
    | _, _ => jCommit last rs

def judgeStream (n : Nat) (tr : List SRecd) : Option String :=
  (jOffsets n [] tr).or <| (jKeys [] tr).or <| (jRebalance n [] tr).or (jCommit [] tr)

/-! ### Topic: every published message reaches every subscriber active at publish time exactly once

`active` is tracked from the subscribe / unsubscribe calls.  A publish must address exactly the
active set (`started`), its delivery events must not be stamped in the past, every owed delivery
is received once (`owed` shrinks), nothing else is received, and at the end nothing is owed. -/

structure TopSt where
  active : List Nat := []
  owed : List (Nat × Nat) := []
  begun : List (Nat × List Nat) := []     -- publish ↦ the subscribers it addressed when it started
deriving Repr

def sameSet (a b : List Nat) : Bool := a.all b.contains && b.all a.contains

def dupFree : List Nat → Bool
  | [] => true
  | x :: xs => !xs.contains x && dupFree xs

def TopSt.check (j : TopSt) (r : TRecd) : Except String TopSt :=
  match r.out with
  | .started m tg =>
    if sameSet tg j.active && dupFree tg then
      .ok { j with owed := j.owed ++ tg.map (fun c => (m, c)), begun := (m, tg) :: j.begun }
    else .error "topic/publish/wrong-subscriber-set"
  | .events tg stamp =>
    match r.act with
    | .pubEnd m =>
      if decide (stamp < r.t) then .error "topic/delivery/stamped-in-the-past"
      else if j.begun.lookup m == some tg then .ok j
      else .error "topic/publish/events-do-not-match-subscribers"
    | _ => .error "topic/malformed-trace"
  | .got =>
    match r.act with
    | .recv m c =>
      if j.owed.contains (m, c) then .ok { j with owed := j.owed.erase (m, c) }
      else .error "topic/delivery/duplicate-or-not-subscribed"
    | _ => .error "topic/malformed-trace"
  | _ =>
    match r.act with
    | .sub c => .ok { j with active := insertNew j.active c }
    | .unsub c => .ok { j with active := j.active.erase c }
    | _ => .ok j

def jTopic (j : TopSt) : List TRecd → Option String
  | [] => if j.owed.isEmpty then none else some "topic/delivery/never-reached-subscriber"
  | r :: rs =>
    match j.check r with
    | .error e => some e
    | .ok j' => jTopic j' rs

end HappyModel.C19
