import HappyModel.Proto
/-!
Model of `components/microservice/idempotency_store.py` (IdempotencyStore) as a transition system.

The actions are the deliveries the engine makes (the *schedule* is taken from the real run):
* `req rid key?`  — a request reaches the store (`_handle_request`; `_forward` when it is let through),
* `recv rid`      — the target receives a forwarded event,
* `done rid`      — the target finishes it (its completion hook creates the `_is_response` event),
* `resp key?`     — the store handles that `_is_response` event (`_handle_response`),
* `sweep`         — a `_is_cleanup::<name>` daemon event fires (`_handle_cleanup`).

State mirrors the object: `_cache` (a dict: insertion-ordered list of (key, cached_at)), `_in_flight`
(a set), the five statistics registers, plus the events that exist in the engine's heap because the
store / the target created them (`sent`, `work`, `fins`, `pend`).  Times are integer nanoseconds.

`cfg.legacy = true` is the code before `fixes/C19-idem-cleanup-chains.diff`: a key-less forward also
starts a cleanup chain when the cache is empty and at most one key is in flight.
-/
namespace HappyModel.C19.Idem

abbrev Key := Nat

structure Cfg where
  ttl : Nat
  maxE : Nat
  interval : Nat
  legacy : Bool := false
deriving Repr, DecidableEq

inductive Act
  | req (rid : Nat) (k : Option Key)
  | recv (rid : Nat)
  | done (rid : Nat)
  | resp (k : Option Key)
  | sweep
deriving Repr, DecidableEq

/-- the public counters: stats.total_requests, cache_hits, cache_misses, entries_expired,
    entries_stored, cache_size, in_flight_count -/
structure Ctr where
  total : Nat
  hits : Nat
  misses : Nat
  expired : Nat
  stored : Nat
  csize : Nat
  nfl : Nat
deriving Repr, DecidableEq

inductive Out
  | fwd (stamp : Nat) (cl : Option Nat) (c : Ctr)   -- forwarded (event stamp, cleanup event scheduled)
  | sup (c : Ctr)                                   -- suppressed
  | got (k : Option Key) (stamp : Nat)              -- target: received event of key, stamped
  | fin (k : Option Key)                            -- target: finished
  | ok (c : Ctr)                                    -- store handled the completion event
  | swept (cl : Option Nat) (c : Ctr)               -- sweep ran (next cleanup event scheduled)
  | bad                                             -- the engine cannot make this delivery (no such event)
deriving Repr, DecidableEq

/-- one observed line: when, what ran, what it reported -/
structure Obs where
  t : Nat
  act : Act
  out : Out
deriving Repr, DecidableEq

structure St where
  cache : List (Key × Nat) := []
  infl : List Key := []
  total : Nat := 0
  hits : Nat := 0
  misses : Nat := 0
  expired : Nat := 0
  stored : Nat := 0
  sent : List (Nat × Option Key × Nat) := []   -- forwarded events on their way to the target
  work : List (Nat × Option Key) := []         -- events the target is processing
  fins : List (Option Key) := []               -- `_is_response` events on their way to the store
  pend : List Nat := []                        -- cleanup events in the heap (their times)
deriving Repr

def St.ctr (s : St) : Ctr :=
  ⟨s.total, s.hits, s.misses, s.expired, s.stored, s.cache.length, s.infl.length⟩

def hasKey (c : List (Key × Nat)) (k : Key) : Bool := c.any (fun e => e.1 == k)

/-- `(now - entry.cached_at).to_seconds() >= entry.ttl` -/
def isExpired (cfg : Cfg) (t : Nat) (e : Key × Nat) : Bool := decide (cfg.ttl ≤ t - e.2)

def findRid {α : Type} (rid : Nat) (l : List (Nat × α)) : Option (Nat × α) := l.find? (fun e => e.1 == rid)
def dropRid {α : Type} (rid : Nat) (l : List (Nat × α)) : List (Nat × α) := l.eraseP (fun e => e.1 == rid)

/-- `self._cache[key] = …` after `if len(self._cache) >= max_entries: del oldest` -/
def remember (cfg : Cfg) (c : List (Key × Nat)) (k : Key) (t : Nat) : List (Key × Nat) :=
  (if cfg.maxE ≤ c.length then c.tail else c) ++ [(k, t)]

def evicted (cfg : Cfg) (c : List (Key × Nat)) : Nat := if cfg.maxE ≤ c.length then 1 else 0

def keep (cfg : Cfg) (t : Nat) (c : List (Key × Nat)) : List (Key × Nat) := c.filter (fun e => !isExpired cfg t e)

/-- "Schedule first cleanup if this is the first entry" -/
def wantCleanup (cfg : Cfg) (s : St) (keyed : Bool) : Bool :=
  (keyed || cfg.legacy) && s.cache.isEmpty && decide (s.infl.length ≤ 1)

def cleanupAt (cfg : Cfg) (s : St) (keyed : Bool) (t : Nat) : Option Nat :=
  if wantCleanup cfg s keyed then some (t + cfg.interval) else none

/-- `_forward` (the key is already in `infl`) -/
def forward (cfg : Cfg) (s : St) (t rid : Nat) (k : Option Key) : St × Out :=
  ({ s with sent := s.sent ++ [(rid, k, t)], pend := s.pend ++ (cleanupAt cfg s k.isSome t).toList },
   .fwd t (cleanupAt cfg s k.isSome t)
     { s with sent := s.sent ++ [(rid, k, t)], pend := s.pend ++ (cleanupAt cfg s k.isSome t).toList }.ctr)

def known (s : St) (k : Key) : Bool := hasKey s.cache k || s.infl.contains k

def stepReq (cfg : Cfg) (s : St) (t rid : Nat) : Option Key → St × Out
  | none => forward cfg { s with total := s.total + 1 } t rid none
  | some k =>
    if known s k then
      ({ s with total := s.total + 1, hits := s.hits + 1 },
       .sup { s with total := s.total + 1, hits := s.hits + 1 }.ctr)
    else
      forward cfg { s with total := s.total + 1, misses := s.misses + 1, infl := s.infl ++ [k] } t rid (some k)

/-- the engine delivers an event at its own stamp (an event stamped in the past is discarded, C01) -/
def stepRecv (s : St) (t rid : Nat) : St × Out :=
  match findRid rid s.sent with
  | some (_, k, st) =>
    if st == t then ({ s with sent := dropRid rid s.sent, work := s.work ++ [(rid, k)] }, .got k st) else (s, .bad)
  | none => (s, .bad)

def stepDone (s : St) (rid : Nat) : St × Out :=
  match findRid rid s.work with
  | some (_, k) => ({ s with work := dropRid rid s.work, fins := s.fins ++ [k] }, .fin k)
  | none => (s, .bad)

def respSt (cfg : Cfg) (s : St) (t : Nat) : Option Key → St
  | none => { s with fins := s.fins.erase none }
  | some k =>
    { s with fins := s.fins.erase (some k), infl := s.infl.erase k, cache := remember cfg s.cache k t,
             expired := s.expired + evicted cfg s.cache, stored := s.stored + 1 }

/-- a completion event exists only for a request that is still in flight -/
def respOk (s : St) : Option Key → Bool
  | none => true
  | some k => s.infl.contains k

def stepResp (cfg : Cfg) (s : St) (t : Nat) (k : Option Key) : St × Out :=
  if s.fins.contains k && respOk s k then (respSt cfg s t k, .ok (respSt cfg s t k).ctr) else (s, .bad)

/-- reschedule "if there are still entries to manage" -/
def nextSweep (cfg : Cfg) (s : St) (t : Nat) : Option Nat :=
  if !(keep cfg t s.cache).isEmpty || !s.infl.isEmpty then some (t + cfg.interval) else none

def sweepSt (cfg : Cfg) (s : St) (t : Nat) : St :=
  { s with cache := keep cfg t s.cache, expired := s.expired + (s.cache.filter (isExpired cfg t)).length,
           pend := s.pend.erase t ++ (nextSweep cfg s t).toList }

def stepSweep (cfg : Cfg) (s : St) (t : Nat) : St × Out :=
  if s.pend.contains t then (sweepSt cfg s t, .swept (nextSweep cfg s t) (sweepSt cfg s t).ctr) else (s, .bad)

def step (cfg : Cfg) (s : St) (t : Nat) : Act → St × Out
  | .req rid k => stepReq cfg s t rid k
  | .recv rid => stepRecv s t rid
  | .done rid => stepDone s rid
  | .resp k => stepResp cfg s t k
  | .sweep => stepSweep cfg s t

/-- replay a schedule, collecting the observations -/
def run (cfg : Cfg) (s : St) : List (Nat × Act) → List Obs
  | [] => []
  | (t, a) :: rest => ⟨t, a, (step cfg s t a).2⟩ :: run cfg (step cfg s t a).1 rest

def finalSt (cfg : Cfg) (s : St) : List (Nat × Act) → St
  | [] => s
  | (t, a) :: rest => finalSt cfg (step cfg s t a).1 rest

end HappyModel.C19.Idem
