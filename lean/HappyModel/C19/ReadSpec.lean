import HappyModel.C19.StreamSpec
/-!
C19 specification predicates for what a *read* and a *group poll* return, and for what a retention
sweep keeps — decidable, over observed traces (`List SRecd`), independent of the model state.

Property text: "offsets within a partition are gap-free and increasing" and (title) "delivers … in
offset order".  For a reader that means: the log retains, per partition, one contiguous run of
offsets `lo … next-1` (a retention sweep only trims the head), and

* a read of partition `p` from offset `o` with limit `m` returns exactly the retained records with
  offset ≥ `o`, in increasing offset order, the first `min(m, count)` of them — no retained record
  ≥ `o` is skipped, none below `o` and none that is not retained is returned;
* a poll of a group member returns, for its assigned partitions in assignment order, what such a
  read from the member's committed offset returns (the limit shared across the partitions) — so a
  member that commits what it read never sees a record twice and never misses a retained one;
* the committed offset a poll starts from is the largest offset the member ever committed for the
  partition (what `consumer_lag` reports must agree with it).

The judge follows the observations only: `app p off` lines (a record with offset `off` exists in
`p`), the `total` line of every retention sweep with the offsets an observer finds in
`log.partitions[p].records`, the commit *requests*, and the assignments a rebalance reports.
-/
namespace HappyModel.C19

structure RSt where
  lo : List Nat                              -- per partition: first retained offset
  next : List Nat                            -- per partition: next offset to be assigned
  com : List ((Nat × Nat) × Nat) := []       -- (consumer, partition) ↦ largest offset committed
  asg : Assignment := []                     -- assignments reported by the last rebalance
deriving Repr

def RSt.init (n : Nat) : RSt := { lo := List.replicate n 0, next := List.replicate n 0 }

def RSt.loOf (j : RSt) (p : Nat) : Nat := j.lo.getD p 0
def RSt.nextOf (j : RSt) (p : Nat) : Nat := j.next.getD p 0
def RSt.mine (j : RSt) (c : Nat) : List Nat := (j.asg.lookup c).getD []

/-- the retained records of partition `p` with offset ≥ `off`, in increasing offset order, the
    first `min(m, count)` of them -/
def RSt.expRead (n : Nat) (j : RSt) (p off m : Nat) : List (Nat × Nat) :=
  if p < n then
    (List.range' (max off (j.loOf p)) (min m (j.nextOf p - max off (j.loOf p)))).map (fun o => (p, o))
  else []

/-- a poll: the assigned partitions in assignment order, each read from the committed offset with
    what is left of the limit -/
def RSt.expPoll (n : Nat) (j : RSt) (c max : Nat) : List Nat → List (Nat × Nat) → List (Nat × Nat)
  | [], acc => acc
  | p :: ps, acc =>
    if max ≤ acc.length then acc
    else RSt.expPoll n j c max ps (acc ++ j.expRead n p (lastOf j.com c p) (max - acc.length))

/-- the largest offset committed so far: a commit below the current one does not move it -/
def noteMax (l : List ((Nat × Nat) × Nat)) (c : Nat) : List (Nat × Nat) → List ((Nat × Nat) × Nat)
  | [] => l
  | po :: rest => noteMax (setCommitted l c po.1 (max (lastOf l c po.1) po.2)) c rest

/-- `max_records = 0` is outside the clause's count requirement: the code hands out one record
    (its loop tests the bound after appending); both answers are accepted, see `assumptions` -/
def readVerdict (n : Nat) (j : RSt) (p off m : Nat) (got : List (Nat × Nat)) : Option String :=
  let exp := j.expRead n p off m
  if got == exp || (m == 0 && got == j.expRead n p off 1) then none
  else if exp.any (fun e => !got.contains e) then some "log/read/skipped-retained-record"
  else if decide (max m 1 < got.length) then some "log/read/more-than-max-records"
  else if got.any (fun po => decide (po.2 < j.loOf po.1)) then some "log/read/returned-expired-record"
  else some "log/read/not-the-retained-suffix"

def pollVerdict (n : Nat) (j : RSt) (c m : Nat) (got : List (Nat × Nat)) : Option String :=
  let exp := RSt.expPoll n j c m (j.mine c) []
  if got == exp then none
  else if got.any (fun po => !(j.mine c).contains po.1) then some "group/poll/partition-not-assigned"
  else if got.any (fun po => decide (po.2 < lastOf j.com c po.1)) then some "group/poll/returned-below-committed"
  else if exp.any (fun e => !got.contains e) then some "group/poll/skipped-record"
  else if decide (m < got.length) then some "group/poll/more-than-max-records"
  else some "group/poll/not-the-retained-suffix"

/-- what a sweep leaves in one partition: the contiguous run ending at the newest record -/
def suffixOk (lo nx : Nat) (k : List Nat) : Bool :=
  decide (k.length ≤ nx - lo) && k == List.range' (nx - k.length) k.length

def RSt.step (n : Nat) (j : RSt) (r : SRecd) : Except String RSt :=
  match r.act, r.out with
  | .append _ _, .appended p off => .ok { j with next := j.next.set p (off + 1) }
  | .retention, .total tot kept =>
    if kept.length != n then .error "log/retention/malformed-observation"
    else if tot != (kept.map List.length).sum then .error "log/retention/total-records-mismatch"
    else if (List.range n).all (fun p => suffixOk (j.loOf p) (j.nextOf p) (kept.getD p [])) then
      .ok { j with lo := (List.range n).map (fun p => j.nextOf p - (kept.getD p []).length) }
    else .error "log/retention/not-a-suffix"
  | .read p off m, .records got =>
    match readVerdict n j p off m got with
    | none => .ok j
    | some e => .error e
  | .poll c m, .records got =>
    match pollVerdict n j c m got with
    | none => .ok j
    | some e => .error e
  | .commit c offs, .committed cs =>
    if cs.all (fun pv => pv.2 == lastOf (noteMax j.com c offs) c pv.1) then
      .ok { j with com := noteMax j.com c offs }
    else .error "group/commit/not-the-largest-committed"
  | .leaveA c, _ => .ok { j with asg := j.asg.filter (fun e => e.1 != c) }
  | _, .rebalanced _ asg _ => .ok { j with asg := asg }
  | _, _ => .ok j

def jReads (n : Nat) (j : RSt) : List SRecd → Option String
  | [] => none
  | r :: rs =>
    match j.step n r with
    | .error e => some e
    | .ok j' => jReads n j' rs

/-! ### what a retention sweep keeps

`SizeRetention(n)`: "retain at most n per partition … the oldest records are expired" — the newest
`min(n, count)` stay.  `TimeRetention(a)`: "retain records younger than a maximum age" — exactly the
records with `now - timestamp < a` stay (`timestamp` = the instant of the `app` line).  Without a
policy nothing is dropped. -/

structure PSt where
  lo : List Nat
  next : List Nat
  ts : List ((Nat × Nat) × Nat) := []        -- (partition, offset) ↦ append instant
deriving Repr

def PSt.init (n : Nat) : PSt := { lo := List.replicate n 0, next := List.replicate n 0 }

def PSt.tsOf (j : PSt) (p o : Nat) : Nat := (j.ts.lookup (p, o)).getD 0

def keepOk (ret : Retention) (t : Nat) (j : PSt) (p : Nat) (k : List Nat) : Option String :=
  let lo := j.lo.getD p 0
  let nx := j.next.getD p 0
  let lo' := nx - k.length
  match ret with
  | .none => if k.length == nx - lo then none else some "log/retention/dropped-without-policy"
  | .size m => if k.length == min m (nx - lo) then none else some "log/retention/size-bound"
  | .age ns =>
    if (List.range' lo' (nx - lo')).all (fun o => decide (t - j.tsOf p o < ns)) &&
       (List.range' lo (lo' - lo)).all (fun o => !decide (t - j.tsOf p o < ns)) then none
    else some "log/retention/age-bound"

def PSt.step (n : Nat) (ret : Retention) (j : PSt) (r : SRecd) : Except String PSt :=
  match r.act, r.out with
  | .append _ _, .appended p off =>
    .ok { j with next := j.next.set p (off + 1), ts := ((p, off), r.t) :: j.ts }
  | .retention, .total _ kept =>
    match (List.range n).findSome? (fun p => keepOk ret r.t j p (kept.getD p [])) with
    | some e => .error e
    | none => .ok { j with lo := (List.range n).map (fun p => j.next.getD p 0 - (kept.getD p []).length) }
  | _, _ => .ok j

def jRetention (n : Nat) (ret : Retention) (j : PSt) : List SRecd → Option String
  | [] => none
  | r :: rs =>
    match j.step n ret r with
    | .error e => some e
    | .ok j' => jRetention n ret j' rs

/-- all stream clauses -/
def judgeStreamAll (n : Nat) (ret : Retention) (tr : List SRecd) : Option String :=
  (judgeStream n tr).or <| (jReads n (RSt.init n) tr).or (jRetention n ret (PSt.init n) tr)

end HappyModel.C19
