import HappyModel.Proto
/-!
Model of `streaming/stream_processor.py` (`StreamProcessor` with `TumblingWindow`, `SlidingWindow`,
`SessionWindow`, `LateEventPolicy`), all times integer nanoseconds.

The processor is a transition system whose actions are the generator segments the engine runs:

* `proc r`      — a `Process` event (everything happens before its `yield 0.0`): count it, classify it as
                  late (`event_time < watermark − allowed_lateness`), drop / side-output / keep it, add it to
                  its windows, start the watermark daemon at the first record that gets that far;
* `wmA ext w`   — first segment of a `Watermark` event carrying `w`: `watermark := max(watermark, w)`;
* `wmB`         — its second segment: emit every not yet emitted window whose end the watermark has reached,
                  schedule the next `Watermark` (carrying the current simulation time);
* `lateRecv id` — the side-output entity receives a `LateEvent`;
* `fin`         — end of the run (reads the public counters).

The model describes the tree after `fixes/C19-win-*.diff`: a record that reaches an already emitted window
re-opens it whatever the policy (the pinned tree does so only under UPDATE and otherwise opens a second
WindowState with the same bounds); a session record earlier than the session's start moves the start.
Emitted session windows are inert in the code (skipped everywhere) and are dropped from the model state.
-/
namespace HappyModel.C19.Win

structure Cfg where
  kind : Nat        -- 0 tumbling, 1 sliding, 2 session
  size : Nat
  slide : Nat
  gap : Nat
  late : Nat        -- allowed lateness
  policy : Nat      -- 0 DROP, 1 SIDE_OUTPUT, 2 UPDATE
  side : Bool       -- a side_output entity is configured
  interval : Nat    -- watermark_interval_s
deriving Repr, DecidableEq

structure Rec where
  id : Nat
  key : Nat
  et : Nat
  val : Nat
deriving Repr, DecidableEq

structure Win where
  key : Nat
  s : Nat
  e : Nat
  recs : List Rec
  emitted : Bool
deriving Repr, DecidableEq

/-- the public observables: `stats` (six counters), `active_windows`, `watermark_s` -/
structure Stats where
  ep : Nat
  we : Nat
  le : Nat
  ld : Nat
  lu : Nat
  ls : Nat
  aw : Nat
  wm : Nat
deriving Repr, DecidableEq

/-- a `WindowResult` as the sink sees it -/
structure Em where
  key : Nat
  s : Nat
  e : Nat
  cnt : Nat
  sum : Nat
  ids : List Nat
deriving Repr, DecidableEq

inductive Act
  | proc (r : Rec)
  | wmA (ext : Bool) (w : Nat)
  | wmB
  | lateRecv (id : Nat)
  | fin
deriving Repr, DecidableEq

structure Line where
  t : Nat
  act : Act
deriving Repr, DecidableEq

inductive Out
  | proc (status : Nat) (st : Stats)             -- 0 on time, 1 late dropped, 2 late side output, 3 late update
  | wm (stray : Bool) (st : Stats)               -- stray: a self-scheduled Watermark the model did not expect
  | emits (n : Nat) (ems : List Em) (st : Stats) -- n results returned by the segment, `ems` received by the sink
  | late (known : Bool) (r : Rec)
  | fin (st : Stats) (fly : Nat)
deriving Repr, DecidableEq

/-! ### window assignment -/

/-- `SlidingWindow.assign_windows`: from the last slide multiple ≤ et downwards while the window still
covers `et`, stopping before a negative start -/
def slideLoop (size slide et : Nat) : Nat → Nat → List Nat
  | 0, _ => []
  | fuel + 1, start =>
    if et < start + size then
      start :: (if start < slide then [] else slideLoop size slide et fuel (start - slide))
    else []

/-- `assign_windows` for tumbling / sliding windows (ascending, as the code returns them) -/
def assign (cfg : Cfg) (et : Nat) : List (Nat × Nat) :=
  if cfg.kind = 0 then [(et / cfg.size * cfg.size, et / cfg.size * cfg.size + cfg.size)]
  else ((slideLoop cfg.size cfg.slide et (et / cfg.slide + 1) (et / cfg.slide * cfg.slide)).reverse).map
    fun s => (s, s + cfg.size)

/-! ### state -/

structure St where
  wins : List Win := []
  wm : Nat := 0
  started : Bool := false          -- `_watermark_scheduled`
  wq : List (Nat × Nat) := []      -- self-scheduled Watermark events outstanding: (fire time, carried value)
  fly : List Rec := []             -- LateEvent events on their way to the side output
  ep : Nat := 0
  we : Nat := 0
  le : Nat := 0
  ld : Nat := 0
  lu : Nat := 0
  ls : Nat := 0
deriving Repr

def St.stats (s : St) : Stats :=
  { ep := s.ep, we := s.we, le := s.le, ld := s.ld, lu := s.lu, ls := s.ls,
    aw := (s.wins.filter fun w => !w.emitted).length, wm := s.wm }

def isLate (cfg : Cfg) (wm et : Nat) : Bool := decide (et + cfg.late < wm)

def sameWin (k s e : Nat) (w : Win) : Bool := w.key == k && w.s == s && w.e == e

/-- find the window (first match) and append the record, re-opening it if it was emitted; else a new one -/
def addRec (r : Rec) (s e : Nat) : List Win → List Win
  | [] => [{ key := r.key, s := s, e := e, recs := [r], emitted := false }]
  | w :: ws =>
    if sameWin r.key s e w then { w with recs := w.recs ++ [r], emitted := false } :: ws
    else w :: addRec r s e ws

def addAll (r : Rec) : List (Nat × Nat) → List Win → List Win
  | [], ws => ws
  | se :: rest, ws => addAll r rest (addRec r se.1 se.2 ws)

/-! ### sessions -/

def inSession (gap : Nat) (et : Nat) (w : Win) : Bool := decide (w.s ≤ et + gap) && decide (et ≤ w.e)

/-- `_add_to_session_window`, find part: first session of the key whose range (start − gap … end) holds
the event time takes the record; `none` if there is none -/
def sessJoin (gap : Nat) (r : Rec) : List Win → Option (List Win)
  | [] => none
  | w :: ws =>
    if inSession gap r.et w then
      some ({ w with recs := w.recs ++ [r], e := max w.e (r.et + gap), s := min w.s r.et } :: ws)
    else (sessJoin gap r ws).map (w :: ·)

def insertByStart (w : Win) : List Win → List Win
  | [] => [w]
  | a :: l => if w.s ≤ a.s then w :: a :: l else a :: insertByStart w l

/-- stable sort by start (`active.sort(key=lambda w: w.start)`) -/
def sortByStart : List Win → List Win
  | [] => []
  | a :: l => insertByStart a (sortByStart l)

/-- `_merge_sessions` over the sorted sessions, `cur` = `merged[-1]` -/
def mergeFrom (cur : Win) : List Win → List Win
  | [] => [cur]
  | b :: rest =>
    if b.s ≤ cur.e then mergeFrom { cur with e := max cur.e b.e, recs := cur.recs ++ b.recs } rest
    else cur :: mergeFrom b rest

def mergeSessions (l : List Win) : List Win :=
  match sortByStart l with
  | [] => []
  | a :: rest => mergeFrom a rest

/-- all of `_add_to_session_window` on the flat window list (sessions of other keys untouched) -/
def sessAdd (gap : Nat) (r : Rec) (wins : List Win) : List Win :=
  let mine := wins.filter fun w => w.key == r.key
  let others := wins.filter fun w => !(w.key == r.key)
  let joined := match sessJoin gap r mine with
    | some l => l
    | none => mine ++ [{ key := r.key, s := r.et, e := r.et + gap, recs := [r], emitted := false }]
  others ++ mergeSessions joined

/-! ### steps -/

def closable (wm : Nat) (w : Win) : Bool := !w.emitted && decide (w.e ≤ wm)

def sumVals (l : List Rec) : Nat := (l.map (·.val)).sum

def toEm (w : Win) : Em :=
  { key := w.key, s := w.s, e := w.e, cnt := w.recs.length, sum := sumVals w.recs, ids := w.recs.map (·.id) }

def markEmitted (wm : Nat) (w : Win) : Win := if closable wm w then { w with emitted := true } else w

def addWindows (cfg : Cfg) (r : Rec) (wins : List Win) : List Win :=
  if cfg.kind = 2 then sessAdd cfg.gap r wins else addAll r (assign cfg r.et) wins

def startDaemon (cfg : Cfg) (t : Nat) (r : Rec) (s : St) : St :=
  if s.started then s else { s with started := true, wq := s.wq ++ [(t + cfg.interval, r.et)] }

def stepProc (cfg : Cfg) (t : Nat) (r : Rec) (s : St) : St × Nat :=
  let s1 := { s with ep := s.ep + 1 }
  if isLate cfg s.wm r.et then
    let s2 := { s1 with le := s1.le + 1 }
    if cfg.policy = 0 then ({ s2 with ld := s2.ld + 1 }, 1)
    else if cfg.policy = 1 then
      ({ s2 with ls := s2.ls + 1, fly := if cfg.side then s2.fly ++ [r] else s2.fly }, 2)
    else
      (startDaemon cfg t r { s2 with lu := s2.lu + 1, wins := addWindows cfg r s2.wins }, 3)
  else (startDaemon cfg t r { s1 with wins := addWindows cfg r s1.wins }, 0)

def eraseFirst (x : Nat × Nat) : List (Nat × Nat) → List (Nat × Nat)
  | [] => []
  | y :: l => if y = x then l else y :: eraseFirst x l

def stepWmA (t : Nat) (ext : Bool) (w : Nat) (s : St) : St × Bool :=
  let s1 := { s with wm := max s.wm w }
  if ext then (s1, false)
  else if s.wq.contains (t, w) then ({ s1 with wq := eraseFirst (t, w) s.wq }, false)
  else (s1, true)

def stepWmB (cfg : Cfg) (t : Nat) (s : St) : St × List Em :=
  let ems := (s.wins.filter (closable s.wm)).map toEm
  let wins := if cfg.kind = 2 then s.wins.filter (fun w => !closable s.wm w) else s.wins.map (markEmitted s.wm)
  ({ s with wins := wins, we := s.we + ems.length, wq := s.wq ++ [(t + cfg.interval, t)] }, ems)

def stepLate (id : Nat) (s : St) : St × Out :=
  match s.fly.find? (fun r => r.id == id) with
  | some r => ({ s with fly := s.fly.filter fun x => !(x.id == id) }, .late true r)
  | none => (s, .late false { id := id, key := 0, et := 0, val := 0 })

def step (cfg : Cfg) (s : St) (ln : Line) : St × Out :=
  match ln.act with
  | .proc r => ((stepProc cfg ln.t r s).1, .proc (stepProc cfg ln.t r s).2 (stepProc cfg ln.t r s).1.stats)
  | .wmA ext w => ((stepWmA ln.t ext w s).1, .wm (stepWmA ln.t ext w s).2 (stepWmA ln.t ext w s).1.stats)
  | .wmB => ((stepWmB cfg ln.t s).1,
      .emits (stepWmB cfg ln.t s).2.length (stepWmB cfg ln.t s).2 (stepWmB cfg ln.t s).1.stats)
  | .lateRecv id => stepLate id s
  | .fin => (s, .fin s.stats s.fly.length)

/-- run from state `s`, collecting the outputs -/
def run (cfg : Cfg) (s : St) : List Line → List Out
  | [] => []
  | ln :: rest => (step cfg s ln).2 :: run cfg (step cfg s ln).1 rest

/-- the states passed through (for invariants) -/
def finalState (cfg : Cfg) (s : St) : List Line → St
  | [] => s
  | ln :: rest => finalState cfg (step cfg s ln).1 rest

end HappyModel.C19.Win
