/-!
Model of `happysimulator/components/messaging/message_queue.py` (+ the part of `dlq.py` it uses)
as a transition system whose actions are the *generator segments* the engine executes:

    pub        publisher runs `publish()` up to its first yield (message enqueued)
    poll       a `poll` event reaches the queue: `poll()` → `_deliver_message()` up to the latency yield
    redeliv k  a `message_redelivery` event reaches the queue (`handle_event`) → `_deliver_message(k)`
    fire d     delivery `d` resumes after the latency yield and returns the delivery event
    recv d     the engine hands delivery event `d` to its consumer
    ack k / rej k rq / tmo k      `acknowledge`, `reject(requeue=rq)`, `schedule_redelivery`
    sub c / unsub c               `subscribe`, `unsubscribe`

Every action carries the simulation time `t` at which the engine ran it (taken from the real run:
the engine's own ordering rule is C01/C02's business).  Message ids are publish indices
(uuid4 ids renamed canonically), consumers are numbers.

`Cfg.legacy = true` is the code before `fixes/C19-*.diff`: the delivery event is stamped with the
`now` captured *before* the latency yield, and `acknowledge` / `reject` leave the id in the pending
deque.  The theorems are about `legacy = false`; the witnesses in `HappyProofs/C19/Props.lean`
show what goes wrong with `legacy = true`.
-/
namespace HappyModel.C19

structure Cfg where
  lat : Nat                 -- delivery latency, ns (what `self.time + delay` adds)
  maxRe : Nat               -- max_redeliveries
  cap : Option Nat := none  -- capacity
  legacy : Bool := false
deriving Repr

/-- one started delivery: the local variables of the suspended `_deliver_message` generator and,
    once it has resumed (`fired = some (n, stamp)`), the delivery event sitting in the engine's heap -/
structure Ticket where
  d : Nat
  k : Nat
  c : Nat
  t0 : Nat
  fired : Option (Nat × Nat) := none
deriving Repr, DecidableEq

structure MQ where
  npub : Nat := 0              -- messages_published; next canonical id
  live : List Nat := []        -- keys of `_messages`
  dlog : List Nat := []        -- one entry per dispatch; `delivery_count k = dlog.count k`
  pending : List Nat := []     -- `_pending_queue`
  inflight : List Nat := []    -- keys of `_in_flight`
  cons : List Nat := []        -- `_consumers`
  cidx : Nat := 0              -- `_consumer_index`
  sched : List Nat := []       -- `_redelivery_scheduled`
  dlq : List Nat := []         -- dead letter queue contents
  nAck : Nat := 0
  nRej : Nat := 0
  nDel : Nat := 0
  nRed : Nat := 0
  nDl : Nat := 0
  nd : Nat := 0                -- deliveries started so far (ticket numbers)
  tix : List Ticket := []       -- deliveries started and not yet handed to the consumer
deriving Repr

inductive Act
  | pub | poll | redeliv (k : Nat) | fire (d : Nat) | recv (d : Nat)
  | ack (k : Nat) | rej (k : Nat) (rq : Bool) | tmo (k : Nat) | sub (c : Nat) | unsub (c : Nat)
deriving Repr, DecidableEq

inductive Out
  | pubOk (k : Nat) | pubFull | idle | none | disp (d k c n : Nat)
  | emit (k c n stamp : Nat) | recv (k c n : Nat) | bad | unit | tmoEv | tmoNone
deriving Repr, DecidableEq

def MQ.cnt (s : MQ) (k : Nat) : Nat := s.dlog.count k

def insertNew (l : List Nat) (k : Nat) : List Nat := if k ∈ l then l else l ++ [k]

def MQ.full (cfg : Cfg) (s : MQ) : Bool :=
  match cfg.cap with
  | none => false
  | some c => decide (c ≤ s.live.length)

def MQ.nextConsumer (s : MQ) : Option Nat := s.cons[s.cidx % s.cons.length]?

/-- `_deliver_message(k)` up to the latency yield -/
def MQ.dispatch (s : MQ) (t k c : Nat) : MQ :=
  { s with
    cidx := s.cidx + 1, dlog := k :: s.dlog, pending := s.pending.erase k,
    inflight := insertNew s.inflight k,
    nDel := if s.cnt k = 0 then s.nDel + 1 else s.nDel,
    nRed := if s.cnt k = 0 then s.nRed else s.nRed + 1,
    nd := s.nd + 1, tix := s.tix ++ [⟨s.nd, k, c, t, none⟩] }

def MQ.deliverBegin (s : MQ) (t k : Nat) : MQ × Out :=
  if k ∈ s.live then
    match s.nextConsumer with
    | some c => (s.dispatch t k c, .disp s.nd k c (s.cnt k + 1))
    | none => (s, .none)
  else (s, .none)

/-- legacy code forgets the pending deque when a message leaves through ack / reject -/
def MQ.dropPending (cfg : Cfg) (s : MQ) (k : Nat) : List Nat :=
  if cfg.legacy then s.pending else s.pending.erase k

def MQ.toDlq (cfg : Cfg) (s : MQ) (k : Nat) : MQ :=
  { s with nRej := s.nRej + 1, inflight := s.inflight.erase k, pending := s.dropPending cfg k,
           dlq := s.dlq ++ [k], nDl := s.nDl + 1, live := s.live.erase k, sched := s.sched.erase k }

def MQ.requeue (cfg : Cfg) (s : MQ) (k : Nat) : MQ :=
  { s with nRej := s.nRej + 1, inflight := s.inflight.erase k, pending := s.dropPending cfg k ++ [k] }

/-- `reject(k, requeue=rq)` -/
def MQ.reject (cfg : Cfg) (s : MQ) (k : Nat) (rq : Bool) : MQ :=
  if k ∈ s.live then
    if rq = true ∧ s.cnt k < cfg.maxRe then s.requeue cfg k else s.toDlq cfg k
  else s

def MQ.ackMsg (cfg : Cfg) (s : MQ) (k : Nat) : MQ :=
  if k ∈ s.live then
    { s with inflight := s.inflight.erase k, pending := s.dropPending cfg k,
             live := s.live.erase k, sched := s.sched.erase k, nAck := s.nAck + 1 }
  else s

def MQ.timeout (cfg : Cfg) (s : MQ) (k : Nat) : MQ × Out :=
  if k ∈ s.inflight then
    if k ∈ s.sched then (s, .tmoNone)
    else if cfg.maxRe ≤ s.cnt k then (s.reject cfg k false, .tmoNone)
    else ({ s with sched := k :: s.sched, inflight := s.inflight.erase k, pending := k :: s.pending },
          .tmoEv)
  else (s, .tmoNone)

def MQ.publish (cfg : Cfg) (s : MQ) : MQ × Out :=
  if s.full cfg then (s, .pubFull)
  else ({ s with npub := s.npub + 1, live := s.live ++ [s.npub], pending := s.pending ++ [s.npub] },
        .pubOk s.npub)

def MQ.pollA (s : MQ) (t : Nat) : MQ × Out :=
  match s.pending, s.cons with
  | k :: _, _ :: _ => s.deliverBegin t k
  | _, _ => (s, .idle)

def Ticket.fire (d n stamp : Nat) (x : Ticket) : Ticket :=
  if x.d = d then { x with fired := some (n, stamp) } else x

/-- delivery `d` resumes after its latency yield (the engine resumes a generator exactly `lat`
    after the yield — C02) and returns the delivery event -/
def MQ.fire (cfg : Cfg) (s : MQ) (t d : Nat) : MQ × Out :=
  match s.tix.find? (fun x => x.d == d) with
  | none => (s, .bad)
  | some x =>
    if x.fired = none ∧ t = x.t0 + cfg.lat then
      -- legacy: stamped with the `now` captured before the yield
      if cfg.legacy = true ∧ x.t0 < t then
        -- the engine discards an event stamped before its current time ("time travel")
        ({ s with tix := s.tix.filter (fun y => y.d != d) }, .emit x.k x.c (s.cnt x.k) x.t0)
      else ({ s with tix := s.tix.map (Ticket.fire d (s.cnt x.k) t) }, .emit x.k x.c (s.cnt x.k) t)
    else (s, .bad)

/-- the engine hands delivery event `d` to its consumer at the event's timestamp -/
def MQ.recv (s : MQ) (t d : Nat) : MQ × Out :=
  match s.tix.find? (fun x => x.d == d) with
  | none => (s, .bad)
  | some x =>
    match x.fired with
    | some (n, stamp) =>
      if stamp = t then ({ s with tix := s.tix.filter (fun y => y.d != d) }, .recv x.k x.c n)
      else (s, .bad)
    | none => (s, .bad)

def MQ.step (cfg : Cfg) (s : MQ) (t : Nat) : Act → MQ × Out
  | .pub => s.publish cfg
  | .poll => s.pollA t
  | .redeliv k => MQ.deliverBegin { s with sched := s.sched.erase k } t k
  | .fire d => s.fire cfg t d
  | .recv d => s.recv t d
  | .ack k => (s.ackMsg cfg k, .unit)
  | .rej k rq => (s.reject cfg k rq, .unit)
  | .tmo k => s.timeout cfg k
  | .sub c => ({ s with cons := insertNew s.cons c }, .unit)
  | .unsub c => ({ s with cons := s.cons.erase c }, .unit)

/-- the public counters an observer can read after every action -/
structure Ctr where
  P : Nat
  F : Nat
  A : Nat
  D : Nat
  pub : Nat
  del : Nat
  red : Nat
  rej : Nat
  dl : Nat
deriving Repr, DecidableEq

def MQ.ctr (s : MQ) : Ctr :=
  ⟨s.pending.length, s.inflight.length, s.nAck, s.dlq.length, s.npub, s.nDel, s.nRed, s.nRej, s.nDl⟩

/-- one observed step: time, action, its visible result, the counters right after it -/
structure ORec where
  t : Nat
  act : Act
  out : Out
  ctr : Ctr
deriving Repr

/-- run a schedule, producing the observable trace -/
def MQ.run (cfg : Cfg) (s : MQ) : List (Nat × Act) → List ORec
  | [] => []
  | (t, a) :: rest =>
    ⟨t, a, (s.step cfg t a).2, (s.step cfg t a).1.ctr⟩ :: MQ.run cfg (s.step cfg t a).1 rest

def MQ.exec (cfg : Cfg) (s : MQ) : List (Nat × Act) → MQ
  | [] => s
  | (t, a) :: rest => MQ.exec cfg (s.step cfg t a).1 rest

/-- public per-message state at the end: 0 pending, 1 delivered (in flight), 2 dead-lettered, 3 gone -/
def MQ.finalState (s : MQ) (k : Nat) : Nat :=
  if k ∈ s.live then (if k ∈ s.inflight then 1 else 0)
  else if k ∈ s.dlq then 2 else 3

end HappyModel.C19
