import HappyModel.C05.Parallel
/-!
# C05 — the property as decidable predicates over *observed* values

"Running a model split into partitions connected by links with a positive minimum latency delivers
to every entity the same deliveries (time, event type) in the same time order as running the same
model in a single sequential simulation (only the relative order of deliveries carrying the same
timestamp may differ), for any window size up to the minimum link latency, whenever cross-partition
delays respect the declared minimum. No cross-partition event is lost, duplicated or discarded as
being in the past, and independent partitions (no links) behave exactly like separate simulations."

Observed: per-entity delivery logs `(time ns, event type)` written by the harness entities in the
parallel run and in the sequential run, the number of "Time travel detected" warnings, the number
of cross-partition emissions made by handlers and the number the coordinator reports as delivered.
-/
namespace HappyModel.C05

/-- one observed delivery: (time in ns, event type) -/
abbrev Obs := Nat × Nat

def TimeSorted (l : List Obs) : Prop := l.Pairwise (fun a b => a.1 ≤ b.1)

instance (l : List Obs) : Decidable (TimeSorted l) := by unfold TimeSorted; infer_instance

/-- the compared range: deliveries up to `end_time` (the engine's one-event overshoot of the
    horizon lies outside it on both sides) -/
def upTo (T : Nat) (l : List Obs) : List Obs := l.filter (fun o => o.1 ≤ T)

/-- "the same deliveries in the same time order; only the relative order of deliveries carrying the
    same timestamp may differ": both logs are sorted by time and are permutations of each other -/
def TieEquiv (a b : List Obs) : Prop := TimeSorted a ∧ TimeSorted b ∧ a.Perm b

instance (a b : List Obs) : Decidable (TieEquiv a b) := by unfold TieEquiv; infer_instance

structure EntObs where
  ent : Nat
  seq : List Obs
  par : List Obs
deriving Repr

/-- main clause, over what was observed -/
def ParEqSeq (T : Nat) (os : List EntObs) : Prop :=
  ∀ o ∈ os, TieEquiv (upTo T o.seq) (upTo T o.par)

/-- "no cross-partition event is lost, duplicated or discarded as being in the past" -/
def NoLoss (timeTravel outboxed injected : Nat) : Prop := timeTravel = 0 ∧ outboxed = injected

/-- signature of the first failing clause for one entity, `none` if it holds -/
def judgeEnt (T : Nat) (o : EntObs) : Option String :=
  let s := upTo T o.seq
  let p := upTo T o.par
  if ¬ TimeSorted p then some "par/log-not-time-sorted"
  else if ¬ TimeSorted s then some "seq/log-not-time-sorted"
  else if s.isPerm p then none
  else if s.any (fun x => p.count x < s.count x) then some "par/delivery-lost"
  else some "par/delivery-extra"

def judge (T : Nat) (os : List EntObs) (timeTravel outboxed injected : Nat) (nondet : Bool) :
    Option String :=
  if timeTravel ≠ 0 then some "par/cross-event-discarded-as-time-travel"
  else if injected < outboxed then some "par/cross-event-lost-at-exchange"
  else if outboxed < injected then some "par/cross-event-duplicated-at-exchange"
  else match os.findSome? (judgeEnt T) with
    | some sig => some sig
    | none => if nondet then some "par/runs-differ-across-repetitions" else none

/-! ## "whenever cross-partition delays respect the declared minimum": a valid configuration is run, not rejected

A parallel run that ends with an exception (or is otherwise aborted) where the sequential run of the same
model completes is a violation, unless the configuration really is outside the property's hypothesis.  The
hypothesis is judged on the declared configuration and on what the *sequential* run of the implementation was
observed to do: every cross-partition emission it made (`sends`: source partition, destination partition,
delay in ns). -/

/-- a declared `PartitionLink`: `decl` is `min_latency` as the decimal nanosecond count the user wrote
    (`0.067 s` ↦ `67_000_000`), `eff` the nanosecond count the engine turns that float into
    (`Duration.from_seconds`, `Instant + float`; executable glue, `eff ∈ {decl, decl − 1}`) -/
structure DLink where
  src : Nat
  dst : Nat
  decl : Nat
  eff : Nat
deriving DecidableEq, Repr

structure ConfObs where
  nparts : Nat
  links : List DLink
  /-- requested `window_size` (decimal ns), `none` = default (the minimum link latency) -/
  window : Option Nat
  /-- (partition of an entity, partition of an entity its public attributes reference) -/
  refs : List (Nat × Nat)
  /-- cross-partition emissions observed in the sequential run up to the end time -/
  sends : List (Nat × Nat × Nat)
deriving Repr

def ConfObs.linked (c : ConfObs) (a b : Nat) : Bool := c.links.any (fun l => l.src == a && l.dst == b)

/-- the hypothesis of the property, as a decidable predicate:
    links are positive and join two different existing partitions; every cross-partition reference and every
    observed cross-partition emission has a link; the window is at most every declared minimum latency; every
    observed cross-partition delay is at least the declared minimum of (every declaration of) its link. -/
def validConf (c : ConfObs) : Bool :=
  c.links.all (fun l => decide (0 < l.decl) && decide (0 < l.eff) && l.src != l.dst
                        && decide (l.src < c.nparts) && decide (l.dst < c.nparts))
  && c.refs.all (fun r => r.1 == r.2 || c.linked r.1 r.2)
  && (match c.window with
      | none => true
      | some w => decide (0 < w) && c.links.all (fun l => decide (w ≤ l.decl)))
  && c.sends.all (fun s => c.linked s.1 s.2.1 &&
        c.links.all (fun l => !(l.src == s.1 && l.dst == s.2.1) || decide (l.eff ≤ s.2.2)))

/-- the parallel run of the implementation was aborted (exception class `kind`) while its sequential run
    completed -/
def judgeRejected (c : ConfObs) : Option String :=
  if validConf c then some "par/valid-configuration-rejected" else none

end HappyModel.C05
