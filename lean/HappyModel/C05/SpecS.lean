import HappyModel.C05.Spec
/-!
# C05 — Spec for transcripts of *stateful* harness entities

Observed per entity: its deliveries in the order they happened (not canonicalised), each with the
partition of its sender (`none` = scheduled before the run).  All clauses of `Spec.judge` apply
unchanged to the `(time, kind)` projections.  In addition the judge names one cause precisely:

`par/tie-order/cross-arrival-after-local-tie` — the run diverges (some entity's deliveries up to the
end time are not the same multiset), and for some entity the *first* difference between its sequential
and its partitioned log is a same-timestamp group with the same cross-partition arrivals and pre-run
events (deliveries sent from the entity's own partition may differ: zero-delay consequences of the
order) in a different order, in which a cross-partition arrival precedes a non-cross delivery
sequentially and follows it in the partitioned run, at a time not after the earliest multiset
difference of any entity.  (A windowed
coordinator injects a cross-partition event at the barrier, after the destination has created — or
already delivered — the local events of that timestamp; sequentially the creation index decides.)
Every other divergence keeps the signature `Spec.judge` gives it.
-/
namespace HappyModel.C05

structure ObsS where
  t : Nat
  k : Nat
  /-- partition of the sender; `none` = scheduled before the run -/
  o : Option Nat
deriving DecidableEq, Repr

structure EntObsS where
  ent : Nat
  pid : Nat
  seq : List ObsS
  par : List ObsS
deriving Repr

def ObsS.obs (x : ObsS) : Obs := (x.t, x.k)

def EntObsS.plain (o : EntObsS) : EntObs := ⟨o.ent, o.seq.map ObsS.obs, o.par.map ObsS.obs⟩

def groupAt (t : Nat) (l : List ObsS) : List ObsS := l.filter (fun x => x.t == t)

def timesOf (T : Nat) (o : EntObsS) : List Nat := ((o.seq ++ o.par).map (·.t)).filter (fun t => t ≤ T)

/-- first time (up to `T`) at which the two logs differ as multisets of `(time, kind)` -/
def firstBagDiff (T : Nat) (o : EntObsS) : Option Nat :=
  ((timesOf T o).filter (fun t =>
    !((groupAt t o.seq).map ObsS.obs).isPerm ((groupAt t o.par).map ObsS.obs))).min?

/-- first time (up to `T`) at which the two logs differ as sequences -/
def firstSeqDiff (T : Nat) (o : EntObsS) : Option Nat :=
  ((timesOf T o).filter (fun t => groupAt t o.seq != groupAt t o.par)).min?

def isCross (pid : Nat) (x : ObsS) : Bool :=
  match x.o with
  | some p => p != pid
  | none => false

/-- not sent from the entity's own partition during the run: a cross-partition arrival or a pre-run event
    (only these cannot be zero-delay consequences of what happened at the same instant) -/
def notLocal (pid : Nat) (x : ObsS) : Bool := x.o != some pid

/-- some occurrence of `y` after the first occurrence of `x` -/
def beforeIn (l : List ObsS) (x y : ObsS) : Bool := ((l.dropWhile (fun z => z != x)).drop 1).contains y

/-- a cross-partition arrival `x` and a non-cross delivery `y`: `x` first sequentially, `y` first in
    the partitioned run -/
def inverted (pid : Nat) (gs gp : List ObsS) : Bool :=
  gs.any fun x => isCross pid x && gs.any fun y =>
    !isCross pid y && beforeIn gs x y && beforeIn gp y x

/-- the entity's first sequence difference is a reordered tie group with such an inversion -/
def tieOrderEnt (T : Nat) (o : EntObsS) : Option Nat :=
  match firstSeqDiff T o with
  | some t =>
    if ((groupAt t o.seq).filter (notLocal o.pid)).isPerm ((groupAt t o.par).filter (notLocal o.pid))
        && inverted o.pid (groupAt t o.seq) (groupAt t o.par)
    then some t else none
  | none => none

def tieOrderCause (T : Nat) (os : List EntObsS) : Bool :=
  match (os.filterMap (tieOrderEnt T)).min?, (os.filterMap (firstBagDiff T)).min? with
  | some te, some td => te ≤ td
  | _, _ => false

def tieOrderSig : String := "par/tie-order/cross-arrival-after-local-tie"

def isSortSig (s : String) : Bool := s == "par/log-not-time-sorted" || s == "seq/log-not-time-sorted"

def judgeS (T : Nat) (os : List EntObsS) (timeTravel outboxed injected : Nat) (nondet : Bool) :
    Option String :=
  if timeTravel ≠ 0 then some "par/cross-event-discarded-as-time-travel"
  else if injected < outboxed then some "par/cross-event-lost-at-exchange"
  else if outboxed < injected then some "par/cross-event-duplicated-at-exchange"
  else match (os.map EntObsS.plain).findSome? (fun o => (judgeEnt T o).filter isSortSig) with
    | some sig => some sig
    | none =>
      match (os.map EntObsS.plain).findSome? (judgeEnt T) with
      | some sig => if tieOrderCause T os then some tieOrderSig else some sig
      | none => if nondet then some "par/runs-differ-across-repetitions" else none

/-! ## "for any window size up to the minimum link latency": a larger window must be rejected

A partitioned run that was *not* rejected although the effective window (integer nanoseconds, as the
coordinator advances its barrier) exceeds the effective minimum of some declared link (integer
nanoseconds, as the barrier validation converts it) ran outside the property's hypothesis: events due
between that link's minimum and the window end can be injected behind the destination's clock. -/
def judgeAccepted (wEff : Nat) (effLats : List Nat) : Option String :=
  if effLats.any (fun l => decide (l < wEff)) then some "par/invalid-configuration-accepted" else none

end HappyModel.C05
