import HappyModel.C05.Parallel
/-!
# C05 — stateful harness entities and the engine's creation indices

The stateless script entities of `Driver.lean` cannot tell in which order two deliveries of one
timestamp reached them.  This file adds

* the *stateful* harness entity (`ruleStep`): per entity a delivery counter and the set of kinds seen;
  on top of the stateless script three kinds of rules — `first` (answer kind A only if no kind B was
  delivered before: order-sensitive), `nth` (emit on the n-th delivery) and `dedup` (answer a kind
  only the first time it is seen), the latter two commute on same-timestamp deliveries;
  emitted kinds carry the sender (`encK`), so that the log can say whether a delivery crossed a link;
* the creation indices as the code assigns them (`happysimulator/core/event.py::_next_sort_index`,
  `core/event_heap.py::_event_counter`, `core/sim_future.py::_set_active_context`,
  `Simulation.schedule` while a run is in progress): every event a run creates is younger than every
  pre-run event (`initCtr`), and an event injected at a barrier is re-indexed with the *destination*
  heap's counter (`injectR`) — it sorts after everything the destination created so far.
  `coordLoopR` is `coordLoop` with that exchange; it differs from `coordLoop` only in the order of
  deliveries inside one timestamp.
-/
namespace HappyModel.C05

/-- state of a stateful harness entity -/
structure ESt where
  cnt : Nat
  seen : Nat → Bool
  /-- timer codes cancelled while pending / fired -/
  cancelled : Nat → Bool := fun _ => false
  fired : Nat → Bool := fun _ => false

def ESt.init : ESt := ⟨0, fun _ => false, fun _ => false, fun _ => false⟩

inductive SRule where
  /-- entity `e` answers kind `kA` only if no kind `kB` was delivered to it before -/
  | first (e kA kB : Nat) (em : Emit)
  /-- entity `e` emits on its `n`-th delivery -/
  | nth (e n : Nat) (em : Emit)
  /-- entity `e` answers kind `k` only the first time it sees it -/
  | dedup (e k : Nat) (em : Emit)
  /-- on kind `k` entity `e` arms a timer (a self event of kind `kt` after `dt`) and sends itself a
      kind-`kc` event after `dc` whose handler *cancels* that timer (`Event.cancel()`) if it is
      still pending -/
  | tmr (e k dt kt dc kc : Nat)
deriving Repr

/-- kinds on the wire: `kind + 64·(sender entity + 1) + 4096·role`; initial events carry the bare
    kind; `role = 0` plain, `2c+2` the timer with code `c`, `2c+3` its canceller -/
def kindOf (kEnc : Nat) : Nat := kEnc % 64
def senderOf (kEnc : Nat) : Option Nat := if (kEnc / 64) % 64 = 0 then none else some ((kEnc / 64) % 64 - 1)
def roleOf (kEnc : Nat) : Nat := kEnc / 4096
def isTimer (kEnc : Nat) : Bool := decide (2 ≤ roleOf kEnc) && roleOf kEnc % 2 == 0
def isCanceller (kEnc : Nat) : Bool := decide (2 ≤ roleOf kEnc) && roleOf kEnc % 2 == 1
def codeOf (kEnc : Nat) : Nat := (roleOf kEnc - 2) / 2

/-- Cantor pairing (injective) -/
def pairN (a b : Nat) : Nat := (a + b) * (a + b + 1) / 2 + b

/-- the code of the timer a `tmr` rule arms when triggered by the delivery `(t, kEnc)` -/
def timerCode (t kEnc dt kt dc kc : Nat) : Nat := pairN (pairN t kEnc) (pairN (pairN dt kt) (pairN dc kc))

def fireRule (σ : ESt) (me k t kEnc : Nat) : SRule → List Emit
  | .first e kA kB em => if e == me && k == kA && !σ.seen kB then [em] else []
  | .nth e n em => if e == me && σ.cnt + 1 == n then [em] else []
  | .dedup e k0 em => if e == me && k == k0 && !σ.seen k0 then [em] else []
  | .tmr e k0 dt kt dc kc =>
    if e == me && k == k0 then
      [⟨dt, me, kt + 4096 * (2 * timerCode t kEnc dt kt dc kc + 2)⟩,
       ⟨dc, me, kc + 4096 * (2 * timerCode t kEnc dt kt dc kc + 3)⟩]
    else []

/-- one delivery to a stateful harness entity: new state, emissions (script lines first, then the
    rules in order), each stamped with the sender.  A cancelled timer is a *ghost*: the engine of the
    code pops and skips it (lazy deletion); here it is delivered and changes nothing. -/
def ruleStep (prog : List (Nat × Nat × Emit)) (sprog : List SRule) (σ : ESt) (t me kEnc : Nat) :
    ESt × List Emit :=
  if isTimer kEnc && σ.cancelled (codeOf kEnc) then (σ, [])
  else
    let k := kindOf kEnc
    ({ cnt := σ.cnt + 1, seen := fun j => j == k || σ.seen j,
       cancelled := fun c => (isCanceller kEnc && c == codeOf kEnc && !σ.fired c) || σ.cancelled c,
       fired := fun c => (isTimer kEnc && c == codeOf kEnc) || σ.fired c },
     (((prog.filter (fun x => x.1 == me && x.2.1 == k)).map (·.2.2)) ++ sprog.flatMap (fireRule σ me k t kEnc)).map
       (fun x => ⟨x.delay, x.tgt, x.kind + 64 * (me + 1)⟩))

/-- the engine handler: entity-local -/
def ruleHandlerL (prog : List (Nat × Nat × Emit)) (sprog : List SRule) : Handler (Nat → ESt) :=
  fun st e =>
    let r := ruleStep prog sprog (st e.tgt) e.time e.tgt e.kind
    (fun x => if x = e.tgt then r.1 else st x, r.2)

/-- a log entry of a ghost: a timer whose code is cancelled in the final state of its entity -/
def isGhost (st : Nat → ESt) (e : Ev) : Bool := isTimer e.kind && (st e.tgt).cancelled (codeOf e.kind)

/-! ## creation indices as in the code -/

/-- a partition / simulation whose loop-created events are younger than all `n` pre-run events -/
def Part.initCtr {σ} (pid start : Nat) (st : σ) (evs : List Ev) (n : Nat) : Part σ :=
  { Part.init pid start st evs with ctr := n }

def reindex (ctr : Nat) : List Ev → List Ev
  | [] => []
  | e :: es => { e with idx := ctr } :: reindex (ctr + 1) es

/-- `schedule(event)` on the destination partition at a barrier: fresh indices from its counter -/
def injectR {σ} (c : Cfg) (msgs : List Msg) (p : Part σ) : Part σ :=
  { p with heap := p.heap ++ reindex p.ctr ((msgs.filter (fun m => c.dest m == p.pid)).map (·.ev))
           ctr := p.ctr + ((msgs.filter (fun m => c.dest m == p.pid)).map (·.ev)).length
           outbox := [] }

def exchangeR {σ} (c : Cfg) (ps : List (Part σ)) : List (Part σ) :=
  ps.map (injectR c (allMsgs ps))

def oneWindowR {σ} (h : Handler σ) (c : Cfg) (strict : Bool) (fuel we : Nat) (ps : List (Part σ)) :
    List (Part σ) :=
  exchangeR c (execAll h c strict fuel we ps)

/-- `windowStep` with the re-indexing exchange -/
def windowStepR {σ} (h : Handler σ) (c : Cfg) (strict : Bool) (fuel we : Nat) (s : Coord σ) : Coord σ :=
  if (execAll h c strict fuel we s.parts).any (·.bad) then
    { s with parts := execAll h c strict fuel we s.parts, err := some .runtime }
  else if !(execAll h c strict fuel we s.parts).all (fun p => haltedB h (c.route p.pid) strict we p) then
    { s with parts := execAll h c strict fuel we s.parts, err := some .fuel }
  else if !(allMsgs (execAll h c strict fuel we s.parts)).all c.latOk then
    { s with parts := execAll h c strict fuel we s.parts, err := some .runtime }
  else
    { parts := exchangeR c (execAll h c strict fuel we s.parts), cur := we, windows := s.windows,
      injected := s.injected + (allMsgs (execAll h c strict fuel we s.parts)).length,
      outboxed := s.outboxed + (allMsgs (execAll h c strict fuel we s.parts)).length, err := none }

/-- `coordLoop` with the re-indexing exchange -/
def coordLoopR {σ} (h : Handler σ) (c : Cfg) (strict : Bool) (fuel wEff endT : Nat) :
    Nat → Coord σ → Coord σ
  | 0, s => { s with err := some .fuel }
  | n + 1, s =>
    if s.err.isSome then s
    else if endT ≤ s.cur then windowStepR h c strict fuel endT s
    else
      let we := if s.cur + wEff > endT then endT else s.cur + wEff
      let s1 := windowStepR h c strict fuel we s
      if s1.err.isSome then s1
      else
        let s' : Coord σ := { s1 with windows := s.windows + 1 }
        if s'.parts.all (·.heap.isEmpty) then s' else coordLoopR h c strict fuel wEff endT n s'

def parallelRunR {σ} (h : Handler σ) (c : Cfg) (strict : Bool) (fuel wEff endT n : Nat)
    (ps : List (Part σ)) : Coord σ :=
  if c.links.isEmpty then
    { parts := runIndependent h endT fuel ps, cur := 0, windows := 0, injected := 0, outboxed := 0,
      err := none }
  else
    coordLoopR h c strict fuel wEff endT n
      { parts := ps, cur := 0, windows := 0, injected := 0, outboxed := 0, err := none }

/-- `parallelRunR` for a run that starts at `start` (`ParallelSimulation(start_time=…)`) -/
def parallelRunRFrom {σ} (h : Handler σ) (c : Cfg) (strict : Bool) (fuel wEff endT n start : Nat)
    (ps : List (Part σ)) : Coord σ :=
  if c.links.isEmpty then
    { parts := runIndependent h endT fuel ps, cur := start, windows := 0, injected := 0, outboxed := 0,
      err := none }
  else
    coordLoopR h c strict fuel wEff endT n
      { parts := ps, cur := start, windows := 0, injected := 0, outboxed := 0, err := none }

/-- `parallelRun` for a run that starts at `start` -/
def parallelRunFrom {σ} (h : Handler σ) (c : Cfg) (strict : Bool) (fuel wEff endT n start : Nat)
    (ps : List (Part σ)) : Coord σ :=
  if c.links.isEmpty then
    { parts := runIndependent h endT fuel ps, cur := start, windows := 0, injected := 0, outboxed := 0,
      err := none }
  else
    coordLoop h c strict fuel wEff endT n
      { parts := ps, cur := start, windows := 0, injected := 0, outboxed := 0, err := none }

end HappyModel.C05
