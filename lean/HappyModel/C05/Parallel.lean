import HappyModel.C05.Engine
/-!
# C05 — partitions, links, barrier exchange, coordinator loop

Mirrors `parallel/simulation.py` (`ParallelSimulation.__init__`, `_install_routers`, `run`),
`parallel/validation.py::validate_partitions` (link names, cross references need a link,
`window_size ≤ min(link.min_latency)`), `parallel/link.py` (`min_latency > 0`) and
`parallel/coordinator.py::WindowedCoordinator.run / _exchange_events`.
Packet loss and latency distributions are not modelled (loss 0, `latency = None`).
-/
namespace HappyModel.C05

structure Link where
  src : Nat
  dst : Nat
  lat : Nat
deriving DecidableEq, Repr

structure Cfg where
  /-- entity ↦ partition -/
  partOf : Array Nat
  nparts : Nat
  links : List Link
deriving Repr

def Cfg.part (c : Cfg) (e : Nat) : Nat := c.partOf.getD e 0

def Cfg.linked (c : Cfg) (i j : Nat) : Bool := c.links.any (fun l => l.src == i && l.dst == j)

/-- `make_event_router` for partition `i` -/
def Cfg.route (c : Cfg) (i : Nat) (t : Nat) : Route :=
  if c.part t == i then .loc else if c.linked i (c.part t) then .out else .bad

/-- `_link_map[(src, dst)]`: a later declaration overwrites an earlier one -/
def Cfg.latOf (c : Cfg) (i j : Nat) : Option Nat :=
  (c.links.reverse.find? (fun l => l.src == i && l.dst == j)).map (·.lat)

/-- a cross-partition event waiting in an outbox -/
structure Msg where
  src : Nat
  ev : Ev
  sent : Nat
deriving DecidableEq, Repr

def Cfg.dest (c : Cfg) (m : Msg) : Nat := c.part m.ev.tgt

def msgsOf {σ} (p : Part σ) : List Msg := p.outbox.map (fun x => ⟨p.pid, x.1, x.2⟩)

/-- all outbox entries in the order `_exchange_events` visits them -/
def allMsgs {σ} (ps : List (Part σ)) : List Msg := ps.flatMap msgsOf

/-- the `min_latency` validation of `_exchange_events` (exact in nanoseconds) -/
def Cfg.latOk (c : Cfg) (m : Msg) : Bool :=
  match c.latOf m.src (c.dest m) with
  | some L => m.sent + L ≤ m.ev.time
  | none => false

/-- `schedule(event)` on the destination partition, outbox cleared -/
def inject {σ} (c : Cfg) (msgs : List Msg) (p : Part σ) : Part σ :=
  { p with heap := p.heap ++ (msgs.filter (fun m => c.dest m == p.pid)).map (·.ev), outbox := [] }

def exchange {σ} (c : Cfg) (ps : List (Part σ)) : List (Part σ) :=
  ps.map (inject c (allMsgs ps))

/-- EXECUTE phase: every partition runs its window (threads are not modelled: a partition's
    window is a function of its own state) -/
def execAll {σ} (h : Handler σ) (c : Cfg) (strict : Bool) (fuel we : Nat) (ps : List (Part σ)) :
    List (Part σ) :=
  ps.map (fun p => runWin h (c.route p.pid) strict we fuel p)

/-- one coordinator iteration: EXECUTE then EXCHANGE -/
def oneWindow {σ} (h : Handler σ) (c : Cfg) (strict : Bool) (fuel we : Nat) (ps : List (Part σ)) :
    List (Part σ) :=
  exchange c (execAll h c strict fuel we ps)

/-- windows over a given list of window ends (what the theorems quantify over) -/
def coordRun {σ} (h : Handler σ) (c : Cfg) (strict : Bool) (fuel : Nat) :
    List Nat → List (Part σ) → List (Part σ)
  | [], ps => ps
  | we :: ws, ps => coordRun h c strict fuel ws (oneWindow h c strict fuel we ps)

/-! ## the executable coordinator loop with its counters and error exits -/

inductive RunErr where
  | value      -- ValueError from validation / PartitionLink
  | runtime    -- RuntimeError (router: unreachable target; exchange: min_latency violated)
  | fuel       -- model fuel exhausted (never a verdict)
deriving DecidableEq, Repr

structure Coord (σ : Type) where
  parts : List (Part σ)
  cur : Nat
  windows : Nat
  injected : Nat
  outboxed : Nat
  err : Option RunErr

/-- EXECUTE + EXCHANGE up to `we`, with the exits of the code: a router raised (`RuntimeError`),
    the min-latency validation failed (`RuntimeError`); model fuel exhausted is reported apart -/
def windowStep {σ} (h : Handler σ) (c : Cfg) (strict : Bool) (fuel we : Nat) (s : Coord σ) : Coord σ :=
  if (execAll h c strict fuel we s.parts).any (·.bad) then
    { s with parts := execAll h c strict fuel we s.parts, err := some .runtime }
  else if !(execAll h c strict fuel we s.parts).all (fun p => haltedB h (c.route p.pid) strict we p) then
    { s with parts := execAll h c strict fuel we s.parts, err := some .fuel }
  else if !(allMsgs (execAll h c strict fuel we s.parts)).all c.latOk then
    { s with parts := execAll h c strict fuel we s.parts, err := some .runtime }
  else
    { parts := exchange c (execAll h c strict fuel we s.parts), cur := we, windows := s.windows,
      injected := s.injected + (allMsgs (execAll h c strict fuel we s.parts)).length,
      outboxed := s.outboxed + (allMsgs (execAll h c strict fuel we s.parts)).length, err := none }

/-- `WindowedCoordinator.run`: `while current_time < end_time` … `break` when all heaps are empty;
    when the loop ends because the end time is reached, one final pass up to `end_time` delivers
    what the last barrier injected for exactly `end_time`.
    `wEff` is the window in integer nanoseconds (`Instant + float`). -/
def coordLoop {σ} (h : Handler σ) (c : Cfg) (strict : Bool) (fuel wEff endT : Nat) :
    Nat → Coord σ → Coord σ
  | 0, s => { s with err := some .fuel }
  | n + 1, s =>
    if s.err.isSome then s
    else if endT ≤ s.cur then windowStep h c strict fuel endT s
    else
      let we := if s.cur + wEff > endT then endT else s.cur + wEff
      let s1 := windowStep h c strict fuel we s
      if s1.err.isSome then s1
      else
        let s' : Coord σ := { s1 with windows := s.windows + 1 }
        if s'.parts.all (·.heap.isEmpty) then s' else coordLoop h c strict fuel wEff endT n s'

/-- `_run_independent`: no links ⇒ no routers, every partition is `Simulation.run()` -/
def runIndependent {σ} (h : Handler σ) (endT fuel : Nat) (ps : List (Part σ)) : List (Part σ) :=
  ps.map (runSeq h endT fuel)

/-- `ParallelSimulation.run`: coordinated when links exist, otherwise independent -/
def parallelRun {σ} (h : Handler σ) (c : Cfg) (strict : Bool) (fuel wEff endT n : Nat)
    (ps : List (Part σ)) : Coord σ :=
  if c.links.isEmpty then
    { parts := runIndependent h endT fuel ps, cur := 0, windows := 0, injected := 0, outboxed := 0,
      err := none }
  else
    coordLoop h c strict fuel wEff endT n
      { parts := ps, cur := 0, windows := 0, injected := 0, outboxed := 0, err := none }

/-- `validate_partitions` + `PartitionLink.__post_init__`, as far as the harness can trigger them:
    `refs` are the (entity, referenced entity) pairs visible in public attributes. -/
def Cfg.valid (c : Cfg) (window : Option Nat) (refs : List (Nat × Nat)) : Bool :=
  c.links.all (fun l => 0 < l.lat && l.src != l.dst && l.src < c.nparts && l.dst < c.nparts)
  && refs.all (fun r => c.part r.1 == c.part r.2 || c.linked (c.part r.1) (c.part r.2))
  && (match window with
      | none => true
      | some w => c.links.isEmpty || c.links.all (fun l => w ≤ l.lat))

end HappyModel.C05
