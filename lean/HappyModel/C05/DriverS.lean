import HappyModel.C05.Driver
import HappyModel.C05.Stateful
import HappyModel.C05.SpecS
/-! Driver modes for stateful harness entities (`runs`, `judges`); every other mode is `Driver.handle`. -/
namespace HappyModel.C05.DriverS
open HappyModel.Proto HappyModel.C05 HappyModel.C05.Driver

structure CaseS where
  base : Case := {}
  sprog : List SRule := []

def parseLineS (c : CaseS) (ts : List String) : CaseS :=
  match ts with
  | ["sfirst", e, kA, kB, d, t, k2] =>
    { c with sprog := c.sprog ++ [.first (natD e) (natD kA) (natD kB) ⟨natD d, natD t, natD k2⟩] }
  | ["snth", e, n, d, t, k2] => { c with sprog := c.sprog ++ [.nth (natD e) (natD n) ⟨natD d, natD t, natD k2⟩] }
  | ["sdedup", e, k, d, t, k2] => { c with sprog := c.sprog ++ [.dedup (natD e) (natD k) ⟨natD d, natD t, natD k2⟩] }
  | ["stmr", e, k, dt, kt, dc, kc] =>
    { c with sprog := c.sprog ++ [.tmr (natD e) (natD k) (natD dt) (natD kt) (natD dc) (natD kc)] }
  | _ => { c with base := parseLine c.base ts }

def SRule.ref : SRule → Nat × Nat
  | .first e _ _ em => (e, em.tgt)
  | .nth e _ em => (e, em.tgt)
  | .dedup e _ em => (e, em.tgt)
  | .tmr e _ _ _ _ _ => (e, e)

def showTok (partOf : Nat → Nat) (x : Ev) : String :=
  let o := match senderOf x.kind with
    | none => "i"
    | some s => toString (partOf s)
  s!"{x.time}:{kindOf x.kind}:{o}"

/-- deliveries to entity `e` up to `T`, in the order they happened (`log` oldest first) -/
def rawLog (partOf : Nat → Nat) (T : Nat) (log : List Ev) (e : Nat) : String :=
  joinSp ((log.filter (fun x => x.tgt == e && x.time ≤ T)).map (showTok partOf))

/-- the deliveries the entities saw: ghosts (cancelled timers, skipped by the code's engine) removed -/
def liveLog (st : Nat → ESt) (log : List Ev) : List Ev := log.filter (fun e => !isGhost st e)

/-- cross-partition emissions of a sequential log (oldest first): replay the entities -/
def replaySends (partOf : Nat → Nat) (prog : List (Nat × Nat × Emit)) (sprog : List SRule) (T : Nat)
    (log : List Ev) : List (Nat × Nat × Nat) :=
  ((log.foldl (fun (acc : List (Nat × ESt) × List (Nat × Nat × Nat)) ev =>
      let σ := ((acc.1.find? (·.1 == ev.tgt)).map (·.2)).getD ESt.init
      let r := ruleStep prog sprog σ ev.time ev.tgt ev.kind
      let sends := if ev.time ≤ T then
          (r.2.filter (fun x => partOf x.tgt != partOf ev.tgt)).foldl
            (fun a x => insertUniq (partOf ev.tgt, partOf x.tgt, x.delay) a) acc.2
        else acc.2
      ((ev.tgt, r.1) :: acc.1.filter (·.1 != ev.tgt), sends)) ([], []))).2

def runModelS (start : Nat) (strict : Bool) (nparts : Nat) (window : Option Nat) (endT : Nat) (body : List String) :
    List String :=
  let cs := body.foldl (fun c l => parseLineS c (toks l)) ({} : CaseS)
  let cb := cs.base
  let nEnt := cb.ents.length
  let partOf : Array Nat := (List.range nEnt).toArray.map fun e => ((cb.ents.find? (·.1 == e)).map (·.2)).getD 0
  let cfgV : Cfg := { partOf := partOf, nparts := nparts, links := cb.links }
  let cfg : Cfg := { cfgV with links := cb.links.map fun l => { l with lat := wEffOf l.lat } }
  let refs := (cb.prog.map fun x => (x.1, x.2.2.tgt)) ++ cs.sprog.map SRule.ref
  let h := ruleHandlerL cb.prog cs.sprog
  let st0 : Nat → ESt := fun _ => ESt.init
  let evs : List Ev := cb.inits.zipIdx.map fun (x, i) => ⟨x.1, i, x.2.1, x.2.2⟩
  let n0 := evs.length
  let fuel := 200000
  let sq := runSeq h endT fuel (Part.initCtr 0 start st0 evs n0)
  if !haltedB h seqRoute false endT sq then ["err Fuel"] else
  let ents := List.range nEnt
  let seqLines := ents.map fun e => s!"seq {e} {rawLog cfg.part endT (liveLog sq.st sq.log.reverse) e}".trimAscii.toString
  let rejected (kind : String) : List String :=
    [s!"err {kind}"] ++ seqLines ++
      (replaySends cfg.part cb.prog cs.sprog endT sq.log.reverse).map fun x => s!"xs {x.1} {x.2.1} {x.2.2}"
  if !cfgV.valid window refs then rejected "ValueError" else
  let parts0 : List (Part (Nat → ESt)) := (List.range nparts).map fun i =>
    Part.initCtr i start st0 (evs.filter fun e => cfg.part e.tgt == i) n0
  let minLat := (cb.links.map (·.lat)).foldl min ((cb.links.map (·.lat)).headD 0)
  let wEff := match window with
    | some w => wEffOf w
    | none => wEffOf minLat
  if !cb.links.isEmpty && wEff == 0 then ["err Stall"] else
  let s := parallelRunRFrom h cfg strict fuel wEff endT 100000 start parts0
  if cb.links.isEmpty && !s.parts.all (fun p => haltedB h seqRoute false endT p) then ["err Fuel"] else
  match s.err with
  | some .value => rejected "ValueError"
  | some .runtime => rejected "RuntimeError"
  | some .fuel => ["err Fuel"]
  | none =>
    let plog := s.parts.flatMap (fun p => liveLog p.st p.log.reverse)
    let tt := (s.parts.map (·.tt.length)).sum
    (ents.map fun e => s!"par {e} {rawLog cfg.part endT plog e}".trimAscii.toString) ++ seqLines ++
      [s!"tt {tt}", s!"cross {s.outboxed} {s.injected}", s!"windows {s.windows}"]

def parseTokS (s : String) : Option ObsS :=
  match s.splitOn ":" with
  | [t, k, o] => some ⟨natD t, natD k, if o == "i" then none else some (natD o)⟩
  | _ => none

structure JAccS where
  ents : List (Nat × Nat) := []
  par : List (Nat × List ObsS) := []
  seq : List (Nat × List ObsS) := []
  tt : Nat := 0
  sent : Nat := 0
  inj : Nat := 0
  nondet : Bool := false
  bad : Bool := false

def judgeLineS (a : JAccS) (ts : List String) : JAccS :=
  match ts with
  | ["ent", e, p] => { a with ents := a.ents ++ [(natD e, natD p)] }
  | "par" :: e :: rest =>
    if rest.all (fun s => (parseTokS s).isSome) then { a with par := a.par ++ [(natD e, rest.filterMap parseTokS)] }
    else { a with bad := true }
  | "seq" :: e :: rest =>
    if rest.all (fun s => (parseTokS s).isSome) then { a with seq := a.seq ++ [(natD e, rest.filterMap parseTokS)] }
    else { a with bad := true }
  | ["tt", n] => { a with tt := natD n }
  | ["cross", s, i] => { a with sent := natD s, inj := natD i }
  | ["windows", _] => a
  | "rep" :: _ => { a with nondet := true }
  | _ => { a with bad := true }

def judgeBlockS (endT : Nat) (body : List String) : List String :=
  let a := body.foldl (fun a l => judgeLineS a (toks l)) ({} : JAccS)
  if a.bad || a.par.length != a.seq.length then ["viol harness/malformed-judge-input"] else
  let os : List EntObsS := a.par.map fun (e, p) =>
    ⟨e, ((a.ents.find? (·.1 == e)).map (·.2)).getD 0, ((a.seq.find? (·.1 == e)).map (·.2)).getD [], p⟩
  match judgeS endT os a.tt a.sent a.inj a.nondet with
  | none => ["ok"]
  | some sig => [s!"viol {sig}"]

/-- `judge <endT> cfg <window|none>` / `judges <endT> cfg <window|none>`: the transcript of a run that was not
    rejected, preceded by the declared `link` lines: first the accepted-configuration clause, then the judge -/
def judgeCfg (stateful : Bool) (endT : Nat) (window : Option Nat) (body : List String) : List String :=
  let links := (body.map toks).filterMap fun ts =>
    match ts with
    | ["link", _, _, l] => some (wEffOf (natD l))
    | _ => none
  let rest := body.filter fun l => (toks l).head? != some "link"
  let wEff := match window with
    | some w => wEffOf w
    | none => links.foldl min (links.headD 0)
  match judgeAccepted wEff links with
  | some sig => [s!"viol {sig}"]
  | none => if stateful then judgeBlockS endT rest else judgeBlock endT rest

def handle (hdr : List String) (body : List String) : List String :=
  match hdr with
  | ["judge", endT, "cfg", window] =>
    judgeCfg false (optT endT) (if window == "none" then none else some (natD window)) body
  | ["judges", endT, "cfg", window] =>
    judgeCfg true (optT endT) (if window == "none" then none else some (natD window)) body
  | ["runs", variant, nparts, window, endT] =>
    runModelS 0 (variant != "current") (natD nparts) (if window == "none" then none else some (natD window))
      (optT endT) body
  | ["runs", variant, nparts, window, endT, start] =>
    runModelS (natD start) (variant != "current") (natD nparts) (if window == "none" then none else some (natD window))
      (optT endT) body
  | ["run", variant, nparts, window, endT, start] =>
    runModelFrom (natD start) (variant != "current") (natD nparts) (if window == "none" then none else some (natD window))
      (optT endT) body
  | ["judges", endT] => judgeBlockS (optT endT) body
  | _ => Driver.handle hdr body

end HappyModel.C05.DriverS
