/-!
# C05 — one partition = one small sequential engine

Mirrors `happysimulator/core/simulation.py::_execute_until` (the loop shared by `_run_loop_fast`
and `_run_window`), `Event.__lt__` (time, then creation index) and
`happysimulator/parallel/routing.py::make_event_router` (local / outbox / unreachable).

* the heap is an unordered list, `pop` extracts the `(time, idx)`-minimum (CPython `heapq` trusted);
* a handler is an arbitrary function of the partition's entity state and the delivered event,
  returning the new state and the events it wants scheduled (`Emit`: delay ≥ 0 is a `Nat`);
* `strict = false` is the horizon rule of `_run_loop_fast` / the *unpatched* `_run_window`
  (stop when the **clock** has passed the end, i.e. deliver one event beyond it);
  `strict = true` is the repaired window rule (peek, never pop an event with `time > window_end`).
No `Float` here; times are nanoseconds.
-/
namespace HappyModel.C05

structure Ev where
  time : Nat
  idx : Nat
  tgt : Nat
  kind : Nat
deriving DecidableEq, Repr, Inhabited

/-- what a handler asks to schedule (`Event(time = now + delay, target, event_type)`) -/
structure Emit where
  delay : Nat
  tgt : Nat
  kind : Nat
deriving DecidableEq, Repr

/-- `Event.__lt__` -/
def keyLt (a b : Ev) : Bool := a.time < b.time || (a.time == b.time && a.idx < b.idx)

/-- minimum of a non-empty list `m :: l` under `keyLt` (first minimal element wins) -/
def minOf : Ev → List Ev → Ev
  | m, [] => m
  | m, x :: xs => if keyLt x m then minOf x xs else minOf m xs

/-- events created by one handler call: creation indices `ctr, ctr+1, …` in list order -/
def mkEvents (now ctr : Nat) : List Emit → List Ev
  | [] => []
  | s :: ss => ⟨now + s.delay, ctr, s.tgt, s.kind⟩ :: mkEvents now (ctr + 1) ss

/-- verdict of the partition's event router for a target entity -/
inductive Route where
  | loc | out | bad
deriving DecidableEq, Repr

abbrev Handler (σ : Type) := σ → Ev → σ × List Emit

structure Part (σ : Type) where
  pid : Nat
  heap : List Ev
  clock : Nat
  ctr : Nat
  st : σ
  /-- deliveries, newest first -/
  log : List Ev
  /-- `(event, send_time)`, oldest first (what the router appended during the window) -/
  outbox : List (Ev × Nat)
  /-- events discarded with the "Time travel detected" warning, newest first -/
  tt : List Ev
  /-- the router raised (target neither local nor reachable over a link) -/
  bad : Bool

def isLoc (r : Nat → Route) (e : Ev) : Bool := r e.tgt == .loc
def isOut (r : Nat → Route) (e : Ev) : Bool := r e.tgt == .out
def isBad (r : Nat → Route) (e : Ev) : Bool := r e.tgt == .bad

/-- the body of the loop for a live, not-in-the-past event `e` (already removed from the heap) -/
def deliver {σ} (h : Handler σ) (r : Nat → Route) (p : Part σ) (e : Ev) (rest : List Ev) : Part σ :=
  let evs := mkEvents e.time p.ctr (h p.st e).2
  { pid := p.pid
    heap := rest ++ evs.filter (isLoc r)
    clock := e.time
    ctr := p.ctr + (h p.st e).2.length
    st := (h p.st e).1
    log := e :: p.log
    outbox := p.outbox ++ (evs.filter (isOut r)).map (fun x => (x, e.time))
    tt := p.tt
    bad := p.bad || evs.any (isBad r) }

/-- the time-travel branch: the popped event is dropped with a warning -/
def discard {σ} (p : Part σ) (e : Ev) (rest : List Ev) : Part σ :=
  { p with heap := rest, tt := e :: p.tt }

/-- one iteration of `while heap.has_events() and current_time <= end:`; `none` = loop exits -/
def stepWin {σ} (h : Handler σ) (r : Nat → Route) (strict : Bool) (we : Nat) (p : Part σ) :
    Option (Part σ) :=
  match p.heap with
  | [] => none
  | x :: xs =>
    if p.bad then none
    else if we < p.clock then none
    else if strict && we < (minOf x xs).time then none
    else if (minOf x xs).time < p.clock then
      some (discard p (minOf x xs) ((x :: xs).erase (minOf x xs)))
    else some (deliver h r p (minOf x xs) ((x :: xs).erase (minOf x xs)))

/-- the loop, fuel-indexed (the code's loop has no bound; `Halted` says the fuel sufficed) -/
def runWin {σ} (h : Handler σ) (r : Nat → Route) (strict : Bool) (we : Nat) :
    Nat → Part σ → Part σ
  | 0, p => p
  | n + 1, p =>
    match stepWin h r strict we p with
    | none => p
    | some p' => runWin h r strict we n p'

def Halted {σ} (h : Handler σ) (r : Nat → Route) (strict : Bool) (we : Nat) (p : Part σ) : Prop :=
  stepWin h r strict we p = none

def haltedB {σ} (h : Handler σ) (r : Nat → Route) (strict : Bool) (we : Nat) (p : Part σ) : Bool :=
  (stepWin h r strict we p).isNone

/-- a fresh partition / simulation: clock at the start time, events pushed by `schedule()` -/
def Part.init {σ} (pid : Nat) (start : Nat) (st : σ) (evs : List Ev) : Part σ :=
  { pid := pid, heap := evs, clock := start, ctr := 0, st := st, log := [], outbox := [], tt := [],
    bad := false }

/-- the plain `Simulation`: every target is local, loose horizon rule -/
def seqRoute : Nat → Route := fun _ => .loc

def runSeq {σ} (h : Handler σ) (endT : Nat) (fuel : Nat) (p : Part σ) : Part σ :=
  runWin h seqRoute false endT fuel p

end HappyModel.C05
