import HappyModel.Proto
import HappyModel.C05.Spec
import HappyModel.C05.Stateful
/-! Line-protocol driver for C05 (other side: `hv/props/c05.py`). -/
namespace HappyModel.C05.Driver
open HappyModel.Proto HappyModel.C05

/-- `int((ns / 1e9) * 1e9)`: what `Instant + float_seconds` adds for a window given in ns.
    Executable float glue only; no theorem mentions it. -/
def wEffOf (ns : Nat) : Nat := ((Float.ofNat ns / 1e9) * 1e9).toUInt64.toNat

def infT : Nat := 4611686018427387904

structure Case where
  ents : List (Nat × Nat) := []          -- entity, partition
  links : List Link := []
  prog : List (Nat × Nat × Emit) := []   -- entity, kind, emit
  inits : List (Nat × Nat × Nat) := []   -- time, entity, kind
  sends : List (Nat × Nat × Nat) := []   -- judge input: observed cross-partition emissions (src part, dst part, delay)

def parseLine (c : Case) (ts : List String) : Case :=
  match ts with
  | ["ent", e, p] => { c with ents := c.ents ++ [(natD e, natD p)] }
  | ["link", s, d, l] => { c with links := c.links ++ [⟨natD s, natD d, natD l⟩] }
  | ["emit", e, k, d, t, k2] => { c with prog := c.prog ++ [(natD e, natD k, ⟨natD d, natD t, natD k2⟩)] }
  -- the script passes the delay as float seconds (`event.time + d/1e9`): the engine adds `int((d/1e9)*1e9)` ns
  | ["emit", e, k, d, t, k2, "s"] => { c with prog := c.prog ++ [(natD e, natD k, ⟨wEffOf (natD d), natD t, natD k2⟩)] }
  | ["xs", a, b, d] => { c with sends := c.sends ++ [(natD a, natD b, natD d)] }
  | ["init", t, e, k] => { c with inits := c.inits ++ [(natD t, natD e, natD k)] }
  | _ => c

/-- the harness entity: on (entity, kind) emit the script lines in order; no entity state -/
def scriptHandler (prog : List (Nat × Nat × Emit)) : Handler Unit :=
  fun _ e => ((), (prog.filter (fun x => x.1 == e.tgt && x.2.1 == e.kind)).map (·.2.2))

def obsLe (a b : Obs) : Bool := a.1 < b.1 || (a.1 == b.1 && a.2 ≤ b.2)

def canon (T : Nat) (log : List Ev) (e : Nat) : List Obs :=
  (((log.filter (fun x => x.tgt == e && x.time ≤ T)).map (fun x => (x.time, x.kind)))).mergeSort obsLe

def showObs (l : List Obs) : String := joinSp (l.map fun o => s!"{o.1}:{o.2}")

def optT (s : String) : Nat := if s == "inf" then infT else natD s

def tripleLt (a b : Nat × Nat × Nat) : Bool :=
  a.1 < b.1 || (a.1 == b.1 && (a.2.1 < b.2.1 || (a.2.1 == b.2.1 && a.2.2 < b.2.2)))

def insertUniq (x : Nat × Nat × Nat) : List (Nat × Nat × Nat) → List (Nat × Nat × Nat)
  | [] => [x]
  | y :: ys => if x == y then y :: ys else if tripleLt x y then x :: y :: ys else y :: insertUniq x ys

/-- the cross-partition emissions made by the deliveries of a log up to `T`: (source partition, destination
    partition, delay), sorted, without repetitions -/
def crossSends (partOf : Nat → Nat) (prog : List (Nat × Nat × Emit)) (T : Nat) (log : List Ev) :
    List (Nat × Nat × Nat) :=
  (log.filter (fun x => x.time ≤ T)).foldl (fun acc ev =>
    (prog.filter (fun x => x.1 == ev.tgt && x.2.1 == ev.kind && partOf x.2.2.tgt != partOf ev.tgt)).foldl
      (fun acc x => insertUniq (partOf ev.tgt, partOf x.2.2.tgt, x.2.2.delay) acc) acc) []

/-- the run of a stateless script program that starts at `start` (`start_time=`) -/
def runModelFrom (start : Nat) (strict : Bool) (nparts : Nat) (window : Option Nat) (endT : Nat) (body : List String) :
    List String :=
  let cs := body.foldl (fun c l => parseLine c (toks l)) ({} : Case)
  let nEnt := cs.ents.length
  let partOf : Array Nat := (List.range nEnt).toArray.map fun e => ((cs.ents.find? (·.1 == e)).map (·.2)).getD 0
  -- validation compares the declared float seconds (decimal order = float order)
  let cfgV : Cfg := { partOf := partOf, nparts := nparts, links := cs.links }
  -- the barrier exchange validates in nanoseconds against `Duration.from_seconds(min_latency)`
  let cfg : Cfg := { cfgV with links := cs.links.map fun l => { l with lat := wEffOf l.lat } }
  let refs := cs.prog.map fun x => (x.1, x.2.2.tgt)
  let h := scriptHandler cs.prog
  let evs : List Ev := cs.inits.zipIdx.map fun (x, i) => ⟨x.1, i, x.2.1, x.2.2⟩
  let fuel := 200000
  -- sequential copy
  let sq := runSeq h endT fuel (Part.init 0 start () evs)
  if !haltedB h seqRoute false endT sq then ["err Fuel"] else
  let ents := List.range nEnt
  let seqLines := ents.map fun e => s!"seq {e} {showObs (canon endT sq.log e)}".trimAscii.toString
  -- a rejected run reports the sequential logs and the cross-partition emissions of the sequential run
  let rejected (kind : String) : List String :=
    [s!"err {kind}"] ++ seqLines ++
      (crossSends cfg.part cs.prog endT sq.log).map fun x => s!"xs {x.1} {x.2.1} {x.2.2}"
  if !cfgV.valid window refs then rejected "ValueError" else
  let parts0 : List (Part Unit) := (List.range nparts).map fun i =>
    Part.init i start () (evs.filter fun e => cfg.part e.tgt == i)
  let minLat := (cs.links.map (·.lat)).foldl min ((cs.links.map (·.lat)).headD 0)
  let wEff := match window with
    | some w => wEffOf w
    | none => wEffOf minLat
  if !cs.links.isEmpty && wEff == 0 then ["err Stall"] else
  let s := parallelRunFrom h cfg strict fuel wEff endT 100000 start parts0
  if cs.links.isEmpty && !s.parts.all (fun p => haltedB h seqRoute false endT p) then ["err Fuel"] else
  match s.err with
  | some .value => rejected "ValueError"
  | some .runtime => rejected "RuntimeError"
  | some .fuel => ["err Fuel"]
  | none =>
    let plog := s.parts.flatMap (·.log)
    let tt := (s.parts.map (·.tt.length)).sum
    (ents.map fun e => s!"par {e} {showObs (canon endT plog e)}".trimAscii.toString) ++ seqLines ++
      [s!"tt {tt}", s!"cross {s.outboxed} {s.injected}", s!"windows {s.windows}"]

def runModel (strict : Bool) (nparts : Nat) (window : Option Nat) (endT : Nat) (body : List String) :
    List String :=
  runModelFrom 0 strict nparts window endT body

def parseObsTok (s : String) : Option Obs :=
  match s.splitOn ":" with
  | [t, k] => some (natD t, natD k)
  | _ => none

structure JAcc where
  par : List (Nat × List Obs) := []
  seq : List (Nat × List Obs) := []
  tt : Nat := 0
  sent : Nat := 0
  inj : Nat := 0
  nondet : Bool := false
  bad : Bool := false

def judgeLine (a : JAcc) (ts : List String) : JAcc :=
  match ts with
  | "par" :: e :: rest => { a with par := a.par ++ [(natD e, rest.filterMap parseObsTok)] }
  | "seq" :: e :: rest => { a with seq := a.seq ++ [(natD e, rest.filterMap parseObsTok)] }
  | ["tt", n] => { a with tt := natD n }
  | ["cross", s, i] => { a with sent := natD s, inj := natD i }
  | ["windows", _] => a
  | "rep" :: _ => { a with nondet := true }
  | _ => { a with bad := true }

def judgeBlock (endT : Nat) (body : List String) : List String :=
  let a := body.foldl (fun a l => judgeLine a (toks l)) ({} : JAcc)
  if a.bad || a.par.length != a.seq.length then ["viol harness/malformed-judge-input"] else
  let os : List EntObs := a.par.map fun (e, p) =>
    ⟨e, ((a.seq.find? (·.1 == e)).map (·.2)).getD [], p⟩
  match judge endT os a.tt a.sent a.inj a.nondet with
  | none => ["ok"]
  | some sig => [s!"viol {sig}"]

/-- `judge-err <nparts> <window|none>`: the parallel run was aborted; body = the declared configuration
    (`ent`, `link`, `emit` lines) and the implementation's transcript (`err …`, `seq …`, `xs …`) -/
def judgeErrBlock (nparts : Nat) (window : Option Nat) (body : List String) : List String :=
  let cs := body.foldl (fun c l => parseLine c (toks l)) ({} : Case)
  let partOf : Nat → Nat := fun e => ((cs.ents.find? (·.1 == e)).map (·.2)).getD 0
  let conf : ConfObs :=
    { nparts := nparts
      links := cs.links.map fun l => ⟨l.src, l.dst, l.lat, wEffOf l.lat⟩
      window := window
      refs := cs.prog.map fun x => (partOf x.1, partOf x.2.2.tgt)
      sends := cs.sends }
  match judgeRejected conf with
  | none => ["ok"]
  | some sig => [s!"viol {sig}"]

def handle (hdr : List String) (body : List String) : List String :=
  match hdr with
  | ["run", variant, nparts, window, endT] =>
    runModel (variant != "current") (natD nparts) (if window == "none" then none else some (natD window))
      (optT endT) body
  | ["judge", endT] => judgeBlock (optT endT) body
  | ["judge-err", nparts, window] =>
    judgeErrBlock (natD nparts) (if window == "none" then none else some (natD window)) body
  | _ => ["bad-mode"]

end HappyModel.C05.Driver
