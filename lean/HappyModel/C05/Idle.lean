import HappyModel.C05.Parallel
/-!
# C05 — coordinator schedules with idle fast-forward

"… partitions that are idle across several windows": the coordinator of `/repo` performs one barrier
per window even when no partition has anything due.  This file states the general schedule such a
coordinator (or any variant that skips, merges or re-aligns empty windows) follows: a list of
*actions*, each either a window (EXECUTE + EXCHANGE up to `we`) or a *skip* that moves the barrier
time forward without running anything.  `HappyProofs/C05/Idle.lean` proves which skips are sound
(up to the earliest pending event) and exhibits one that is not (rounding past it).
The executable coordinator loop (`coordLoop`, what the driver runs) is the skip-free instance.
-/
namespace HappyModel.C05

/-- earliest pending event time over all partitions
    (`min(sim._event_heap.peek().time for sim in simulations)`), `none` when every heap is empty -/
def nextDue {σ} (ps : List (Part σ)) : Option Nat :=
  ((ps.flatMap (·.heap)).map (·.time)).min?

inductive Act where
  /-- run every partition up to `we`, then exchange -/
  | win (we : Nat)
  /-- move the barrier time to `b'` without running anything -/
  | skip (b' : Nat)
deriving DecidableEq, Repr

/-- barrier time and partitions after a list of coordinator actions -/
def schedRun {σ} (h : Handler σ) (c : Cfg) (strict : Bool) (fuel : Nat) :
    List Act → Nat × List (Part σ) → Nat × List (Part σ)
  | [], s => s
  | .win we :: as, s => schedRun h c strict fuel as (we, oneWindow h c strict fuel we s.2)
  | .skip b' :: as, s => schedRun h c strict fuel as (b', s.2)

/-- number of idle windows a fast-forward jumps, rounding the idle stretch to the *nearest* window
    (`round(idle / w)`, ties to even as Python does) — the unsound variant;
    `idle / w` (floor) is the sound one. -/
def roundDiv (idle w : Nat) : Nat :=
  let q := idle / w
  let r := idle % w
  if 2 * r < w then q else if 2 * r > w then q + 1 else if q % 2 == 0 then q else q + 1

end HappyModel.C05
