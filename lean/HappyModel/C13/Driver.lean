import HappyModel.Proto
import HappyModel.C13.FloatDet
import HappyModel.C13.Spec
/-! Line-protocol driver for C13 (the other side is `hv/props/c13.py`). -/
namespace HappyModel.C13.Driver
open HappyModel.Proto HappyModel.C13

def floatOfBits (s : String) : Float := Float.ofBits (UInt64.ofNat (natD s))
def bitsOf (f : Float) : Nat := f.toBits.toNat

def stChar : MState → String
  | .alive => "A" | .suspect => "S" | .dead => "D"

def kindChar : UKind → String
  | .suspect => "s" | .dead => "d" | .alive => "a"

def updsStr (us : List Update) : String :=
  if us.isEmpty then "-" else ";".intercalate (us.map fun u => s!"{u.member}:{kindChar u.kind}:{u.inc}")

def parseUpd (s : String) : Option Update :=
  match s.splitOn ":" with
  | [m, k, i] =>
    let kind? := match k with
      | "s" => some UKind.suspect | "d" => some UKind.dead | "a" => some UKind.alive | _ => none
    kind?.map fun kind => ⟨natD m, kind, natD i⟩
  | _ => none

def parseUpds (s : String) : List Update :=
  if s == "-" then [] else (s.splitOn ";").filterMap parseUpd

def rowLine (n a : Nat) (nd : Node FDet) : String :=
  s!"r {a} " ++ joinSp ((List.range n).map fun x =>
    if x == a then "-" else stChar (nd.view x) ++ toString (nd.member x).inc)

def idxList (l : List Nat) : String :=
  if l.isEmpty then "-" else ",".intercalate (l.map toString)

def repStr (a : Nat) (r : Spec.Report) : String :=
  s!"s {a} {r.ac} {r.sc} {r.dc} {idxList r.al} {idxList r.sl} {idxList r.dl} {r.ra} {r.rs} {r.rd}"

/-- the summary reports of the model node: computed from the member table, as `stats`,
    `alive_members`, … and `repr` of the code are -/
def repLine (n a : Nat) (nd : Node FDet) : String :=
  repStr a (Spec.reportOf a ((List.range n).map nd.view))

/-- the row of per-member states followed by the summary reports -/
def rowLines (n a : Nat) (nd : Node FDet) : List String := [rowLine n a nd, repLine n a nd]

def parseIdxList (s : String) : List Nat :=
  if s == "-" then [] else (s.splitOn ",").map natD

def parseReport (ts : List String) : Option Spec.Report :=
  match ts with
  | [ac, sc, dc, al, sl, dl, ra, rs, rd] =>
    some ⟨natD ac, natD sc, natD dc, parseIdxList al, parseIdxList sl, parseIdxList dl, natD ra, natD rs, natD rd⟩
  | _ => none

/-- the `s` line that follows the `r` line of node `a` (if any) agrees with the row -/
def reportAfterOk (a : Nat) (sts : List MState) (rest : List (List String)) : Bool :=
  match rest with
  | ("s" :: a' :: ts) :: _ =>
    if natD a' != a then true else
    match parseReport ts with
    | none => false
    | some r => Spec.reportOk a sts r
  | _ => true

def msgLineTag (tag : String) (m : Msg) : String :=
  let k := match m.kind with | .ping => "p" | .ack => "a"
  let f := match m.ifor with | none => "-" | some x => toString x
  s!"{tag} {m.id} {k} {m.src} {m.dst} {f} {updsStr m.upds}"

/-- `m …` = handed to the network and routed, `l …` = refused by the network (partition) -/
def msgLine (m : Msg) : String := msgLineTag "m" m

def tkChar : TKind → String
  | .ind => "i" | .susp => "s"

def natsComma (s : String) : List Nat :=
  if s == "" || s == "-" then [] else (s.splitOn ",").map natD

def parseAct (ts : List String) : Option (Act × String) :=
  match ts with
  | "T" :: a :: now :: shuf => some (.tick (natD a) (natD now) (nats shuf), "")
  | "D" :: id :: now :: _ => some (.deliver (natD id) (natD now), "")
  | "O" :: a :: x :: k :: now :: shuf => some (.timeout (natD a) (natD x) (natD now) (nats shuf), k)
  | "C" :: x :: now :: _ => some (.crash (natD x) (natD now), "")
  | ["P", now, h, ga, gb] => some (.cut (natD h) (natsComma ga) (natsComma gb) (natD now), "")
  | ["H", now, h] => some (.heal (natD h) (natD now), "")
  | _ => none

def sortNat (l : List Nat) : List Nat := l.mergeSort (· ≤ ·)

/-- timers / ticks of live nodes that should have fired before `now` -/
def overdue {D : Type} [Inhabited D] [Detector D] (n : Nat) (s : Sys D) (now : Nat) : List String :=
  (List.range n).flatMap fun a =>
    if s.isCrashed a then [] else
    let nd := s.node a
    (if nd.nextTick < now then [s!"overdue tick {a}"] else []) ++
    (List.range n).filterMap fun x =>
      match nd.pendOf x with
      | some t => if t.fire < now then some s!"overdue timer {a} {x}" else none
      | none => none

/-- the messages sent by the last commit in id order, routed (`m`) or refused (`l`) -/
def sentLines (pre post : Sys FDet) : List String :=
  let routed := (post.soup.filter fun m => m.id ≥ pre.nextId).map fun m => (m.id, msgLine m)
  let lost := if post.nextId == pre.nextId then [] else
    (post.lost.filter fun m => m.id ≥ pre.nextId).map fun m => (m.id, msgLineTag "l" m)
  ((routed ++ lost).mergeSort fun x y => x.1 ≤ y.1).map (·.2)

def newMsgs (pre post : Sys FDet) : List String := sentLines pre post

/-- output lines for one action (after the echo line) -/
def actLines (c : Cfg) (s : Sys FDet) (act : Act) (k : String) : Sys FDet × List String :=
  let s' := step c s act
  match act with
  | .tick a now shuf =>
    if s.isCrashed a then (s', [])
    else if (s.node a).nextTick != now then (s', ["bad tick"])
    else
      let nd1 := phiCheck c.n a now (s.node a)
      let al := aliveOrder c.n a nd1
      let resh := !al.isEmpty && nd1.pidx ≥ al.length
      let bad := if resh && sortNat shuf != sortNat al then ["badshuf"] else []
      let ms := if s'.nextId == s.nextId then [] else
        (s'.soup.filter fun m => m.id ≥ s.nextId) ++ (s'.lost.filter fun m => m.id ≥ s.nextId)
      let tl := match ms with
        | m :: _ => match (s'.node a).pendOf m.dst with
          | some t => [s!"t {m.dst} {tkChar t.kind} {t.fire}"]
          | none => ["t none"]
        | [] => []
      (s', bad ++ rowLines c.n a (s'.node a) ++ sentLines s s' ++ tl ++ [s!"k {(s'.node a).nextTick}"])
  | .deliver id _ =>
    match s.soup.find? (fun m => m.id == id) with
    | none => (s', ["bad deliver"])
    | some m =>
      if s.isCrashed m.dst then (s', [s!"to {m.dst} crashed"])
      else (s', [s!"to {m.dst}"] ++ rowLines c.n m.dst (s'.node m.dst) ++ newMsgs s s')
  | .timeout a x now shuf =>
    if s.isCrashed a then (s', []) else
    match (s.node a).pendOf x with
    | none => (s', ["bad timeout none-pending"])
    | some t =>
      if t.fire != now then (s', ["bad timeout wrong-time"])
      else if tkChar t.kind != k then (s', ["bad timeout wrong-kind"])
      else
        let bad := match t.kind with
          | .ind => if sortNat shuf != sortNat (delegateCands c.n a x (if c.fix then suspect (s.node a) x else s.node a))
                    then ["badshuf"] else []
          | .susp => []
        let tl := match t.kind with
          | .ind => match (s'.node a).pendOf x with
            | some t' => [s!"t {x} {tkChar t'.kind} {t'.fire}"]
            | none => ["t none"]
          | .susp => []
        (s', bad ++ rowLines c.n a (s'.node a) ++ newMsgs s s' ++ tl)
  | .crash _ _ => (s', [])
  | .cut .. => (s', [])
  | .heal .. => (s', [])

def parseCfg (ts : List String) : Cfg × FDet :=
  match ts with
  | [n, iv, half, susp, ind, fix, ystar, zeroAvail, initIv] =>
    (⟨natD n, natD iv, natD half, natD susp, natD ind, fix == "1"⟩,
     FDet.refresh
       { ystar := floatOfBits ystar, zeroAvail := zeroAvail == "1",
         ivs := if initIv == "none" then #[] else #[floatOfBits initIv] })
  | _ => (⟨0, 0, 0, 0, 0, true⟩, {})

def parseInit (ts : List String) : Option (Nat × Nat × List Nat) :=
  match ts with
  | "init" :: a :: off :: order => some (natD a, natD off, nats order)
  | _ => none

def runCluster (hdr : List String) (body : List String) : List String :=
  let (c, det) := parseCfg hdr
  let inits := body.filterMap fun l => parseInit (toks l)
  let orders := (List.range c.n).map fun a => ((inits.find? (·.1 == a)).map (·.2.2)).getD []
  let offs := (List.range c.n).map fun a => ((inits.find? (·.1 == a)).map (·.2.1)).getD 0
  let s0 : Sys FDet := Sys.init c det orders offs
  let rec go (s : Sys FDet) (acc : Array String) : List String → Sys FDet × Array String
    | [] => (s, acc)
    | l :: ls =>
      let ts := toks l
      match parseAct ts with
      | none =>
        match ts with
        | ["J", now, src, dst, ups] =>
          -- harness-forged gossip (outside `step`; the judge then skips clauses 1 and 2)
          let m : Msg := ⟨s.nextId, .ping, natD src, natD dst, natD now, none, parseUpds ups⟩
          go { s with now := natD now, soup := s.soup ++ s.routed [m], nextId := s.nextId + 1 }
            ((acc.push s!"J {now}").push (msgLineTag (if s.blocked m.src m.dst then "l" else "m") m)) ls
        | _ => go s acc ls
      | some (act, k) =>
        let od := overdue c.n s act.time
        let echo := joinSp (ts.take (match act with
          | .tick .. => 3 | .deliver .. => 3 | .timeout .. => 5 | .crash .. => 3 | .cut .. => 5 | .heal .. => 3))
        let (s', out) := actLines c s act k
        go s' (((acc ++ od.toArray).push echo) ++ out.toArray) ls
  let (s, acc) := go s0 #[] body
  (acc ++ ((List.range c.n).flatMap fun a => (rowLines c.n a (s.node a)).map ("F " ++ ·)).toArray).toList

/-! ### judge (Spec predicates on an implementation transcript) -/

def parseCell (s : String) : Spec.Cell :=
  if s == "-" then ⟨.alive, 0⟩ else
  let st := match s.take 1 |>.toString with
    | "S" => MState.suspect | "D" => MState.dead | _ => MState.alive
  ⟨st, natD (s.drop 1).toString⟩

structure JSt where
  now : Nat := 0
  crashAt : List (Option Nat) := []
  rows : List (List Spec.Cell) := []
  sent : Array Nat := #[]
  maxDelay : Nat := 0

/-- pass 1: maximal one-way delay, crash times -/
def scan (st : JSt) (ts : List String) : JSt :=
  match ts with
  | "T" :: _ :: now :: _ => { st with now := natD now }
  | "O" :: _ :: _ :: _ :: now :: _ => { st with now := natD now }
  | "J" :: now :: _ => { st with now := natD now }
  | "P" :: now :: _ => { st with now := natD now }
  | "H" :: now :: _ => { st with now := natD now }
  | "C" :: x :: now :: _ => { st with now := natD now, crashAt := lset none st.crashAt (natD x) (some (natD now)) }
  | "D" :: id :: now :: _ =>
    let t := natD now
    let d := t - st.sent.getD (natD id) t
    { st with now := t, maxDelay := max st.maxDelay d }
  | "m" :: id :: _ =>
    let i := natD id
    { st with sent := (if st.sent.size ≤ i then st.sent ++ Array.replicate (i + 1 - st.sent.size) 0 else st.sent).setIfInBounds i st.now }
  | _ => st

def judgeCluster (hdr : List String) (body : List String) : List String :=
  match hdr with
  | [n, iv, half, susp] =>
    let n := natD n; let iv := natD iv; let half := natD half; let susp := natD susp
    let lines := body.map toks
    let fin := lines.foldl scan {}
    let delta := fin.maxDelay
    let forged := lines.any fun ts => ts.head? == some "J"
    let refused := (lines.filter fun ts => ts.head? == some "l").length
    -- clauses 1 and 2 speak about a network that delivers every message within the bound
    let ok := Spec.boundOk delta half susp && Spec.lossless refused && !forged
    let k := (fin.crashAt.filter Option.isSome).length
    let noDead : List (Option Nat) := List.replicate n none
    -- `deads a x` = highest incarnation at which node a has reported x DEAD (`Spec.noteDead`)
    let rec go (now : Nat) (crashed : List Bool) (deads : List (List (Option Nat))) (i : Nat) :
        List (List String) → List String
      | [] => ["ok"]
      | ts :: rest =>
        match ts with
        | "T" :: _ :: t :: _ => go (natD t) crashed deads (i + 1) rest
        | "O" :: _ :: _ :: _ :: t :: _ => go (natD t) crashed deads (i + 1) rest
        | "D" :: _ :: t :: _ => go (natD t) crashed deads (i + 1) rest
        | "P" :: t :: _ => go (natD t) crashed deads (i + 1) rest
        | "H" :: t :: _ => go (natD t) crashed deads (i + 1) rest
        | "C" :: x :: t :: _ => go (natD t) (lset false crashed (natD x) true) deads (i + 1) rest
        | "r" :: a :: cells =>
          let a := natD a
          let row := cells.map parseCell
          let old := lget noDead deads a
          let sts := row.map (·.st)
          if row.length != n then [s!"viol membership/malformed-row line {i}"]
          else if !((List.range n).all fun x => x == a || Spec.aliveOk (lget none old x) (lget default row x)) then
            [s!"viol membership/revive/dead-to-alive-without-higher-incarnation node {a} t {now} line {i}"]
          else if ok && !Spec.noDeadLive crashed a sts then
            [s!"viol membership/false-death/live-member-marked-dead node {a} t {now} delta {delta} line {i}"]
          else if ok && !Spec.detectedRow n k iv half delta fin.crashAt a now sts then
            [s!"viol membership/detect/still-alive-after-bound node {a} t {now} delta {delta} line {i}"]
          else if !reportAfterOk a sts rest then
            [s!"viol membership/report/stats-disagree-with-member-states node {a} t {now} line {i + 1}"]
          else
            let old' := (List.range n).map fun x =>
              if x == a then none else Spec.noteDead (lget none old x) (lget default row x)
            go now crashed (lset noDead deads a old') (i + 1) rest
        | _ => go now crashed deads (i + 1) rest
    go 0 [] [] 0 lines
  | _ => ["viol membership/malformed-judge-header"]

/-! ### standalone detector -/

def runPhi (hdr : List String) (body : List String) : List String :=
  match hdr with
  | [ystar, zeroAvail, maxN, initIv] =>
    let d0 : FDet := FDet.refresh
      { ystar := floatOfBits ystar, zeroAvail := zeroAvail == "1", maxN := natD maxN,
        ivs := if initIv == "none" then #[] else #[floatOfBits initIv] }
    let rec go (d : FDet) : List String → List String
      | [] => []
      | l :: ls =>
        match toks l with
        | ["h", ns] =>
          let d' := Detector.hb d (natD ns)
          s!"h {ns} {d'.count} {bitsOf d'.mean} {bitsOf d'.std}" :: go d' ls
        | ["q", ns, phibits] =>
          s!"q {ns} {showBool (Detector.avail d (natD ns))} {phibits}" :: go d ls
        | _ => go d ls
    go d0 body
  | _ => ["bad-mode"]

/-- what the judge knows about the detector from the heartbeats alone: time of the last recorded
    heartbeat, whether the interval window is non-empty, a bound on every interval ever recorded -/
structure PhiJ where
  last : Option Nat := none
  haveIv : Bool := false
  m : Nat := 0

def PhiJ.hb (j : PhiJ) (ns : Nat) : PhiJ :=
  match j.last with
  | none => { j with last := some ns }
  | some l =>
    if l < ns then { last := some ns, haveIv := true, m := max j.m (ns - l) }
    else { j with last := some ns }

/-- phi samples between two heartbeats must be non-decreasing in time (samples arrive in
    increasing time order), `+∞` included: after `+∞` only `+∞`; `is_available` must equal
    `phi < threshold`; after a long enough silence following a recorded heartbeat the level must have
    reached the threshold (`Spec.detectedSample`; judged when the header carries the bootstrap
    interval, `min_std` and the window size).  Values are compared as `PV`s obtained from the bit
    patterns (no floats). -/
def judgePhi (hdr : List String) (body : List String) : List String :=
  let go5 (thrS : String) (clause5 : Bool) (initIv minStd maxN : Nat) : List String :=
    match Spec.pvOfBits (natD thrS) with
    | none => ["viol phi/malformed-judge-header"]
    | some thr =>
    let rec go (seg : List PV) (lastT : Nat) (j : PhiJ) (i : Nat) : List String → List String
      | [] => if Spec.nondecreasing Spec.pvLe seg.reverse then ["ok"] else [s!"viol phi/decreased-without-heartbeat line {i}"]
      | l :: ls =>
        match toks l with
        | "h" :: ns :: _ =>
          if Spec.nondecreasing Spec.pvLe seg.reverse then go [] 0 (j.hb (natD ns)) (i + 1) ls
          else [s!"viol phi/decreased-without-heartbeat line {i}"]
        | ["q", ns, av, phibits] =>
          match Spec.pvOfBits (natD phibits) with
          | none => [s!"viol phi/negative-or-nan line {i}"]
          | some p =>
            if natD ns < lastT then [s!"viol phi/malformed-samples-not-increasing line {i}"]
            else if (av == "1") != Spec.pvLt p thr then [s!"viol phi/available-inconsistent-with-threshold line {i}"]
            else if !(match seg with | [] => true | q :: _ => Spec.pvLe q p) then
              [s!"viol phi/decreased-without-heartbeat line {i}"]
            else if clause5 && !(match j.last with
                | none => true
                | some lh => Spec.detectedSample (j.haveIv && decide (1 ≤ maxN)) j.m minStd lh (natD ns) thr p) then
              [s!"viol phi/silent-member-not-suspected line {i} t {ns} last-heartbeat {j.last.getD 0} bound {Spec.silenceBound j.m minStd}"]
            else go (p :: seg) (natD ns) j (i + 1) ls
        | _ => go seg lastT j (i + 1) ls
    go [] 0 { haveIv := decide (0 < initIv), m := initIv } 0 body
  match hdr with
  | [thr] => go5 thr false 0 0 0
  | [thr, initIv, minStd, maxN] => go5 thr true (natD initIv) (natD minStd) (natD maxN)
  | _ => ["viol phi/malformed-judge-header"]

def handle (hdr : List String) (body : List String) : List String :=
  match hdr with
  | "cluster" :: rest => runCluster rest body
  | "judge-cluster" :: rest => judgeCluster rest body
  | "phi" :: rest => runPhi rest body
  | "judge-phi" :: rest => judgePhi rest body
  | _ => ["bad-mode"]

end HappyModel.C13.Driver
