/-!
C13 — model of `happysimulator/components/consensus/membership.py` (`MembershipProtocol`).

Message-passing style (DESIGN §4): per-node handler functions over a node state, plus a soup of
messages in flight.  Actions are "probe tick of node a", "deliver message id", "ack-timeout /
suspicion-timeout of node a for member x fires", "node x crashes".  Every action carries the
simulated time at which it happens; timer actions are only effective at exactly the time the
timer was armed for, and only while it is still the entry of `_pending_acks` (cancellation in the
code = removal/replacement of that entry).

What is an *input* (an oracle, quantified over in the theorems): the results of
`random.shuffle` (probe order, delegate choice), the delivery time of every message, crash times,
and the `Network.partition(group_a, group_b)` / `Partition.heal()` calls made on the network.

The network (`components/network/network.py`) decides when it is handed a message (same instant
as the send) whether to route it: a message whose (unordered) endpoint pair is blocked by a
partition handle that has not been healed is dropped; messages already in flight are delivered.

The failure detector is a parameter (`Detector D`): `hb` = `PhiAccrualDetector.heartbeat`,
`avail` = `is_available`.  The executable driver instantiates it with the float evaluation
(`FloatDet.lean`); theorems hold for every detector.
-/
namespace HappyModel.C13

/-! ### total list maps (index ↦ value with a default; Python dicts keyed by member index) -/

def lget {α} (d : α) : List α → Nat → α
  | [], _ => d
  | x :: _, 0 => x
  | _ :: xs, i+1 => lget d xs i

def lset {α} (d : α) : List α → Nat → α → List α
  | [], 0, v => [v]
  | [], i+1, v => d :: lset d [] i v
  | _ :: xs, 0, v => v :: xs
  | x :: xs, i+1, v => x :: lset d xs i v

theorem lget_nil {α} (d : α) (i : Nat) : lget d [] i = d := by cases i <;> rfl

@[simp] theorem lget_lset_same {α} (d : α) (l : List α) (i : Nat) (v : α) :
    lget d (lset d l i v) i = v := by
  induction l generalizing i with
  | nil => induction i with
    | zero => rfl
    | succ i ih => simpa [lset, lget] using ih
  | cons x xs ih => cases i with
    | zero => rfl
    | succ i => simpa [lset, lget] using ih i

theorem lget_lset_other {α} (d : α) (l : List α) (i j : Nat) (v : α) (h : j ≠ i) :
    lget d (lset d l i v) j = lget d l j := by
  induction l generalizing i j with
  | nil =>
    induction i generalizing j with
    | zero => cases j with
      | zero => exact absurd rfl h
      | succ j => simp [lset, lget]
    | succ i ih => cases j with
      | zero => simp [lset, lget]
      | succ j => simpa [lset, lget, lget_nil] using ih j (by omega)
  | cons x xs ih => cases i with
    | zero => cases j with
      | zero => exact absurd rfl h
      | succ j => rfl
    | succ i => cases j with
      | zero => rfl
      | succ j => simpa [lset, lget] using ih i j (by omega)

/-! ### data -/

inductive MState | alive | suspect | dead
deriving DecidableEq, Repr, Inhabited

inductive UKind | suspect | dead | alive
deriving DecidableEq, Repr, Inhabited

/-- one piggy-backed membership update `{"member":…, "state":…, "incarnation":…}` -/
structure Update where
  member : Nat
  kind : UKind
  inc : Nat
deriving DecidableEq, Repr, Inhabited

inductive TKind | ind | susp
deriving DecidableEq, Repr, Inhabited

/-- the live entry of `_pending_acks[x]`: the ack timeout (`MembershipIndirectPing`) or the
    `MembershipSuspicionTimeout`, with the time it fires -/
structure Timer where
  kind : TKind
  fire : Nat
deriving DecidableEq, Repr, Inhabited

inductive MKind | ping | ack
deriving DecidableEq, Repr, Inhabited

structure Msg where
  id : Nat
  kind : MKind
  src : Nat
  dst : Nat
  sent : Nat
  ifor : Option Nat      -- `indirect_for` (carried, ignored by the receiver — as in the code)
  upds : List Update
deriving DecidableEq, Repr, Inhabited

class Detector (D : Type) where
  hb : D → Nat → D
  avail : D → Nat → Bool

structure Member (D : Type) where
  st : MState := .alive
  inc : Nat := 0
  det : D

instance {D} [Inhabited D] : Inhabited (Member D) := ⟨{ det := default }⟩

structure Node (D : Type) where
  mem : List (Member D) := []
  pend : List (Option Timer) := []
  upds : List Update := []
  order : List Nat := []
  pidx : Nat := 0
  nextTick : Nat := 0
  selfInc : Nat := 0

instance {D} : Inhabited (Node D) := ⟨{}⟩

structure Cfg where
  n : Nat
  interval : Nat
  half : Nat        -- `probe_interval * 0.5` in ns
  susp : Nat
  indirect : Nat
  /-- `true` = repaired code (an un-acked direct probe makes the member SUSPECT);
      `false` = pinned code (the suspicion timer is armed but the member stays ALIVE) -/
  fix : Bool := true
deriving Repr

/-- a message a handler wants to send (the system stamps id and time) -/
structure Out where
  kind : MKind
  dst : Nat
  ifor : Option Nat
  upds : List Update
deriving Repr, Inhabited

section handlers
variable {D : Type} [Inhabited D] [Detector D]

def Node.member (nd : Node D) (x : Nat) : Member D := lget default nd.mem x
def Node.view (nd : Node D) (x : Nat) : MState := (nd.member x).st
def Node.pendOf (nd : Node D) (x : Nat) : Option Timer := lget none nd.pend x
def Node.setMember (nd : Node D) (x : Nat) (m : Member D) : Node D :=
  { nd with mem := lset default nd.mem x m }
def Node.setPend (nd : Node D) (x : Nat) (t : Option Timer) : Node D :=
  { nd with pend := lset none nd.pend x t }

/-- `x in self._members` for node `a` of an `n`-cluster (full mesh, no self entry) -/
def isMember (n a x : Nat) : Bool := x != a && x < n

/-- one iteration of `_apply_updates` on a known member -/
def applyToMember (m : Member D) (u : Update) : Member D :=
  if u.inc < m.inc then m else
  match u.kind with
  | .suspect => if m.st = .alive then { m with st := .suspect, inc := max m.inc u.inc } else m
  | .dead => if m.st ≠ .dead then { m with st := .dead, inc := max m.inc u.inc } else m
  | .alive => if u.inc > m.inc then { m with st := .alive, inc := u.inc } else m

def applyOne (n a : Nat) (nd : Node D) (u : Update) : Node D :=
  if isMember n a u.member then nd.setMember u.member (applyToMember (nd.member u.member) u)
  else nd

/-- `_apply_updates` -/
def applyUpdates (n a : Nat) (nd : Node D) (us : List Update) : Node D :=
  us.foldl (applyOne n a) nd

/-- `detector.heartbeat(now)`; SUSPECT → ALIVE (ping and ack handlers) -/
def heard (nd : Node D) (x now : Nat) : Node D :=
  let m := nd.member x
  nd.setMember x { m with det := Detector.hb m.det now,
                          st := if m.st = .suspect then .alive else m.st }

/-- `_suspect_member` -/
def suspect (nd : Node D) (x : Nat) : Node D :=
  let m := nd.member x
  if m.st = .alive then
    { nd.setMember x { m with st := .suspect } with
      upds := nd.upds ++ [⟨x, .suspect, m.inc⟩] }
  else nd

/-- the phi loop at the start of `_handle_probe_tick`, members in insertion (= index) order -/
def phiStep (a now : Nat) (nd : Node D) (x : Nat) : Node D :=
  if x = a then nd else
  let m := nd.member x
  if m.st = .alive && !Detector.avail m.det now then suspect nd x else nd

def phiCheck (n a now : Nat) (nd : Node D) : Node D :=
  (List.range n).foldl (phiStep a now) nd

/-- the list `alive` of `_next_probe_target` -/
def aliveOrder (n a : Nat) (nd : Node D) : List Nat :=
  nd.order.filter fun x => isMember n a x && nd.view x != .dead

/-- `_next_probe_target`; `shuf` is what `random.shuffle(alive)` produced (used only when the
    round is exhausted) -/
def nextTarget (n a : Nat) (nd : Node D) (shuf : List Nat) : Node D × Option Nat :=
  let al := aliveOrder n a nd
  if al.isEmpty then (nd, none)
  else if nd.pidx ≥ al.length then
    ({ nd with order := shuf, pidx := 1 }, some (lget 0 shuf (0 % shuf.length)))
  else
    ({ nd with pidx := nd.pidx + 1 }, some (lget 0 al (nd.pidx % al.length)))

/-- `_handle_probe_tick` -/
def onTick (c : Cfg) (a now : Nat) (shuf : List Nat) (nd : Node D) : Node D × List Out :=
  let nd1 := phiCheck c.n a now nd
  let r := nextTarget c.n a nd1 shuf
  let nd2 := r.1
  match r.2 with
  | none => ({ nd2 with nextTick := now + c.interval }, [])
  | some t =>
    -- in the code `t` comes from a permutation of the non-DEAD members; a malformed oracle list
    -- cannot make the model probe a non-member
    if isMember c.n a t then
      ({ (nd2.setPend t (some ⟨.ind, now + c.half⟩)) with upds := [], nextTick := now + c.interval },
       [⟨.ping, t, none, nd2.upds⟩])
    else ({ nd2 with nextTick := now + c.interval }, [])

/-- `_handle_ping` (sender is always a member in a full mesh) -/
def onPing (c : Cfg) (a now : Nat) (m : Msg) (nd : Node D) : Node D × List Out :=
  let nd1 := applyUpdates c.n a nd m.upds
  let nd2 := if isMember c.n a m.src then heard nd1 m.src now else nd1
  ({ nd2 with upds := [] }, [⟨.ack, m.src, none, nd2.upds⟩])

/-- `_handle_ack` -/
def onAck (c : Cfg) (a now : Nat) (m : Msg) (nd : Node D) : Node D × List Out :=
  let nd1 := applyUpdates c.n a nd m.upds
  if isMember c.n a m.src then ((heard nd1 m.src now).setPend m.src none, [])
  else (nd1, [])

/-- candidates for indirect probing, in `_members` order -/
def delegateCands (n a x : Nat) (nd : Node D) : List Nat :=
  (List.range n).filter fun y => isMember n a y && y != x && nd.view y != .dead

/-- the indirect pings: the first one drains the pending updates -/
def indirectOuts (x : Nat) (ups : List Update) : List Nat → List Out
  | [] => []
  | d :: ds => ⟨.ping, d, some x, ups⟩ :: ds.map (fun d' => ⟨.ping, d', some x, []⟩)

/-- `_handle_indirect_ping` once the entry of `_pending_acks` is known to be this timer;
    `shuf` is the shuffled delegate list -/
def onIndTimeout (c : Cfg) (_a now x : Nat) (shuf : List Nat) (nd : Node D) : Node D × List Out :=
  let nd0 := if c.fix then suspect nd x else nd
  let ds := shuf.take c.indirect
  let nd1 := if ds.isEmpty then nd0 else { nd0 with upds := [] }
  (nd1.setPend x (some ⟨.susp, now + c.susp⟩), indirectOuts x nd0.upds ds)

/-- `_handle_suspicion_timeout` -/
def onSuspTimeout (x : Nat) (nd : Node D) : Node D :=
  let m := nd.member x
  let nd1 :=
    if m.st = .suspect then
      { nd.setMember x { m with st := .dead } with upds := nd.upds ++ [⟨x, .dead, m.inc⟩] }
    else nd
  nd1.setPend x none

end handlers

/-! ### the cluster -/

inductive Act
  | tick (a now : Nat) (shuf : List Nat)
  | deliver (id now : Nat)
  | timeout (a x now : Nat) (shuf : List Nat)
  | crash (x now : Nat)
  /-- `handle[h] = network.partition(ga, gb)` -/
  | cut (h : Nat) (ga gb : List Nat) (now : Nat)
  /-- `handle[h].heal()` -/
  | heal (h now : Nat)
deriving Repr

def Act.time : Act → Nat
  | .tick _ t _ | .deliver _ t | .timeout _ _ t _ | .crash _ t | .cut _ _ _ t | .heal _ t => t

/-- does a partition handle (its list of pairs) block the unordered pair `{a, b}` -/
def pairIn (ps : List (Nat × Nat)) (a b : Nat) : Bool :=
  ps.any fun p => (p.1 == a && p.2 == b) || (p.1 == b && p.2 == a)

/-- the pairs of `partition(ga, gb)` -/
def cutPairs (ga gb : List Nat) : List (Nat × Nat) :=
  ga.flatMap fun a => gb.map fun b => (a, b)

structure Sys (D : Type) where
  now : Nat := 0
  nodes : List (Node D) := []
  crashed : List Bool := []
  soup : List Msg := []
  nextId : Nat := 0
  /-- partition handles by number: the pairs each one blocks; `[]` = not created yet / healed.
      A pair stays blocked while any handle holds it (the reference counts of `Network`). -/
  cuts : List (List (Nat × Nat)) := []
  /-- the messages of the last commit that the network refused to route -/
  lost : List Msg := []

section sys
variable {D : Type} [Inhabited D] [Detector D]

def Sys.node (s : Sys D) (a : Nat) : Node D := lget default s.nodes a
def Sys.isCrashed (s : Sys D) (a : Nat) : Bool := lget false s.crashed a
def Sys.view (s : Sys D) (a x : Nat) : MState := (s.node a).view x

/-- `Network.is_partitioned` -/
def Sys.blocked (s : Sys D) (a b : Nat) : Bool := s.cuts.any fun ps => pairIn ps a b

/-- the network is whole: no handle blocks anything -/
def Sys.whole (s : Sys D) : Bool := s.cuts.all fun ps => ps.isEmpty

/-- stamp outgoing messages with consecutive ids -/
def stamp (a now : Nat) : Nat → List Out → List Msg
  | _, [] => []
  | k, o :: os => ⟨k, o.kind, a, o.dst, now, o.ifor, o.upds⟩ :: stamp a now (k + 1) os

/-- what the network does with freshly sent messages: those across an active partition vanish -/
def Sys.routed (s : Sys D) (ms : List Msg) : List Msg := ms.filter fun m => !s.blocked m.src m.dst
def Sys.refused (s : Sys D) (ms : List Msg) : List Msg := ms.filter fun m => s.blocked m.src m.dst

/-- install the result of a handler of node `a` -/
def Sys.commit (s : Sys D) (a now : Nat) (r : Node D × List Out) (soup : List Msg) : Sys D :=
  { s with now := now, nodes := lset default s.nodes a r.1,
           soup := soup ++ s.routed (stamp a now s.nextId r.2),
           lost := s.refused (stamp a now s.nextId r.2), nextId := s.nextId + r.2.length }

def handleMsg (c : Cfg) (a now : Nat) (m : Msg) (nd : Node D) : Node D × List Out :=
  match m.kind with
  | .ping => onPing c a now m nd
  | .ack => onAck c a now m nd

/-- one action; anything that is not enabled leaves the state alone (apart from the clock) -/
def step (c : Cfg) (s : Sys D) : Act → Sys D
  | .tick a now shuf =>
    if s.isCrashed a || (s.node a).nextTick != now then { s with now := now }
    else s.commit a now (onTick c a now shuf (s.node a)) s.soup
  | .deliver id now =>
    match s.soup.find? (fun m => m.id == id) with
    | none => { s with now := now }
    | some m =>
      if s.isCrashed m.dst then { s with now := now, soup := s.soup.erase m }
      else s.commit m.dst now (handleMsg c m.dst now m (s.node m.dst)) (s.soup.erase m)
  | .timeout a x now shuf =>
    if s.isCrashed a then { s with now := now } else
    match (s.node a).pendOf x with
    | none => { s with now := now }
    | some t =>
      if t.fire != now then { s with now := now }
      else match t.kind with
        | .ind => s.commit a now (onIndTimeout c a now x shuf (s.node a)) s.soup
        | .susp => s.commit a now (onSuspTimeout x (s.node a), []) s.soup
  | .crash x now => { s with now := now, crashed := lset false s.crashed x true }
  | .cut h ga gb now => { s with now := now, cuts := lset [] s.cuts h (cutPairs ga gb) }
  | .heal h now => { s with now := now, cuts := lset [] s.cuts h [] }

def run (c : Cfg) (s : Sys D) : List Act → Sys D
  | [] => s
  | a :: as => run c (step c s a) as

/-- initial node: every other member ALIVE with a fresh detector; `order` = the shuffled probe
    order of `start()`, first tick at `off + interval` -/
def Node.init (c : Cfg) (det : D) (order : List Nat) (off : Nat) : Node D :=
  { mem := List.replicate c.n { det := det }, pend := List.replicate c.n none,
    order := order, nextTick := off + c.interval }

def Sys.init (c : Cfg) (det : D) (orders : List (List Nat)) (offs : List Nat) : Sys D :=
  { nodes := (List.range c.n).map fun a => Node.init c det (lget [] orders a) (lget 0 offs a),
    crashed := List.replicate c.n false }

end sys

end HappyModel.C13
