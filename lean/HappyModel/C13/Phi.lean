/-!
Exact model of `PhiAccrualDetector.phi` for the monotonicity clause.

The code computes, with `elapsed = now − last_heartbeat`,
`y = (elapsed − mean) / max(std, min_std)`, `p = 0.5·erfc(y/√2)`, and returns `0` when there is
no heartbeat / no interval / `elapsed < 0`, `+∞` when `p ≤ 0`, `−log10 p` otherwise.

Here time is integer nanoseconds, `mean` and `sd` are arbitrary functions of the interval window
(only `0 < sd` matters — the code enforces it with `min_std`), `y` is a fixed-point number with
`scale` fractional units (floor division), and the two transcendental functions are *parameters*:
`tail : Int → Int` (the scaled normal tail, assumed antitone) and `nlog : Int → Int` (the scaled
`−log10`, assumed antitone on positive arguments and non-negative on the range of `tail`).
-/
namespace HappyModel.C13

/-- phi values: finite or `+∞` -/
inductive PV
  | fin (v : Int)
  | inf
deriving DecidableEq, Repr

def PV.le : PV → PV → Prop
  | .fin a, .fin b => a ≤ b
  | _, .inf => True
  | .inf, .fin _ => False

instance : (a b : PV) → Decidable (PV.le a b)
  | .fin a, .fin b => inferInstanceAs (Decidable (a ≤ b))
  | .fin _, .inf => isTrue trivial
  | .inf, .inf => isTrue trivial
  | .inf, .fin _ => isFalse (fun h => h)

structure PhiFns where
  tail : Int → Int
  nlog : Int → Int
  mean : List Nat → Int
  sd : List Nat → Int
  scale : Nat

/-- detector state that matters for `phi`: last heartbeat and the interval window -/
structure QDet where
  last : Option Nat := none
  ivs : List Nat := []
  maxN : Nat := 200
deriving Repr

/-- `heartbeat` -/
def QDet.hb (d : QDet) (ts : Nat) : QDet :=
  match d.last with
  | none => { d with last := some ts }
  | some l =>
    if l < ts then
      let w := d.ivs ++ [ts - l]
      { d with last := some ts, ivs := if w.length > d.maxN then w.drop 1 else w }
    else { d with last := some ts }

/-- `phi(now)` -/
def QDet.phi (F : PhiFns) (d : QDet) (now : Nat) : PV :=
  match d.last with
  | none => .fin 0
  | some l =>
    if d.ivs.length < 1 then .fin 0
    else if now < l then .fin 0
    else
      let y := (((now - l : Nat) : Int) - F.mean d.ivs) * (F.scale : Int) / F.sd d.ivs
      let p := F.tail y
      if p ≤ 0 then .inf else .fin (F.nlog p)

end HappyModel.C13
