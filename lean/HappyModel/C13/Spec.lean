import HappyModel.C13.Model
import HappyModel.C13.Phi
/-!
C13 specification predicates — decidable, over *observed* values only.

Property text: "In a cluster whose network delivers every message within a bound well below the
probe interval, no member ever marks a live member DEAD, for any probe order and timing.  If a
member stops responding for good, every other live member stops reporting it ALIVE within a bounded
number of probe rounds, and a member reported DEAD is not reported ALIVE again without a higher
incarnation; the phi-accrual suspicion level never decreases while no heartbeat arrives."

Observables: `get_member_state(x)` (and the member's incarnation) of node `a` for every `x` — a
*row* — after every delivered event; which nodes have been crashed by the harness; send and delivery
times of every message, and which messages the network refused to route (`is_partitioned`);
sampled `phi(now)` values (IEEE-754 bit patterns).
-/
namespace HappyModel.C13.Spec
open HappyModel.C13

/-- one reported cell: state and incarnation of a member as seen by a node -/
structure Cell where
  st : MState
  inc : Nat
deriving DecidableEq, Repr, Inhabited

/-- "a bound well below the probe interval": with one-way delay bound `delta`, a probe's round trip
    (`2·delta`) ends before the suspicion timer armed for it (`half` after the probe, running
    `susp`) can fire.  `delta < probe_interval/2 ≤ suspicion_timeout` implies it. -/
def boundOk (delta half susp : Nat) : Bool := 2 * delta < half + susp

/-- clause 1 on one row of node `a`: no member that has not crashed is DEAD -/
def noDeadLive (crashed : List Bool) (a : Nat) (row : List MState) : Bool :=
  (List.range row.length).all fun x =>
    x == a || lget false crashed x || lget MState.alive row x != .dead

/-- clause 3 on two consecutive reports of the same cell: DEAD → ALIVE needs a higher incarnation -/
def reviveOk (old new : Cell) : Bool :=
  !(old.st == .dead && new.st == .alive && new.inc ≤ old.inc)

/-! clause 3 over the *whole history* of a cell: once DEAD has been reported at incarnation `k`, no
later report — however many SUSPECT/DEAD reports lie in between — is ALIVE with incarnation `≤ k`. -/

/-- the highest incarnation at which the cell has been reported DEAD so far -/
def noteDead (d : Option Nat) (c : Cell) : Option Nat :=
  if c.st == .dead then
    some (match d with | none => c.inc | some k => max k c.inc)
  else d

/-- is a report admissible, DEAD having been reported at incarnation `d` before -/
def aliveOk (d : Option Nat) (c : Cell) : Bool :=
  match d with
  | none => true
  | some k => !(c.st == .alive && c.inc ≤ k)

/-- clause 3 on the list of successive reports of one cell (what the judge evaluates, one report at
    a time).  `reviveTrace_iff_pairwise` (HappyProofs) shows it is the same as `reviveOk` for every
    earlier/later pair of reports. -/
def reviveTrace : Option Nat → List Cell → Bool
  | _, [] => true
  | d, c :: cs => aliveOk d c && reviveTrace (noteDead d c) cs

/-- "the network delivers every message": nothing was refused by the network (no message crossed
    an active partition).  Clauses 1 and 2 speak about such runs only. -/
def lossless (refused : Nat) : Bool := refused == 0

/-- number of probe ticks after which an un-answering member must have been probed again by a node
    of an `n`-cluster in which at most `k` members crash: every pass over the probe order has at
    most `n-1` ticks, a member can be skipped in a pass only when another member turns DEAD -/
def detectTicks (n k : Nat) : Nat := (k + 1) * (n - 1) + 2

/-- the time after which a member that crashed at `c` may no longer be reported ALIVE -/
def detectDeadline (n k interval half delta c : Nat) : Nat :=
  c + delta + detectTicks n k * interval + half

/-- clause 2 on one row of a live node `a` reported at time `t`: every member whose crash is older
    than the deadline is not ALIVE.  `crashAt x = some c` when `x` crashed at `c`. -/
def detectedRow (n k interval half delta : Nat) (crashAt : List (Option Nat)) (a t : Nat)
    (row : List MState) : Bool :=
  (List.range row.length).all fun x =>
    x == a ||
    match lget none crashAt x with
    | none => true
    | some c => t ≤ detectDeadline n k interval half delta c || lget MState.alive row x != .alive

/-! clause 2, every public report: besides `get_member_state`, a node reports its view through the
lists `alive_members` / `suspected_members` / `dead_members`, the counters of `stats` and the counts
shown by `repr`.  All of them must say what the per-member states say. -/

/-- the public summary reports of one node -/
structure Report where
  /-- `stats.alive_count`, `stats.suspect_count`, `stats.dead_count` -/
  ac : Nat
  sc : Nat
  dc : Nat
  /-- `alive_members`, `suspected_members`, `dead_members` (member indices, in member-table order) -/
  al : List Nat
  sl : List Nat
  dl : List Nat
  /-- the counts printed by `repr` -/
  ra : Nat
  rs : Nat
  rd : Nat
deriving DecidableEq, Repr, Inhabited

/-- the members of node `a` that its row shows in state `st`, in index order -/
def membersIn (a : Nat) (row : List MState) (st : MState) : List Nat :=
  (List.range row.length).filter fun x => x != a && lget MState.alive row x == st

/-- the report that agrees with a row -/
def reportOf (a : Nat) (row : List MState) : Report :=
  let al := membersIn a row .alive
  let sl := membersIn a row .suspect
  let dl := membersIn a row .dead
  ⟨al.length, sl.length, dl.length, al, sl, dl, al.length, sl.length, dl.length⟩

/-- every summary report of node `a` agrees with the per-member states it reports -/
def reportOk (a : Nat) (row : List MState) (r : Report) : Bool := r == reportOf a row

/-- a reported phi value (bit pattern of a binary64) as a `PV`.  Non-negative finite doubles are
    ordered exactly like their bit patterns, so the pattern itself serves as the (scaled) value;
    `0x7FF0000000000000` is `+∞`, `0x8000000000000000` is `-0.0 = 0`; negative numbers and NaNs are
    not suspicion levels. -/
def pvOfBits (b : Nat) : Option PV :=
  if b < 0x7FF0000000000000 then some (.fin b)
  else if b = 0x7FF0000000000000 then some .inf
  else if b = 0x8000000000000000 then some (.fin 0)
  else none

def pvLe (a b : PV) : Bool := decide (PV.le a b)

/-- strictly below (`phi < threshold`, what `is_available` must report) -/
def pvLt (a b : PV) : Bool := !pvLe b a

/-! clause 5 — real failures are detected at the detector level.  Once a heartbeat has been recorded
and the interval window is not empty, the suspicion level is not stuck at its "no data" value: after
a silence that is long for *every* window the history can have produced, it has reached the
threshold.  `m` bounds every interval that was ever recorded (the bootstrap interval and every
positive gap between consecutive heartbeats), so mean ≤ m and max(std, min_std) ≤ max(m, min_std);
a silence of `m + 39·max(m, min_std)` puts the standardised distance at 39 or more, where the normal
tail is below 1e-300 — phi above 300 in exact arithmetic, `+∞` in the code's floats. -/

/-- the silence after which any window bounded by `m` gives phi above 300 -/
def silenceBound (m minStd : Nat) : Nat := m + 39 * max m minStd

/-- 300.0 as a `PV` (bit pattern): thresholds up to here are covered by `silenceBound` -/
def phiCeil : PV := .fin 0x4072C00000000000

/-- clause 5 on one sample `p = phi(t)`: `last` = time of the last recorded heartbeat (whatever its
    value — the epoch `0` is a time like any other), `haveIv` = the window is not empty -/
def detectedSample (haveIv : Bool) (m minStd last t : Nat) (thr p : PV) : Bool :=
  !(haveIv && pvLe thr phiCeil && decide (last + silenceBound m minStd ≤ t)) || pvLe thr p

/-- clause 4: a list of samples is non-decreasing w.r.t. a decidable order -/
def nondecreasing {α} (le : α → α → Bool) : List α → Bool
  | [] => true
  | [_] => true
  | a :: b :: rest => le a b && nondecreasing le (b :: rest)

end HappyModel.C13.Spec
