import HappyModel.C13.Model
import HappyModel.C13.Phi
/-!
C13 specification predicates — decidable, over *observed* values only.

Property text: "In a cluster whose network delivers every message within a bound well below the
probe interval, no member ever marks a live member DEAD, for any probe order and timing.  If a
member stops responding for good, every other live member stops reporting it ALIVE within a bounded
number of probe rounds, and a member reported DEAD is not reported ALIVE again without a higher
incarnation; the phi-accrual suspicion level never decreases while no heartbeat arrives."

Observables: `get_member_state(x)` (and the member's incarnation) of node `a` for every `x` — a
*row* — after every delivered event; which nodes have been crashed by the harness; send and delivery
times of every message; sampled `phi(now)` values.
-/
namespace HappyModel.C13.Spec
open HappyModel.C13

/-- one reported cell: state and incarnation of a member as seen by a node -/
structure Cell where
  st : MState
  inc : Nat
deriving DecidableEq, Repr, Inhabited

/-- "a bound well below the probe interval": with one-way delay bound `delta`, a probe's round trip
    (`2·delta`) ends before the suspicion timer armed for it (`half` after the probe, running
    `susp`) can fire.  `delta < probe_interval/2 ≤ suspicion_timeout` implies it. -/
def boundOk (delta half susp : Nat) : Bool := 2 * delta < half + susp

/-- clause 1 on one row of node `a`: no member that has not crashed is DEAD -/
def noDeadLive (crashed : List Bool) (a : Nat) (row : List MState) : Bool :=
  (List.range row.length).all fun x =>
    x == a || lget false crashed x || lget MState.alive row x != .dead

/-- clause 3 on two consecutive reports of the same cell: DEAD → ALIVE needs a higher incarnation -/
def reviveOk (old new : Cell) : Bool :=
  !(old.st == .dead && new.st == .alive && new.inc ≤ old.inc)

/-- number of probe ticks after which an un-answering member must have been probed again by a node
    of an `n`-cluster in which at most `k` members crash: every pass over the probe order has at
    most `n-1` ticks, a member can be skipped in a pass only when another member turns DEAD -/
def detectTicks (n k : Nat) : Nat := (k + 1) * (n - 1) + 2

/-- the time after which a member that crashed at `c` may no longer be reported ALIVE -/
def detectDeadline (n k interval half delta c : Nat) : Nat :=
  c + delta + detectTicks n k * interval + half

/-- clause 2 on one row of a live node `a` reported at time `t`: every member whose crash is older
    than the deadline is not ALIVE.  `crashAt x = some c` when `x` crashed at `c`. -/
def detectedRow (n k interval half delta : Nat) (crashAt : List (Option Nat)) (a t : Nat)
    (row : List MState) : Bool :=
  (List.range row.length).all fun x =>
    x == a ||
    match lget none crashAt x with
    | none => true
    | some c => t ≤ detectDeadline n k interval half delta c || lget MState.alive row x != .alive

/-- clause 4: a list of samples is non-decreasing w.r.t. a decidable order -/
def nondecreasing {α} (le : α → α → Bool) : List α → Bool
  | [] => true
  | [_] => true
  | a :: b :: rest => le a b && nondecreasing le (b :: rest)

end HappyModel.C13.Spec
