import HappyModel.C13.Model
/-!
Executable glue only (GUIDE rule 5: no theorem mentions `Float`): the float evaluation of
`PhiAccrualDetector` used by the driver.  `heartbeat`, `_mean`, `_std` and the standardised
distance `y = (elapsed − mean) / max(std, min_std)` are computed with the same IEEE operations in
the same order as the Python code (including the compensated `sum()` of CPython ≥ 3.12).  `math.erfc`/`log10` are not available in core Lean; the decision
`phi(now) < threshold` is taken as `y < ystar`, where `ystar` (shipped by the harness, found by
bisection on the real `−log10(0.5·erfc(y/√2))`) is the least double whose phi reaches the
threshold.  The correspondence compares these decisions with `is_available` of the real detector.
-/
namespace HappyModel.C13

structure FDet where
  last : Option Float := none
  ivs : Array Float := #[]
  count : Nat := 0
  maxN : Nat := 200
  minStd : Float := 0.1
  ystar : Float := 0.0
  /-- `0.0 < threshold` (what `is_available` answers while phi is 0.0) -/
  zeroAvail : Bool := true
  /-- `_mean()` / `max(_std(), min_std)` of the current window, recomputed whenever the window
      changes (`refresh`); `phi` is asked far more often than heartbeats arrive -/
  cmean : Float := 0.0
  csd : Float := 0.1

instance : Inhabited FDet := ⟨{}⟩

def secOfNs (ns : Nat) : Float := Float.ofNat ns / 1000000000.0

/-- CPython ≥ 3.12 `sum()` over floats starting from the int `0`: the first item is taken as is
    (`0 + x₀`), the rest is added with Neumaier's compensated summation, the compensation is
    added at the end when it is non-zero and finite (`Python/bltinmodule.c`). -/
def pySum (xs : List Float) : Float :=
  match xs with
  | [] => 0.0
  | x0 :: rest =>
    let r := rest.foldl (fun (fc : Float × Float) x =>
      let f := fc.1
      let t := f + x
      let c := if f.abs >= x.abs then fc.2 + ((f - t) + x) else fc.2 + ((x - t) + f)
      (t, c)) (x0, 0.0)
    if r.2 != 0.0 && r.2.isFinite then r.1 + r.2 else r.1

def FDet.mean (d : FDet) : Float :=
  if d.ivs.isEmpty then 0.0 else pySum d.ivs.toList / Float.ofNat d.ivs.size

def FDet.std (d : FDet) : Float :=
  if d.ivs.size < 2 then 0.0 else
  let mean := d.mean
  let var := pySum (d.ivs.toList.map fun x => Float.pow (x - mean) 2.0) / Float.ofNat d.ivs.size
  Float.sqrt var

/-- recompute the cached window statistics (after building a detector or changing its window) -/
def FDet.refresh (d : FDet) : FDet :=
  let sd := d.std
  { d with cmean := d.mean, csd := if d.minStd > sd then d.minStd else sd }

def FDet.heartbeat (d : FDet) (ts : Float) : FDet :=
  let ivs :=
    match d.last with
    | none => d.ivs
    | some l =>
      let iv := ts - l
      if iv > 0.0 then
        let a := d.ivs.push iv
        if a.size > d.maxN then a.eraseIdxIfInBounds 0 else a
      else d.ivs
  FDet.refresh { d with last := some ts, ivs := ivs, count := d.count + 1 }

/-- `some y` when phi is computed from the normal tail, `none` when `phi` returns 0.0 early -/
def FDet.y (d : FDet) (now : Float) : Option Float :=
  match d.last with
  | none => none
  | some l =>
    if d.ivs.size < 1 then none else
    let el := now - l
    if el < 0.0 then none else
    some ((el - d.cmean) / d.csd)

def FDet.available (d : FDet) (now : Float) : Bool :=
  match d.y now with
  | none => d.zeroAvail
  | some y => y < d.ystar

instance : Detector FDet where
  hb d ns := d.heartbeat (secOfNs ns)
  avail d ns := d.available (secOfNs ns)

end HappyModel.C13
