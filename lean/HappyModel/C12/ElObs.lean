import HappyModel.C12.Election
import HappyModel.C12.Spec
/-!
# C12 — what a run of the `LeaderElection` model shows to the per-node judge

One `Spec.ElStep` per handler invocation: the node whose handler runs, its reported
`(current_term, current_leader)` before and after, and — for a delivered `LeaderHeartbeat` — the term
the heartbeat carried (the lines `hv/props/c12.py:judge_election` extracts from an implementation
transcript).
-/
namespace HappyModel.C12.El
open HappyModel.C12.Spec

/-- the node whose handler runs -/
def actor : Act → Nat
  | .timeout p _ => p
  | .addMember p _ => p
  | .challenge d _ => d
  | .suppress d => d
  | .victory d _ => d
  | .token d _ _ _ => d
  | .ballot d _ _ _ => d
  | .ballotResp d => d
  | .lhb d _ _ => d

def hbTerm : Act → Option Nat
  | .lhb _ _ t => some t
  | _ => none

def obsStep (s : St) (draw : Nat) (a : Act) : ElStep :=
  { node := actor a, isHb := (hbTerm a).isSome, hterm := (hbTerm a).getD 0,
    t0 := (getNode s (actor a)).term, l0 := (getNode s (actor a)).leader,
    t1 := (getNode (step s draw a).1 (actor a)).term, l1 := (getNode (step s draw a).1 (actor a)).leader }

/-- a run with the random draw used at each step -/
def obsRun (s : St) : List (Nat × Act) → List ElStep
  | [] => []
  | (draw, a) :: as => obsStep s draw a :: obsRun (step s draw a).1 as

end HappyModel.C12.El
