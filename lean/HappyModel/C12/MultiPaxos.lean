/-!
# C12 — `MultiPaxosNode` / `FlexiblePaxosNode` as coded (multi_paxos.py, flexible_paxos.py)

Executable mirror of the pinned tree (`current`): per-node handlers; an action is one delivered
event *with its payload* (the payload of every message is compared when it is sent, so the replay
only trusts the real `Network` not to alter it).  Ballot `(number, node)` is `number * n + idx`.

What the code does and the model repeats:
* `_become_leader` ignores the logs carried by promises: pending commands go to
  `log.last_index + 1` of the *new leader's own log*, and the uncommitted suffix of that log is
  re-proposed under the new ballot;
* `_handle_promise` calls `_become_leader` on every promise at or beyond quorum, with the ballot
  the node holds *now*;
* `_slot_acks` is keyed by slot only and `_handle_accepted` checks neither ballot nor leadership;
* an acceptor appends at `last_index + 1` whatever `slot` says, and truncates on a term mismatch
  (lowering `commit_index`, never `_last_applied`);
* `submit()` on an established leader appends to the log but sends nothing;
* MultiPaxos treats its own heartbeat tick as a leader heartbeat and steps down; FlexiblePaxos
  re-sends heartbeats on the tick.
-/
namespace HappyModel.C12.MP

structure Entry where
  term : Nat
  cmd : Nat
deriving Repr, DecidableEq

structure Node where
  ballot : Nat
  isLeader : Bool := false
  leader : Option Nat := none
  log : List Entry := []
  commit : Nat := 0
  applied : Nat := 0
  acks : List (Nat × Nat) := []        -- slot → count
  futs : List (Nat × Nat) := []        -- slot → future id
  pending : List (Nat × Nat) := []     -- (command, future id)
  p1 : List (Nat × Nat) := []          -- ballot number → responses
deriving Repr

structure St where
  n : Nat
  q1 : Nat
  q2 : Nat
  flex : Bool
  nodes : List Node
  nfut : Nat := 0
  futRes : List (Nat × Nat × Nat) := []   -- (future id, slot, value), in resolution order
deriving Repr

inductive Act
  | start (p : Nat)
  | submit (p c : Nat)
  | prepare (d b : Nat)
  | promise (p bnum : Nat)
  | accept (d src b slot cmd ci : Nat)   -- src = sender (not always the ballot's owner)
  | accepted (p slot : Nat)
  | hb (d b ci : Nat)
  | selfhb (p b ci : Nat)
  | nack (p b : Nat)
deriving Repr

/-- messages / timers a handler returns -/
inductive Msg
  | prepare (dst b : Nat)
  | promise (dst b : Nat) (log : List Entry) (ci : Nat)
  | nack (dst b : Nat)
  | accept (dst b slot cmd ci : Nat)
  | accepted (dst bnum slot : Nat)
  | hb (dst b ci : Nat)
  | timer (b ci : Nat)
deriving Repr, DecidableEq

def init (n q1 q2 : Nat) (flex : Bool) : St :=
  { n := n, q1 := q1, q2 := q2, flex := flex, nodes := (List.range n).map fun i => { ballot := i } }

def lookup (l : List (Nat × Nat)) (k : Nat) : Option Nat := (l.find? (·.1 == k)).map (·.2)
def setKV (l : List (Nat × Nat)) (k v : Nat) : List (Nat × Nat) := (k, v) :: l.filter (·.1 != k)

def getNode (s : St) (i : Nat) : Node := s.nodes.getD i { ballot := i }
def setNode (s : St) (i : Nat) (x : Node) : St := { s with nodes := s.nodes.set i x }

def peers (n p : Nat) : List Nat := (List.range n).filter (· != p)

/-- `Log.advance_commit` followed by `_apply_committed`; returns the node and the futures resolved -/
def applyFrom (nd : Node) (idx : Nat) : List Entry → Node × List (Nat × Nat × Nat)
  | [] => (nd, [])
  | e :: es =>
    if idx > nd.applied then
      let res := match lookup nd.futs idx with
                 | some f => [(f, idx, e.cmd)]
                 | none => []
      let nd' := { nd with applied := idx, futs := nd.futs.filter (·.1 != idx) }
      let r := applyFrom nd' (idx + 1) es
      (r.1, res ++ r.2)
    else applyFrom nd (idx + 1) es

def advanceCommit (nd : Node) (newCi : Nat) : Node × List (Nat × Nat × Nat) :=
  if newCi ≤ nd.commit then (nd, [])
  else
    let old := nd.commit
    let c := min newCi nd.log.length
    applyFrom { nd with commit := c } (old + 1) ((nd.log.drop old).take (c - old))

def sendHeartbeat (s : St) (p : Nat) (nd : Node) : List Msg :=
  (peers s.n p).map (fun d => Msg.hb d nd.ballot nd.commit) ++ [Msg.timer nd.ballot nd.commit]

/-- `_assign_slot` for each pending command (term = ballot *number*) -/
def assignSlots (n : Nat) (nd : Node) : List (Nat × Nat) → Node
  | [] => nd
  | (c, f) :: rest =>
    let slot := nd.log.length + 1
    assignSlots n { nd with log := nd.log ++ [⟨nd.ballot / n, c⟩], futs := setKV nd.futs slot f,
                            acks := setKV nd.acks slot 1 } rest

def becomeLeader (s : St) (p : Nat) (nd : Node) : Node × List Msg :=
  let nd1 := assignSlots s.n { nd with isLeader := true, leader := some p } nd.pending
  let nd2 := { nd1 with pending := [] }
  let hb := sendHeartbeat s p nd2
  let slots := (List.range (nd2.log.length - nd2.commit)).map (· + nd2.commit + 1)
  let acc := slots.flatMap fun k =>
    match nd2.log[k - 1]? with
    | some e => (peers s.n p).map fun d => Msg.accept d nd2.ballot k e.cmd nd2.commit
    | none => []
  (nd2, hb ++ acc)

/-- one handler invocation: new state, returned messages -/
def step (s : St) : Act → St × List Msg
  | .start p =>
    let nd := getNode s p
    let b := (nd.ballot / s.n + 1) * s.n + p
    let nd1 := { nd with ballot := b, p1 := setKV nd.p1 (b / s.n) 1 }
    let prep := (peers s.n p).map fun d => Msg.prepare d b
    if s.q1 ≤ 1 then
      let r := becomeLeader s p nd1
      (setNode s p r.1, prep ++ r.2)
    else (setNode s p nd1, prep)
  | .submit p c =>
    let nd := getNode s p
    let s1 := { s with nfut := s.nfut + 1 }
    if nd.isLeader then (setNode s1 p (assignSlots s.n nd [(c, s.nfut)]), [])
    else (setNode s1 p { nd with pending := nd.pending ++ [(c, s.nfut)] }, [])
  | .prepare d b =>
    let nd := getNode s d
    if nd.ballot > b then (s, [Msg.nack (b % s.n) nd.ballot])
    else
      (setNode s d { nd with ballot := b, isLeader := false }, [Msg.promise (b % s.n) b nd.log nd.commit])
  | .promise p bnum =>
    let nd := getNode s p
    match lookup nd.p1 bnum with
    | none => (s, [])
    | some k =>
      let nd1 := { nd with p1 := setKV nd.p1 bnum (k + 1) }
      if k + 1 ≥ s.q1 then
        let r := becomeLeader s p nd1
        (setNode s p r.1, r.2)
      else (setNode s p nd1, [])
  | .accept d src b slot cmd ci =>
    let nd := getNode s d
    if b < nd.ballot then (s, [Msg.nack src nd.ballot])
    else
      let nd1 := { nd with ballot := b, leader := some (b % s.n) }
      let nd2 :=
        if slot > nd1.log.length then { nd1 with log := nd1.log ++ [⟨b / s.n, cmd⟩] }
        else
          match nd1.log[slot - 1]? with
          | some e =>
            if slot ≥ 1 ∧ e.term ≠ b / s.n then
              { nd1 with log := nd1.log.take (slot - 1) ++ [⟨b / s.n, cmd⟩],
                         commit := if nd1.commit ≥ slot then slot - 1 else nd1.commit }
            else nd1
          | none => nd1
      let r := advanceCommit nd2 ci
      ({ setNode s d r.1 with futRes := s.futRes ++ r.2 }, [Msg.accepted src (b / s.n) slot])
  | .accepted p slot =>
    let nd := getNode s p
    let k := (lookup nd.acks slot).getD 0 + 1
    let nd1 := { nd with acks := setKV nd.acks slot k }
    if k ≥ s.q2 ∧ slot > nd1.commit then
      let r := advanceCommit nd1 slot
      ({ setNode s p r.1 with futRes := s.futRes ++ r.2 }, [])
    else (setNode s p nd1, [])
  | .hb d b ci =>
    let nd := getNode s d
    if b ≥ nd.ballot then
      let r := advanceCommit { nd with ballot := b, leader := some (b % s.n), isLeader := false } ci
      ({ setNode s d r.1 with futRes := s.futRes ++ r.2 }, [])
    else (s, [])
  | .selfhb p b ci =>
    let nd := getNode s p
    if s.flex then
      if nd.isLeader then (s, sendHeartbeat s p nd) else (s, [])
    else
      if b ≥ nd.ballot then
        let r := advanceCommit { nd with ballot := b, leader := some (b % s.n), isLeader := false } ci
        ({ setNode s p r.1 with futRes := s.futRes ++ r.2 }, [])
      else (s, [])
  | .nack p b =>
    let nd := getNode s p
    if b > nd.ballot then (setNode s p { nd with ballot := b, isLeader := false }, []) else (s, [])

def run (s : St) : List Act → St
  | [] => s
  | a :: as => run (step s a).1 as

/-- what node i reports as decided for slot k (1-based): its committed log entry -/
def decidedAt (s : St) (i k : Nat) : Option Nat :=
  let nd := getNode s i
  if 1 ≤ k ∧ k ≤ nd.commit then (nd.log[k - 1]?).map (·.cmd) else none

end HappyModel.C12.MP
