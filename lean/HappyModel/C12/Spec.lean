/-!
# C12 — Spec predicates over *observed* values

Property text (properties.jsonl C12): "any two nodes that report a decided value for the same
instance (single-decree Paxos, Flexible Paxos with intersecting quorums, each slot of Multi-Paxos)
report the same value, that value was proposed by some client, a reported decision never changes,
and a proposer's future resolves with the decided value. … a leader-election component never
reports two different leaders for the same term, and distributed-lock fencing tokens strictly
increase across grants."

Everything here reads only what a user of the public API sees: `is_decided` / `decided_value`
after every delivered event, the values handed to `propose()` / `submit()`, resolved futures,
`(current_leader, current_term)` of election nodes, applied log entries, and lock grants.
The same predicates are used by the theorems (on model runs) and by the driver's judge modes (on
implementation transcripts).
-/
namespace HappyModel.C12.Spec

/-- one consensus instance as observed: values proposed, the per-node report history in time order
    (`none` = "not decided"), and resolved futures -/
structure Inst where
  proposed : List Nat
  reports : List (Nat × Option Nat)        -- (node, decided value after a step), in time order
  futs : List (Nat × Nat)                  -- (future id, value it resolved with)

/-- all reported decisions -/
def Inst.decisions (o : Inst) : List Nat := o.reports.filterMap (·.2)

def allEq : List Nat → Bool
  | [] => true
  | x :: xs => xs.all (· == x)

/-- any two reports of a decided value carry the same value -/
def agreement (o : Inst) : Bool := allEq o.decisions

/-- every reported decision was handed to propose() by some client -/
def validity (o : Inst) : Bool := o.decisions.all (o.proposed.contains ·)

/-- per node: once a value is reported, every later report of that node is the same value -/
def stableFrom : Option Nat → List (Option Nat) → Bool
  | _, [] => true
  | none, x :: xs => stableFrom x xs
  | some v, x :: xs => x == some v && stableFrom (some v) xs

def stability (o : Inst) : Bool :=
  let nodes := (o.reports.map (·.1)).eraseDups
  nodes.all fun n => stableFrom none ((o.reports.filter (·.1 == n)).map (·.2))

/-- a resolved future carries a value that some node reports as decided and no node contradicts -/
def futures (o : Inst) : Bool :=
  o.futs.all fun f => o.decisions.contains f.2 && o.decisions.all (· == f.2)

/-- first violated clause, as a signature -/
def judgeInst (pfx : String) (o : Inst) : Option String :=
  if !stability o then some (pfx ++ "/stability/decision-changed")
  else if !agreement o then some (pfx ++ "/agreement/two-values")
  else if !validity o then some (pfx ++ "/validity/unproposed-value")
  else if !futures o then some (pfx ++ "/future/resolved-with-other-value")
  else none

/-! ## Distributed lock: fencing tokens strictly increase across grants -/

/-- an observed grant: (lock, holder, token) -/
abbrev Grant := Nat × Nat × Nat

/-- A grant is *fresh* (token above every token seen so far) or a re-entrant repeat of the latest
    grant of the same lock to the same holder. `seen` = grants so far, newest first. -/
def grantOk (seen : List Grant) (g : Grant) : Bool :=
  seen.all (fun h => h.2.2 < g.2.2) ||
    (match seen.find? (fun h => h.1 == g.1) with
     | some h => h == g
     | none => false)

def fencing : List Grant → List Grant → Bool
  | _, [] => true
  | seen, g :: gs => grantOk seen g && fencing (g :: seen) gs

/-- tokens of the *distinct* grants, in grant order -/
def freshTokens : List Grant → List Grant → List Nat
  | _, [] => []
  | seen, g :: gs => if seen.contains g then freshTokens seen gs else g.2.2 :: freshTokens (g :: seen) gs

def judgeLock (gs : List Grant) : Option String :=
  if fencing [] gs then none else some "lock/fencing/token-not-increasing"

/-! ## Leader election: one leader per term -/

/-- observed reports `(node, term, leader)` with `leader` = a node index -/
def oneLeaderPerTerm (rs : List (Nat × Nat × Nat)) : Bool :=
  rs.all fun a => rs.all fun b => a.2.1 != b.2.1 || a.2.2 == b.2.2

def judgeElection (rs : List (Nat × Nat × Nat)) : Option String :=
  if oneLeaderPerTerm rs then none else some "election/one-leader-per-term/two-leaders"

end HappyModel.C12.Spec
